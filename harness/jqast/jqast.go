// Package jqast dumps a parsed *gojq.Query into the syntax of
// lean/Gojq/Model/Syntax.lean, either as an s-expression for protocol lines
// (read by lean/Gojq/Model/SyntaxWire.lean) or as a Lean term (Generated/BuiltinDefs.lean).
// The dumper only makes the Go struct's implicit case split explicit.
package jqast

import (
	"encoding/hex"
	"fmt"
	"strings"

	"github.com/itchyny/gojq"
)

// Node is a constructor application; Args elements are *Node, List, Opt, Name, Bytes or Atom.
type Node struct {
	Ctor string // Lean constructor, e.g. "Query.term"
	Sx   string // s-expression head, e.g. "term"
	Args []any
}
type List []any
type Opt struct{ V any } // nil V = none
type Name string         // Lean String (identifier-like)
type Bytes string        // Lean Bytes (arbitrary bytes)
type Atom struct{ Lean, Sx string }

func n(ctor, sx string, args ...any) *Node { return &Node{ctor, sx, args} }

var opNames = map[gojq.Operator][2]string{
	gojq.OpPipe: {"Op.pipe", "pipe"}, gojq.OpComma: {"Op.comma", "comma"}, gojq.OpAdd: {"Op.add", "add"}, gojq.OpSub: {"Op.sub", "sub"},
	gojq.OpMul: {"Op.mul", "mul"}, gojq.OpDiv: {"Op.div", "div"}, gojq.OpMod: {"Op.mod", "mod"}, gojq.OpEq: {"Op.eq", "eq"}, gojq.OpNe: {"Op.ne", "ne"},
	gojq.OpGt: {"Op.gt", "gt"}, gojq.OpLt: {"Op.lt", "lt"}, gojq.OpGe: {"Op.ge", "ge"}, gojq.OpLe: {"Op.le", "le"}, gojq.OpAnd: {"Op.and", "and"},
	gojq.OpOr: {"Op.or", "or"}, gojq.OpAlt: {"Op.alt", "alt"}, gojq.OpAssign: {"Op.assign", "assign"}, gojq.OpModify: {"Op.modify", "modify"},
	gojq.OpUpdateAdd: {"Op.updAdd", "updAdd"}, gojq.OpUpdateSub: {"Op.updSub", "updSub"}, gojq.OpUpdateMul: {"Op.updMul", "updMul"},
	gojq.OpUpdateDiv: {"Op.updDiv", "updDiv"}, gojq.OpUpdateMod: {"Op.updMod", "updMod"}, gojq.OpUpdateAlt: {"Op.updAlt", "updAlt"},
}

func op(o gojq.Operator) Atom {
	x, ok := opNames[o]
	if !ok {
		panic(fmt.Sprintf("jqast: unknown operator %d", o))
	}
	return Atom{x[0], x[1]}
}

// Query converts a query (module header and imports are not part of the syntax model).
func Query(q *gojq.Query) *Node {
	defs := List{}
	for _, fd := range q.FuncDefs {
		defs = append(defs, FuncDef(fd))
	}
	switch {
	case q.Term != nil:
		return n("Query.term", "term", defs, Term(q.Term))
	case q.Op == gojq.OpPipe && len(q.Patterns) > 0:
		ps := List{}
		for _, p := range q.Patterns {
			ps = append(ps, Pattern(p))
		}
		return n("Query.bind", "bind", defs, Query(q.Left), ps, Query(q.Right))
	case q.Left != nil && q.Right != nil:
		return n("Query.binop", "binop", defs, op(q.Op), Query(q.Left), Query(q.Right))
	}
	panic("jqast: empty query")
}

func FuncDef(fd *gojq.FuncDef) *Node {
	ps := List{}
	for _, a := range fd.Args {
		ps = append(ps, Name(a))
	}
	return n("FuncDef.mk", "def", Name(fd.Name), ps, Query(fd.Body))
}

func optQ(q *gojq.Query) Opt {
	if q == nil {
		return Opt{}
	}
	return Opt{Query(q)}
}

func Term(t *gojq.Term) *Node {
	sfx := List{}
	for _, s := range t.SuffixList {
		switch {
		case s.Index != nil:
			sfx = append(sfx, n("Suffix.index", "sindex", Index(s.Index)))
		case s.Iter:
			sfx = append(sfx, Atom{"Suffix.iter", "iter"})
		case s.Optional:
			sfx = append(sfx, Atom{"Suffix.optional", "opt"})
		default:
			panic("jqast: bad suffix")
		}
	}
	return n("Term.mk", "t", termCore(t), sfx)
}

func termCore(t *gojq.Term) any {
	switch t.Type {
	case gojq.TermTypeIdentity:
		return Atom{"TermCore.identity", "id"}
	case gojq.TermTypeRecurse:
		return Atom{"TermCore.recurse", "rec"}
	case gojq.TermTypeNull:
		return Atom{"TermCore.null", "null"}
	case gojq.TermTypeTrue:
		return Atom{"TermCore.true_", "true"}
	case gojq.TermTypeFalse:
		return Atom{"TermCore.false_", "false"}
	case gojq.TermTypeIndex:
		return n("TermCore.index", "index", Index(t.Index))
	case gojq.TermTypeFunc:
		args := List{}
		for _, a := range t.Func.Args {
			args = append(args, Query(a))
		}
		return n("TermCore.func", "func", Name(t.Func.Name), args)
	case gojq.TermTypeObject:
		kvs := List{}
		for _, kv := range t.Object.KeyVals {
			kvs = append(kvs, n("ObjKV.mk", "kv", objKey(kv.Key, kv.KeyString, kv.KeyQuery), optQ(kv.Val)))
		}
		return n("TermCore.object", "object", kvs)
	case gojq.TermTypeArray:
		return n("TermCore.array", "array", optQ(t.Array.Query))
	case gojq.TermTypeNumber:
		return n("TermCore.number", "number", Name(t.Number))
	case gojq.TermTypeUnary:
		return n("TermCore.unary", "unary", op(t.Unary.Op), Term(t.Unary.Term))
	case gojq.TermTypeFormat:
		if t.Str == nil {
			return n("TermCore.format", "format", Name(t.Format), Opt{})
		}
		return n("TermCore.format", "format", Name(t.Format), Opt{Str(t.Str)})
	case gojq.TermTypeString:
		return n("TermCore.str", "str", Str(t.Str))
	case gojq.TermTypeIf:
		elifs := List{}
		for _, e := range t.If.Elif {
			elifs = append(elifs, n("Prod.mk", "elif", Query(e.Cond), Query(e.Then)))
		}
		return n("TermCore.if_", "if", Query(t.If.Cond), Query(t.If.Then), elifs, optQ(t.If.Else))
	case gojq.TermTypeTry:
		return n("TermCore.try_", "try", Query(t.Try.Body), optQ(t.Try.Catch))
	case gojq.TermTypeReduce:
		r := t.Reduce
		return n("TermCore.reduce", "reduce", Query(r.Query), Pattern(r.Pattern), Query(r.Start), Query(r.Update))
	case gojq.TermTypeForeach:
		r := t.Foreach
		return n("TermCore.foreach", "foreach", Query(r.Query), Pattern(r.Pattern), Query(r.Start), Query(r.Update), optQ(r.Extract))
	case gojq.TermTypeLabel:
		return n("TermCore.label", "label", Name(t.Label.Ident), Query(t.Label.Body))
	case gojq.TermTypeBreak:
		return n("TermCore.break_", "break", Name(t.Break))
	case gojq.TermTypeQuery:
		return n("TermCore.query", "query", Query(t.Query))
	}
	panic(fmt.Sprintf("jqast: unknown term type %v", t.Type))
}

func Index(i *gojq.Index) *Node {
	switch {
	case i.Name != "":
		return n("Index.name", "name", Bytes(i.Name))
	case i.Str != nil:
		return n("Index.str", "istr", Str(i.Str))
	case i.IsSlice:
		return n("Index.slice", "slice", optQ(i.Start), optQ(i.End))
	default:
		return n("Index.at", "at", Query(i.Start))
	}
}

func Str(s *gojq.String) *Node {
	if s.Queries == nil {
		return n("Str.lit", "lit", Bytes(s.Str))
	}
	parts := List{}
	for _, q := range s.Queries {
		parts = append(parts, Query(q))
	}
	return n("Str.interp", "interp", parts)
}

func objKey(key string, ks *gojq.String, kq *gojq.Query) *Node {
	switch {
	case key != "" && key[0] == '$':
		return n("ObjKey.var", "kvar", Name(key))
	case key != "":
		return n("ObjKey.name", "kname", Bytes(key))
	case ks != nil:
		return n("ObjKey.str", "kstr", Str(ks))
	case kq != nil:
		return n("ObjKey.query", "kquery", Query(kq))
	}
	panic("jqast: bad object key")
}

func Pattern(p *gojq.Pattern) *Node {
	switch {
	case p.Name != "":
		return n("Pattern.var", "pvar", Name(p.Name))
	case len(p.Array) > 0:
		ps := List{}
		for _, x := range p.Array {
			ps = append(ps, Pattern(x))
		}
		return n("Pattern.array", "parr", ps)
	case len(p.Object) > 0:
		kvs := List{}
		for _, kv := range p.Object {
			var val Opt
			if kv.Val != nil {
				val = Opt{Pattern(kv.Val)}
			}
			kvs = append(kvs, n("PatKV.mk", "pkv", objKey(kv.Key, kv.KeyString, kv.KeyQuery), val))
		}
		return n("Pattern.object", "pobj", kvs)
	}
	panic("jqast: bad pattern")
}

// Sexp renders for the line protocol.
func Sexp(x any) string {
	var sb strings.Builder
	sexp(&sb, x)
	return sb.String()
}

func sexp(sb *strings.Builder, x any) {
	switch x := x.(type) {
	case *Node:
		sb.WriteString("( " + x.Sx)
		for _, a := range x.Args {
			sb.WriteByte(' ')
			sexp(sb, a)
		}
		sb.WriteString(" )")
	case List:
		sb.WriteString("[")
		for _, a := range x {
			sb.WriteByte(' ')
			sexp(sb, a)
		}
		sb.WriteString(" ]")
	case Opt:
		if x.V == nil {
			sb.WriteString("none")
		} else {
			sb.WriteString("( some ")
			sexp(sb, x.V)
			sb.WriteString(" )")
		}
	case Name:
		sb.WriteString("x" + hex.EncodeToString([]byte(x)))
	case Bytes:
		sb.WriteString("x" + hex.EncodeToString([]byte(x)))
	case Atom:
		sb.WriteString(x.Sx)
	default:
		panic(fmt.Sprintf("jqast: sexp %T", x))
	}
}

// Lean renders a Lean term (constructors fully qualified below namespace Gojq).
func Lean(x any) string {
	var sb strings.Builder
	lean(&sb, x)
	return sb.String()
}

func lean(sb *strings.Builder, x any) {
	switch x := x.(type) {
	case *Node:
		if x.Ctor == "Prod.mk" {
			sb.WriteString("(")
			lean(sb, x.Args[0])
			sb.WriteString(", ")
			lean(sb, x.Args[1])
			sb.WriteString(")")
			return
		}
		sb.WriteString("(" + x.Ctor)
		for _, a := range x.Args {
			sb.WriteByte(' ')
			lean(sb, a)
		}
		sb.WriteString(")")
	case List:
		sb.WriteString("[")
		for i, a := range x {
			if i > 0 {
				sb.WriteString(", ")
			}
			lean(sb, a)
		}
		sb.WriteString("]")
	case Opt:
		if x.V == nil {
			sb.WriteString("none")
		} else {
			sb.WriteString("(some ")
			lean(sb, x.V)
			sb.WriteString(")")
		}
	case Name:
		sb.WriteString(leanString(string(x)))
	case Bytes:
		sb.WriteString("(B " + leanString(string(x)) + ")")
	case Atom:
		sb.WriteString(x.Lean)
	default:
		panic(fmt.Sprintf("jqast: lean %T", x))
	}
}

// leanString renders a Lean string literal; every non-printable or non-ASCII byte is escaped
// with \xHH, which Lean reads as the code point HH — callers must only pass valid ASCII for
// Bytes that are to be read back bytewise (builtin.jq is ASCII; verified by the generator).
func leanString(s string) string {
	var sb strings.Builder
	sb.WriteByte('"')
	for i := 0; i < len(s); i++ {
		c := s[i]
		switch {
		case c == '"':
			sb.WriteString("\\\"")
		case c == '\\':
			sb.WriteString("\\\\")
		case c == '\n':
			sb.WriteString("\\n")
		case c == '\t':
			sb.WriteString("\\t")
		case c < 0x20 || c >= 0x7f:
			fmt.Fprintf(&sb, "\\x%02x", c)
		default:
			sb.WriteByte(c)
		}
	}
	sb.WriteByte('"')
	return sb.String()
}

// IsASCII reports whether every byte of the dump's string payloads is ASCII.
func IsASCII(s string) bool {
	for i := 0; i < len(s); i++ {
		if s[i] >= 0x80 {
			return false
		}
	}
	return true
}

package c02oracle

import (
	"fmt"
	"math"
	"math/big"
	"sort"
	"strconv"
	"strings"
)

const (
	tooDeep    = "TOO-DEEP"
	tooBig     = "TOO-BIG"
	canonDepth = 200
	canonNodes = 200000
)

type canonState struct {
	sb    strings.Builder
	nodes int
	fail  string
}

// canonG renders a value as compact JSON with sorted keys (what `gojq -c`
// prints, up to number formatting). It is depth- and size-guarded: a value
// nested deeper than 200 (in particular a cyclic one) renders as "TOO-DEEP",
// one with more than 200000 nodes (a DAG that is exponential as a tree) as
// "TOO-BIG", so comparing never overflows the stack.
func canonG(v any) string {
	st := &canonState{}
	st.enc(v, 0)
	if st.fail != "" {
		return st.fail
	}
	return st.sb.String()
}

func (st *canonState) enc(v any, depth int) {
	if st.fail != "" {
		return
	}
	if depth > canonDepth {
		st.fail = tooDeep
		return
	}
	st.nodes++
	if st.nodes > canonNodes {
		st.fail = tooBig
		return
	}
	switch v := v.(type) {
	case nil:
		st.sb.WriteString("null")
	case bool:
		if v {
			st.sb.WriteString("true")
		} else {
			st.sb.WriteString("false")
		}
	case int:
		st.sb.WriteString(strconv.Itoa(v))
	case *big.Int:
		st.sb.WriteString(v.String())
	case float64:
		switch {
		case math.IsNaN(v):
			st.sb.WriteString("NaN")
		case math.IsInf(v, 0):
			if v > 0 {
				st.sb.WriteString("Infinity")
			} else {
				st.sb.WriteString("-Infinity")
			}
		case v == math.Trunc(v) && math.Abs(v) < 1e15:
			st.sb.WriteString(strconv.FormatInt(int64(v), 10))
		default:
			st.sb.WriteString(strconv.FormatFloat(v, 'g', 17, 64))
		}
	case string:
		st.sb.WriteString(strconv.Quote(v))
	case []any:
		st.sb.WriteByte('[')
		for i, x := range v {
			if i > 0 {
				st.sb.WriteByte(',')
			}
			st.enc(x, depth+1)
			if st.fail != "" {
				return
			}
		}
		st.sb.WriteByte(']')
	case map[string]any:
		keys := make([]string, 0, len(v))
		for k := range v {
			keys = append(keys, k)
		}
		sort.Strings(keys)
		st.sb.WriteByte('{')
		for i, k := range keys {
			if i > 0 {
				st.sb.WriteByte(',')
			}
			st.sb.WriteString(strconv.Quote(k))
			st.sb.WriteByte(':')
			st.enc(v[k], depth+1)
			if st.fail != "" {
				return
			}
		}
		st.sb.WriteByte('}')
	default:
		// not a JSON value (e.g. an internal placeholder that escaped): never equal to a real value
		st.sb.WriteString(strings.ReplaceAll(fmt.Sprintf("?%T", v), " ", ""))
	}
}

// seq is the canonical outcome of one run: the outputs, then either the end
// or a terminal error.
type seq struct {
	outs    []string
	err     bool
	errText string
	skip    string // non-empty: not comparable (budget, too big, unsupported)
}

func (s seq) String() string {
	var parts []string
	parts = append(parts, s.outs...)
	if s.err {
		parts = append(parts, "ERROR("+s.errText+")")
	}
	if len(parts) == 0 {
		return "(no output)"
	}
	r := strings.Join(parts, " ; ")
	if len(r) > 700 {
		r = r[:700] + "…"
	}
	return r
}

// sameSeq compares outputs and error presence; the error text too when strict.
func sameSeq(a, b seq, strictErr bool) bool {
	if len(a.outs) != len(b.outs) || a.err != b.err {
		return false
	}
	for i := range a.outs {
		if a.outs[i] != b.outs[i] {
			return false
		}
	}
	if strictErr && a.err && a.errText != b.errText {
		return false
	}
	return true
}

func (s seq) hasToo() bool {
	for _, o := range s.outs {
		if o == tooBig || o == tooDeep {
			return true
		}
	}
	return false
}

package c02oracle

import (
	"strconv"
	"strings"

	"verifharness/common"
)

// ---- inputs --------------------------------------------------------------------------

var keyAlphabet = []string{"a", "b", "c", "x"}

func fixedInputs() []any {
	return []any{
		[]any{0, 1, 2, 3},
		[]any{0, 1},
		[]any{[]any{nil}},
		map[string]any{"a": map[string]any{"b": nil}},
		[]any{[]any{0, 1}, []any{2, 3}},
		map[string]any{"a": []any{map[string]any{"b": 1}, map[string]any{"b": 2}}},
		nil,
	}
}

func genScalar(r *common.Rand) any {
	switch r.Intn(12) {
	case 0, 1, 2:
		return nil
	case 3:
		return "s"
	case 4:
		return ""
	case 5:
		if r.Bool() {
			return false
		}
		return true
	default:
		return r.Intn(10)
	}
}

func genValue(r *common.Rand, depth int) any {
	if depth >= 4 {
		return genScalar(r)
	}
	k := r.Intn(10)
	if depth == 0 {
		// containers at the top (a scalar input makes almost every path an error)
		k = 4 + r.Intn(6)
		if r.Chance(1, 12) {
			k = 0
		}
	}
	switch {
	case k <= 3:
		return genScalar(r)
	case k <= 6:
		n := r.Intn(6) // arrays of length 0..5
		if depth >= 2 && n > 4 {
			n = 4
		}
		xs := make([]any, n)
		for i := range xs {
			xs[i] = genValue(r, depth+1)
		}
		return xs
	default:
		n := r.Intn(5)
		m := make(map[string]any, n)
		for i := 0; i < n; i++ {
			m[common.Pick(r, keyAlphabet)] = genValue(r, depth+1)
		}
		return m
	}
}

func genInput(r *common.Rand) any {
	if r.Chance(3, 10) {
		return common.DeepCopy(common.Pick(r, fixedInputs()))
	}
	return genValue(r, 0)
}

// mutateInput returns a variant of v of similar shape.
func mutateInput(r *common.Rand, v any) any {
	switch c := v.(type) {
	case []any:
		w := append([]any{}, c...)
		switch r.Intn(5) {
		case 0:
			return append(w, genValue(r, 3))
		case 1:
			if len(w) > 0 {
				return w[:len(w)-1]
			}
			return w
		default:
			if len(w) == 0 {
				return w
			}
			i := r.Intn(len(w))
			if r.Chance(1, 3) {
				w[i] = genValue(r, 2)
			} else {
				w[i] = mutateInput(r, w[i])
			}
			return w
		}
	case map[string]any:
		w := make(map[string]any, len(c))
		for k, x := range c {
			w[k] = x
		}
		ks := sortedKeys(c)
		switch {
		case len(ks) == 0 || r.Chance(1, 5):
			w[common.Pick(r, keyAlphabet)] = genValue(r, 3)
		case r.Chance(1, 6):
			delete(w, common.Pick(r, ks))
		default:
			k := common.Pick(r, ks)
			if r.Chance(1, 3) {
				w[k] = genValue(r, 2)
			} else {
				w[k] = mutateInput(r, w[k])
			}
		}
		return w
	}
	if r.Chance(1, 3) {
		return genValue(r, 3)
	}
	return genScalar(r)
}

// ---- simple paths as step lists ------------------------------------------------------

const (
	sKey = iota
	sIdx
	sSlice
	sIter
)

type step struct {
	kind       int
	key        string
	i, j       int
	hasI, hasJ bool
}

func keyStep(k string) step { return step{kind: sKey, key: k} }
func idxStep(i int) step    { return step{kind: sIdx, i: i} }
func sliceStep(i, j int, hasI, hasJ bool) step {
	return step{kind: sSlice, i: i, j: j, hasI: hasI, hasJ: hasJ}
}

func renderSteps(ss []step) string {
	if len(ss) == 0 {
		return "."
	}
	var sb strings.Builder
	for n, s := range ss {
		switch s.kind {
		case sKey:
			sb.WriteString("." + s.key)
		default:
			if n == 0 {
				sb.WriteString(".")
			}
			sb.WriteString("[")
			switch s.kind {
			case sIdx:
				sb.WriteString(strconv.Itoa(s.i))
			case sSlice:
				if s.hasI {
					sb.WriteString(strconv.Itoa(s.i))
				}
				sb.WriteString(":")
				if s.hasJ {
					sb.WriteString(strconv.Itoa(s.j))
				}
			}
			sb.WriteString("]")
		}
	}
	return sb.String()
}

// stepsJSON renders the steps as a literal path (nil if it contains an iterator).
func stepsJSON(ss []step) []any {
	out := make([]any, 0, len(ss))
	for _, s := range ss {
		switch s.kind {
		case sKey:
			out = append(out, s.key)
		case sIdx:
			out = append(out, s.i)
		case sSlice:
			m := map[string]any{"start": nil, "end": nil}
			if s.hasI {
				m["start"] = s.i
			}
			if s.hasJ {
				m["end"] = s.j
			}
			out = append(out, m)
		default:
			return nil
		}
	}
	return out
}

func cloneSteps(ss []step) []step { return append([]step{}, ss...) }

func genSliceStep(r *common.Rand, n int) step {
	// also open ends, negative, empty and ranges beyond the length
	i, j := r.Range(-n-1, n+2), r.Range(-n-1, n+2)
	if r.Chance(1, 2) {
		// ordered, in range
		i = r.Range(0, n)
		j = r.Range(i, n+1)
	}
	hasI, hasJ := !r.Chance(1, 4), !r.Chance(1, 4)
	if !hasI && !hasJ { // `.[:]` is not jq syntax
		if r.Bool() {
			hasI = true
		} else {
			hasJ = true
		}
	}
	return sliceStep(i, j, hasI, hasJ)
}

func applyStep(v any, s step) any {
	switch s.kind {
	case sKey:
		if m, ok := v.(map[string]any); ok {
			return m[s.key]
		}
	case sIdx:
		if xs, ok := v.([]any); ok {
			i := s.i
			if i < 0 {
				i += len(xs)
			}
			if 0 <= i && i < len(xs) {
				return xs[i]
			}
		}
	case sSlice:
		if xs, ok := v.([]any); ok {
			m := map[string]any{"start": nil, "end": nil}
			if s.hasI {
				m["start"] = s.i
			}
			if s.hasJ {
				m["end"] = s.j
			}
			lo, hi, err := sliceBounds(m, len(xs))
			if err == nil {
				return append([]any{}, xs[lo:hi]...)
			}
		}
	}
	return nil
}

// genSteps walks v and produces a path of up to n steps (also through null,
// beyond array ends, occasionally through a scalar).
func genSteps(r *common.Rand, v any, n int, allowIter bool) []step {
	var ss []step
	cur := v
	for len(ss) < n {
		var s step
		switch c := cur.(type) {
		case map[string]any:
			ks := sortedKeys(c)
			if len(ks) > 0 && r.Chance(4, 5) {
				s = keyStep(common.Pick(r, ks))
			} else {
				s = keyStep(common.Pick(r, keyAlphabet))
			}
		case []any:
			switch k := r.Intn(20); {
			case k < 11:
				s = idxStep(r.Range(-2, len(c)+2))
				if r.Chance(2, 3) && len(c) > 0 {
					s = idxStep(r.Intn(len(c)))
				}
			case k < 17 || !allowIter:
				s = genSliceStep(r, len(c))
			default:
				s = step{kind: sIter}
			}
		case nil:
			switch k := r.Intn(10); {
			case k < 5:
				s = keyStep(common.Pick(r, keyAlphabet))
			case k < 8:
				s = idxStep(r.Range(-1, 2))
			default:
				s = genSliceStep(r, 1)
			}
		default:
			if len(ss) > 0 && !r.Chance(1, 12) {
				return ss
			}
			if r.Bool() {
				s = keyStep(common.Pick(r, keyAlphabet))
			} else {
				s = idxStep(r.Intn(2))
			}
		}
		ss = append(ss, s)
		if s.kind == sIter {
			var kids []any
			switch c := cur.(type) {
			case []any:
				kids = c
			}
			if len(kids) == 0 {
				return ss
			}
			cur = common.Pick(r, kids)
		} else {
			cur = applyStep(cur, s)
		}
		if r.Chance(1, 3) {
			break
		}
	}
	return ss
}

type arrayLoc struct {
	prefix []step
	arr    []any
}

// arrayLocs lists every array inside v with the (iterator-free) path to it.
func arrayLocs(v any) []arrayLoc {
	var out []arrayLoc
	var walk func(x any, p []step)
	walk = func(x any, p []step) {
		switch c := x.(type) {
		case []any:
			out = append(out, arrayLoc{cloneSteps(p), c})
			for i, y := range c {
				walk(y, append(cloneSteps(p), idxStep(i)))
			}
		case map[string]any:
			for _, k := range sortedKeys(c) {
				walk(c[k], append(cloneSteps(p), keyStep(k)))
			}
		}
	}
	walk(v, nil)
	return out
}

// ---- bodies, right-hand sides --------------------------------------------------------

type body struct{ kind, text string }

var bodies = []body{
	{"copy", "."},
	{"dup", "[., .]"}, {"dup", "[., .]"}, {"dup", "[., .]"},
	{"wrap", "[.]"}, {"wrap", "[.]"},
	{"embed", "{x: .}"}, {"embed", "{x: .}"},
	{"embed2", "{x: ., y: .}"}, {"embed2", "{x: ., y: .}"},
	{"dupdeep", "[., [.]]"},
	{"embeddup", "{x: [., .]}"},
	{"const", "7"}, {"const", "null"}, {"const", `"s"`}, {"const", "[]"}, {"const", "{}"},
	{"empty", "empty"}, {"empty", "empty"},
	{"multi", "(1, 2)"}, {"multi", "(., 3)"},
	{"recurse", ".."},
	{"index0", ".[0]?"},
	{"inc", ". + 1"}, {"inc-try", "(. + 1)?"},
	{"cond-empty", "if . == null then 1 else empty end"},
	{"select-nonnull", "select(. != null)"},
	{"drop-numbers", `if type == "number" then empty else . end`},
	{"length", "length"}, {"tostring", "tostring"},
	{"tail", `if type == "array" then .[1:] else . end`},
	{"nested-update", "(.[]? |= [.])"},
	{"nested-del", "del(.[0]?)"},
}

var dupBodies = []body{
	{"dup", "[., .]"}, {"wrap", "[.]"}, {"embed", "{x: .}"}, {"embed2", "{x: ., y: .}"}, {"copy", "."},
	{"dupdeep", "[., [.]]"}, {"embeddup", "{x: [., .]}"},
}

type rhs struct{ kind, text string }

var rhss = []rhs{
	{"x:1", "1"}, {"x:1", "1"}, {"x:dot", "."}, {"x:dot", "."}, {"x:.a", ".a"}, {"x:multi", "(1,2)"}, {"x:wrap", "[.]"},
	{"x:empty", "empty"}, {"x:const", "null"}, {"x:.[0]", ".[0]"}, {"x:const", `"s"`}, {"x:const", "[1]"}, {"x:const", "{a: 1}"},
	{"x:.a", ".a?"}, {"x:.[0]", ".[0]?"},
}

var arithOps = []string{"+", "-", "*", "/", "%", "//"}

// wrapped: s is one parenthesised term "( ... )".
func wrapped(s string) bool {
	if !strings.HasPrefix(s, "(") || !strings.HasSuffix(s, ")") {
		return false
	}
	depth := 0
	inStr := false
	for i := 0; i < len(s); i++ {
		ch := s[i]
		if inStr {
			if ch == '\\' {
				i++
			} else if ch == '"' {
				inStr = false
			}
			continue
		}
		switch ch {
		case '"':
			inStr = true
		case '(':
			depth++
		case ')':
			depth--
			if depth == 0 && i != len(s)-1 {
				return false
			}
		}
	}
	return true
}

func paren(s string) string {
	if (strings.ContainsAny(s, " |,") || strings.Contains(s, "//")) && !wrapped(s) {
		return "(" + s + ")"
	}
	return s
}

func plist(paths []string) string {
	if len(paths) == 1 {
		return paren(paths[0])
	}
	return "(" + strings.Join(paths, ",") + ")"
}

// ---- path lists ----------------------------------------------------------------------

func shuffle[T any](r *common.Rand, xs []T) {
	for i := len(xs) - 1; i > 0; i-- {
		j := r.Intn(i + 1)
		xs[i], xs[j] = xs[j], xs[i]
	}
}

// complexPath wraps simple paths into the other forms of the path grammar.
func complexPath(r *common.Rand, v any) string {
	p := renderSteps(genSteps(r, v, 3, true))
	q := renderSteps(genSteps(r, v, 3, true))
	switch r.Intn(20) {
	case 0:
		return ".."
	case 1:
		return ".[]?"
	case 2:
		return "empty"
	case 3:
		return "first(" + p + "," + q + ")"
	case 4:
		return p + " | select(. != null)"
	case 5:
		return `.. | select(type == "number")`
	case 6:
		return `if type == "object" then ` + p + " else " + q + " end"
	case 7:
		return p + " // " + q
	case 8:
		if j := stepsJSON(genSteps(r, v, 3, false)); j != nil {
			return "getpath(" + canonG(j) + ")"
		}
		return p
	case 9:
		return p + " | .."
	case 10:
		return p + "?"
	case 11:
		return p + " | .[]?"
	case 12:
		return "limit(2; " + p + " | .[]?)"
	case 13:
		return ".[] | select(. != null)"
	case 14:
		return `.. | select(type == "array") | .[0:1]`
	case 15:
		return ". as $z | " + p
	case 16:
		return "first(.., " + p + ")"
	case 17:
		return `.[]? | select(type == "object") | .a`
	case 18:
		return "(" + p + "," + q + ") | select(. == null)"
	default:
		return ".[] | .[]?"
	}
}

// genPathList generates 1–4 deliberately related paths in a random order.
func genPathList(r *common.Rand, v any) (paths []string, rel string) {
	locs := arrayLocs(v)
	k := r.Intn(24)
	switch {
	case k < 3:
		rel = "single"
		paths = []string{renderSteps(genSteps(r, v, 4, true))}
	case k < 5:
		rel = "single-complex"
		paths = []string{complexPath(r, v)}
	case k < 7:
		rel = "independent"
		for n := r.Range(2, 4); len(paths) < n; {
			paths = append(paths, renderSteps(genSteps(r, v, 3, true)))
		}
	case k < 9:
		rel = "equal"
		p := renderSteps(genSteps(r, v, 3, true))
		paths = []string{p, p}
		if r.Chance(1, 3) {
			paths = append(paths, renderSteps(genSteps(r, v, 3, true)))
		}
	case k < 12:
		rel = "ancestor-descendant"
		ss := genSteps(r, v, 4, true)
		for tries := 0; len(ss) < 2 && tries < 4; tries++ {
			ss = genSteps(r, v, 4, true)
		}
		paths = []string{renderSteps(ss)}
		for cut := len(ss) - 1; cut >= 0 && len(paths) < 3; cut-- {
			if cut == 0 && !r.Chance(1, 4) {
				break
			}
			if r.Chance(2, 3) {
				paths = append(paths, renderSteps(ss[:cut]))
			}
		}
		if len(paths) == 1 && len(ss) > 1 {
			paths = append(paths, renderSteps(ss[:len(ss)-1]))
		}
	case k < 16:
		// valid in the ORIGINAL input only: p, a prefix of p, and p continued /
		// re-routed through what the body produces
		rel = "original-only"
		ss := genSteps(r, v, 3, false)
		for tries := 0; len(ss) < 2 && tries < 4; tries++ {
			ss = genSteps(r, v, 3, false)
		}
		paths = []string{renderSteps(ss)}
		if len(ss) > 1 {
			paths = append(paths, renderSteps(ss[:len(ss)-1]))
		}
		extra := []step{idxStep(0), idxStep(1), keyStep("x"), keyStep("y"), idxStep(-1), sliceStep(0, 1, true, true), sliceStep(1, 0, true, false)}
		switch r.Intn(3) {
		case 0: // p + extra  (.[0][0][0])
			paths = append(paths, renderSteps(append(cloneSteps(ss), common.Pick(r, extra))))
		case 1: // prefix + extra + last  (.a.x.b)
			cut := len(ss) - 1
			t := append(cloneSteps(ss[:cut]), common.Pick(r, extra))
			t = append(t, ss[cut:]...)
			paths = append(paths, renderSteps(t))
		default:
			paths = append(paths, renderSteps(append(append(cloneSteps(ss), common.Pick(r, extra)), common.Pick(r, extra))))
		}
		if r.Chance(1, 4) {
			paths = append(paths, renderSteps(append(cloneSteps(ss), common.Pick(r, extra))))
		}
	case k < 19 && len(locs) > 0:
		// an index and a slice followed by an index inside / at the end of / beyond the slice
		rel = "slice-index"
		loc := common.Pick(r, locs)
		n := len(loc.arr)
		a := r.Range(0, n)
		b := r.Range(a, n+1)
		w := b
		if w > n {
			w = n
		}
		w -= a
		j := r.Range(0, w+2)
		sl := sliceStep(a, b, !(a == 0 && r.Bool()), !(b >= n && r.Bool()))
		if !sl.hasI && !sl.hasJ { // `.[:]` is not jq syntax
			sl.hasI = true
		}
		paths = []string{
			renderSteps(append(cloneSteps(loc.prefix), idxStep(r.Range(0, n+1)))),
			renderSteps(append(cloneSteps(loc.prefix), sl, idxStep(j))),
		}
		if r.Chance(1, 3) {
			paths = append(paths, renderSteps(append(cloneSteps(loc.prefix), idxStep(r.Range(-1, n)))))
		}
		if r.Chance(1, 4) {
			paths = append(paths, renderSteps(append(cloneSteps(loc.prefix), sl)))
		}
	case k < 22 && len(locs) > 0:
		loc := common.Pick(r, locs)
		n := len(loc.arr)
		s1 := genSliceStep(r, n)
		s2 := s1
		rel = "same-slice"
		if r.Bool() {
			rel = "overlapping-slices"
			s2 = genSliceStep(r, n)
		}
		paths = []string{
			renderSteps(append(cloneSteps(loc.prefix), s1)),
			renderSteps(append(cloneSteps(loc.prefix), s2)),
		}
		if r.Chance(1, 3) {
			paths = append(paths, renderSteps(append(cloneSteps(loc.prefix), s1, genSliceStep(r, n))))
		}
		if r.Chance(1, 4) {
			paths = append(paths, renderSteps(append(cloneSteps(loc.prefix), idxStep(r.Range(0, n)))))
		}
	default:
		rel = "mixed-complex"
		for n := r.Range(2, 3); len(paths) < n; {
			if r.Bool() {
				paths = append(paths, complexPath(r, v))
			} else {
				paths = append(paths, renderSteps(genSteps(r, v, 3, true)))
			}
		}
	}
	if len(paths) > 4 {
		paths = paths[:4]
	}
	shuffle(r, paths)
	for i, p := range paths {
		paths[i] = paren(p)
	}
	return
}

// ---- case constructors ---------------------------------------------------------------

func wrapProg(p string, wrap bool) string {
	if wrap {
		return "[(" + p + "), .]"
	}
	return p
}

func mkModify(P, F string, in any, bk, rel, fam string, wrap bool) *tcase {
	return &tcase{Op: "modify", Prog: wrapProg(P+" |= "+F, wrap), Expl: mdef + wrapProg("_m("+P+"; "+F+")", wrap),
		Input: in, Body: bk, Rel: rel, Fam: fam, Ref: "modify", P: P, F: F, Wrap: wrap}
}

func mkAssign(P string, x rhs, in any, rel, fam string, wrap bool) *tcase {
	return &tcase{Op: "assign", Prog: wrapProg(P+" = "+x.text, wrap),
		Expl:  wrapProg("("+x.text+") as $v | reduce path("+P+") as $q (.; setpath($q; $v))", wrap),
		Input: in, Body: "-", Rhs: x.kind, Rel: rel, Fam: fam, Ref: "assign", P: P, X: x.text, Wrap: wrap}
}

func mkArith(P, aop string, x rhs, in any, rel, fam string, wrap bool) *tcase {
	return &tcase{Op: "arith", Prog: wrapProg(P+" "+aop+"= "+x.text, wrap),
		Expl:  mdef + wrapProg("("+x.text+") as $v | _m("+P+"; . "+aop+" $v)", wrap),
		Input: in, Body: "arith " + aop + "=", Rhs: x.kind, Rel: rel, Fam: fam, Ref: "arith", P: P, X: x.text, AOp: aop, Wrap: wrap}
}

func mkDel(P string, in any, rel, fam string, wrap bool) *tcase {
	return &tcase{Op: "del", Prog: wrapProg("del("+P+")", wrap), Expl: wrapProg("delpaths([path("+P+")])", wrap),
		Input: in, Body: "-", Rel: rel, Fam: fam, Ref: "del", P: P, Wrap: wrap}
}

func mkDelpaths(ps []any, in any, rel, fam string, wrap bool) *tcase {
	return &tcase{Op: "delpaths", Prog: wrapProg("delpaths("+canonG(ps)+")", wrap),
		Input: in, Body: "-", Rel: rel, Fam: fam, Ref: "delpaths", Lit: ps, Wrap: wrap}
}

func mkSetpath(q []any, val any, in any, fam string, wrap bool) *tcase {
	return &tcase{Op: "setpath", Prog: wrapProg("setpath("+canonG(q)+"; "+canonG(val)+")", wrap),
		Input: in, Body: "-", Rel: "literal-path", Fam: fam, Ref: "setpath", Lit: q, Val: val, Wrap: wrap}
}

func mkGetpath(q []any, in any, fam string) *tcase {
	return &tcase{Op: "getpath", Prog: "getpath(" + canonG(q) + ")",
		Input: in, Body: "-", Rel: "literal-path", Fam: fam, Ref: "getpath", Lit: q}
}

func mkPathget(P string, in any, rel, fam string) *tcase {
	return &tcase{Op: "getpath", Prog: "[" + P + "]", Expl: "[path(" + P + ") as $q | getpath($q)]",
		Input: in, Body: "-", Rel: rel, Fam: fam, Ref: "pathget", P: P}
}

func mkMapValues(b body, in any, fam string, wrap bool) *tcase {
	F := paren(b.text)
	return &tcase{Op: "map_values", Prog: wrapProg("map_values("+F+")", wrap), Expl: mdef + wrapProg("_m(.[]; "+F+")", wrap),
		Input: in, Body: b.kind, Rel: "iterate", Fam: fam, Ref: "map_values", F: F, Wrap: wrap}
}

func mkPick(P string, in any, rel, fam string) *tcase {
	return &tcase{Op: "pick", Prog: "pick(" + P + ")",
		Expl:  ". as $v | reduce path(" + P + ") as $p (null; setpath($p; $v | getpath($p)))",
		Input: in, Body: "-", Rel: rel, Fam: fam, Ref: "pick", P: P}
}

const tostreamDef = `def _ts: path(def r: (.[]? | r), .; r) as $p | getpath($p) | reduce path(.[]?) as $q ([$p, .]; [$p + $q]); _ts`

var entryBodies = []body{
	{"entry-copy", "."}, {"entry-empty", "empty"}, {"entry-select", "select(.value != null)"},
	{"entry-value-update", ".value |= [.]"}, {"entry-value-assign", ".value = 1"},
	{"entry-key-update", `.key |= tostring + "x"`}, {"entry-multi", "(., .)"},
	{"entry-swap", "{key: (.value | tostring), value: .key}"}, {"entry-del", "del(.value)"},
	{"entry-drop-numbers", `select(.value | type != "number")`},
}

// ---- random groups -------------------------------------------------------------------

// genLiteralPath: a literal path for setpath/getpath (valid, through null,
// beyond the end, negative, slices; sometimes through a scalar or malformed).
func genLiteralPath(r *common.Rand, v any) []any {
	ss := genSteps(r, v, 4, false)
	q := stepsJSON(ss)
	if r.Chance(1, 6) {
		extra := []any{"a", 0, -1, 5, map[string]any{"start": 0, "end": 1}, map[string]any{"start": nil, "end": nil},
			map[string]any{"start": 1, "end": nil}, "x", 2, true, nil, map[string]any{"start": 1}}
		q = append(q, common.Pick(r, extra))
	}
	if r.Chance(1, 12) && len(q) > 0 {
		q = q[:len(q)-1]
	}
	return q
}

// validDelPaths: paths that denote positions (or nothing) in v without walking
// through a scalar: real paths of v, slices of its arrays, indices inside
// slices, missing keys, out-of-range indices, paths below null.
func validDelPaths(r *common.Rand, v any, n int) []any {
	all := refPaths(v, nil)
	locs := arrayLocs(v)
	var out []any
	for len(out) < n {
		switch k := r.Intn(10); {
		case k < 5 && len(all) > 0:
			out = append(out, common.Pick(r, all))
		case k < 8 && len(locs) > 0:
			loc := common.Pick(r, locs)
			q := stepsJSON(append(cloneSteps(loc.prefix), genSliceStep(r, len(loc.arr))))
			if r.Chance(1, 3) {
				q = append(q, r.Range(-1, len(loc.arr)))
			}
			out = append(out, any(q))
		case k < 9 && len(locs) > 0:
			loc := common.Pick(r, locs)
			out = append(out, any(append(stepsJSON(loc.prefix), r.Range(-len(loc.arr)-1, len(loc.arr)+1))))
		default:
			// a path obtained by walking (never through a scalar)
			var q []any
			cur := v
			for d := 0; d < 3; d++ {
				switch c := cur.(type) {
				case map[string]any:
					key := common.Pick(r, keyAlphabet)
					q = append(q, key)
					cur = c[key]
				case []any:
					i := r.Range(-1, len(c)+1)
					q = append(q, i)
					cur = applyStep(c, idxStep(i))
				case nil:
					if r.Bool() {
						q = append(q, common.Pick(r, keyAlphabet))
					} else {
						q = append(q, r.Intn(2))
					}
				default:
					d = 99
				}
				if r.Chance(1, 3) {
					break
				}
			}
			if len(q) == 0 && !r.Chance(1, 8) {
				continue
			}
			out = append(out, any(q))
		}
	}
	return out
}

func permutations(n int) [][]int {
	if n == 0 {
		return [][]int{{}}
	}
	var out [][]int
	for _, p := range permutations(n - 1) {
		for pos := 0; pos <= len(p); pos++ {
			q := make([]int, 0, n)
			q = append(q, p[:pos]...)
			q = append(q, n-1)
			q = append(q, p[pos:]...)
			out = append(out, q)
		}
	}
	return out
}

func pickBody(r *common.Rand) body {
	if r.Chance(1, 3) {
		return common.Pick(r, dupBodies)
	}
	return common.Pick(r, bodies)
}

// groupInputs: the base input, a variant of it, and another variant or an unrelated input.
func groupInputs(r *common.Rand, base any, n int) []any {
	ins := []any{base}
	for len(ins) < n {
		switch r.Intn(4) {
		case 0:
			ins = append(ins, genInput(r))
		case 1:
			ins = append(ins, mutateInput(r, mutateInput(r, base)))
		default:
			ins = append(ins, mutateInput(r, base))
		}
	}
	return ins
}

// genGroup draws one program and runs it on several inputs.
func genGroup(r *common.Rand) []*tcase {
	base := genInput(r)
	wrap := r.Chance(1, 8)
	const fam = "random"
	var out []*tcase
	switch k := r.Intn(100); {
	case k < 42:
		paths, rel := genPathList(r, base)
		P := plist(paths)
		b := pickBody(r)
		for _, in := range groupInputs(r, base, 4) {
			out = append(out, mkModify(P, paren(b.text), in, b.kind, rel, fam, wrap))
		}
	case k < 52:
		paths, rel := genPathList(r, base)
		P := plist(paths)
		x := common.Pick(r, rhss)
		for _, in := range groupInputs(r, base, 4) {
			out = append(out, mkAssign(P, x, in, rel, fam, wrap))
		}
	case k < 62:
		paths, rel := genPathList(r, base)
		P := plist(paths)
		x := common.Pick(r, rhss)
		aop := common.Pick(r, arithOps)
		for _, in := range groupInputs(r, base, 4) {
			out = append(out, mkArith(P, aop, x, in, rel, fam, wrap))
		}
	case k < 70:
		paths, rel := genPathList(r, base)
		P := plist(paths)
		for _, in := range groupInputs(r, base, 4) {
			out = append(out, mkDel(P, in, rel, fam, wrap))
		}
	case k < 76:
		// delpaths on a valid path list, in several orders
		ps := validDelPaths(r, base, r.Range(1, 4))
		perms := permutations(len(ps))
		shuffle(r, perms)
		if len(perms) > 4 {
			perms = perms[:4]
		}
		for _, pm := range perms {
			q := make([]any, len(ps))
			for i, j := range pm {
				q[i] = ps[j]
			}
			out = append(out, mkDelpaths(q, base, "valid-permuted", fam, wrap))
		}
	case k < 80:
		for _, in := range groupInputs(r, base, 2) {
			q := genLiteralPath(r, in)
			var val any = genValue(r, 3)
			out = append(out, mkSetpath(q, val, in, fam, wrap))
			out = append(out, mkGetpath(q, in, fam))
		}
	case k < 84:
		paths, rel := genPathList(r, base)
		P := plist(paths)
		for _, in := range groupInputs(r, base, 3) {
			out = append(out, mkPathget(P, in, rel, fam))
		}
	case k < 88:
		b := pickBody(r)
		for _, in := range groupInputs(r, base, 4) {
			out = append(out, mkMapValues(b, in, fam, wrap))
		}
	case k < 92:
		paths, rel := genPathList(r, base)
		P := plist(paths)
		for _, in := range groupInputs(r, base, 4) {
			out = append(out, mkPick(P, in, rel, fam))
		}
	case k < 95:
		b := common.Pick(r, entryBodies)
		for _, in := range groupInputs(r, base, 3) {
			out = append(out, &tcase{Op: "with_entries", Prog: "with_entries(" + b.text + ")",
				Expl: "to_entries | map(" + b.text + ") | from_entries", Input: in, Body: b.kind, Rel: "-", Fam: fam})
		}
	default:
		for _, in := range groupInputs(r, base, 2) {
			out = append(out, derivedCases(in, fam)...)
		}
	}
	return out
}

// derivedCases: the jq-defined consumers without parameters, on one input.
func derivedCases(in any, fam string) []*tcase {
	return []*tcase{
		{Op: "to_entries", Prog: "to_entries", Expl: "[keys[] as $k | {key: $k, value: .[$k]}]", Input: in, Body: "-", Rel: "-", Fam: fam, Ref: "to_entries"},
		{Op: "paths", Prog: "paths", Expl: "path(..) | select(. != [])", Input: in, Body: "-", Rel: "-", Fam: fam, Ref: "paths"},
		{Op: "paths", Prog: `paths(type == "number")`, Expl: `path(.. | select(type == "number")) | select(. != [])`, Input: in, Body: "-", Rel: "-", Fam: fam, Ref: "pathsnum"},
		{Op: "leaf_paths", Prog: "paths(scalars)", Expl: `path(.. | select(select(type | . != "array" and . != "object"))) | select(. != [])`, Input: in, Body: "-", Rel: "-", Fam: fam, Ref: "leaf"},
		{Op: "tostream", Prog: "tostream", Expl: tostreamDef, Input: in, Body: "-", Rel: "-", Fam: fam, Ref: "tostream"},
	}
}

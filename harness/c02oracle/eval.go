package c02oracle

import (
	"encoding/json"
	"fmt"
	"math/big"
	"strings"
)

// mdef is the defining reduction of `|=` (what compileModify hand-assembles,
// and what jq 1.7 defines): paths are enumerated against the original input;
// for each path the FIRST output of update is stored with setpath; a path where
// update is empty is collected and all collected paths are deleted at the end
// with one delpaths.
const mdef = `def _m(paths; update): reduce path(paths) as $p ([., []]; . as [$x, $d] | label $out | (($x | getpath($p) | update) as $y | [($x | setpath($p; $y)), $d] | ., break $out), [$x, $d + [$p]]) | . as [$x, $d] | $x | delpaths($d); `

// tcase is one (operator, path list, body, input) case.
type tcase struct {
	Op    string // modify assign arith del delpaths setpath getpath map_values to_entries with_entries pick paths tostream leaf_paths
	Prog  string // the operator program
	Expl  string // the explicit defining program ("" = reference B only)
	Input any
	Body  string // body kind (distribution)
	Rhs   string // right-hand side kind (distribution)
	Rel   string // path-relation kind (distribution)
	Fam   string // generator family (distribution)

	// reference (B)
	Ref     string // "" none | modify | assign | arith | del | delpaths | setpath | getpath | pick | paths | pathsnum | leaf | to_entries | tostream | pathget
	P, F, X string // jq texts
	AOp     string // arithmetic operator text for arith
	Lit     any    // literal path / path list
	Val     any    // literal value for setpath
	Wrap    bool   // Prog is `[(op), .]`: also shows that the input is not changed
}

type violation struct {
	Key    string         `json:"key"`
	What   string         `json:"what"`
	Replay map[string]any `json:"replay"`
	Prio   int            `json:"prio"` // 0 historical witness, 1 systematic family, 2 random (reporting order only)
}

type evalStats struct {
	nontrivial bool
	errored    bool
	skipped    string
	comparedA  bool
	comparedB  bool
	ambiguous  bool
	looseErr   bool
	note       string
}

// strictErrOps: operators whose error text equals that of the explicit
// program. For the others the operator and the defining program raise the same
// condition from different places (e.g. the constant-path shortcut of `=`
// reports setpath's error where the reduction reports path()'s), so only
// "both end with an error" is compared.
var strictErrOps = map[string]bool{
	"modify": true, "arith": true, "map_values": true, "del": true, "to_entries": true,
	"with_entries": true, "pick": true, "paths": true, "tostream": true, "leaf_paths": true,
}

func shellCmd(prog string, input string) string {
	return "echo '" + strings.ReplaceAll(input, "'", `'\''`) + "' | gojq -c '" + strings.ReplaceAll(prog, "'", `'\''`) + "'"
}

func wrapSeq(s seq, inputCanon string) seq {
	if s.skip != "" || s.err && len(s.outs) == 0 {
		return seq{err: s.err, errText: s.errText, skip: s.skip}
	}
	if s.err {
		return seq{err: true, errText: s.errText}
	}
	parts := append(append([]string{}, s.outs...), inputCanon)
	for _, p := range parts {
		if p == tooBig || p == tooDeep {
			return seq{outs: []string{p}}
		}
	}
	return seq{outs: []string{"[" + strings.Join(parts, ",") + "]"}}
}

// StringIndexKey is the stable, space-free key of the class "path(p) walks into a string by a number or a
// slice, getpath rejects the string" (listed in known-findings.txt under C02).
const StringIndexKey = "path-through-string-index"

// evalCase runs one case and returns the violations it found.
func (e *executor) evalCase(c *tcase) (vs []violation, st evalStats) {
	inCanon := canonG(c.Input)
	op, _ := e.run(c.Prog, c.Input, nil, nil)
	if op.skip != "" {
		st.skipped = "op-" + firstWord(op.skip)
		if strings.HasPrefix(op.skip, "compile") {
			st.note = "operator program does not compile: " + c.Prog + ": " + op.skip
		}
		return
	}
	st.errored = op.err
	// `.[i]` / `.[i:j]` work on strings and path() records them, but getpath rejects a string: a genuine
	// deviation (gojq's string indexing is an extension that getpath does not follow). The whole class —
	// some prefix of an emitted path reaches a STRING and the next path element is a number or a slice
	// object — is reported under ONE stable key; every other path/getpath mismatch keeps its per-case key.
	strClass := c.Ref == "pathget" && e.throughString(c)
	if !op.err {
		if c.Wrap {
			st.nontrivial = len(op.outs) != 1 || op.outs[0] != "["+inCanon+","+inCanon+"]"
		} else {
			st.nontrivial = len(op.outs) != 1 || op.outs[0] != inCanon
		}
	}
	report := func(which string, expl string, exp seq, alt *seq) {
		expected := exp.String()
		if alt != nil {
			expected += "   (or, order-dependent: " + alt.String() + ")"
		}
		prio := 1
		switch c.Fam {
		case "historical", "probe":
			prio = 0
		case "random":
			prio = 2
		}
		key := "update-differs:" + c.Op + ":" + c.Prog + ":" + inCanon
		if strClass {
			key = StringIndexKey
			if c.Fam != "probe" {
				prio = 3 // the fixed probe is the representative replay of the class
			}
		}
		vs = append(vs, violation{
			Prio: prio,
			Key:  key,
			What: oneLine(fmt.Sprintf("operator gives %s, defining reduction gives %s", op.String(), exp.String())),
			Replay: map[string]any{
				"program":          c.Prog,
				"explicit_program": expl,
				"input":            inCanon,
				"observed":         op.String(),
				"expected":         expected,
				"reference":        which,
				"cmd":              shellCmd(c.Prog, inCanon),
				"cmd_explicit":     shellCmd(expl, inCanon),
			},
		})
	}

	// (A) the explicit defining program on the real implementation
	if c.Expl != "" {
		ex, _ := e.run(c.Expl, c.Input, nil, nil)
		switch {
		case ex.skip != "":
			if strings.HasPrefix(ex.skip, "compile") {
				st.note = "explicit program does not compile: " + c.Expl + ": " + ex.skip
			}
		case op.hasToo() && ex.hasToo() && sameSeq(op, ex, false):
			st.skipped = "both-too-big"
		default:
			st.comparedA = true
			strict := strictErrOps[c.Op]
			if strict && op.err && ex.err && op.errText != ex.errText &&
				strings.HasPrefix(op.errText, "delpaths(") && strings.HasPrefix(ex.errText, "delpaths(") {
				// Both fail in the final delpaths of the reduction with the same condition. The texts can differ
				// in the PREVIEW of the value only: the operator's delpaths marks deleted positions in place in
				// its own (allocator-owned) copy before it fails, and the preview of that value stops at the
				// first internal placeholder. Cosmetic; compared as "both end with an error".
				strict = false
				if st.note == "" {
					st.note = "error text of a failing final delpaths differs in the value preview only (in-place placeholder shown by the operator): " +
						shellCmd(c.Prog, inCanon) + " gives " + clip(op.errText, 200) + " ; the defining reduction gives " + clip(ex.errText, 200)
				}
			}
			if !sameSeq(op, ex, strict) {
				report("A (explicit program on the real implementation)", c.Expl, ex, nil)
			} else if op.err && ex.err && op.errText != ex.errText {
				st.looseErr = true
			}
		}
	}

	// (B) the Go value-semantics reference
	if c.Ref != "" {
		exp, alt, skip := e.reference(c)
		switch {
		case skip != "":
			if st.skipped == "" {
				st.skipped = "refB-" + skip
			}
		default:
			if c.Wrap {
				exp = wrapSeq(exp, inCanon)
				if alt != nil {
					a := wrapSeq(*alt, inCanon)
					alt = &a
				}
			}
			if op.hasToo() && exp.hasToo() && sameSeq(op, exp, false) {
				st.skipped = "both-too-big"
				break
			}
			st.comparedB = true
			ok := sameSeq(op, exp, false)
			if !ok && alt != nil {
				st.ambiguous = true
				ok = sameSeq(op, *alt, false)
			}
			if ok && len(vs) > 0 {
				vs[0].Replay["note"] = "the operator agrees with the Go value-semantics reference (B): it is the explicit program, i.e. the real setpath/getpath/delpaths it is made of, that deviates"
			}
			if !ok {
				if len(vs) > 0 {
					// already reported against (A): same key, keep one record but say both
					vs[0].Replay["reference"] = "A and B (explicit program on the real implementation, and the Go value-semantics reference)"
					vs[0].Replay["expected_B"] = exp.String()
				} else {
					report("B (Go value-semantics reference over [path(P)])", c.Expl, exp, alt)
					if c.Expl != "" && st.comparedA {
						// operator agrees with (A) but not with (B)
						vs[0].Replay["note"] = "operator and explicit program agree with each other; both differ from the value-semantics reference"
					}
				}
			}
		}
	}
	return
}

// throughString: some path of path(P) on the input navigates into a string.
func (e *executor) throughString(c *tcase) bool {
	paths, isErr, sk := e.pathList(c.P, c.Input)
	if isErr || sk != "" {
		return false
	}
	for _, q := range paths {
		path, ok := q.([]any)
		if !ok {
			continue
		}
		for i := 0; i < len(path); i++ {
			x, err := refGetpath(c.Input, path[:i])
			if err != nil {
				break
			}
			if _, isStr := x.(string); isStr {
				switch path[i].(type) {
				case int, float64, *big.Int, json.Number, map[string]any:
					return true
				}
			}
		}
	}
	return false
}

func firstWord(s string) string {
	if i := strings.IndexAny(s, ": "); i > 0 {
		return s[:i]
	}
	return s
}

func oneLine(s string) string {
	s = strings.ReplaceAll(s, "\n", " ")
	if len(s) > 900 {
		s = s[:900] + "…"
	}
	return s
}

// ---- reference (B) -------------------------------------------------------------------

func errSeq() seq { return seq{err: true, errText: "reference: error"} }

const copyLimit = 50000

// guardedCopy deep-copies v unless it is too large/deep as a tree.
func guardedCopy(v any) (any, bool) {
	n := 0
	var cp func(x any, d int) (any, bool)
	cp = func(x any, d int) (any, bool) {
		n++
		if n > copyLimit || d > canonDepth {
			return nil, false
		}
		switch c := x.(type) {
		case []any:
			w := make([]any, len(c))
			for i, y := range c {
				z, ok := cp(y, d+1)
				if !ok {
					return nil, false
				}
				w[i] = z
			}
			return w, true
		case map[string]any:
			w := make(map[string]any, len(c))
			for k, y := range c {
				z, ok := cp(y, d+1)
				if !ok {
					return nil, false
				}
				w[k] = z
			}
			return w, true
		}
		return x, true
	}
	return cp(v, 0)
}

// pathList runs [path(P)] on the input with the real implementation.
func (e *executor) pathList(p string, input any) (paths []any, isErr bool, skip string) {
	s, outs := e.run("[path("+p+")]", input, nil, nil)
	if s.skip != "" {
		return nil, false, firstWord(s.skip)
	}
	if s.err {
		return nil, true, ""
	}
	if len(outs) != 1 {
		return nil, false, "pathlist"
	}
	ps, ok := outs[0].([]any)
	if !ok {
		return nil, false, "pathlist"
	}
	return ps, false, ""
}

// foldModify is the defining reduction of `|=` over an explicit list of paths,
// with getpath/setpath/delpaths under value semantics; body gives the first
// output of the update for a value.
func (e *executor) foldModify(input any, paths []any, body func(x any) firstResult) (res any, alt *any, isErr bool, skip string) {
	cur := input
	var deleted []any
	for _, q := range paths {
		path, ok := q.([]any)
		if !ok {
			return nil, nil, false, "pathshape"
		}
		x, err := refGetpath(cur, path)
		if err == errUnsupported {
			return nil, nil, false, "unsupported"
		}
		if err != nil {
			return nil, nil, true, ""
		}
		xc, ok := guardedCopy(x)
		if !ok {
			return nil, nil, false, "too-big"
		}
		r := body(xc)
		switch {
		case r.budget:
			return nil, nil, false, "budget"
		case r.err:
			return nil, nil, true, ""
		case !r.has:
			deleted = append(deleted, q)
		default:
			cur, err = refSetpath(cur, path, r.val)
			if err == errUnsupported {
				return nil, nil, false, "unsupported"
			}
			if err != nil {
				return nil, nil, true, ""
			}
		}
	}
	if len(deleted) == 0 {
		return cur, nil, false, ""
	}
	out, amb, err := refDelpaths(cur, deleted)
	if err == errUnsupported {
		return nil, nil, false, "unsupported"
	}
	if err != nil {
		return nil, nil, true, ""
	}
	if amb {
		var a any = errMarker{}
		return out, &a, false, ""
	}
	return out, nil, false, ""
}

type errMarker struct{}

func valSeq(v any) seq { return seq{outs: []string{canonG(v)}} }

// reference computes the expected outcome of the operator by (B). alt is a
// second acceptable outcome when the reference is order-ambiguous.
func (e *executor) reference(c *tcase) (exp seq, alt *seq, skip string) {
	in := c.Input
	one := func(res any, altv *any, isErr bool, sk string) (seq, *seq, string) {
		if sk != "" {
			return seq{}, nil, sk
		}
		if isErr {
			return errSeq(), nil, ""
		}
		if altv != nil {
			a := errSeq()
			return valSeq(res), &a, ""
		}
		return valSeq(res), nil, ""
	}
	switch c.Ref {
	case "modify", "map_values":
		p := c.P
		if c.Ref == "map_values" {
			p = ".[]"
		}
		paths, isErr, sk := e.pathList(p, in)
		if sk != "" {
			return seq{}, nil, sk
		}
		body := func(x any) firstResult { return e.first(c.F, x, nil, nil) }
		if isErr {
			// path enumeration fails: the operator ends with an error (the body may fail earlier: also an error)
			return errSeq(), nil, ""
		}
		return one(e.foldModify(in, paths, body))

	case "assign", "arith":
		xs, xouts := e.run(c.X, in, nil, nil)
		if xs.skip != "" {
			return seq{}, nil, firstWord(xs.skip)
		}
		paths, pErr, sk := e.pathList(c.P, in)
		if sk != "" {
			return seq{}, nil, sk
		}
		var out seq
		for _, xv := range xouts {
			if pErr {
				return seq{outs: out.outs, err: true, errText: "reference: error"}, nil, ""
			}
			var res any
			var isErr bool
			var altv *any
			if c.Ref == "assign" {
				cur := in
				for _, q := range paths {
					path, ok := q.([]any)
					if !ok {
						return seq{}, nil, "pathshape"
					}
					var err error
					cur, err = refSetpath(cur, path, xv)
					if err == errUnsupported {
						return seq{}, nil, "unsupported"
					}
					if err != nil {
						isErr = true
						break
					}
				}
				res = cur
			} else {
				xv := xv
				body := func(x any) firstResult {
					vc, ok := guardedCopy(xv)
					if !ok {
						return firstResult{budget: true}
					}
					return e.first(". "+c.AOp+" $v", x, []string{"$v"}, []any{vc})
				}
				res, altv, isErr, sk = e.foldModify(in, paths, body)
				if sk != "" {
					return seq{}, nil, sk
				}
			}
			if isErr {
				return seq{outs: out.outs, err: true, errText: "reference: error"}, nil, ""
			}
			if altv != nil {
				return seq{}, nil, "ambiguous-multi"
			}
			out.outs = append(out.outs, canonG(res))
		}
		if xs.err {
			out.err, out.errText = true, "reference: error"
		}
		return out, nil, ""

	case "del":
		paths, isErr, sk := e.pathList(c.P, in)
		if sk != "" {
			return seq{}, nil, sk
		}
		if isErr {
			return errSeq(), nil, ""
		}
		return delSeq(in, paths)

	case "delpaths":
		return delSeq(in, c.Lit.([]any))

	case "setpath":
		res, err := refSetpath(in, c.Lit.([]any), c.Val)
		if err == errUnsupported {
			return seq{}, nil, "unsupported"
		}
		if err != nil {
			return errSeq(), nil, ""
		}
		return valSeq(res), nil, ""

	case "getpath":
		res, err := refGetpath(in, c.Lit.([]any))
		if err == errUnsupported {
			return seq{}, nil, "unsupported"
		}
		if err != nil {
			return errSeq(), nil, ""
		}
		return valSeq(res), nil, ""

	case "pathget":
		// Prog is [P]: its outputs are the values at the paths of path(P)
		paths, isErr, sk := e.pathList(c.P, in)
		if sk != "" {
			return seq{}, nil, sk
		}
		if isErr {
			return errSeq(), nil, ""
		}
		vals := make([]any, 0, len(paths))
		for _, q := range paths {
			path, ok := q.([]any)
			if !ok {
				return seq{}, nil, "pathshape"
			}
			x, err := refGetpath(in, path)
			if err == errUnsupported {
				return seq{}, nil, "unsupported"
			}
			if err != nil {
				return errSeq(), nil, ""
			}
			vals = append(vals, x)
		}
		return valSeq(vals), nil, ""

	case "pick":
		paths, isErr, sk := e.pathList(c.P, in)
		if sk != "" {
			return seq{}, nil, sk
		}
		if isErr {
			return errSeq(), nil, ""
		}
		var cur any
		for _, q := range paths {
			path, ok := q.([]any)
			if !ok {
				return seq{}, nil, "pathshape"
			}
			x, err := refGetpath(in, path)
			if err == errUnsupported {
				return seq{}, nil, "unsupported"
			}
			if err != nil {
				return errSeq(), nil, ""
			}
			cur, err = refSetpath(cur, path, x)
			if err == errUnsupported {
				return seq{}, nil, "unsupported"
			}
			if err != nil {
				return errSeq(), nil, ""
			}
		}
		return valSeq(cur), nil, ""

	case "paths", "pathsnum", "leaf":
		var keep func(any) bool
		switch c.Ref {
		case "pathsnum":
			keep = func(x any) bool {
				switch x.(type) {
				case int, float64:
					return true
				}
				return false
			}
		case "leaf":
			// paths(scalars) = path(.. | select(scalars)): `scalars` outputs the value itself,
			// so null and false leaves are not selected (jq's leaf_paths has the same property)
			keep = func(x any) bool {
				switch x := x.(type) {
				case []any, map[string]any, nil:
					return false
				case bool:
					return x
				}
				return true
			}
		}
		var out seq
		for _, p := range refPaths(in, keep) {
			out.outs = append(out.outs, canonG(p))
		}
		return out, nil, ""

	case "to_entries":
		res, err := refToEntries(in)
		if err != nil {
			return errSeq(), nil, ""
		}
		return valSeq(res), nil, ""

	case "tostream":
		var out seq
		for _, ev := range refTostream(in) {
			out.outs = append(out.outs, canonG(ev))
		}
		return out, nil, ""
	}
	return seq{}, nil, "noref"
}

func delSeq(in any, paths []any) (seq, *seq, string) {
	res, amb, err := refDelpaths(in, paths)
	if err == errUnsupported {
		return seq{}, nil, "unsupported"
	}
	if err != nil {
		return errSeq(), nil, ""
	}
	if amb {
		a := errSeq()
		return valSeq(res), &a, ""
	}
	return valSeq(res), nil, ""
}

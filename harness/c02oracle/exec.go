package c02oracle

import (
	"fmt"
	"runtime/debug"

	"github.com/itchyny/gojq"

	"verifharness/common"
)

const (
	stepBudget = 60000 // VM instructions per run
	maxOutputs = 200   // outputs per run
)

type compiled struct {
	code *gojq.Code
	err  error
}

type executor struct {
	cache map[string]*compiled
}

func newExecutor() *executor { return &executor{cache: map[string]*compiled{}} }

func (e *executor) compile(src string, vars ...string) (*gojq.Code, error) {
	key := src
	for _, v := range vars {
		key += "\x00" + v
	}
	if c, ok := e.cache[key]; ok {
		return c.code, c.err
	}
	if len(e.cache) > 20000 {
		e.cache = map[string]*compiled{}
	}
	c := &compiled{}
	func() {
		defer func() {
			if r := recover(); r != nil {
				c.err = fmt.Errorf("panic while compiling: %v", r)
			}
		}()
		q, err := gojq.Parse(src)
		if err != nil {
			c.err = err
			return
		}
		if len(vars) > 0 {
			c.code, c.err = gojq.Compile(q, gojq.WithVariables(vars))
		} else {
			c.code, c.err = gojq.Compile(q)
		}
	}()
	e.cache[key] = c
	return c.code, c.err
}

// run executes src on a deep copy of input under the step budget and renders
// the outcome canonically. The raw outputs are returned as well (read-only use).
func (e *executor) run(src string, input any, vars []string, vals []any) (seq, []any) {
	code, err := e.compile(src, vars...)
	if err != nil {
		return seq{skip: "compile: " + err.Error()}, nil
	}
	o := common.RunCode(code, common.DeepCopy(input), stepBudget, maxOutputs, vals...)
	return outcomeSeq(o), o.Outs
}

func outcomeSeq(o common.Outcome) seq {
	var s seq
	if o.Budget {
		s.skip = "budget"
		return s
	}
	for _, x := range o.Outs {
		s.outs = append(s.outs, canonG(x))
	}
	if o.Panic != "" {
		s.err = true
		s.errText = "PANIC " + o.Panic
		return s
	}
	if o.Err != nil {
		s.err = true
		s.errText = safeErrText(o.Err)
	}
	return s
}

func safeErrText(err error) (s string) {
	defer func() {
		if r := recover(); r != nil {
			s = fmt.Sprint("PANIC in Error(): ", r)
		}
	}()
	return err.Error()
}

// first runs code on input and returns its first output only.
type firstResult struct {
	val    any
	has    bool
	err    bool
	budget bool
}

func (e *executor) first(src string, input any, vars []string, vals []any) (r firstResult) {
	code, err := e.compile(src, vars...)
	if err != nil {
		r.budget = true
		return
	}
	defer func() {
		if rec := recover(); rec != nil {
			_ = debug.Stack()
			r = firstResult{err: true}
		}
	}()
	ctx := common.NewCountCtx(stepBudget)
	it := code.RunWithContext(ctx, common.DeepCopy(input), vals...)
	x, ok := it.Next()
	if !ok {
		return
	}
	if er, isErr := x.(error); isErr {
		if er == common.ErrBudget {
			r.budget = true
			return
		}
		r.err = true
		return
	}
	r.val, r.has = x, true
	return
}

// Package c02oracle is the model-free search oracle of property C02 ("paths and
// update operators equal their defining reductions"). It runs the update
// operators of the REAL gojq (|=, =, op=, del, delpaths, setpath, getpath,
// map_values, to_entries, with_entries, pick, paths, tostream) on generated
// (path list, body, input) cases and compares each result with
//
//	(A) the explicit defining jq program run by the same implementation, and
//	(B) an independent value-semantics reference written in Go (ref.go).
//
// A defect of this class can build a cyclic Go value whose printing overflows
// the stack, which cannot be recovered; so the work is split into batches and
// each batch runs in a child process (this executable re-executed with
// C02ORACLE_CHILD set). A harness using the oracle must call MaybeChild first
// thing in main(); if it does not, Run falls back to running in-process.
//
// Known order-dependence that is NOT reported: delpaths with a path that walks
// through a scalar raises an error unless an earlier path of the same list
// already deleted that scalar (`{"a":1} | delpaths([["a","b"],["a"]])` is an
// error, `delpaths([["a"],["a","b"]])` is {}). Such lists cannot come from
// path(...) on the input; the oracle generates valid lists only, accepts both
// answers when the situation arises inside `|=` (collected paths applied to
// the updated value), and records the probe as a note.
package c02oracle

import (
	"bufio"
	"encoding/json"
	"fmt"
	"io"
	"os"
	"os/exec"
	"runtime"
	"runtime/debug"
	"sort"
	"strings"
	"sync"
	"time"

	"verifharness/common"
)

const childEnv = "C02ORACLE_CHILD"

var childModeAvailable bool

// batchSpec is what a worker is asked to do (JSON in C02ORACLE_CHILD).
type batchSpec struct {
	Seed     uint64 `json:"seed"`
	Thorough bool   `json:"thorough"`
	Batch    int    `json:"batch"`
	NBatches int    `json:"nbatches"`
	Random   int    `json:"random"`  // number of random cases of this batch (after its share of the systematic ones)
	Skip     int    `json:"skip"`    // do not run (or count) cases with index < Skip
	Exclude  []int  `json:"exclude"` // case indices never to run (they killed an earlier worker)
	Out      string `json:"out"`
}

type oracleStats struct {
	Cases   int            `json:"cases"`
	Dist    map[string]int `json:"dist"`
	Samples []string       `json:"samples"`
}

// batchResult is what a worker writes (also as checkpoints).
type batchResult struct {
	Done       bool                    `json:"done"`
	NextIdx    int                     `json:"next_idx"`   // every case below this index is accounted for
	Stats      map[string]*oracleStats `json:"stats"`      // per oracle record
	Nontrivial map[string][]uint64     `json:"nontrivial"` // per oracle record: hashes of the non-trivial program texts
	Violations []violation             `json:"violations"`
	Notes      []string                `json:"notes"`
}

// MaybeChild must be the first statement of main() of any harness using the oracle. If the process was started by Run
// as a worker (env C02ORACLE_CHILD set) it runs its batch, writes its result and os.Exit()s; otherwise it records that
// child mode is available and returns.
func MaybeChild() {
	s := os.Getenv(childEnv)
	if s == "" {
		childModeAvailable = true
		return
	}
	var spec batchSpec
	if err := json.Unmarshal([]byte(s), &spec); err != nil {
		fmt.Fprintln(os.Stderr, "c02oracle: bad batch spec:", err)
		os.Exit(3)
	}
	debug.SetMaxStack(64 << 20) // a cyclic value dies quickly instead of eating 1 GB of stack
	debug.SetGCPercent(200)
	res := runBatch(spec, true)
	if err := writeResult(spec.Out, res); err != nil {
		fmt.Fprintln(os.Stderr, "c02oracle: cannot write result:", err)
		os.Exit(3)
	}
	os.Exit(0)
}

func writeResult(path string, res *batchResult) error {
	b, err := json.Marshal(res)
	if err != nil {
		return err
	}
	tmp := path + ".tmp"
	if err := os.WriteFile(tmp, b, 0o644); err != nil {
		return err
	}
	return os.Rename(tmp, path)
}

var oracleNames = []string{"update", "update-assign-delete", "update-derived"}

func oracleOf(op string) string {
	switch op {
	case "modify", "map_values":
		return "update"
	case "assign", "arith", "del", "delpaths", "pick":
		return "update-assign-delete"
	}
	return "update-derived"
}

// Self-test of the supervision (never set by bin/check): C02ORACLE_SELFTEST=crash:<batch>:<index> makes the
// worker of that batch overflow its stack at that case, hang:<batch>:<index> makes it stop making progress;
// C02ORACLE_STALL_MS shortens the parent's stall limit.
var selfTest = os.Getenv("C02ORACLE_SELFTEST")

func selfTestTrigger(batch, idx int) {
	var kind string
	var b, i int
	f := strings.Split(selfTest, ":")
	if len(f) != 3 {
		return
	}
	kind = f[0]
	fmt.Sscan(f[1], &b)
	fmt.Sscan(f[2], &i)
	if b != batch || i != idx {
		return
	}
	switch kind {
	case "crash":
		cyc := []any{nil}
		cyc[0] = cyc
		_ = common.Canon(cyc) // unguarded recursion over a cyclic value: fatal stack overflow
	case "hang":
		for {
			time.Sleep(time.Hour)
		}
	}
}

func hash64(s string) uint64 {
	h := uint64(1469598103934665603)
	for i := 0; i < len(s); i++ {
		h ^= uint64(s[i])
		h *= 1099511628211
	}
	return h
}

func mix(seed uint64, a, b int) uint64 {
	x := seed ^ uint64(a+1)*0x9E3779B97F4A7C15 ^ uint64(b+1)*0xC2B2AE3D27D4EB4F
	x ^= x >> 29
	x *= 0xBF58476D1CE4E5B9
	x ^= x >> 32
	return x
}

// runBatch generates the batch's cases in a fixed order and runs those not
// skipped. In a worker (announce) every case is announced on stderr before it
// runs and checkpoints are written; in-process every case runs under recover.
func runBatch(spec batchSpec, announce bool) *batchResult {
	res := &batchResult{Stats: map[string]*oracleStats{}, NextIdx: spec.Skip}
	ex := newExecutor()
	exclude := map[int]bool{}
	for _, i := range spec.Exclude {
		exclude[i] = true
	}
	nontrivial := map[string]map[uint64]bool{}
	for _, n := range oracleNames {
		nontrivial[n] = map[uint64]bool{}
	}
	seenViol := map[string]bool{}
	lastCkpt := time.Now()
	stat := func(name string) *oracleStats {
		s := res.Stats[name]
		if s == nil {
			s = &oracleStats{Dist: map[string]int{}}
			res.Stats[name] = s
		}
		return s
	}
	idx := 0
	runOne := func(c *tcase) {
		i := idx
		idx++
		if i < spec.Skip {
			return
		}
		if exclude[i] {
			res.NextIdx = i + 1
			return
		}
		if announce {
			// one unbuffered write per case, before anything is evaluated
			os.Stderr.WriteString("CASE " + c.Op + "\t" + c.Prog + "\t" + canonG(c.Input) + "\t#" + fmt.Sprint(i) + "\n")
		}
		if announce && selfTest != "" {
			selfTestTrigger(spec.Batch, i)
		}
		var vs []violation
		var st evalStats
		if announce {
			vs, st = ex.evalCase(c)
		} else {
			func() {
				defer func() {
					if r := recover(); r != nil {
						in := canonG(c.Input)
						vs = []violation{{Key: "update-crash:" + c.Op + ":" + c.Prog + ":" + in, What: oneLine(fmt.Sprint("panic: ", r)),
							Replay: map[string]any{"program": c.Prog, "input": in, "cmd": shellCmd(c.Prog, in)}}}
					}
				}()
				vs, st = ex.evalCase(c)
			}()
		}
		s := stat(oracleOf(c.Op))
		s.Cases++
		d := s.Dist
		d["op:"+c.Op]++
		if c.Body != "-" && c.Body != "" {
			d["body:"+c.Body]++
		}
		if c.Rhs != "" {
			d["rhs:"+c.Rhs]++
		}
		if c.Rel != "-" && c.Rel != "" {
			d["paths:"+c.Rel]++
		}
		d["family:"+c.Fam]++
		switch {
		case st.skipped != "" && !st.comparedA && !st.comparedB:
			d["outcome:not-compared("+st.skipped+")"]++
		case st.errored:
			d["outcome:error"]++
		default:
			d["outcome:value"]++
		}
		if st.comparedA {
			d["compared:A-explicit-program"]++
		}
		if st.comparedB {
			d["compared:B-go-reference"]++
		} else if c.Ref != "" && st.skipped != "" {
			d["compared:B-skipped("+st.skipped+")"]++
		}
		if st.ambiguous {
			d["compared:B-order-ambiguous-delpaths"]++
		}
		if st.looseErr {
			d["error-text-differs:"+c.Op]++
		}
		if c.Wrap {
			d["shape:[(op), .] (input unchanged)"]++
		}
		if st.nontrivial {
			nontrivial[oracleOf(c.Op)][hash64(c.Prog)] = true
			if len(s.Samples) < 4 && (s.Cases%97 == 1 || len(s.Samples) == 0) {
				s.Samples = append(s.Samples, clip(canonG(c.Input)+" | "+c.Prog, 300))
			}
		}
		if st.note != "" && len(res.Notes) < 5 {
			res.Notes = append(res.Notes, st.note)
		}
		for _, v := range vs {
			if !seenViol[v.Key] && len(res.Violations) < 200 {
				seenViol[v.Key] = true
				res.Violations = append(res.Violations, v)
			}
		}
		res.NextIdx = i + 1
		if announce && (i%64 == 0) && time.Since(lastCkpt) > time.Second {
			res.Nontrivial = hashLists(nontrivial)
			_ = writeResult(spec.Out+".ckpt", res)
			lastCkpt = time.Now()
		}
	}

	// the batch's share of the systematic cases (same list in every worker), then its random groups
	sys := systematic(common.NewRand(spec.Seed^0x5157), spec.Thorough)
	for i, c := range sys {
		if i%spec.NBatches == spec.Batch {
			runOne(c)
		}
	}
	produced := 0
	for g := 0; produced < spec.Random; g++ {
		r := common.NewRand(mix(spec.Seed, spec.Batch, g))
		for _, c := range genGroup(r) {
			if produced >= spec.Random {
				break
			}
			produced++
			runOne(c)
		}
	}
	if spec.Batch == 0 && spec.Skip == 0 {
		if n := probeDelpathsOrder(ex); n != "" {
			res.Notes = append(res.Notes, n)
		}
	}
	res.Nontrivial = hashLists(nontrivial)
	res.Done = true
	return res
}

// probeDelpathsOrder records the (unreported) order dependence described in the package comment.
func probeDelpathsOrder(e *executor) string {
	in := map[string]any{"a": 1}
	s1, _ := e.run(`delpaths([["a","b"],["a"]])`, in, nil, nil)
	s2, _ := e.run(`delpaths([["a"],["a","b"]])`, in, nil, nil)
	if s1.err != s2.err {
		return `delpaths with a path through a scalar is order dependent (not a path(...) list, not reported): {"a":1} | delpaths([["a","b"],["a"]]) gives ` +
			s1.String() + `, delpaths([["a"],["a","b"]]) gives ` + s2.String()
	}
	return ""
}

func hashLists(m map[string]map[uint64]bool) map[string][]uint64 {
	out := map[string][]uint64{}
	for k, v := range m {
		out[k] = keysOf(v)
	}
	return out
}

func keysOf(m map[uint64]bool) []uint64 {
	out := make([]uint64, 0, len(m))
	for k := range m {
		out = append(out, k)
	}
	sort.Slice(out, func(i, j int) bool { return out[i] < out[j] })
	return out
}

func clip(s string, n int) string {
	if len(s) > n {
		return s[:n] + "…"
	}
	return s
}

// ---- parent --------------------------------------------------------------------------

type merged struct {
	mu         sync.Mutex
	stats      map[string]*oracleStats
	nontrivial map[string]map[uint64]bool
	viols      []violation
	notes      []string
	errors     []string
	crashes    int
}

func (m *merged) add(r *batchResult) {
	m.mu.Lock()
	defer m.mu.Unlock()
	for name, s := range r.Stats {
		t := m.stats[name]
		if t == nil {
			t = &oracleStats{Dist: map[string]int{}}
			m.stats[name] = t
		}
		t.Cases += s.Cases
		for k, v := range s.Dist {
			t.Dist[k] += v
		}
		for _, x := range s.Samples {
			if len(t.Samples) < 6 {
				t.Samples = append(t.Samples, x)
			}
		}
	}
	for name, hs := range r.Nontrivial {
		if m.nontrivial[name] == nil {
			m.nontrivial[name] = map[uint64]bool{}
		}
		for _, h := range hs {
			m.nontrivial[name][h] = true
		}
	}
	m.viols = append(m.viols, r.Violations...)
	m.notes = append(m.notes, r.Notes...)
}

func (m *merged) violate(v violation) {
	m.mu.Lock()
	defer m.mu.Unlock()
	m.viols = append(m.viols, v)
}

func (m *merged) errorf(format string, a ...any) {
	m.mu.Lock()
	defer m.mu.Unlock()
	m.errors = append(m.errors, fmt.Sprintf(format, a...))
}

// Run executes the oracle and records results into ctx (one or more ctx.NewOracle records, ctx.Violate for failures).
func Run(ctx *common.Ctx) {
	start := time.Now()
	base := ctx.R.U64()
	nb := ctx.N(8, 48)
	randomTotal := ctx.N(21000, 2000000)
	m := &merged{stats: map[string]*oracleStats{}, nontrivial: map[string]map[uint64]bool{}}

	specs := make([]batchSpec, nb)
	for b := range specs {
		specs[b] = batchSpec{Seed: base, Thorough: ctx.Thorough, Batch: b, NBatches: nb, Random: randomTotal / nb}
	}
	self, err := os.Executable()
	useChildren := childModeAvailable && err == nil
	mode := "child processes"
	if !useChildren {
		mode = "in-process (MaybeChild was not called first in main: a cyclic result would kill the harness)"
		for _, sp := range specs {
			m.add(runBatch(sp, false))
		}
	} else {
		dir, err := os.MkdirTemp("", "c02oracle-")
		if err != nil {
			ctx.Errorf("c02oracle: %v", err)
			return
		}
		defer os.RemoveAll(dir)
		workers := 4
		if n := runtime.NumCPU(); n < workers {
			workers = n
		}
		if workers < 1 {
			workers = 1
		}
		jobs := make(chan batchSpec)
		var wg sync.WaitGroup
		for w := 0; w < workers; w++ {
			wg.Add(1)
			go func() {
				defer wg.Done()
				for sp := range jobs {
					sp.Out = fmt.Sprintf("%s/batch%d.json", dir, sp.Batch)
					superviseBatch(self, sp, m, ctx.Thorough)
				}
			}()
		}
		for _, sp := range specs {
			jobs <- sp
		}
		close(jobs)
		wg.Wait()
	}

	// ---- record ----
	common2 := "result of the real operator compared with (A) the explicit defining jq program (reduce path(P) … setpath/getpath/delpaths) run by the same implementation and " +
		"(B) a Go value-semantics reference folded over [path(P)]; path lists of 1–4 deliberately related paths (equal, ancestor/descendant, slice+index, same/overlapping slices, " +
		"valid in the original input only) in every order; first the historical witnesses D3/D4/D5 and systematic families around them; " +
		"distinct = distinct operator program texts whose result differs from the input"
	rules := map[string]string{
		"update":               "`P |= F` and map_values(F) on generated (path list, body, input), bodies that copy/duplicate/re-embed/replace/drop their input or have several outputs: " + common2,
		"update-assign-delete": "`P = X`, `P op= X` (+ - * / % //), del(P), delpaths(list in every order; B only), pick(P) on generated (path list, right-hand side, input): " + common2,
		"update-derived": "setpath, getpath (literal paths, and [P] versus getpath over path(P)), to_entries, with_entries, paths, paths(f), tostream against their builtin.jq " +
			"definitions inlined (A) and Go references (B: sorted-key entries, pre-order paths, tostream events); distinct = distinct program texts whose result differs from the input",
	}
	for _, name := range oracleNames {
		s := m.stats[name]
		if s == nil {
			s = &oracleStats{Dist: map[string]int{}}
		}
		o := ctx.NewOracle(name, rules[name])
		o.Cases = s.Cases
		o.Distribution = s.Dist
		o.Samples = s.Samples
		o.Distinct = len(m.nontrivial[name])
	}
	total := 0
	for _, s := range m.stats {
		total += s.Cases
	}
	rank := func(v violation) int {
		if crashFirst(v.Key) {
			return -1
		}
		return v.Prio
	}
	sort.SliceStable(m.viols, func(i, j int) bool { return rank(m.viols[i]) < rank(m.viols[j]) })
	for _, v := range m.viols {
		ctx.Violate(v.Key, v.What, v.Replay)
	}
	seenNote := map[string]bool{}
	sort.SliceStable(m.notes, func(i, j int) bool {
		return !strings.Contains(m.notes[i], "does not compile") && strings.Contains(m.notes[j], "does not compile")
	})
	classSeen := map[string]bool{}
	for _, n := range m.notes {
		class := n
		if i := strings.Index(n, ":"); i > 0 {
			class = n[:i] // one note per class of note
		}
		if !seenNote[n] && !classSeen[class] && len(seenNote) < 6 {
			classSeen[class] = true
			seenNote[n] = true
			ctx.Res.Notes = append(ctx.Res.Notes, "c02oracle: "+n)
		}
	}
	for _, e := range m.errors {
		ctx.Errorf("%s", e)
	}
	ctx.Res.Notes = append(ctx.Res.Notes, fmt.Sprintf("c02oracle: %d cases in %d batches, %s, %d worker deaths, %.1f s", total, nb, mode, m.crashes, time.Since(start).Seconds()))
}

func crashFirst(key string) bool {
	return strings.HasPrefix(key, "update-crash:") || strings.HasPrefix(key, "update-hang:")
}

// superviseBatch runs one batch in worker processes, restarting after a case that kills the worker.
func superviseBatch(self string, sp batchSpec, m *merged, thorough bool) {
	stall := 60 * time.Second
	if ms := os.Getenv("C02ORACLE_STALL_MS"); ms != "" {
		var n int
		if _, err := fmt.Sscan(ms, &n); err == nil && n > 0 {
			stall = time.Duration(n) * time.Millisecond
		}
	}
	total := 5 * time.Minute
	if thorough {
		total = 25 * time.Minute
	}
	for attempt := 0; ; attempt++ {
		if attempt > 40 {
			m.errorf("c02oracle: batch %d: giving up after %d worker deaths", sp.Batch, attempt)
			return
		}
		os.Remove(sp.Out)
		os.Remove(sp.Out + ".ckpt")
		died, last, tail, why := runWorker(self, sp, stall, total)
		if !died {
			res, err := readResult(sp.Out)
			if err != nil || !res.Done {
				m.errorf("c02oracle: batch %d: worker exited without a result: %v", sp.Batch, err)
				return
			}
			m.add(res)
			return
		}
		m.mu.Lock()
		m.crashes++
		m.mu.Unlock()
		// account for what the dead worker had checkpointed, then resume
		next := sp.Skip
		if res, err := readResult(sp.Out + ".ckpt"); err == nil {
			if res.NextIdx > next {
				next = res.NextIdx
			}
			m.add(res)
		}
		if why == "timeout" {
			m.errorf("c02oracle: batch %d: exceeded its wall-clock budget of %s (slow machine?); remaining cases not run", sp.Batch, total)
			return
		}
		if last == nil {
			m.errorf("c02oracle: batch %d: worker died before its first case (%s): %s", sp.Batch, why, clip(tail, 600))
			return
		}
		kind := "update-crash"
		what := firstFatalLine(tail)
		if why == "stall" {
			kind = "update-hang"
			what = "no progress for " + stall.String() + " on this case (worker killed)"
		}
		m.violate(violation{
			Key:  kind + ":" + last.op + ":" + last.prog + ":" + last.input,
			What: oneLine(what),
			Replay: map[string]any{
				"program": last.prog, "input": last.input, "stderr_tail": clip(tail, 3000),
				"cmd": shellCmd(last.prog, last.input), "batch": sp.Batch, "case_index": last.idx,
			},
		})
		if last.idx < next {
			// cannot happen (checkpoints are written after a case completes); make progress anyway
			next = last.idx + 1
		}
		sp.Skip = next
		sp.Exclude = append(append([]int{}, sp.Exclude...), last.idx)
	}
}

func readResult(path string) (*batchResult, error) {
	b, err := os.ReadFile(path)
	if err != nil {
		return nil, err
	}
	var r batchResult
	if err := json.Unmarshal(b, &r); err != nil {
		return nil, err
	}
	return &r, nil
}

type lastCase struct {
	op, prog, input string
	idx             int
}

func parseCase(line string) *lastCase {
	f := strings.Split(strings.TrimPrefix(line, "CASE "), "\t")
	if len(f) != 4 {
		return nil
	}
	lc := &lastCase{op: f[0], prog: f[1], input: f[2]}
	fmt.Sscanf(f[3], "#%d", &lc.idx)
	return lc
}

func firstFatalLine(tail string) string {
	for _, l := range strings.Split(tail, "\n") {
		if strings.Contains(l, "fatal error") || strings.HasPrefix(l, "panic:") {
			return strings.TrimSpace(l)
		}
	}
	for _, l := range strings.Split(tail, "\n") {
		if strings.Contains(l, "runtime:") || strings.Contains(l, "signal") {
			return strings.TrimSpace(l)
		}
	}
	for _, l := range strings.Split(tail, "\n") {
		if strings.TrimSpace(l) != "" {
			return "worker died: " + strings.TrimSpace(l)
		}
	}
	return "worker died without a message"
}

// runWorker starts one worker and watches it. died=false: clean exit.
func runWorker(self string, sp batchSpec, stall, total time.Duration) (died bool, last *lastCase, tail string, why string) {
	specJSON, _ := json.Marshal(sp)
	cmd := exec.Command(self)
	cmd.Env = append(os.Environ(), childEnv+"="+string(specJSON))
	cmd.Stdout = io.Discard
	stderr, err := cmd.StderrPipe()
	if err != nil {
		return true, nil, err.Error(), "start"
	}
	if err := cmd.Start(); err != nil {
		return true, nil, err.Error(), "start"
	}
	var mu sync.Mutex
	lastSeen := time.Now()
	var lastLine string
	var other []string // non-CASE lines (fatal error text), bounded
	otherBytes := 0
	done := make(chan struct{})
	go func() {
		defer close(done)
		rd := bufio.NewReaderSize(stderr, 1<<16)
		for {
			line, err := rd.ReadString('\n')
			if len(line) > 0 {
				line = strings.TrimRight(line, "\n")
				mu.Lock()
				if strings.HasPrefix(line, "CASE ") {
					lastLine = line
					lastSeen = time.Now()
					other = other[:0]
					otherBytes = 0
				} else if otherBytes < 6000 {
					other = append(other, clip(line, 400))
					otherBytes += len(line) + 1
				}
				mu.Unlock()
			}
			if err != nil {
				return
			}
		}
	}()
	waitErr := make(chan error, 1)
	go func() {
		<-done
		waitErr <- cmd.Wait()
	}()
	begin := time.Now()
	tick := time.NewTicker(500 * time.Millisecond)
	defer tick.Stop()
	for {
		select {
		case err := <-waitErr:
			mu.Lock()
			defer mu.Unlock()
			if lastLine != "" {
				last = parseCase(lastLine)
			}
			tail = strings.Join(other, "\n")
			if why != "" {
				return true, last, tail, why
			}
			if err != nil {
				return true, last, tail, "exit: " + err.Error()
			}
			if strings.Contains(tail, "fatal error") || strings.Contains(tail, "panic:") {
				return true, last, tail, "fatal"
			}
			return false, last, tail, ""
		case <-tick.C:
			mu.Lock()
			idle := time.Since(lastSeen)
			mu.Unlock()
			if why == "" && idle > stall {
				why = "stall"
				_ = cmd.Process.Kill()
			} else if why == "" && time.Since(begin) > total {
				why = "timeout"
				_ = cmd.Process.Kill()
			}
		}
	}
}

package c02oracle

// Independent value-semantics reference (B): getpath / setpath / delpaths /
// paths / to_entries / tostream written directly in Go, never sharing code
// with /repo. Nothing here mutates a value: every container on a written path
// is rebuilt, everything else is shared read-only.

import (
	"errors"
	"math/big"
	"sort"
)

var (
	errRef         = errors.New("reference: error")           // the operator must end with an error
	errUnsupported = errors.New("reference: unsupported key") // the reference does not cover this (skipped)
)

// asInt accepts the integer carriers that path(...) and JSON literals produce.
func asInt(x any) (int, bool) {
	switch x := x.(type) {
	case int:
		return x, true
	case float64:
		if x == float64(int(x)) {
			return int(x), true
		}
	case *big.Int:
		if x.IsInt64() {
			return int(x.Int64()), true
		}
	}
	return 0, false
}

func isNumberKey(x any) bool {
	switch x.(type) {
	case int, float64, *big.Int:
		return true
	}
	return false
}

// sliceBounds resolves {"start":s,"end":e} against an array of length n:
// null start = 0, null end = n, negative counts from the end, both clamped
// (start to [0,n], end to [start,n]).
func sliceBounds(m map[string]any, n int) (lo, hi int, err error) {
	s, ok := m["start"]
	if !ok {
		return 0, 0, errRef
	}
	e, ok := m["end"]
	if !ok {
		return 0, 0, errRef
	}
	lo, hi = 0, n
	if s != nil {
		i, ok := asInt(s)
		if !ok {
			if isNumberKey(s) {
				return 0, 0, errUnsupported
			}
			return 0, 0, errRef
		}
		if i < 0 {
			i += n
		}
		if i < 0 {
			i = 0
		}
		if i > n {
			i = n
		}
		lo = i
	}
	if e != nil {
		i, ok := asInt(e)
		if !ok {
			if isNumberKey(e) {
				return 0, 0, errUnsupported
			}
			return 0, 0, errRef
		}
		if i < 0 {
			i += n
		}
		if i < lo {
			i = lo
		}
		if i > n {
			i = n
		}
		hi = i
	}
	return lo, hi, nil
}

// refGetpath: value at path; null propagates; missing key / out-of-range index is null.
func refGetpath(v any, path []any) (any, error) {
	cur := v
	for _, k := range path {
		switch c := cur.(type) {
		case nil:
			switch k.(type) {
			case string, int, map[string]any:
				cur = nil
			case float64, *big.Int:
				cur = nil
			case []any:
				return nil, errUnsupported
			default:
				return nil, errRef
			}
		case map[string]any:
			s, ok := k.(string)
			if !ok {
				return nil, errRef
			}
			cur = c[s]
		case []any:
			switch k := k.(type) {
			case map[string]any:
				lo, hi, err := sliceBounds(k, len(c))
				if err != nil {
					return nil, err
				}
				cur = append([]any{}, c[lo:hi]...)
			case []any:
				return nil, errUnsupported
			default:
				if !isNumberKey(k) {
					return nil, errRef
				}
				i, ok := asInt(k)
				if !ok {
					return nil, errUnsupported
				}
				if i < 0 {
					i += len(c)
				}
				if i < 0 || i >= len(c) {
					cur = nil
				} else {
					cur = c[i]
				}
			}
		default:
			return nil, errRef
		}
	}
	return cur, nil
}

// refSetpath: copy of v with n stored at path.
func refSetpath(v any, path []any, n any) (any, error) {
	if len(path) == 0 {
		return n, nil
	}
	rest := path[1:]
	switch k := path[0].(type) {
	case string:
		var m map[string]any
		switch c := v.(type) {
		case nil:
		case map[string]any:
			m = c
		default:
			return nil, errRef
		}
		u, err := refSetpath(m[k], rest, n)
		if err != nil {
			return nil, err
		}
		w := make(map[string]any, len(m)+1)
		for kk, x := range m {
			w[kk] = x
		}
		w[k] = u
		return w, nil
	case map[string]any:
		var xs []any
		switch c := v.(type) {
		case nil:
		case []any:
			xs = c
		default:
			return nil, errRef
		}
		lo, hi, err := sliceBounds(k, len(xs))
		if err != nil {
			return nil, err
		}
		inner := append([]any{}, xs[lo:hi]...)
		u, err := refSetpath(inner, rest, n)
		if err != nil {
			return nil, err
		}
		us, ok := u.([]any)
		if !ok {
			return nil, errRef
		}
		w := make([]any, 0, len(xs)-(hi-lo)+len(us))
		w = append(w, xs[:lo]...)
		w = append(w, us...)
		w = append(w, xs[hi:]...)
		return w, nil
	default:
		if !isNumberKey(k) {
			return nil, errRef
		}
		var xs []any
		switch c := v.(type) {
		case nil:
		case []any:
			xs = c
		default:
			return nil, errRef
		}
		i, ok := asInt(k)
		if !ok {
			return nil, errUnsupported
		}
		if i < 0 {
			i += len(xs)
			if i < 0 {
				return nil, errRef
			}
		}
		if i > 1<<20 {
			return nil, errUnsupported
		}
		var old any
		if i < len(xs) {
			old = xs[i]
		}
		u, err := refSetpath(old, rest, n)
		if err != nil {
			return nil, err
		}
		l := len(xs)
		if i >= l {
			l = i + 1
		}
		w := make([]any, l)
		copy(w, xs)
		w[i] = u
		return w, nil
	}
}

// ---- delpaths: mark-then-sweep against the original value ---------------------------

type markNode struct {
	del  bool
	kids map[any]*markNode // key: string (object key) or int (normalised array index)
}

func (m *markNode) child(k any) *markNode {
	if m.kids == nil {
		m.kids = map[any]*markNode{}
	}
	c := m.kids[k]
	if c == nil {
		c = &markNode{}
		m.kids[k] = c
	}
	return c
}

func (m *markNode) mark(pos []any) {
	n := m
	for _, k := range pos {
		n = n.child(k)
	}
	n.del = true
}

// coveredBy: some marked position is a prefix of (or equal to) pos.
func (m *markNode) covered(pos []any) bool {
	n := m
	if n.del {
		return true
	}
	for _, k := range pos {
		if n.kids == nil {
			return false
		}
		n = n.kids[k]
		if n == nil {
			return false
		}
		if n.del {
			return true
		}
	}
	return false
}

type delResolver struct {
	root     *markNode
	errs     [][]any // positions of the non-container a path tried to walk through
	unsup    bool
	hardFail bool // malformed path element (never ambiguous)
}

func extend(prefix []any, k any) []any {
	p := make([]any, len(prefix)+1)
	copy(p, prefix)
	p[len(prefix)] = k
	return p
}

// resolve marks the positions of v denoted by path.
func (d *delResolver) resolve(v any, path []any, prefix []any) {
	if len(path) == 0 {
		d.root.mark(prefix)
		return
	}
	rest := path[1:]
	switch k := path[0].(type) {
	case string:
		switch c := v.(type) {
		case nil:
		case map[string]any:
			if x, ok := c[k]; ok {
				d.resolve(x, rest, extend(prefix, k))
			}
		default:
			d.errs = append(d.errs, prefix)
		}
	case map[string]any:
		switch c := v.(type) {
		case nil:
		case []any:
			lo, hi, err := sliceBounds(k, len(c))
			if err != nil {
				if err == errUnsupported {
					d.unsup = true
				} else {
					d.hardFail = true
				}
				return
			}
			if lo < hi {
				d.resolveRange(c, lo, hi, rest, prefix)
			}
		default:
			d.errs = append(d.errs, prefix)
		}
	default:
		if !isNumberKey(k) {
			d.hardFail = true
			return
		}
		i, ok := asInt(k)
		if !ok {
			d.unsup = true
			return
		}
		switch c := v.(type) {
		case nil:
		case []any:
			if i < 0 {
				i += len(c)
			}
			if 0 <= i && i < len(c) {
				d.resolve(c[i], rest, extend(prefix, i))
			}
		default:
			d.errs = append(d.errs, prefix)
		}
	}
}

// resolveRange: the current node is the view c[lo:hi] (lo < hi).
func (d *delResolver) resolveRange(c []any, lo, hi int, path []any, prefix []any) {
	if len(path) == 0 {
		for i := lo; i < hi; i++ {
			d.root.mark(extend(prefix, i))
		}
		return
	}
	rest := path[1:]
	switch k := path[0].(type) {
	case string:
		// a slice is an array: a field of it is a type error (at the position of the array)
		d.errs = append(d.errs, prefix)
	case map[string]any:
		l2, h2, err := sliceBounds(k, hi-lo)
		if err != nil {
			if err == errUnsupported {
				d.unsup = true
			} else {
				d.hardFail = true
			}
			return
		}
		if l2 < h2 {
			d.resolveRange(c, lo+l2, lo+h2, rest, prefix)
		}
	default:
		if !isNumberKey(k) {
			d.hardFail = true
			return
		}
		j, ok := asInt(k)
		if !ok {
			d.unsup = true
			return
		}
		if j < 0 {
			j += hi - lo
		}
		if 0 <= j && j < hi-lo {
			d.resolve(c[lo+j], rest, extend(prefix, lo+j))
		}
	}
}

func sweep(v any, m *markNode) any {
	if m == nil || m.kids == nil {
		return v
	}
	switch c := v.(type) {
	case map[string]any:
		w := make(map[string]any, len(c))
		for k, x := range c {
			kid := m.kids[k]
			if kid != nil && kid.del {
				continue
			}
			w[k] = sweep(x, kid)
		}
		return w
	case []any:
		w := make([]any, 0, len(c))
		for i, x := range c {
			kid := m.kids[i]
			if kid != nil && kid.del {
				continue
			}
			w = append(w, sweep(x, kid))
		}
		return w
	}
	return v
}

// refDelpaths removes from v the positions that the paths denote IN v. A path
// through a missing key, an out-of-range index, null or an empty range denotes
// nothing. A path that walks through a scalar is an error; if that scalar lies
// at or below a position deleted by another path of the list the real
// implementation's answer depends on the order of the list (error if the long
// path comes first, silently nothing otherwise), which the reference reports
// as ambiguous: both answers are accepted there (see the package comment).
func refDelpaths(v any, paths []any) (res any, ambiguous bool, err error) {
	d := &delResolver{root: &markNode{}}
	for _, p := range paths {
		path, ok := p.([]any)
		if !ok {
			return nil, false, errRef
		}
		d.resolve(v, path, nil)
	}
	if d.hardFail {
		return nil, false, errRef
	}
	if d.unsup {
		return nil, false, errUnsupported
	}
	definite := false
	for _, e := range d.errs {
		if d.root.covered(e) {
			ambiguous = true
		} else {
			definite = true
		}
	}
	if definite {
		return nil, false, errRef
	}
	if d.root.del {
		return nil, ambiguous, nil
	}
	return sweep(v, d.root), ambiguous, nil
}

// ---- paths / to_entries / tostream ---------------------------------------------------

func sortedKeys(m map[string]any) []string {
	ks := make([]string, 0, len(m))
	for k := range m {
		ks = append(ks, k)
	}
	sort.Strings(ks)
	return ks
}

// refPaths: every non-root path in pre-order (object keys sorted), filtered by keep(value).
func refPaths(v any, keep func(any) bool) []any {
	var out []any
	var walk func(x any, p []any)
	walk = func(x any, p []any) {
		if len(p) > 0 && (keep == nil || keep(x)) {
			out = append(out, append([]any{}, p...))
		}
		switch c := x.(type) {
		case []any:
			for i, y := range c {
				walk(y, append(p, i))
			}
		case map[string]any:
			for _, k := range sortedKeys(c) {
				walk(c[k], append(p, k))
			}
		}
	}
	walk(v, nil)
	return out
}

func refToEntries(v any) (any, error) {
	switch c := v.(type) {
	case map[string]any:
		out := make([]any, 0, len(c))
		for _, k := range sortedKeys(c) {
			out = append(out, map[string]any{"key": k, "value": c[k]})
		}
		return out, nil
	case []any:
		out := make([]any, 0, len(c))
		for i, x := range c {
			out = append(out, map[string]any{"key": i, "value": x})
		}
		return out, nil
	}
	return nil, errRef
}

// refTostream: leaf events [path, leaf] in document order (scalars and empty
// containers are leaves) and, after the last child of every non-empty
// container, the closing event [path of that last child].
func refTostream(v any) []any {
	var out []any
	var walk func(x any, p []any)
	walk = func(x any, p []any) {
		switch c := x.(type) {
		case []any:
			if len(c) > 0 {
				for i, y := range c {
					walk(y, append(p, i))
				}
				out = append(out, []any{append(append([]any{}, p...), len(c)-1)})
				return
			}
		case map[string]any:
			if len(c) > 0 {
				ks := sortedKeys(c)
				for _, k := range ks {
					walk(c[k], append(p, k))
				}
				out = append(out, []any{append(append([]any{}, p...), ks[len(ks)-1])})
				return
			}
		}
		out = append(out, []any{append([]any{}, p...), x})
	}
	walk(v, nil)
	return out
}

package c02oracle

import (
	"strconv"

	"verifharness/common"
)

func ints(n int) []any {
	xs := make([]any, n)
	for i := range xs {
		xs[i] = i
	}
	return xs
}

func sliceText(a, b, n int, variant int) string {
	// variant picks between closed and open-ended renderings of the same range
	sa, sb := strconv.Itoa(a), strconv.Itoa(b)
	if a == 0 && variant&1 == 1 {
		sa = ""
	}
	if b >= n && variant&2 == 2 {
		sb = ""
	}
	if sa == "" && sb == "" {
		sa = "0"
	}
	return "[" + sa + ":" + sb + "]"
}

func subsets(n, k int) [][]int {
	var out [][]int
	var rec func(start int, cur []int)
	rec = func(start int, cur []int) {
		if len(cur) == k {
			out = append(out, append([]int{}, cur...))
			return
		}
		for i := start; i < n; i++ {
			rec(i+1, append(cur, i))
		}
	}
	rec(0, nil)
	return out
}

func permuted(xs []string, pm []int) []string {
	out := make([]string, len(pm))
	for i, j := range pm {
		out[i] = xs[j]
	}
	return out
}

// historical: the witnesses of the repaired defects D3, D4, D5 (and the two
// checked non-defects), verbatim, as the first cases.
func historical() []*tcase {
	const fam = "historical"
	return []*tcase{
		mkModify("(.[2],.[0:1][1])", "7", []any{0, 1, 2, 3}, "const", "slice-index", fam, false),
		mkModify("(.[1:],.[1:])", "[.]", []any{0, 1}, "wrap", "same-slice", fam, false),
		mkModify("(.[0][0],.[0],.[0][0][0])", "[.,.]", []any{[]any{nil}}, "dup", "original-only", fam, false),
		mkModify("(.a.b,.a,.a.x.b)", "{x:.,y:.}", map[string]any{"a": map[string]any{"b": nil}}, "embed2", "original-only", fam, false),
		mkDelpaths([]any{[]any{1}, []any{2}}, []any{0, 1, 2, 3}, "indices", fam, false),
		mkModify("(.a.b,.a,.a.x.b)", "[.]", map[string]any{"a": map[string]any{"b": nil}}, "wrap", "original-only", fam, false),
	}
}

// systematic: the historical witnesses and families of systematic variants of
// each (other indices, other bodies, 2–4 paths, all permutations). In the
// quick tier the larger families are sampled with r.
func systematic(r *common.Rand, thorough bool) []*tcase {
	out := historical()
	keep := func(num, den int) bool { return thorough || r.Chance(num, den) }
	add := func(c *tcase) { out = append(out, c) }

	// ---- D3 family: an index and slice+index (inside, at the end of, beyond the slice)
	d3bodies := []body{{"const", "7"}, {"wrap", "[.]"}, {"dup", "[., .]"}}
	for n := 2; n <= 5; n++ {
		in := ints(n)
		for k := 0; k <= n; k++ {
			for a := 0; a <= n; a++ {
				for b := a; b <= n; b++ {
					for j := 0; j <= b-a+1; j++ {
						for bi, bd := range d3bodies {
							if !keep(1, 4) {
								continue
							}
							p1 := ".[" + strconv.Itoa(k) + "]"
							p2 := "." + sliceText(a, b, n, k+j+bi) + "[" + strconv.Itoa(j) + "]"
							add(mkModify(plist([]string{p1, p2}), paren(bd.text), in, bd.kind, "slice-index", "D3-family", false))
							add(mkModify(plist([]string{p2, p1}), paren(bd.text), in, bd.kind, "slice-index", "D3-family", false))
							if keep(1, 6) {
								p3 := ".[" + strconv.Itoa((k+j+1)%(n+1)) + "]"
								for _, pm := range permutations(3) {
									add(mkModify(plist(permuted([]string{p1, p2, p3}, pm)), paren(bd.text), in, bd.kind, "slice-index", "D3-family", false))
								}
							}
							if keep(1, 8) {
								add(mkDel(plist([]string{p1, p2}), in, "slice-index", "D3-family", false))
								add(mkDel(plist([]string{p2, p1}), in, "slice-index", "D3-family", false))
								add(mkAssign(plist([]string{p1, p2}), rhs{"x:wrap", "[.]"}, in, "slice-index", "D3-family", false))
								add(mkArith(plist([]string{p2, p1}), "+", rhs{"x:1", "1"}, in, "slice-index", "D3-family", false))
							}
						}
					}
				}
			}
		}
	}

	// ---- D4 family: two (three) slices of the same array, equal or overlapping
	d4bodies := []body{{"wrap", "[.]"}, {"dup", "[., .]"}, {"copy", "."}, {"const", "[]"}, {"tail", ".[1:]"},
		{"map-wrap", "map([.])"}, {"append", ". + [9]"}, {"empty", "empty"}, {"embed", "{x: .}"}}
	for n := 2; n <= 4; n++ {
		in := ints(n)
		type rg struct{ a, b int }
		var rgs []rg
		for a := 0; a <= n; a++ {
			for b := a; b <= n; b++ {
				rgs = append(rgs, rg{a, b})
			}
		}
		for i1, r1 := range rgs {
			for i2, r2 := range rgs {
				for bi, bd := range d4bodies {
					if !keep(1, 3) {
						continue
					}
					p1 := "." + sliceText(r1.a, r1.b, n, 3)
					p2 := "." + sliceText(r2.a, r2.b, n, i1+i2+bi)
					add(mkModify(plist([]string{p1, p2}), paren(bd.text), in, bd.kind, "slice-slice", "D4-family", false))
					if keep(1, 8) {
						r3 := rgs[(i1*7+i2*3+bi)%len(rgs)]
						p3 := "." + sliceText(r3.a, r3.b, n, 0)
						for _, pm := range permutations(3) {
							add(mkModify(plist(permuted([]string{p1, p2, p3}, pm)), paren(bd.text), in, bd.kind, "slice-slice", "D4-family", false))
						}
					}
					if keep(1, 10) {
						add(mkDel(plist([]string{p1, p2}), in, "slice-slice", "D4-family", false))
						add(mkAssign(plist([]string{p1, p2}), rhs{"x:dot", "."}, in, "slice-slice", "D4-family", false))
						add(mkAssign(plist([]string{p1, p2}), rhs{"x:wrap", "[.]"}, in, "slice-slice", "D4-family", false))
						add(mkArith(plist([]string{p1, p2}), "+", rhs{"x:dot", "."}, in, "slice-slice", "D4-family", false))
					}
				}
			}
		}
		// nested: slices of an array inside an object / array
		nested := map[string]any{"a": ints(n)}
		for i1, r1 := range rgs {
			for _, r2 := range rgs {
				if !keep(1, 6) {
					continue
				}
				p1 := ".a" + sliceText(r1.a, r1.b, n, i1)
				p2 := ".a" + sliceText(r2.a, r2.b, n, 0)
				add(mkModify(plist([]string{p1, p2}), "[.]", nested, "wrap", "slice-slice", "D4-family", false))
				add(mkModify(plist([]string{p1, p2, ".a"}), "[., .]", nested, "dup", "slice-slice", "D4-family", false))
				add(mkModify(plist([]string{".a", p1, p2}), "[., .]", nested, "dup", "slice-slice", "D4-family", false))
			}
		}
	}

	// ---- D5 family (arrays): prefixes and continuations valid only in the original input
	d5bodies := []body{{"dup", "[., .]"}, {"wrap", "[.]"}, {"embed2", "{x: ., y: .}"}, {"embed", "{x: .}"}, {"copy", "."},
		{"dupdeep", "[., [.]]"}}
	emptyish := []body{{"empty", "empty"}, {"cond-empty", "if . == null then 1 else empty end"},
		{"select-nonnull", "select(. != null)"}, {"drop-numbers", `if type == "number" then empty else . end`},
		{"inc-try", "(. + 1)?"}}
	famPaths := func(name string, inputs []any, pathSet []string, bs []body) {
		for _, in := range inputs {
			for size := 2; size <= 4; size++ {
				for _, sub := range subsets(len(pathSet), size) {
					ps := make([]string, size)
					for i, j := range sub {
						ps[i] = pathSet[j]
					}
					for _, pm := range permutations(size) {
						P := plist(permuted(ps, pm))
						for _, bd := range bs {
							switch size {
							case 2:
								if !keep(1, 2) {
									continue
								}
							case 3:
								if !keep(1, 5) {
									continue
								}
							default:
								if !thorough && !r.Chance(1, 200) || thorough && !r.Chance(1, 5) {
									continue
								}
							}
							add(mkModify(P, paren(bd.text), in, bd.kind, "original-only", name, r.Chance(1, 10)))
						}
						if keep(1, 12) {
							bd := common.Pick(r, emptyish)
							add(mkModify(P, paren(bd.text), in, bd.kind, "original-only", name, false))
							add(mkDel(P, in, "original-only", name, false))
							add(mkAssign(P, common.Pick(r, []rhs{{"x:dot", "."}, {"x:wrap", "[.]"}, {"x:multi", "(1,2)"}}), in, "original-only", name, false))
							add(mkPick(P, in, "original-only", name))
						}
					}
				}
			}
		}
	}
	famPaths("D5-array-family",
		[]any{[]any{[]any{nil}}, []any{[]any{[]any{nil}}}, []any{[]any{0, 1}, []any{2, 3}}, []any{[]any{nil}, []any{nil}}},
		[]string{".[0]", ".[0][0]", ".[0][0][0]", ".[1]", ".[0][1]", ".[0][0][1]", ".[1][0]"}, d5bodies)
	famPaths("D5-object-family",
		[]any{map[string]any{"a": map[string]any{"b": nil}}, map[string]any{"a": map[string]any{"b": 1}},
			map[string]any{"a": nil}, map[string]any{"a": map[string]any{"b": map[string]any{"x": nil}}}},
		[]string{".a", ".a.b", ".a.x", ".a.x.b", ".a.y.b", ".a.b.x", ".b", ".a.x.x"}, d5bodies)
	famPaths("D5-mixed-family",
		[]any{map[string]any{"a": []any{map[string]any{"b": 1}, map[string]any{"b": 2}}}, map[string]any{"a": []any{nil}}},
		[]string{".a", ".a[0]", ".a[0].b", ".a[0][0]", ".a[1]", ".a[0:1]", ".a[0:1][0]", ".a[]"}, d5bodies[:4])

	// ---- delpaths family: indices and slices of one array in every order (reference B only)
	for n := 1; n <= 4; n++ {
		in := ints(n)
		var elems []any
		for i := -n; i < n; i++ {
			elems = append(elems, []any{i})
		}
		for a := 0; a <= n; a++ {
			for b := a; b <= n; b++ {
				elems = append(elems, []any{map[string]any{"start": a, "end": b}})
			}
		}
		elems = append(elems, []any{map[string]any{"start": nil, "end": 1}}, []any{map[string]any{"start": -1, "end": nil}},
			[]any{map[string]any{"start": 1, "end": nil}, 0}, []any{map[string]any{"start": 0, "end": 2}, 1}, []any{n}, []any{n + 1})
		for _, e1 := range elems {
			for _, e2 := range elems {
				if !keep(1, 2) {
					continue
				}
				add(mkDelpaths([]any{e1, e2}, in, "indices-slices", "delpaths-family", false))
				if keep(1, 8) {
					e3 := common.Pick(r, elems)
					for _, pm := range permutations(3) {
						src := []any{e1, e2, e3}
						q := make([]any, 3)
						for i, j := range pm {
							q[i] = src[j]
						}
						add(mkDelpaths(q, in, "indices-slices", "delpaths-family", r.Chance(1, 10)))
					}
				}
			}
		}
	}
	nestedIn := []any{[]any{0, 1}, []any{2, 3}}
	nestedElems := []any{[]any{0}, []any{1}, []any{0, 0}, []any{0, 1}, []any{1, 0}, []any{1, 1}, []any{-1}, []any{0, -1},
		[]any{map[string]any{"start": 0, "end": 1}}, []any{0, map[string]any{"start": 1, "end": 2}},
		[]any{map[string]any{"start": 0, "end": 2}, 1}, []any{map[string]any{"start": 1, "end": nil}, 0, 0}}
	for _, e1 := range nestedElems {
		for _, e2 := range nestedElems {
			add(mkDelpaths([]any{e1, e2}, nestedIn, "ancestor-descendant", "delpaths-family", false))
			if keep(1, 3) {
				e3 := common.Pick(r, nestedElems)
				for _, pm := range permutations(3) {
					src := []any{e1, e2, e3}
					q := make([]any, 3)
					for i, j := range pm {
						q[i] = src[j]
					}
					add(mkDelpaths(q, nestedIn, "ancestor-descendant", "delpaths-family", false))
				}
			}
		}
	}

	// ---- probe with a stable key: navigation into a string is recorded by path() but rejected by getpath
	add(mkPathget("(.[0],.[1:2])", "abc", "string-index", "probe"))

	// ---- the jq-defined consumers on the fixed inputs
	for _, in := range fixedInputs() {
		out = append(out, derivedCases(in, "fixed-inputs")...)
		for _, b := range []body{{"wrap", "[.]"}, {"empty", "empty"}, {"dup", "[., .]"}, {"select-nonnull", "select(. != null)"}} {
			add(mkMapValues(b, in, "fixed-inputs", false))
		}
	}
	return out
}

// Package corpus extracts (query, inputs) pairs from /repo/cli/test.yaml without a
// YAML library: only the entries whose arguments are one query plus harmless output
// flags are used (everything else is skipped), which is all the C05/C06 searches need —
// a sample of real-world queries, not the expected outputs.
package corpus

import (
	"bufio"
	"encoding/json"
	"os"
	"path/filepath"
	"strconv"
	"strings"

	"verifharness/common"
)

// Entry is one usable test of cli/test.yaml.
type Entry struct {
	Name   string
	Query  string
	Inputs []any // decoded JSON inputs ([nil] for -n)
}

type raw struct {
	name     string
	args     []string
	input    string
	hasInput bool
	hasEnv   bool
}

// Load parses $VERIF_REPO/cli/test.yaml (default /repo).
func Load() []Entry {
	repo := common.Getenv("VERIF_REPO", "/repo")
	f, err := os.Open(filepath.Join(repo, "cli", "test.yaml"))
	if err != nil {
		return nil
	}
	defer f.Close()
	var lines []string
	sc := bufio.NewScanner(f)
	sc.Buffer(make([]byte, 1<<20), 1<<26)
	for sc.Scan() {
		lines = append(lines, strings.TrimRight(sc.Text(), "\r"))
	}
	var raws []*raw
	var cur *raw
	for i := 0; i < len(lines); i++ {
		l := lines[i]
		switch {
		case strings.HasPrefix(l, "- name:"):
			cur = &raw{name: strings.TrimSpace(strings.TrimPrefix(l, "- name:"))}
			raws = append(raws, cur)
		case cur == nil:
		case l == "  args:":
			for i+1 < len(lines) && strings.HasPrefix(lines[i+1], "    - ") {
				i++
				s, ni, ok := scalar(lines, i, strings.TrimPrefix(lines[i], "    - "), 6)
				i = ni
				if !ok {
					cur.args = append(cur.args, "\x00unparsed")
					continue
				}
				cur.args = append(cur.args, s)
			}
		case strings.HasPrefix(l, "  input:"):
			s, ni, ok := scalar(lines, i, strings.TrimSpace(strings.TrimPrefix(l, "  input:")), 4)
			i = ni
			if ok {
				cur.input, cur.hasInput = s, true
			}
		case strings.HasPrefix(l, "  env:"):
			cur.hasEnv = true
		}
	}
	var out []Entry
	for _, r := range raws {
		if r.hasEnv {
			continue
		}
		query, null, ok := "", false, true
		nq := 0
		for _, a := range r.args {
			switch {
			case a == "-n" || a == "--null-input":
				null = true
			case a == "-c" || a == "-r" || a == "-j" || a == "-a" || a == "-S" || a == "-M" || a == "--tab" || a == "-e":
			case strings.HasPrefix(a, "-") || strings.HasPrefix(a, "\x00"):
				ok = false
			default:
				query = a
				nq++
			}
		}
		if !ok || nq != 1 || strings.TrimSpace(query) == "" {
			continue
		}
		e := Entry{Name: r.name, Query: query}
		if null || !r.hasInput {
			e.Inputs = []any{nil}
		} else {
			dec := json.NewDecoder(strings.NewReader(r.input))
			dec.UseNumber()
			bad := false
			for {
				var v any
				if err := dec.Decode(&v); err != nil {
					if err.Error() != "EOF" {
						bad = true
					}
					break
				}
				e.Inputs = append(e.Inputs, normalize(v))
			}
			if bad || len(e.Inputs) == 0 {
				continue
			}
		}
		out = append(out, e)
	}
	return out
}

// normalize turns json.Number leaves into gojq's own carriers (int / *big.Int / float64).
func normalize(v any) any {
	switch v := v.(type) {
	case json.Number:
		return common.NormalizeNumber(v)
	case []any:
		for i, x := range v {
			v[i] = normalize(x)
		}
		return v
	case map[string]any:
		for k, x := range v {
			v[k] = normalize(x)
		}
		return v
	}
	return v
}

// scalar decodes the YAML scalar that starts with text s on line i; block scalars
// continue on the following lines indented by at least `indent` spaces.
func scalar(lines []string, i int, s string, indent int) (string, int, bool) {
	switch {
	case s == "|" || s == "|-" || s == "|+":
		var sb strings.Builder
		pad := strings.Repeat(" ", indent)
		for i+1 < len(lines) && (strings.HasPrefix(lines[i+1], pad) || strings.TrimSpace(lines[i+1]) == "") {
			if strings.TrimSpace(lines[i+1]) == "" {
				// a blank line ends the entry unless more block lines follow
				j := i + 2
				for j < len(lines) && strings.TrimSpace(lines[j]) == "" {
					j++
				}
				if j >= len(lines) || !strings.HasPrefix(lines[j], pad) {
					break
				}
			}
			i++
			sb.WriteString(strings.TrimPrefix(lines[i], pad))
			sb.WriteByte('\n')
		}
		r := sb.String()
		if s == "|-" {
			r = strings.TrimRight(r, "\n")
		}
		return r, i, true
	case strings.HasPrefix(s, "'"):
		if len(s) < 2 || !strings.HasSuffix(s, "'") {
			return "", i, false
		}
		return strings.ReplaceAll(s[1:len(s)-1], "''", "'"), i, true
	case strings.HasPrefix(s, "\""):
		r, err := strconv.Unquote(s)
		if err != nil {
			return "", i, false
		}
		return r, i, true
	case strings.HasPrefix(s, ">") || strings.HasPrefix(s, "&") || strings.HasPrefix(s, "*") || strings.HasPrefix(s, "!"):
		return "", i, false
	}
	return s, i, true
}

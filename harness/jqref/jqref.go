// Package jqref: the jq-defined builtins against an independent implementation of jq.
//
// The model evaluates jq-defined builtins from the AST shipped in builtin.go (regenerated every
// run), so a change to a DEFINITION (builtin.jq + builtin.go kept consistent) moves the model
// and the implementation together and no correspondence stream can see it. This oracle probes
// every jq-defined builtin with generator arguments that make every resumption observable
// (outputs followed by an error, by empty, by more outputs) and compares gojq's output sequence
// and termination with the jq 1.6 binary of the sandbox. jq 1.6 and gojq differ by design on a
// number of builtins (gojq follows later jq versions); the probes on which they differ ON THE
// PINNED TREE are listed by hash in /verif/jqref-baseline.txt (written once, by hand-run, never at
// check time) and are not judged. A probe that differs and is not in the baseline is a violation:
// a builtin no longer behaves as jq's does.
//
// Probes are enumerated deterministically (independent of VERIF_SEED) so that the baseline
// covers exactly the probes of every run.
package jqref

import (
	"bufio"
	"crypto/sha1"
	"encoding/hex"
	"fmt"
	"os"
	"path/filepath"
	"sort"
	"strings"
	"sync"

	"github.com/itchyny/gojq"

	"verifharness/common"
)

type Probe struct {
	Src   string
	Input any
}

func (p Probe) Hash() string {
	h := sha1.Sum([]byte(p.Src + "\x00" + common.Canon(p.Input)))
	return hex.EncodeToString(h[:8])
}

var closures = []string{".", ".[]?", "(1, 2, 3)", "(1, 2, error(\"x\"))", "empty", "error(\"y\")", "1", "\"a\"", ".a?", "(.[]? | select(. != null))", "(0, 1)", "null", "(., .)", "(3, 1, 2, error(\"z\"))", "type", "length?", "(.[]?, error(\"w\"))", "[.]", "(true, false)", "(false, null, 1)"}
var values = []string{"0", "1", "2", "-1", "3", "\"a\"", "null", "(1, 2)", "[0]", "[\"a\"]", "{\"a\": 1}", "1.5", "\"\"", "(0, 2)", "[]", "[[0]]", "true"}
var inputs = []any{nil, []any{1, []any{2}}, map[string]any{"a": []any{1, 2}, "b": nil}, "ab", 3, []any{0, 1, 2, 3}, []any{}, []any{map[string]any{"a": 1}, map[string]any{"a": 2}}, []any{nil, false, 1}, "a,b, c", []any{"a", "b"}, map[string]any{}}

var skip = map[string]bool{"input": true, "inputs": true, "debug": true, "stderr": true, "halt": true, "halt_error": true, "input_line_number": true, "env": true, "now": true, "localtime": true, "mktime": true, "gmtime": true, "todate": true, "fromdate": true, "date": true, "dateadd": true, "datesub": true,
	"strftime": true, "strflocaltime": true, "strptime": true, "todateiso8601": true, "fromdateiso8601": true, "dateiso8601": true, "get_search_list": true, "input_filename": true, "$__loc__": true, "ltrimstr": false, "repeat": false, "range": false, "getpath": false, "ascii": true, "@base32d": true, "tojson": false,
	"limit": false, "until": false, "while": false, "recurse": false, "combinations": false, "walk": false, "env.": true, "builtins": true, "splits": false, "ascii_downcase": false, "significand": true, "gamma": true, "drem": true, "ldexp": true, "scalb": true, "scalbln": true, "nearbyint": true, "trunc": true, "frexp": true, "modf": true, "lgamma_r": true, "logb": true, "pow10": true, "getpath/1": false, "error": false, "add": false, "have_literal_numbers": true, "have_decnum": true, "abs": true, "toarray": true, "pick": true, "trim": true, "ltrim": true, "rtrim": true, "trimstr": true, "ltrimstr/1": false, "splits/1": false, "getpath/2": true, "paths/1": false, "implode": false, "tostream": false, "fromstream": false, "truncate_stream": false, "limit/2": false, "first/1": false, "isempty": false, "IN": false, "INDEX": false, "GROUP_BY": true, "UNIQUE_BY": true, "ascii/0": true, "@json": false, "getpath/0": true, "env/0": true, "halt_error/1": true, "input_line_number/0": true, "$ENV": true, "debug/1": true, "scan/2": false, "have": true, "ltrimstr/2": true}

// Probes enumerates the probe programs for the jq-defined builtins of the tree under test.
func Probes() []Probe {
	defs := gojq.VerifBuiltinFuncDefs()
	var names []string
	for n := range defs {
		names = append(names, n)
	}
	sort.Strings(names)
	var out []Probe
	seen := map[string]bool{}
	k := 0
	for _, name := range names {
		if skip[name] || strings.HasPrefix(name, "_") {
			continue
		}
		for _, fd := range defs[name] {
			n := len(fd.Args)
			// argument tuples: a deterministic stride through the product of candidates
			cands := make([][]string, n)
			total := 1
			for i, a := range fd.Args {
				if strings.HasPrefix(a, "$") {
					cands[i] = values
				} else {
					cands[i] = closures
				}
				total *= len(cands[i])
			}
			want := 48
			if n == 0 {
				want = 1
			}
			stride := total/want + 1
			for t := (k * 7) % stride; t < total; t += stride {
				args := make([]string, n)
				x := t
				for i := range args {
					args[i] = cands[i][x%len(cands[i])]
					x /= len(cands[i])
				}
				call := name
				if n > 0 {
					call += "(" + strings.Join(args, "; ") + ")"
				}
				for j := 0; j < 3; j++ {
					in := inputs[(k+j*5)%len(inputs)]
					k++
					src := call
					if j == 2 {
						src = "try (" + call + ") catch \"caught\""
					}
					key := src + "\x00" + common.Canon(in)
					if !seen[key] {
						seen[key] = true
						out = append(out, Probe{src, in})
					}
				}
			}
		}
	}
	return out
}

func baselinePath() string {
	return filepath.Join(common.Getenv("VERIF_DIR", "/verif"), "jqref-baseline.txt")
}

func loadBaseline() map[string]bool {
	m := map[string]bool{}
	f, err := os.Open(baselinePath())
	if err != nil {
		return m
	}
	defer f.Close()
	sc := bufio.NewScanner(f)
	for sc.Scan() {
		l := strings.TrimSpace(sc.Text())
		if l == "" || l[0] == '#' {
			continue
		}
		m[strings.Fields(l)[0]] = true
	}
	return m
}

type result struct {
	p        Probe
	gojq, jq string
	ok       bool
}

// Run probes every jq-defined builtin. Violations are reported under keys `jqref:<probe>`.
func Run(ctx *common.Ctx) {
	orc := ctx.NewOracle("jq-reference", "every jq-defined builtin of builtin.go (names from the shipped table) called with generator arguments that make each resumption observable (outputs followed by an error / by nothing / by more outputs; value arguments incl. generators) on 12 inputs, bare and under try: gojq's output sequence and termination against the jq 1.6 binary; probes on which the two differ on the pinned tree are listed in jqref-baseline.txt and not judged; probes jq 1.6 cannot compile are skipped; distinct = probes judged")
	if !common.JqAvailable() {
		ctx.Res.Notes = append(ctx.Res.Notes, "jq-reference: /usr/bin/jq not available, oracle skipped")
		return
	}
	probes := Probes()
	base := loadBaseline()
	res := make([]result, len(probes))
	var wg sync.WaitGroup
	sem := make(chan struct{}, 12)
	for i, p := range probes {
		o := common.RunSrc(p.Src, common.DeepCopy(p.Input), 200000, 60)
		if o.Budget || o.Panic != "" || o.ParseErr != nil || o.CompErr != nil {
			continue
		}
		g, ok := common.CoarseOutcome(common.CanonOutcome(o))
		if !ok {
			continue
		}
		res[i] = result{p: p, gojq: g}
		wg.Add(1)
		sem <- struct{}{}
		go func(i int) {
			defer wg.Done()
			defer func() { <-sem }()
			res[i].jq, res[i].ok = common.JqOutcome(probes[i].Src, probes[i].Input)
		}(i)
	}
	wg.Wait()
	var write []string
	for _, r := range res {
		if !r.ok {
			if r.gojq != "" {
				orc.Distribution["skipped:jq-cannot-run"]++
			}
			continue
		}
		orc.Cases++
		h := r.p.Hash()
		switch {
		case r.gojq == r.jq:
			orc.Distribution["agree"]++
		case base[h]:
			orc.Distribution["known-difference-from-jq-1.6"]++
		default:
			orc.Distribution["DIFFER"]++
			write = append(write, fmt.Sprintf("%s  %s  ON %s", h, r.p.Src, common.Canon(r.p.Input)))
			if os.Getenv("VERIF_JQREF_WRITE") == "" {
				ctx.Violate("jqref:"+r.p.Src+":"+common.Canon(r.p.Input), fmt.Sprintf("builtin behaves differently from jq: `%s` on %s gives %s, jq 1.6 gives %s", r.p.Src, common.Canon(r.p.Input), clip(r.gojq), clip(r.jq)),
					map[string]any{"query": r.p.Src, "input": common.Canon(r.p.Input), "gojq": r.gojq, "jq1.6": r.jq, "cmd": "gojq -c '" + r.p.Src + "'  vs  jq -c '" + r.p.Src + "'"})
			}
		}
	}
	orc.Distinct = orc.Cases
	if p := os.Getenv("VERIF_JQREF_WRITE"); p != "" {
		// development only: (re)write the baseline of differences on the pinned tree
		sort.Strings(write)
		os.WriteFile(p, []byte("# probes of harness/jqref on which jq 1.6 and gojq differ on the pinned tree (hash, program, input); not judged\n"+strings.Join(write, "\n")+"\n"), 0o644)
	}
}

func clip(s string) string {
	if len(s) > 300 {
		return s[:300] + "…"
	}
	return s
}

package common

import (
	"encoding/json"
	"flag"
	"fmt"
	"os"
	"sort"
	"strconv"
)

// Disagreement is one protocol line on which model and implementation differ.
type Disagreement struct {
	Line  string `json:"line"`
	Model string `json:"model"`
	Impl  string `json:"impl"`
}

// Stream records what one correspondence stream covered in this run.
type Stream struct {
	Name          string         `json:"name"`
	Validates     string         `json:"validates"` // the model definition this stream ties to the code
	Cases         int            `json:"cases"`
	Compared      int            `json:"compared"`
	Unmodelled    int            `json:"unmodelled"`
	Distinct      int            `json:"distinct_nontrivial"`
	Rule          string         `json:"rule"`
	Disagreements int            `json:"disagreements"`
	First         []Disagreement `json:"first_disagreements,omitempty"`
	Distribution  map[string]int `json:"distribution,omitempty"`
	Samples       []string       `json:"samples,omitempty"`
	Exhaustive    bool           `json:"exhaustive,omitempty"`
	// Labels, when set (same length as the lines), are human-readable renderings of the
	// protocol lines used in disagreement reports.
	Labels []string `json:"-"`
	// Why counts the reasons the model gave for not covering a case.
	Why map[string]int `json:"unmodelled_reasons,omitempty"`
	// Dis: the first disagreements by line index with both answers unclipped, for a
	// property-specific search that tries to confirm a failing input independently.
	Dis []DisRef `json:"-"`
}

// DisRef points at one disagreeing protocol line.
type DisRef struct {
	Idx         int
	Model, Impl string
}

// Violation is a concrete input on which the REAL code breaks the property.
type Violation struct {
	Key      string         `json:"key"`  // stable identity used by known-findings.txt
	What     string         `json:"what"` // one line
	Replay   map[string]any `json:"replay"`
	Shrunk   bool           `json:"shrunk,omitempty"`
	Category string         `json:"category,omitempty"`
}

// Oracle records what a model-free property oracle covered.
type Oracle struct {
	Name         string         `json:"name"`
	Cases        int            `json:"cases"`
	Distinct     int            `json:"distinct_nontrivial"`
	Rule         string         `json:"rule"`
	Distribution map[string]int `json:"distribution,omitempty"`
	Samples      []string       `json:"samples,omitempty"`
	Exhaustive   bool           `json:"exhaustive,omitempty"`
}

// Result is what a property harness hands to bin/check.
type Result struct {
	Property   string      `json:"property"`
	Tier       string      `json:"tier"`
	Seed       uint64      `json:"seed"`
	Streams    []*Stream   `json:"streams"`
	Oracles    []*Oracle   `json:"oracles"`
	Violations []Violation `json:"violations"`
	Notes      []string    `json:"notes,omitempty"`
	Errors     []string    `json:"errors,omitempty"` // harness-level failures (driver crashed …)
}

// Ctx is the run context parsed from the common flags.
type Ctx struct {
	Tier     string
	Seed     uint64
	Driver   string // path of the Lean driver executable
	Out      string
	Replay   string
	Thorough bool
	R        *Rand
	Res      *Result
	seen     map[string]bool
}

// ParseFlags handles the flags every property harness accepts.
func ParseFlags(property string) *Ctx {
	c := &Ctx{}
	flag.StringVar(&c.Tier, "tier", Getenv("VERIF_TIER", "quick"), "quick|thorough")
	seed := flag.String("seed", Getenv("VERIF_SEED", "1"), "seed")
	flag.StringVar(&c.Driver, "driver", "", "Lean driver executable")
	flag.StringVar(&c.Out, "out", "", "result JSON path")
	flag.StringVar(&c.Replay, "replay", "", "replay file to re-run")
	flag.Parse()
	s, err := strconv.ParseUint(*seed, 10, 64)
	if err != nil {
		// accept negative / arbitrary text seeds deterministically
		for _, ch := range *seed {
			s = s*131 + uint64(ch)
		}
	}
	c.Seed = s
	c.Thorough = c.Tier == "thorough"
	c.R = NewRand(s)
	c.Res = &Result{Property: property, Tier: c.Tier, Seed: s}
	c.seen = map[string]bool{}
	return c
}

// N picks a case count by tier.
func (c *Ctx) N(quick, thorough int) int {
	if c.Thorough {
		return thorough
	}
	return quick
}

func (c *Ctx) NewStream(name, validates, rule string) *Stream {
	s := &Stream{Name: name, Validates: validates, Rule: rule, Distribution: map[string]int{}}
	c.Res.Streams = append(c.Res.Streams, s)
	return s
}

func (c *Ctx) NewOracle(name, rule string) *Oracle {
	o := &Oracle{Name: name, Rule: rule, Distribution: map[string]int{}}
	c.Res.Oracles = append(c.Res.Oracles, o)
	return o
}

// Violate records a violation once per key.
func (c *Ctx) Violate(key, what string, replay map[string]any) {
	if c.seen["v:"+key] {
		return
	}
	c.seen["v:"+key] = true
	if len(c.Res.Violations) < 50 {
		c.Res.Violations = append(c.Res.Violations, Violation{Key: key, What: what, Replay: replay})
	}
}

func (c *Ctx) Errorf(format string, a ...any) {
	c.Res.Errors = append(c.Res.Errors, fmt.Sprintf(format, a...))
}

// Compare diffs model answers against implementation answers for a stream.
// An answer starting with "?" from the model means "not modelled": skipped and counted.
func (s *Stream) Compare(lines, impl, model []string) {
	distinct := map[string]bool{}
	for i := range lines {
		s.Cases++
		if i >= len(model) {
			break
		}
		if len(model[i]) > 0 && model[i][0] == '?' {
			s.Unmodelled++
			if s.Why == nil {
				s.Why = map[string]int{}
			}
			why := model[i]
			if len(why) > 60 {
				why = why[:60]
			}
			s.Why[why]++
			continue
		}
		s.Compared++
		distinct[impl[i]] = true
		if impl[i] != model[i] {
			s.Disagreements++
			if len(s.Dis) < 200 {
				s.Dis = append(s.Dis, DisRef{i, model[i], impl[i]})
			}
			if len(s.First) < maxFirst() {
				l := lines[i]
				if i < len(s.Labels) {
					l = s.Labels[i] + "   [" + clip(lines[i]) + "]"
				}
				s.First = append(s.First, Disagreement{Line: l, Model: clip(model[i]), Impl: clip(impl[i])})
			}
		}
		if len(s.Samples) < 3 && i%(len(lines)/3+1) == 0 {
			s.Samples = append(s.Samples, clip(lines[i])+" => "+clip(impl[i]))
		}
	}
	s.Distinct += len(distinct)
}

func maxFirst() int {
	if os.Getenv("VERIF_DEBUG") != "" {
		return 200
	}
	return 5
}

func clip(s string) string {
	if len(s) > 600 {
		return s[:600] + "…"
	}
	return s
}

// RunStream sends lines to the driver (with stream name as argument) and compares.
func (c *Ctx) RunStream(s *Stream, lines, impl []string) {
	if len(lines) == 0 {
		return
	}
	model, err := RunDriver(c.Driver, []string{s.Name}, lines)
	if err != nil {
		c.Errorf("stream %s: %v", s.Name, err)
		return
	}
	s.Compare(lines, impl, model)
}

// Finish writes the result file and exits 0 (bin/check decides the verdict).
func (c *Ctx) Finish() {
	for _, s := range c.Res.Streams {
		s.Distribution = trimDist(s.Distribution)
		s.Why = trimDist(s.Why)
	}
	for _, o := range c.Res.Oracles {
		o.Distribution = trimDist(o.Distribution)
	}
	b, _ := json.MarshalIndent(c.Res, "", " ")
	if c.Out == "" {
		os.Stdout.Write(b)
		os.Stdout.WriteString("\n")
	} else if err := os.WriteFile(c.Out, b, 0o644); err != nil {
		fmt.Fprintln(os.Stderr, err)
		os.Exit(2)
	}
	os.Exit(0)
}

func trimDist(m map[string]int) map[string]int {
	if len(m) <= 60 {
		return m
	}
	type kv struct {
		k string
		v int
	}
	var xs []kv
	for k, v := range m {
		xs = append(xs, kv{k, v})
	}
	sort.Slice(xs, func(i, j int) bool { return xs[i].v > xs[j].v || xs[i].v == xs[j].v && xs[i].k < xs[j].k })
	out := map[string]int{}
	for _, x := range xs[:60] {
		out[x.k] = x.v
	}
	out["(other keys)"] = len(xs) - 60
	return out
}

package common

import (
	"encoding/json"
	"math"
	"math/big"
	"strings"
)

func pow2(k uint) *big.Int { return new(big.Int).Lsh(big.NewInt(1), k) }

// NormInt returns int when z fits, else *big.Int (gojq's own normal form).
func NormInt(z *big.Int) any {
	if z.IsInt64() {
		return int(z.Int64())
	}
	return z
}

// BoundaryInts is the boundary set of C10: 0, ±1, ±2^k, ±2^k±1 for k ≤ 130,
// int64 extremes and neighbours, neighbours of sqrt(2^63).
func BoundaryInts() []*big.Int {
	var out []*big.Int
	seen := map[string]bool{}
	add := func(z *big.Int) {
		if !seen[z.String()] {
			seen[z.String()] = true
			out = append(out, new(big.Int).Set(z))
		}
		n := new(big.Int).Neg(z)
		if !seen[n.String()] {
			seen[n.String()] = true
			out = append(out, n)
		}
	}
	add(big.NewInt(0))
	for k := uint(0); k <= 130; k++ {
		p := pow2(k)
		add(p)
		add(new(big.Int).Add(p, big.NewInt(1)))
		add(new(big.Int).Sub(p, big.NewInt(1)))
	}
	for _, s := range []string{"3037000499", "3037000500", "3037000501", "9223372036854775806", "9223372036854775807", "9223372036854775808", "9223372036854775809", "4294967296", "2147483647", "2147483648", "10", "7", "3", "100", "1000000007"} {
		z, _ := new(big.Int).SetString(s, 10)
		add(z)
	}
	return out
}

// RandInt draws an integer of 1..40 decimal digits, biased to boundaries.
func RandInt(r *Rand) *big.Int {
	if r.Chance(1, 3) {
		return Pick(r, BoundaryInts())
	}
	digits := r.Range(1, 40)
	z := new(big.Int)
	for i := 0; i < digits; i++ {
		z.Mul(z, big.NewInt(10))
		z.Add(z, big.NewInt(int64(r.Intn(10))))
	}
	if r.Bool() {
		z.Neg(z)
	}
	return z
}

// InterestingFloats covers the format thresholds and rounding boundaries.
func InterestingFloats() []float64 {
	fs := []float64{0, math.Copysign(0, -1), 1, -1, 0.5, 1.5, -1.5, 0.1, 0.2, 0.3, 1e-7, 1e-6, 9.999999e-7, 1e21, 1e20, 9.99e20,
		1e-9, 1.5e-9, 1e-10, 1e100, 1e-100, 1e308, math.MaxFloat64, -math.MaxFloat64, math.SmallestNonzeroFloat64, 2.2250738585072014e-308,
		2.225073858507201e-308, 9007199254740992, 9007199254740993, 9007199254740991, -9007199254740992, 4503599627370496.5,
		9223372036854775807, 9223372036854775808, -9223372036854775808, 18446744073709551616, 1e19, 123456789012345680000,
		3.14159, 2.5, 3.5, -2.5, 100, 255, 256, 65536, 1e15, 1e16, 1e17, 123456.789, 5e-324, 1.7976931348623157e308}
	return fs
}

func RandFloat(r *Rand) float64 {
	switch r.Intn(6) {
	case 0:
		return Pick(r, InterestingFloats())
	case 1:
		return float64(r.Range(-1000, 1000)) / float64(Pick(r, []int{1, 2, 4, 8, 10, 3, 7, 100}))
	case 2:
		// random bit pattern, finite
		for {
			f := math.Float64frombits(r.U64())
			if !math.IsNaN(f) && !math.IsInf(f, 0) {
				return f
			}
		}
	case 3:
		return math.Ldexp(float64(r.Range(1, 1<<20)), r.Range(-1080, 1000))
	case 4:
		return float64(int64(r.U64())) // integral, large
	default:
		return float64(r.Range(-20, 20))
	}
}

// Strings of the universe: ASCII, multi-byte, control bytes, invalid UTF-8.
func UniverseStrings() []string {
	return []string{"", "a", "b", "ab", "abc", "A", "a b", "é", "漢字", "😀", "é", "\x00", "\x1f", "\x7f", "\"", "\\", "\n", "\t",
		"a\"b\\c", "\xff", "\xc3", "\xe6\xbc", "a\xffb", "\xed\xa0\x80", "\xf0\x9f", "<>&'", " ", "0", "1", "-1", "1.5", "null", "true", "[1]", "{\"a\":1}",
		"abcabc", "aXbXc", ",", ", ", "a,b, c", "  pad  ", "ABC", "abcdefghijklmnopqrstuvwxyz0123456789abcdefghijklmnopqrstuvwxyz"}
}

// Universe is the fixed value universe (DESIGN §4.2): every type, empty /
// singleton / nested containers, boundary numbers, strings of every byte class.
// withNonFinite adds NaN and ±Inf.
func Universe(withNonFinite bool) []any {
	var u []any
	u = append(u, nil, false, true)
	for _, z := range []string{"0", "1", "-1", "2", "3", "10", "-7", "255", "9007199254740992", "9007199254740993", "-9007199254740993",
		"9223372036854775807", "-9223372036854775808", "9223372036854775808", "-9223372036854775809", "18446744073709551616",
		"340282366920938463463374607431768211456", "-340282366920938463463374607431768211457", "3037000500", "4611686018427387904"} {
		b, _ := new(big.Int).SetString(z, 10)
		u = append(u, NormInt(b))
	}
	for _, f := range []float64{0.5, -0.5, 1.5, 2.5, 0.1, 1e-7, 1e21, 1e100, -1e100, 3.0, math.Copysign(0, -1), 9007199254740992, 9223372036854775808, 1e19, 1.7976931348623157e308, 5e-324, 1e-9} {
		u = append(u, f)
	}
	if withNonFinite {
		u = append(u, math.NaN(), math.Inf(1), math.Inf(-1))
	}
	for _, s := range UniverseStrings() {
		u = append(u, s)
	}
	u = append(u,
		[]any{}, []any{nil}, []any{0}, []any{1}, []any{1, 2}, []any{2, 1}, []any{1, 2, 3}, []any{"a"}, []any{"a", "b"}, []any{[]any{}}, []any{[]any{1}},
		[]any{[]any{1, 2}, []any{3}}, []any{map[string]any{}}, []any{map[string]any{"a": 1}}, []any{nil, false, true, 0, "", []any{}, map[string]any{}},
		[]any{1, 1.5, "a", nil}, []any{3, 1, 2, 1, 3}, []any{"b", "a", "c", "a"}, []any{0, 1, 2, 3, 4, 5, 6, 7, 8, 9}, []any{[]any{[]any{[]any{1}}}},
		[]any{1, []any{2, []any{3, []any{4}}}}, []any{map[string]any{"a": 1, "b": 2}, map[string]any{"a": 3, "b": 4}}, []any{"a", 1}, []any{0, 1},
		[]any{1, 2, 1, 2, 1}, []any{[]any{1, 2}, []any{1, 2}}, []any{[]any{"a", 1}, []any{"b", 2}},
		map[string]any{}, map[string]any{"a": 1}, map[string]any{"a": nil}, map[string]any{"b": 2}, map[string]any{"a": 1, "b": 2}, map[string]any{"a": 2, "b": 1},
		map[string]any{"a": map[string]any{"b": 1}}, map[string]any{"a": map[string]any{"b": map[string]any{"c": nil}}}, map[string]any{"a": []any{1, 2}},
		map[string]any{"a": []any{}, "b": map[string]any{}}, map[string]any{"": 0}, map[string]any{"é": 1, "z": 2, "a b": 3}, map[string]any{"a\"b": 1, "\n": 2},
		map[string]any{"key": "k", "value": "v"}, map[string]any{"name": "n", "value": 1}, map[string]any{"k": "a", "v": 1},
		map[string]any{"a": 1, "b": []any{1, map[string]any{"c": 2}}, "d": "x"}, map[string]any{"x": 1.5, "y": "s", "z": nil},
		map[string]any{"0": 0, "1": 1, "10": 10, "2": 2}, map[string]any{"a": []any{map[string]any{"b": 1}, map[string]any{"b": 2}}},
		map[string]any{"start": 1, "end": 2}, map[string]any{"start": nil, "end": 1},
	)
	return u
}

// SmallUniverse is a reduced set for cubes.
func SmallUniverse() []any {
	return []any{nil, false, true, 0, 1, -1, 2, 1.5, -0.5, 9223372036854775807, NormInt(pow2(64)), 1e19, "", "a", "ab", "é", "a,b", "\xff",
		[]any{}, []any{1}, []any{1, 2}, []any{"a", "b"}, []any{[]any{1}, []any{2}}, []any{nil, 1, "a"}, []any{0, 1, 2, 3, 4},
		map[string]any{}, map[string]any{"a": 1}, map[string]any{"a": 1, "b": 2}, map[string]any{"a": map[string]any{"b": 1}}, map[string]any{"a": []any{1, 2}}}
}

// GenOpts tunes RandValue.
type GenOpts struct {
	NonFinite bool // allow NaN/Inf
	Floats    bool // allow non-integral floats
	BigInts   bool
	BadUTF8   bool
	MaxDepth  int
	MaxWidth  int
	SmallKeys bool // keys from a tiny alphabet so that paths collide
}

var DefaultGen = GenOpts{Floats: true, BigInts: true, BadUTF8: true, MaxDepth: 4, MaxWidth: 4, SmallKeys: true}

func RandString(r *Rand, badUTF8 bool) string {
	if r.Chance(1, 3) {
		for {
			s := Pick(r, UniverseStrings())
			if badUTF8 || validUTF8(s) {
				return s
			}
		}
	}
	n := r.Intn(6)
	alphabet := []string{"a", "b", "c", "x", " ", "é", "漢", "😀", "́", "\n", "\"", "\\", "\x01", ",", "0", "A"}
	if badUTF8 {
		alphabet = append(alphabet, "\xff", "\xc3", "\x80")
	}
	s := ""
	for i := 0; i < n; i++ {
		s += Pick(r, alphabet)
	}
	return s
}

func validUTF8(s string) bool {
	for _, c := range s {
		if c == 0xFFFD {
			return false
		}
	}
	return true
}

func RandKey(r *Rand, o GenOpts) string {
	if o.SmallKeys || r.Chance(2, 3) {
		return Pick(r, []string{"a", "b", "c", "x", "y", "", "é", "a b", "key", "value", "name", "0", "1", "start", "end"})
	}
	return RandString(r, false)
}

func RandNumber(r *Rand, o GenOpts) any {
	switch r.Intn(6) {
	case 0, 1, 2:
		return r.Range(-5, 12)
	case 3:
		if o.BigInts {
			return NormInt(RandInt(r))
		}
		return r.Range(-1000, 1000)
	case 4:
		if o.Floats {
			f := RandFloat(r)
			return f
		}
		return r.Range(-3, 3)
	default:
		if o.NonFinite && r.Chance(1, 2) {
			return Pick(r, []float64{math.NaN(), math.Inf(1), math.Inf(-1)})
		}
		if o.Floats {
			return Pick(r, []float64{0.5, 1.5, -0.5, 2.5, 1e300})
		}
		return 0
	}
}

// RandValue draws a random nested value.
func RandValue(r *Rand, o GenOpts, depth int) any {
	k := r.Intn(10)
	if depth >= o.MaxDepth && k >= 6 {
		k = r.Intn(6)
	}
	switch k {
	case 0:
		return nil
	case 1:
		return r.Bool()
	case 2, 3:
		return RandNumber(r, o)
	case 4, 5:
		return RandString(r, o.BadUTF8)
	case 6, 7:
		n := r.Intn(o.MaxWidth + 1)
		xs := make([]any, n)
		for i := range xs {
			xs[i] = RandValue(r, o, depth+1)
		}
		return xs
	default:
		n := r.Intn(o.MaxWidth + 1)
		m := make(map[string]any, n)
		for i := 0; i < n; i++ {
			m[RandKey(r, o)] = RandValue(r, o, depth+1)
		}
		return m
	}
}

// Carriers returns every Go representation of the same JSON value that the
// library accepts at the top level: ints as int / *big.Int / json.Number, floats
// as float64 / json.Number (when the text round-trips). Containers are rebuilt
// with each leaf-carrier policy applied uniformly.
func Carriers(v any) []any {
	out := []any{v}
	for policy := 1; policy <= 3; policy++ {
		w, changed := recarrier(v, policy)
		if changed {
			out = append(out, w)
		}
	}
	return out
}

func recarrier(v any, policy int) (any, bool) {
	switch v := v.(type) {
	case int:
		if policy == 1 {
			return big.NewInt(int64(v)), true
		}
		if policy == 3 {
			// policy 3: spellings a JSON text may use that are not the canonical one
			if v == 0 {
				return json.Number("-0"), true
			}
			return v, false
		}
		return json.Number(big.NewInt(int64(v)).String()), true
	case *big.Int:
		if policy == 2 {
			return json.Number(v.String()), true
		}
		return v, false
	case float64:
		if policy == 2 && !math.IsNaN(v) && !math.IsInf(v, 0) {
			b, _ := json.Marshal(v)
			s := string(b)
			// keep it a float literal
			hasFrac := false
			for _, c := range s {
				if c == '.' || c == 'e' || c == 'E' {
					hasFrac = true
				}
			}
			if !hasFrac {
				s += ".0"
			}
			return json.Number(s), true
		}
		if policy == 3 && !math.IsNaN(v) && !math.IsInf(v, 0) {
			b, _ := json.Marshal(v)
			s := string(b)
			if strings.ContainsAny(s, "eE") {
				// 1e+21 -> 1.0E21 style: same value, other spelling
				s = strings.Replace(strings.Replace(s, "e+", "E", 1), "e-", "E-", 1)
			} else if strings.Contains(s, ".") {
				s += "00"
			} else {
				s += "e0"
			}
			return json.Number(s), true
		}
		return v, false
	case []any:
		ch := false
		xs := make([]any, len(v))
		for i, x := range v {
			var c bool
			xs[i], c = recarrier(x, policy)
			ch = ch || c
		}
		return xs, ch
	case map[string]any:
		ch := false
		m := make(map[string]any, len(v))
		for k, x := range v {
			var c bool
			m[k], c = recarrier(x, policy)
			ch = ch || c
		}
		return m, ch
	}
	return v, false
}

// DeepCopy copies containers (leaves shared).
func DeepCopy(v any) any {
	switch v := v.(type) {
	case []any:
		xs := make([]any, len(v))
		for i, x := range v {
			xs[i] = DeepCopy(x)
		}
		return xs
	case map[string]any:
		m := make(map[string]any, len(v))
		for k, x := range v {
			m[k] = DeepCopy(x)
		}
		return m
	case *big.Int:
		return new(big.Int).Set(v)
	}
	return v
}

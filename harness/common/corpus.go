package common

import (
	"bytes"
	"encoding/json"
	"os"
	"path/filepath"
	"strings"

	"github.com/itchyny/go-yaml"
	"github.com/itchyny/gojq"
)

// CorpusCase is one case of /repo/cli/test.yaml reduced to what library-level
// streams can use: the query text and the JSON inputs (if the case's input parses as a
// stream of JSON documents).
type CorpusCase struct {
	Name   string
	Query  string
	Args   []string
	Inputs []any
	RawIn  string
}

// RepoDir is the repository the check runs against.
func RepoDir() string { return Getenv("VERIF_REPO", "/repo") }

// Corpus loads cli/test.yaml. Only cases whose args contain exactly one non-flag
// argument that parses as a query (or none: default ".") are returned.
func Corpus() []CorpusCase {
	b, err := os.ReadFile(filepath.Join(RepoDir(), "cli", "test.yaml"))
	if err != nil {
		return nil
	}
	var tcs []struct {
		Name  string
		Args  []string
		Input string
	}
	if err := yaml.NewDecoder(bytes.NewReader(b)).Decode(&tcs); err != nil {
		return nil
	}
	var out []CorpusCase
	for _, tc := range tcs {
		q := ""
		found := false
		skipNext := false
		ok := true
		for _, a := range tc.Args {
			if skipNext {
				skipNext = false
				continue
			}
			if strings.HasPrefix(a, "-") && a != "-" {
				switch a {
				case "--arg", "--argjson", "--slurpfile", "--rawfile":
					ok = false // needs variables
				case "-f", "--from-file", "-L", "--indent":
					ok = false
				}
				continue
			}
			if found {
				ok = false // files etc.
				break
			}
			q, found = a, true
		}
		if !ok {
			continue
		}
		if !found {
			q = "."
		}
		if _, err := gojq.Parse(q); err != nil {
			continue
		}
		c := CorpusCase{Name: tc.Name, Query: q, Args: tc.Args, RawIn: tc.Input}
		dec := json.NewDecoder(strings.NewReader(tc.Input))
		dec.UseNumber()
		for {
			var v any
			if err := dec.Decode(&v); err != nil {
				break
			}
			c.Inputs = append(c.Inputs, NormalizeDeep(v))
		}
		out = append(out, c)
	}
	return out
}

// NormalizeDeep replaces json.Number by gojq's normal form (int / *big.Int / float64).
func NormalizeDeep(v any) any {
	switch v := v.(type) {
	case json.Number:
		return NormalizeNumber(v)
	case []any:
		for i, x := range v {
			v[i] = NormalizeDeep(x)
		}
		return v
	case map[string]any:
		for k, x := range v {
			v[k] = NormalizeDeep(x)
		}
		return v
	}
	return v
}

package common

// referee: when the model (Spec.eval) and the implementation disagree on a program,
// ask an independent implementation of jq's semantics — the jq 1.6 binary installed
// in the sandbox — which one it agrees with. If jq and the model give the same
// outputs/termination and gojq differs, the (program, input) pair is a confirmed
// failing input of C01 ("as in jq") and is reported as a violation with a replay;
// otherwise the disagreement stays a broken correspondence (no-failing-input-found).
// The referee is search support only: it never runs when the streams agree.

import (
	"bytes"
	"context"
	"encoding/json"
	"math"
	"math/big"
	"os/exec"
	"strings"
	"time"
	"unicode/utf8"
)

const jqBin = "/usr/bin/jq"

// coarse renders a value for comparison with jq 1.6: numbers as float64 (jq 1.6 has
// only doubles), object keys sorted.
func coarse(v any) any {
	switch v := v.(type) {
	case int:
		return float64(v)
	case *big.Int:
		f, _ := new(big.Float).SetInt(v).Float64()
		return f
	case json.Number:
		f, err := v.Float64()
		if err != nil {
			return math.Inf(1)
		}
		return f
	case []any:
		xs := make([]any, len(v))
		for i, x := range v {
			xs[i] = coarse(x)
		}
		return xs
	case map[string]any:
		m := make(map[string]any, len(v))
		for k, x := range v {
			m[k] = coarse(x)
		}
		return m
	}
	return v
}

func coarseText(v any) (string, bool) {
	b, err := json.Marshal(coarse(v))
	if err != nil {
		return "", false // NaN / infinities: not judged
	}
	return string(b), true
}

// parseOutcome splits a canonical outcome line into coarse outputs and its ending.
func parseOutcome(s string) (outs []string, end string, ok bool) {
	parts := strings.Split(s, " ; ")
	end = parts[len(parts)-1]
	for _, p := range parts[:len(parts)-1] {
		v, err := ParseWire(p)
		if err != nil {
			return nil, "", false
		}
		t, ok := coarseText(v)
		if !ok {
			return nil, "", false
		}
		outs = append(outs, t)
	}
	switch {
	case end == "END":
	case strings.HasPrefix(end, "ERR"):
		end = "ERR"
	default:
		return nil, "", false
	}
	return outs, end, true
}

// runJq runs jq 1.6 on the program; returns coarse outputs and END/ERR.
func runJq(src string, input any) (outs []string, end string, ok bool) {
	in, ok := coarseText(input)
	if !ok {
		return nil, "", false
	}
	cx, cancel := context.WithTimeout(context.Background(), 5*time.Second)
	defer cancel()
	cmd := exec.CommandContext(cx, jqBin, "-c", src)
	cmd.Stdin = strings.NewReader(in)
	var so, se bytes.Buffer
	cmd.Stdout, cmd.Stderr = &so, &se
	err := cmd.Run()
	if cx.Err() != nil {
		return nil, "", false
	}
	end = "END"
	if err != nil {
		ee, isExit := err.(*exec.ExitError)
		if !isExit || ee.ExitCode() != 5 {
			return nil, "", false // compile error (3), usage, crash: jq 1.6 cannot referee this program
		}
		end = "ERR"
	}
	dec := json.NewDecoder(&so)
	for {
		var v any
		if err := dec.Decode(&v); err != nil {
			break
		}
		t, ok := coarseText(v)
		if !ok {
			return nil, "", false
		}
		outs = append(outs, t)
	}
	return outs, end, true
}

func sameOuts(a, b []string) bool {
	if len(a) != len(b) {
		return false
	}
	for i := range a {
		if a[i] != b[i] {
			return false
		}
	}
	return true
}

// referee examines the stream's disagreements; returns how many were confirmed.
func RefereeJq(ctx *Ctx, st *Stream, srcs []string, inputs []any) int {
	if _, err := exec.LookPath(jqBin); err != nil {
		return 0
	}
	confirmed := 0
	for _, d := range st.Dis {
		if confirmed >= 5 {
			break
		}
		src, in := srcs[d.Idx], inputs[d.Idx]
		mo, me, ok1 := parseOutcome(d.Model)
		io, ie, ok2 := parseOutcome(d.Impl)
		if !ok1 || !ok2 || (sameOuts(mo, io) && me == ie) {
			continue // differ only in number carrier / error text: jq 1.6 cannot tell
		}
		jo, je, ok := runJq(src, in)
		if !ok {
			continue
		}
		if sameOuts(jo, mo) && je == me {
			confirmed++
			ctx.Violate("semantics:"+src+":"+Canon(in),
				"gojq's outputs differ from the model's and from jq 1.6's, which agree with each other: "+src,
				map[string]any{"query": src, "input": Canon(in), "gojq": d.Impl, "model": d.Model, "jq1.6_outputs": jo, "jq1.6_end": je,
					"cmd": "gojq -c '" + src + "'  vs  jq -c '" + src + "'"})
		}
	}
	return confirmed
}

// JqAvailable reports whether the reference binary exists.
func JqAvailable() bool {
	_, err := exec.LookPath(jqBin)
	return err == nil
}

// CoarseOutcome renders a canonical outcome line in the coarse form used with jq 1.6
// (numbers as float64, error text dropped).
func CoarseOutcome(canon string) (string, bool) {
	outs, end, ok := parseOutcome(canon)
	if !ok {
		return "", false
	}
	return strings.Join(outs, " ; ") + " ; " + end, true
}

// JqOutcome runs jq 1.6 and renders its outcome in the same coarse form.
func JqOutcome(src string, input any) (string, bool) {
	outs, end, ok := runJq(src, input)
	if !ok {
		return "", false
	}
	return strings.Join(outs, " ; ") + " ; " + end, true
}

// JqSyntax asks jq 1.6 whether a text is a syntactically valid query body (it is compiled as the
// body of an unused definition and never run): accepted, and whether jq could be asked at all.
// Search support only: used to turn a lexer/parser disagreement between model and
// implementation into a failing input.
func JqSyntax(text string) (accepted, ok bool) {
	if !JqAvailable() || strings.ContainsRune(text, 0) || !utf8.ValidString(text) {
		return false, false
	}
	cx, cancel := context.WithTimeout(context.Background(), 5*time.Second)
	defer cancel()
	cmd := exec.CommandContext(cx, jqBin, "-n", "def _verif_f: "+text+"\n; 1")
	var so, se bytes.Buffer
	cmd.Stdout, cmd.Stderr = &so, &se
	err := cmd.Run()
	if cx.Err() != nil {
		return false, false
	}
	if err == nil {
		return strings.TrimSpace(so.String()) == "1", true
	}
	if ee, isExit := err.(*exec.ExitError); isExit && ee.ExitCode() == 3 {
		return false, true
	}
	return false, false
}

package common

import (
	"encoding/hex"
	"encoding/json"
	"fmt"
	"math"
	"math/big"
	"reflect"
	"sort"
	"strings"
)

// Canon renders a Go value of the gojq value universe in the wire form the
// Lean drivers parse (lean/Gojq/Model/Wire.lean):
//
//	n | t | f | i<decimal> | d<16 hex float64 bits> | dNaN | s<hex> | [ v* ] | { (s<hex> v)* }
//
// int and *big.Int both print as i<decimal> (one integer representation in the
// model); float64 as its bits; object keys sorted bytewise. json.Number is
// rendered by what gojq's own normalisation turns it into (integer literal →
// i, otherwise the float64 it parses to) unless KeepLiteral is used.
func Canon(v any) string {
	var sb strings.Builder
	st := canonState{}
	st.canon(&sb, v)
	if st.cyclic {
		return "<CYCLIC-VALUE " + sb.String()[:min(sb.Len(), 200)] + "…>"
	}
	return sb.String()
}

// canonState guards the rendering against a value that contains itself (which a defect in
// the implementation can produce): past depth 4000 the value is checked for a cycle once.
type canonState struct {
	depth  int
	cyclic bool
}

// Cyclic reports whether a container is reachable from itself.
func Cyclic(v any) bool {
	onPath := map[uintptr]bool{}
	var walk func(v any) bool
	walk = func(v any) bool {
		var id uintptr
		switch v := v.(type) {
		case []any:
			if len(v) == 0 {
				return false
			}
			id = reflect.ValueOf(v).Pointer()
			if onPath[id] {
				return true
			}
			onPath[id] = true
			for _, x := range v {
				if walk(x) {
					return true
				}
			}
		case map[string]any:
			if len(v) == 0 {
				return false
			}
			id = reflect.ValueOf(v).Pointer()
			if onPath[id] {
				return true
			}
			onPath[id] = true
			for _, x := range v {
				if walk(x) {
					return true
				}
			}
		default:
			return false
		}
		delete(onPath, id)
		return false
	}
	return walk(v)
}

func (st *canonState) canon(sb *strings.Builder, v any) {
	if st.cyclic {
		return
	}
	st.depth++
	defer func() { st.depth-- }()
	if st.depth == 4000 && Cyclic(v) {
		st.cyclic = true
		return
	}
	switch v := v.(type) {
	case nil:
		sb.WriteString("n")
	case bool:
		if v {
			sb.WriteString("t")
		} else {
			sb.WriteString("f")
		}
	case int:
		fmt.Fprintf(sb, "i%d", v)
	case *big.Int:
		sb.WriteString("i" + v.String())
	case float64:
		if math.IsNaN(v) {
			sb.WriteString("dNaN")
		} else {
			fmt.Fprintf(sb, "d%016x", math.Float64bits(v))
		}
	case json.Number:
		st.canon(sb, NormalizeNumber(v))
	case string:
		sb.WriteString("s" + hex.EncodeToString([]byte(v)))
	case []any:
		sb.WriteString("[")
		for _, x := range v {
			sb.WriteString(" ")
			st.canon(sb, x)
		}
		sb.WriteString(" ]")
	case map[string]any:
		keys := make([]string, 0, len(v))
		for k := range v {
			keys = append(keys, k)
		}
		sort.Strings(keys)
		sb.WriteString("{")
		for _, k := range keys {
			sb.WriteString(" s" + hex.EncodeToString([]byte(k)) + " ")
			st.canon(sb, v[k])
		}
		sb.WriteString(" }")
	default:
		fmt.Fprintf(sb, "?%T", v)
	}
}

// NormalizeNumber mirrors gojq's parseNumber classification for a json.Number:
// a literal without '.', 'e', 'E' is an integer (int or *big.Int), anything else
// the float64 it parses to.
func NormalizeNumber(n json.Number) any {
	s := string(n)
	if !strings.ContainsAny(s, ".eE") {
		if z, ok := new(big.Int).SetString(s, 10); ok {
			if z.IsInt64() {
				return int(z.Int64())
			}
			return z
		}
	}
	f, err := n.Float64()
	if err != nil {
		// out of range: ±Inf as strconv reports it
		return f
	}
	return f
}

// ParseWire is the inverse of Canon (ints that fit become int, others *big.Int).
func ParseWire(s string) (any, error) {
	toks := strings.Fields(s)
	v, rest, err := parseWire(toks)
	if err != nil {
		return nil, err
	}
	if len(rest) != 0 {
		return nil, fmt.Errorf("trailing tokens: %v", rest)
	}
	return v, nil
}

// ParseWireSeq parses a sequence of values.
func ParseWireSeq(s string) ([]any, error) {
	toks := strings.Fields(s)
	var out []any
	for len(toks) > 0 {
		v, rest, err := parseWire(toks)
		if err != nil {
			return nil, err
		}
		out = append(out, v)
		toks = rest
	}
	return out, nil
}

func parseWire(toks []string) (any, []string, error) {
	if len(toks) == 0 {
		return nil, nil, fmt.Errorf("unexpected end")
	}
	t, rest := toks[0], toks[1:]
	switch {
	case t == "n":
		return nil, rest, nil
	case t == "t":
		return true, rest, nil
	case t == "f":
		return false, rest, nil
	case t == "dNaN":
		return math.NaN(), rest, nil
	case t[0] == 'i':
		z, ok := new(big.Int).SetString(t[1:], 10)
		if !ok {
			return nil, nil, fmt.Errorf("bad int %q", t)
		}
		if z.IsInt64() {
			return int(z.Int64()), rest, nil
		}
		return z, rest, nil
	case t[0] == 'd':
		var b uint64
		if _, err := fmt.Sscanf(t[1:], "%x", &b); err != nil {
			return nil, nil, err
		}
		return math.Float64frombits(b), rest, nil
	case t[0] == 's':
		b, err := hex.DecodeString(t[1:])
		if err != nil {
			return nil, nil, err
		}
		return string(b), rest, nil
	case t == "[":
		xs := []any{}
		for {
			if len(rest) == 0 {
				return nil, nil, fmt.Errorf("unterminated array")
			}
			if rest[0] == "]" {
				return xs, rest[1:], nil
			}
			var v any
			var err error
			v, rest, err = parseWire(rest)
			if err != nil {
				return nil, nil, err
			}
			xs = append(xs, v)
		}
	case t == "{":
		m := map[string]any{}
		for {
			if len(rest) == 0 {
				return nil, nil, fmt.Errorf("unterminated object")
			}
			if rest[0] == "}" {
				return m, rest[1:], nil
			}
			var k, v any
			var err error
			k, rest, err = parseWire(rest)
			if err != nil {
				return nil, nil, err
			}
			ks, ok := k.(string)
			if !ok {
				return nil, nil, fmt.Errorf("non-string key")
			}
			v, rest, err = parseWire(rest)
			if err != nil {
				return nil, nil, err
			}
			m[ks] = v
		}
	}
	return nil, nil, fmt.Errorf("bad token %q", t)
}

// Hex encodes bytes for a protocol line.
func Hex(s string) string { return hex.EncodeToString([]byte(s)) }

// UnHex decodes; panics on malformed input (protocol bug).
func UnHex(s string) string {
	b, err := hex.DecodeString(s)
	if err != nil {
		panic(err)
	}
	return string(b)
}

// Package common holds what every correspondence/search harness shares:
// one PRNG, the canonical wire form of values, the value universe, the pipe to
// the Lean driver and the result record handed to bin/check.
package common

// Rand is splitmix64; every random choice of a run derives from one state
// seeded by VERIF_SEED so that a disagreement replays exactly.
type Rand struct{ s uint64 }

func NewRand(seed uint64) *Rand {
	// hash the seed: with s = seed·γ + c and step γ the stream of seed k would be the stream of
	// seed 1 shifted by k-1 draws
	z := seed + 0x1234567
	z = (z ^ (z >> 30)) * 0xBF58476D1CE4E5B9
	z = (z ^ (z >> 27)) * 0x94D049BB133111EB
	z = (z ^ (z >> 31)) * 0xD6E8FEB86659FD93
	return &Rand{s: z ^ (z >> 32)}
}

func (r *Rand) U64() uint64 {
	r.s += 0x9E3779B97F4A7C15
	z := r.s
	z = (z ^ (z >> 30)) * 0xBF58476D1CE4E5B9
	z = (z ^ (z >> 27)) * 0x94D049BB133111EB
	return z ^ (z >> 31)
}

// Intn returns a value in [0, n).
func (r *Rand) Intn(n int) int {
	if n <= 0 {
		return 0
	}
	return int(r.U64() % uint64(n))
}

// Range returns a value in [lo, hi].
func (r *Rand) Range(lo, hi int) int { return lo + r.Intn(hi-lo+1) }

func (r *Rand) Bool() bool { return r.U64()&1 == 1 }

// Chance is true with probability num/den.
func (r *Rand) Chance(num, den int) bool { return r.Intn(den) < num }

func Pick[T any](r *Rand, xs []T) T { return xs[r.Intn(len(xs))] }

// Fork derives an independent stream (so adding draws in one generator does
// not shift another).
func (r *Rand) Fork(tag uint64) *Rand { return NewRand(r.U64() ^ tag*0xD6E8FEB86659FD93) }

package common

import (
	"errors"
	"fmt"
	"os"
	"runtime"
	"runtime/debug"
	"runtime/metrics"
	"sync"
	"sync/atomic"
	"time"

	"github.com/itchyny/gojq"
)

// CountCtx is a context whose Done() channel closes at the k-th poll. The VM
// polls Done() exactly once per instruction, so k is a deterministic step
// budget / cancellation point (DESIGN §5, C07).
type CountCtx struct {
	Polls  int
	Limit  int // cancel when Polls reaches Limit (Limit < 0: never)
	closed chan struct{}
	open   chan struct{}
}

var ErrBudget = errors.New("verif: step budget exceeded")

func NewCountCtx(limit int) *CountCtx {
	c := &CountCtx{Limit: limit, closed: make(chan struct{}), open: make(chan struct{})}
	close(c.closed)
	return c
}

func (c *CountCtx) Deadline() (time.Time, bool) { return time.Time{}, false }
func (c *CountCtx) Done() <-chan struct{} {
	k := c.Polls
	c.Polls++
	if c.Limit >= 0 && k >= c.Limit {
		return c.closed
	}
	if memOver.Load() {
		c.Limit = 0 // memory watchdog: treat as an exhausted budget (outcome not comparable)
		return c.closed
	}
	return c.open
}

// memory watchdog: a program such as `reduce range(40) as $i ("x"; . + .)` doubles
// a value in a handful of VM steps, so the step budget does not bound memory. A
// sampler sets memOver when the live heap passes memLimit; the next poll then
// stops the run with the budget outcome (which no stream or oracle compares).
var (
	memOver  atomic.Bool
	memOnce  sync.Once
	memLimit uint64 = 3 << 30
)

func startMemWatch() {
	memOnce.Do(func() {
		go func() {
			sample := []metrics.Sample{{Name: "/memory/classes/heap/objects:bytes"}}
			for {
				time.Sleep(20 * time.Millisecond)
				metrics.Read(sample)
				memOver.Store(sample[0].Value.Uint64() > memLimit)
			}
		}()
	})
}

// MemStops counts the runs the memory watchdog has stopped so far: a harness that runs one
// program many times (variants, inputs) can skip the rest of a program that blows the heap up.
var MemStops int

// afterRun releases a blown-up heap before the next program starts.
func afterRun() {
	if memOver.Load() {
		MemStops++
		fmt.Fprintln(os.Stderr, "verif: memory watchdog stopped a run")
		runtime.GC()
		debug.FreeOSMemory()
		sample := []metrics.Sample{{Name: "/memory/classes/heap/objects:bytes"}}
		metrics.Read(sample)
		memOver.Store(sample[0].Value.Uint64() > memLimit)
	}
}

var traceRuns = os.Getenv("VERIF_TRACE") != ""

func (c *CountCtx) Err() error {
	return ErrBudget
}
func (c *CountCtx) Value(any) any { return nil }

// Outcome of running a program to completion.
type Outcome struct {
	Outs     []any  // emitted values before the terminal event
	Err      error  // terminal uncaught error (nil: exhausted)
	Budget   bool   // stopped by the step budget (result incomplete, not comparable)
	Panic    string // recovered panic text ("" if none)
	Stack    string
	Polls    int
	ParseErr error
	CompErr  error
}

// RunCode runs compiled code on v under a step budget and an output cap.
func RunCode(code *gojq.Code, v any, budget, maxOuts int, vars ...any) (o Outcome) {
	startMemWatch()
	ctx := NewCountCtx(budget)
	defer func() {
		if r := recover(); r != nil {
			o.Panic = fmt.Sprint(r)
			o.Stack = string(debug.Stack())
		}
		o.Polls = ctx.Polls
		afterRun()
	}()
	iter := code.RunWithContext(ctx, v, vars...)
	for {
		x, ok := iter.Next()
		if !ok {
			return
		}
		if e, ok := x.(error); ok {
			if e == ErrBudget {
				o.Budget = true
				return
			}
			_ = e.Error() // a panic while rendering the error is a panic of the run (recovered above)
			o.Err = e
			return
		}
		o.Outs = append(o.Outs, x)
		if len(o.Outs) >= maxOuts {
			o.Budget = true
			return
		}
	}
}

// RunSrc parses, compiles and runs.
func RunSrc(src string, v any, budget, maxOuts int, opts ...gojq.CompilerOption) (o Outcome) {
	defer func() {
		if r := recover(); r != nil {
			o.Panic = fmt.Sprint(r)
			o.Stack = string(debug.Stack())
		}
	}()
	if traceRuns {
		fmt.Fprintf(os.Stderr, "TRACE %s <- %s\n", src, Canon(v))
	}
	q, err := gojq.Parse(src)
	if err != nil {
		o.ParseErr = err
		return
	}
	code, err := gojq.Compile(q, opts...)
	if err != nil {
		o.CompErr = err
		return
	}
	return RunCode(code, v, budget, maxOuts)
}

// CanonOutcome renders an outcome as one comparable line: outputs in wire
// form separated by " ; ", then the terminal event. Errors are rendered by
// class only unless they carry a value (error(v) / break): see ErrClass.
func CanonOutcome(o Outcome) string {
	s := ""
	for _, x := range o.Outs {
		s += Canon(x) + " ; "
	}
	switch {
	case o.Panic != "":
		return s + "PANIC"
	case o.ParseErr != nil:
		return "PARSEERR"
	case o.CompErr != nil:
		return "COMPILEERR"
	case o.Budget:
		return s + "BUDGET"
	case o.Err != nil:
		return s + "ERR " + ErrClass(o.Err)
	}
	return s + "END"
}

// ErrClass maps an error to a small class: user errors keep their value.
func ErrClass(err error) string {
	var he *gojq.HaltError
	if errors.As(err, &he) {
		return "halt " + Canon(he.Value())
	}
	if ve, ok := err.(gojq.ValueError); ok {
		return "value " + Canon(ve.Value())
	}
	return "msg s" + Hex(err.Error())
}

// SameOutcome compares two outcomes by canonical rendering.
func SameOutcome(a, b Outcome) bool { return CanonOutcome(a) == CanonOutcome(b) }

package common

import (
	"bufio"
	"bytes"
	"fmt"
	"os"
	"os/exec"
	"strings"
	"time"
)

// RunDriver pipes the protocol lines to a Lean driver executable and returns
// one answer line per input line. The driver must print exactly one line per
// line read. args are passed to the driver (usually the stream name).
func RunDriver(path string, args []string, lines []string) ([]string, error) {
	if len(lines) == 0 {
		return nil, nil
	}
	// chunked, so that a line on which the model runs out of memory or time costs one
	// `?driver-crash` answer (counted as unmodelled), not the whole stream
	const chunk = 2000
	if len(lines) > chunk {
		var out []string
		for i := 0; i < len(lines); i += chunk {
			j := min(i+chunk, len(lines))
			res, err := runDriverBisect(path, args, lines[i:j])
			if err != nil {
				return out, err
			}
			out = append(out, res...)
		}
		return out, nil
	}
	return runDriverBisect(path, args, lines)
}

func runDriverBisect(path string, args []string, lines []string) ([]string, error) {
	res, err := runDriverOnce(path, args, lines)
	if err == nil {
		return res, nil
	}
	if len(lines) == 1 {
		return []string{"?driver-crash"}, nil
	}
	if strings.Contains(err.Error(), "no such file") || strings.Contains(err.Error(), "unknown stream") {
		return nil, err
	}
	mid := len(lines) / 2
	a, err := runDriverBisect(path, args, lines[:mid])
	if err != nil {
		return nil, err
	}
	b, err := runDriverBisect(path, args, lines[mid:])
	if err != nil {
		return nil, err
	}
	return append(a, b...), nil
}

func runDriverOnce(path string, args []string, lines []string) ([]string, error) {
	var in bytes.Buffer
	for _, l := range lines {
		if strings.ContainsAny(l, "\n\r") {
			return nil, fmt.Errorf("protocol line contains newline: %q", l)
		}
		in.WriteString(l)
		in.WriteByte('\n')
	}
	if d := os.Getenv("VERIF_DUMP"); d != "" {
		os.WriteFile(d+"/"+strings.Join(args, "_")+".lines", in.Bytes(), 0o644)
	}
	// memory and CPU caps for the model process (a model blow-up must not take the check down)
	sh := "ulimit -v 6000000; ulimit -t 600; exec \"$0\" \"$@\""
	cmd := exec.Command("bash", append([]string{"-c", sh, path}, args...)...)
	cmd.Stdin = &in
	var out, errb bytes.Buffer
	cmd.Stdout = &out
	cmd.Stderr = &errb
	done := make(chan error, 1)
	if err := cmd.Start(); err != nil {
		return nil, err
	}
	go func() { done <- cmd.Wait() }()
	select {
	case err := <-done:
		if err != nil {
			return nil, fmt.Errorf("driver %s %v: %v\n%s", path, args, err, tail(errb.String(), 2000))
		}
	case <-time.After(45 * time.Minute):
		cmd.Process.Kill()
		return nil, fmt.Errorf("driver %s %v: timeout", path, args)
	}
	var res []string
	sc := bufio.NewScanner(&out)
	sc.Buffer(make([]byte, 1<<20), 1<<28)
	for sc.Scan() {
		res = append(res, sc.Text())
	}
	if len(res) != len(lines) {
		return res, fmt.Errorf("driver %s %v: %d lines in, %d lines out\nstderr: %s", path, args, len(lines), len(res), tail(errb.String(), 2000))
	}
	return res, nil
}

func tail(s string, n int) string {
	if len(s) > n {
		return s[len(s)-n:]
	}
	return s
}

// Getenv with default.
func Getenv(k, d string) string {
	if v := os.Getenv(k); v != "" {
		return v
	}
	return d
}

package c01aux

import (
	"fmt"
	"strconv"
	"strings"

	"github.com/itchyny/gojq"

	"verifharness/common"
)

// ---------------------------------------------------------------------------------------
// the proved fragment: programs, their jq text, their prefix form for the driver

type q struct {
	kind string // id const pipe comma iter empty arr param call error try trycatch index ite alt var bind reduce foreach obj
	ents []ent  // obj: the entries
	c4   *q     // foreach: extract (a = src, b = init, c3 = update)
	x    int    // var, bind: the variable
	k    string // index: the field name
	c3   *q     // ite: else branch
	c    any    // const
	f    int    // call
	a, b *q
}

// ent: one entry of an object construction.  form: "query" `(k): v` | "name" `a: v` | "string" `"a": v` |
// "short" `{a}` (= a: .a) | "shortstr" `{"a"}` | "var" `{$v3}` (= v3: $v3); all but "query" have the
// constant key ck and are compiled to `push ck; load; v`
type ent struct {
	form string
	ck   string
	k, v *q
}

func (x ent) text() string {
	switch x.form {
	case "query":
		return "(" + x.k.text() + "): " + x.v.text()
	case "name":
		return x.ck + ": " + x.v.text()
	case "string":
		return strconv.Quote(x.ck) + ": " + x.v.text()
	case "short":
		return x.ck
	case "shortstr":
		return strconv.Quote(x.ck)
	case "var":
		return "$" + x.ck
	}
	panic(x.form)
}

type prog struct {
	defs []*q
	main *q
}

var miniConsts = []any{nil, true, false, 0, 1, 2, 7, "a", "", []any{}}

func (e *q) text() string {
	switch e.kind {
	case "id":
		return "."
	case "const":
		switch c := e.c.(type) {
		case nil:
			return "null"
		case bool:
			return strconv.FormatBool(c)
		case int:
			return strconv.Itoa(c)
		case string:
			return strconv.Quote(c)
		case []any:
			return "[]"
		}
		panic("const")
	case "pipe":
		return "(" + e.a.text() + " | " + e.b.text() + ")"
	case "comma":
		return "(" + e.a.text() + " , " + e.b.text() + ")"
	case "iter":
		return ".[]"
	case "empty":
		return "empty"
	case "arr":
		return "[" + e.a.text() + "]"
	case "param":
		return "g"
	case "call":
		return fmt.Sprintf("f%d(%s)", e.f, e.a.text())
	case "error":
		return "error"
	case "index":
		return "." + e.k
	case "ite":
		if e.c3.kind == "id" && len(e.k) > 0 {
			return "(if " + e.a.text() + " then " + e.b.text() + " end)"
		}
		return "(if " + e.a.text() + " then " + e.b.text() + " else " + e.c3.text() + " end)"
	case "alt":
		return "(" + e.a.text() + " // " + e.b.text() + ")"
	case "var":
		return fmt.Sprintf("$v%d", e.x)
	case "bind":
		return fmt.Sprintf("(%s as $v%d | %s)", e.a.text(), e.x, e.b.text())
	case "reduce":
		return fmt.Sprintf("(reduce %s as $v%d (%s; %s))", e.a.text(), e.x, e.b.text(), e.c3.text())
	case "foreach":
		if e.c4.kind == "id" && len(e.k) > 0 {
			return fmt.Sprintf("(foreach %s as $v%d (%s; %s))", e.a.text(), e.x, e.b.text(), e.c3.text())
		}
		return fmt.Sprintf("(foreach %s as $v%d (%s; %s; %s))", e.a.text(), e.x, e.b.text(), e.c3.text(), e.c4.text())
	case "obj":
		parts := make([]string, 0, len(e.ents))
		for _, x := range e.ents {
			parts = append(parts, x.text())
		}
		return "{" + strings.Join(parts, ", ") + "}"
	case "try":
		return "(try (" + e.a.text() + "))"
	case "trycatch":
		return "(try (" + e.a.text() + ") catch (" + e.b.text() + "))"
	}
	panic(e.kind)
}

func (e *q) prefix(sb *strings.Builder) {
	switch e.kind {
	case "const":
		sb.WriteString("c " + common.Canon(e.c) + " ")
	case "index":
		sb.WriteString("index " + common.Canon(e.k) + " ")
	case "var":
		fmt.Fprintf(sb, "var %d ", e.x)
	case "bind":
		fmt.Fprintf(sb, "bind %d ", e.x)
		e.a.prefix(sb)
		e.b.prefix(sb)
	case "reduce":
		fmt.Fprintf(sb, "reduce %d ", e.x)
		e.a.prefix(sb)
		e.b.prefix(sb)
		e.c3.prefix(sb)
	case "foreach":
		fmt.Fprintf(sb, "foreach %d ", e.x)
		e.a.prefix(sb)
		e.b.prefix(sb)
		e.c3.prefix(sb)
		e.c4.prefix(sb)
	case "ite":
		sb.WriteString("ite ")
		e.a.prefix(sb)
		e.b.prefix(sb)
		e.c3.prefix(sb)
	case "pipe", "comma", "trycatch", "alt":
		sb.WriteString(e.kind + " ")
		e.a.prefix(sb)
		e.b.prefix(sb)
	case "arr", "try":
		sb.WriteString(e.kind + " ")
		e.a.prefix(sb)
	case "call":
		fmt.Fprintf(sb, "call %d ", e.f)
		e.a.prefix(sb)
	case "obj":
		fmt.Fprintf(sb, "obj %d ", len(e.ents))
		for _, x := range e.ents {
			if x.form == "query" {
				sb.WriteString("kq ")
				x.k.prefix(sb)
			} else {
				sb.WriteString("kc " + common.Canon(x.ck) + " ")
			}
			x.v.prefix(sb)
		}
	default:
		sb.WriteString(e.kind + " ")
	}
}

func (e *q) count(m map[string]int) int {
	if e == nil {
		return 0
	}
	m[e.kind]++
	n := 1 + e.a.count(m) + e.b.count(m) + e.c3.count(m) + e.c4.count(m)
	for _, x := range e.ents {
		m["obj entry "+x.form]++
		n += x.k.count(m) + x.v.count(m)
	}
	return n
}

func (p *prog) text() string {
	var sb strings.Builder
	for i, d := range p.defs {
		fmt.Fprintf(&sb, "def f%d(g): %s; ", i, d.text())
	}
	sb.WriteString(p.main.text())
	return sb.String()
}

func (p *prog) prefix() string {
	var sb strings.Builder
	fmt.Fprintf(&sb, "%d ", len(p.defs))
	for _, d := range p.defs {
		d.prefix(&sb)
	}
	p.main.prefix(&sb)
	return strings.TrimSpace(sb.String())
}

// variables in scope while generating (single-threaded); call arguments and function bodies start
// with none (the fragment's restriction: no variable references across scopes)
var (
	genVars    []int
	genNextVar int
)

// genLoops: emit reduce / foreach.  Must only be true when the installed driver (Model/MiniVM.lean)
// has them, otherwise the lines are answered `?parse`.
const genLoops = true

// genQ: maxF = highest callable function index (-1: none); inFunc: `param` allowed.
func genQ(r *common.Rand, depth, maxF int, inFunc bool) *q {
	if len(genVars) > 0 && r.Chance(1, 6) {
		return &q{kind: "var", x: common.Pick(r, genVars)}
	}
	if depth > 0 && r.Chance(1, 9) {
		src := genQ(r, depth-1, maxF, inFunc)
		x := genNextVar
		genNextVar++
		genVars = append(genVars, x)
		body := genQ(r, depth-1, maxF, inFunc)
		genVars = genVars[:len(genVars)-1]
		return &q{kind: "bind", x: x, a: src, b: body}
	}
	if genLoops && depth > 0 && r.Chance(1, 9) {
		// reduce / foreach: source and initial state outside the binding, update (and extract) inside
		src := genQ(r, depth-1, maxF, inFunc)
		init := genQ(r, depth-1, maxF, inFunc)
		x := genNextVar
		genNextVar++
		genVars = append(genVars, x)
		upd := genQ(r, depth-1, maxF, inFunc)
		e := &q{kind: "reduce", x: x, a: src, b: init, c3: upd}
		if r.Bool() {
			e.kind = "foreach"
			if r.Bool() {
				e.c4, e.k = &q{kind: "id"}, "2args"
			} else {
				e.c4 = genQ(r, depth-1, maxF, inFunc)
			}
		}
		genVars = genVars[:len(genVars)-1]
		return e
	}
	if depth > 0 && r.Chance(1, 10) {
		// object construction, 1–3 entries in every key form the fragment has; key queries are biased
		// to strings (a constant, the parameter, `.[]`) but any query may occur (a non-string key is
		// the error of opobject); duplicate keys are likely (few names)
		e := &q{kind: "obj"}
		for n := r.Range(1, 3); n > 0; n-- {
			name := common.Pick(r, []string{"a", "b", "k"})
			switch k := r.Intn(10); {
			case k < 2:
				e.ents = append(e.ents, ent{form: "query", k: genQ(r, depth-1, maxF, inFunc), v: genQ(r, depth-1, maxF, inFunc)})
			case k < 3:
				kq := &q{kind: "comma", a: &q{kind: "const", c: common.Pick(r, []string{"a", "b", ""})}, b: genQ(r, depth-1, maxF, inFunc)}
				e.ents = append(e.ents, ent{form: "query", k: kq, v: genQ(r, depth-1, maxF, inFunc)})
			case k < 4:
				e.ents = append(e.ents, ent{form: "query", k: &q{kind: "const", c: common.Pick(r, []string{"a", "b", "k", ""})}, v: genQ(r, depth-1, maxF, inFunc)})
			case k < 6:
				e.ents = append(e.ents, ent{form: "name", ck: name, v: genQ(r, depth-1, maxF, inFunc)})
			case k < 7:
				e.ents = append(e.ents, ent{form: "string", ck: common.Pick(r, []string{"a", "b", "", "x y"}), v: genQ(r, depth-1, maxF, inFunc)})
			case k < 8:
				e.ents = append(e.ents, ent{form: "short", ck: name, v: &q{kind: "index", k: name}})
			case k < 9:
				ck := common.Pick(r, []string{"a", "b", "k"})
				e.ents = append(e.ents, ent{form: "shortstr", ck: ck, v: &q{kind: "index", k: ck}})
			default:
				if len(genVars) > 0 {
					x := common.Pick(r, genVars)
					e.ents = append(e.ents, ent{form: "var", ck: fmt.Sprintf("v%d", x), v: &q{kind: "var", x: x}})
				} else {
					e.ents = append(e.ents, ent{form: "name", ck: name, v: genQ(r, depth-1, maxF, inFunc)})
				}
			}
		}
		return e
	}
	leaf := depth <= 0 || r.Chance(1, 5)
	if leaf {
		switch k := r.Intn(10); {
		case k < 3:
			return &q{kind: "id"}
		case k < 5:
			return &q{kind: "const", c: common.Pick(r, miniConsts)}
		case k < 6:
			return &q{kind: "iter"}
		case k < 7:
			return &q{kind: "index", k: common.Pick(r, []string{"a", "b", "k"})}
		case k < 8:
			if r.Bool() {
				return &q{kind: "error"}
			}
			return &q{kind: "empty"}
		default:
			if inFunc {
				return &q{kind: "param"}
			}
			return &q{kind: "id"}
		}
	}
	switch k := r.Intn(19); {
	case k == 15 || k == 16:
		e := &q{kind: "ite", a: genQ(r, depth-1, maxF, inFunc), b: genQ(r, depth-1, maxF, inFunc)}
		if r.Chance(1, 4) {
			e.c3, e.k = &q{kind: "id"}, "noelse" // `if c then a end`
		} else {
			e.c3 = genQ(r, depth-1, maxF, inFunc)
		}
		return e
	case k > 16:
		return &q{kind: "alt", a: genQ(r, depth-1, maxF, inFunc), b: genQ(r, depth-1, maxF, inFunc)}
	case k == 12:
		return &q{kind: "try", a: genQ(r, depth-1, maxF, inFunc)}
	case k > 12:
		return &q{kind: "trycatch", a: genQ(r, depth-1, maxF, inFunc), b: genQ(r, depth-1, maxF, inFunc)}
	case k < 3:
		return &q{kind: "pipe", a: genQ(r, depth-1, maxF, inFunc), b: genQ(r, depth-1, maxF, inFunc)}
	case k < 6:
		return &q{kind: "comma", a: genQ(r, depth-1, maxF, inFunc), b: genQ(r, depth-1, maxF, inFunc)}
	case k < 8:
		return &q{kind: "arr", a: genQ(r, depth-1, maxF, inFunc)}
	default:
		if maxF >= 0 {
			saved := genVars
			genVars = nil
			a := genQ(r, depth-1, maxF, inFunc)
			genVars = saved
			return &q{kind: "call", f: r.Intn(maxF + 1), a: a}
		}
		return &q{kind: "pipe", a: genQ(r, depth-1, maxF, inFunc), b: genQ(r, depth-1, maxF, inFunc)}
	}
}

func genProg(r *common.Rand) *prog {
	p := &prog{}
	genVars, genNextVar = nil, 0
	nf := r.Intn(4)
	for i := 0; i < nf; i++ {
		// function i may call f0..fi (itself: recursion)
		var body *q
		g := &q{kind: "param"}
		switch r.Intn(8) {
		case 0:
			// a recursion that consumes its input: g-outputs first, then recurse on the elements
			body = &q{kind: "comma", a: genQ(r, 2, i, true),
				b: &q{kind: "pipe", a: &q{kind: "iter"}, b: &q{kind: "call", f: i, a: genQ(r, 1, i, true)}}}
		case 1:
			// a generator that uses its parameter again after its first output (re-entered by
			// backtracking after the frame returned)
			body = &q{kind: "comma", a: g, b: genQ(r, 2, i, true)}
		case 2:
			body = &q{kind: "pipe", a: genQ(r, 2, i, true), b: g}
		case 3:
			body = &q{kind: "comma", a: &q{kind: "arr", a: g}, b: g}
		default:
			body = genQ(r, r.Range(1, 4), i, true)
		}
		p.defs = append(p.defs, body)
	}
	call := func() *q { return &q{kind: "call", f: r.Intn(nf), a: genQ(r, r.Range(0, 2), nf-1, false)} }
	switch k := r.Intn(8); {
	case nf > 0 && k == 0:
		// two calls in sequence: the second one's frame is allocated while the first one's
		// forks are pending
		p.main = &q{kind: "pipe", a: call(), b: call()}
	case nf > 0 && k == 1:
		p.main = &q{kind: "arr", a: &q{kind: "pipe", a: call(), b: &q{kind: "comma", a: call(), b: genQ(r, 1, nf-1, false)}}}
	case nf > 0 && k == 2:
		p.main = &q{kind: "pipe", a: &q{kind: "comma", a: call(), b: call()}, b: call()}
	default:
		p.main = genQ(r, r.Range(1, 4), nf-1, false)
	}
	return p
}

func genInput(r *common.Rand, depth int) any {
	k := r.Intn(10)
	if depth >= 3 && k >= 5 {
		k = r.Intn(5)
	}
	switch k {
	case 0:
		return nil
	case 1:
		return r.Bool()
	case 2:
		return r.Range(-3, 9)
	case 3:
		return common.Pick(r, []string{"", "a", "xyz"})
	case 4:
		return []any{}
	case 5, 6, 7:
		n := r.Intn(4)
		xs := make([]any, n)
		for i := range xs {
			xs[i] = genInput(r, depth+1)
		}
		return xs
	default:
		n := r.Intn(3)
		m := map[string]any{}
		for i := 0; i < n; i++ {
			m[common.Pick(r, []string{"a", "b", "c", "k"})] = genInput(r, depth+1)
		}
		return m
	}
}

// canonCode renders the real instruction list with scope ids and registers renumbered by
// first appearance (the mini compiler names them differently: see Model/MiniVM.lean).
func canonCode(ins []gojq.VerifInstr) string {
	var scopes []int
	type reg struct{ s, i int }
	var regs []reg
	scopeOf := func(id int) int {
		for k, s := range scopes {
			if s == id {
				return k
			}
		}
		scopes = append(scopes, id)
		return len(scopes) - 1
	}
	regOf := func(id, i int) (int, int) {
		s := scopeOf(id)
		k := 0
		for _, x := range regs {
			if x.s == id {
				if x.i == i {
					return s, k
				}
				k++
			}
		}
		regs = append(regs, reg{id, i})
		return s, k
	}
	parts := make([]string, len(ins))
	type scopeAt struct{ at, id, nvars int }
	var decl []scopeAt
	for k, in := range ins {
		switch in.Op {
		case "const", "push", "index":
			parts[k] = in.Op + " " + common.Canon(in.Value)
		case "store", "load", "append":
			s, i := regOf(in.Ints[0], in.Ints[1])
			parts[k] = fmt.Sprintf("%s %d %d", in.Op, s, i)
		case "fork", "jump", "call", "pushpc", "forktrybegin", "jumpifnot":
			if in.Kind == "native" {
				parts[k] = fmt.Sprintf("%s %s/%d", in.Op, in.Name, in.Argc)
			} else if in.Kind != "int" {
				parts[k] = in.Op + " ?" + in.Kind
			} else {
				parts[k] = fmt.Sprintf("%s %d", in.Op, in.Int)
			}
		case "object":
			parts[k] = fmt.Sprintf("object %d", in.Int)
		case "scope":
			parts[k] = fmt.Sprintf("scope %d %d", scopeOf(in.Ints[0]), in.Ints[2])
			decl = append(decl, scopeAt{k, in.Ints[0], in.Ints[1]})
		default:
			parts[k] = in.Op
		}
	}
	// the real variable count of a scope must be the number of distinct registers it uses
	for _, d := range decl {
		n := 0
		for _, x := range regs {
			if x.s == d.id {
				n++
			}
		}
		if n != d.nvars {
			parts[d.at] += fmt.Sprintf(" NVARS%d!=%d", d.nvars, n)
		}
	}
	return strings.Join(parts, " ; ")
}

const miniBudget = 3000 // real VM instructions; the model gets 4x as fuel (it also counts popfork steps)

func runMini(ctx *common.Ctx, auxDriver string) {
	r := ctx.R.Fork(0xC01B)
	st := ctx.NewStream("mini", "Gojq.MiniVM.compileProg / step / exec (Model/MiniVM.lean) — theorem Gojq.C01Compile.compile_refines_spec_fragment",
		"random programs of the proved fragment (incl. object construction `{(k): v, a: v, \"a\": v, a, \"a\", $x}` with generator keys and values) x random inputs: unoptimised real bytecode (gojq.VerifOptMask = all ones) = mini compiler output modulo renumbering, "+
			"and real outputs = mini VM outputs; distinct = distinct (code, outcome) answers")
	n := ctx.N(3000, 200000)
	if v, err := strconv.Atoi(common.Getenv("C01AUX_MINI_N", "")); err == nil {
		n = v // development aid: a slow (interpreted) driver
	}
	var lines, impl, labels []string
	seen := map[string]bool{}
	for len(lines) < n {
		p := genProg(r)
		src := p.text()
		query, err := gojq.Parse(src)
		if err != nil {
			ctx.Errorf("mini: generated text does not parse: %s: %v", src, err)
			return
		}
		old := gojq.VerifOptMask
		gojq.VerifOptMask = ^uint(0)
		code, err := gojq.Compile(query)
		gojq.VerifOptMask = old
		if err != nil {
			ctx.Errorf("mini: generated text does not compile: %s: %v", src, err)
			return
		}
		cc := canonCode(gojq.VerifCodes(code))
		kinds := map[string]int{}
		size := p.main.count(kinds)
		for _, d := range p.defs {
			size += d.count(kinds)
		}
		for i := 0; i < 3; i++ {
			v := genInput(r, 0)
			o := common.RunCode(code, common.DeepCopy(v), miniBudget, 400)
			if o.Budget {
				st.Distribution["skipped: real run over the step budget"]++
				continue
			}
			line := fmt.Sprintf("%d %s ||| %s", 4*miniBudget+2000, p.prefix(), common.Canon(v))
			if seen[line] {
				continue
			}
			seen[line] = true
			lines = append(lines, line)
			labels = append(labels, src+"   on "+common.Canon(v))
			impl = append(impl, cc+" ||| "+common.CanonOutcome(o))
			for k, c := range kinds {
				if c > 0 {
					st.Distribution["has "+k]++
				}
			}
			st.Distribution[fmt.Sprintf("defs=%d", len(p.defs))]++
			st.Distribution[fmt.Sprintf("size<%d", bucket(size))]++
			switch {
			case o.Panic != "":
				st.Distribution["outcome panic"]++
			case o.Err != nil:
				st.Distribution["outcome error"]++
			case len(o.Outs) == 0:
				st.Distribution["outcome empty"]++
			default:
				st.Distribution["outcome values"]++
			}
		}
	}
	st.Labels = labels
	runAux(ctx, auxDriver, st, lines, impl)
}

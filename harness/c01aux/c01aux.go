// Package c01aux ties the PROVED models of C01 to the code:
//
//	stream `stack` / `scopestack` — the real persistent stacks (stack.go, scope_stack.go, through
//	  gojq.VerifStack / gojq.VerifScopeStack) against lean/Gojq/Model/Stack.lean on random
//	  operation sequences in fork (LIFO) discipline: index, limit, len(data) and the chain after
//	  EVERY operation.  Theorem tied: Gojq.C01Stack.refines_list.
//	oracle `stack-vs-list` — model-free: the real stacks against a naive immutable
//	  list-of-lists reference (the property the theorem states), key `stack:<minimised ops>`.
//	stream `mini` — for random programs of the proved fragment (identity, constants, pipe,
//	  comma, `.[]`, `.name`, empty, `[q]`, error, try/catch, if, `//`, variables, reduce, foreach, object
//	  construction in all six entry forms, recursive one-parameter functions, closures): the instruction
//	  list the REAL compiler emits with every optimisation disabled against Model/MiniVM.lean's
//	  `compileProg` (modulo renumbering of scope ids and registers by first appearance), and the
//	  real outputs against the mini VM's.  Theorem tied: Gojq.C01Compile.compile_refines_spec_fragment.
//
// The Lean side is a second driver (drv_c01aux); its path is passed in.
package c01aux

import (
	"fmt"
	"strconv"
	"strings"

	"github.com/itchyny/gojq"

	"verifharness/common"
)

// Run adds the three checks to ctx. auxDriver is the path of drv_c01aux.
func Run(ctx *common.Ctx, auxDriver string) {
	runStacks(ctx, auxDriver)
	runMini(ctx, auxDriver)
}

func runAux(ctx *common.Ctx, auxDriver string, s *common.Stream, lines, impl []string) {
	if len(lines) == 0 {
		return
	}
	model, err := common.RunDriver(auxDriver, []string{s.Name}, lines)
	if err != nil {
		ctx.Errorf("stream %s: %v", s.Name, err)
		return
	}
	s.Compare(lines, impl, model)
}

// ---------------------------------------------------------------------------------------
// stacks

type stackIface interface {
	push(v int)
	pop() int
	top() (int, bool) // ok=false: no top operation on this stack type
	save() (int, int)
	restore(i, l int)
	state() (int, int, int)
	chain() []int
}

type dataStack struct{ s *gojq.VerifStack }

func (d dataStack) push(v int)             { d.s.Push(v) }
func (d dataStack) pop() int               { return d.s.Pop().(int) }
func (d dataStack) top() (int, bool)       { return d.s.Top().(int), true }
func (d dataStack) save() (int, int)       { return d.s.Save() }
func (d dataStack) restore(i, l int)       { d.s.Restore(i, l) }
func (d dataStack) state() (int, int, int) { return d.s.State() }
func (d dataStack) chain() []int {
	xs := d.s.Chain()
	out := make([]int, len(xs))
	for i, x := range xs {
		out[i] = x.(int)
	}
	return out
}

type scopeStack struct{ s *gojq.VerifScopeStack }

func (d scopeStack) push(v int)             { d.s.Push(v) }
func (d scopeStack) pop() int               { return d.s.Pop() }
func (d scopeStack) top() (int, bool)       { return 0, false }
func (d scopeStack) save() (int, int)       { return d.s.Save() }
func (d scopeStack) restore(i, l int)       { d.s.Restore(i, l) }
func (d scopeStack) state() (int, int, int) { return d.s.State() }
func (d scopeStack) chain() []int           { return d.s.Chain() }

func newStack(kind string) stackIface {
	if kind == "scopestack" {
		return scopeStack{gojq.NewVerifScopeStack()}
	}
	return dataStack{gojq.NewVerifStack()}
}

// op: "p<int>", "o", "t", "s", "r"
type stackRun struct {
	answer string // the stream answer
	bad    int    // index of the first op after which the real chain differs from the reference (-1: none)
	what   string
}

func ints(xs []int) string {
	ss := make([]string, len(xs))
	for i, x := range xs {
		ss[i] = strconv.Itoa(x)
	}
	return strings.Join(ss, ",")
}

// runStackOps drives a fresh real stack with ops, rendering the state after every op, and
// compares with the naive reference (immutable list + stack of saved lists).
func runStackOps(kind string, ops []string) (res stackRun) {
	res.bad = -1
	s := newStack(kind)
	var snaps [][2]int
	var ref []int     // top first
	var saved [][]int // most recent last
	var parts []string
	panicked := false
	for k, op := range ops {
		prefix := ""
		func() {
			defer func() {
				if r := recover(); r != nil {
					panicked = true
				}
			}()
			switch op[0] {
			case 'p':
				v, _ := strconv.Atoi(op[1:])
				s.push(v)
				ref = append([]int{v}, ref...)
			case 'o':
				v := s.pop()
				prefix = fmt.Sprintf("=%d:", v)
				if len(ref) == 0 {
					res.bad, res.what = k, "pop of an empty list did not panic"
				} else {
					if v != ref[0] && res.bad < 0 {
						res.bad, res.what = k, fmt.Sprintf("pop returned %d, the list's head is %d", v, ref[0])
					}
					ref = ref[1:]
				}
			case 't':
				if v, ok := s.top(); ok {
					prefix = fmt.Sprintf("=%d:", v)
					if len(ref) > 0 && v != ref[0] && res.bad < 0 {
						res.bad, res.what = k, fmt.Sprintf("top returned %d, the list's head is %d", v, ref[0])
					}
				} else if len(ref) > 0 {
					prefix = fmt.Sprintf("=%d:", ref[0]) // scopeStack has no top(): answer from the chain
				} else {
					panic("top of empty")
				}
			case 's':
				i, l := s.save()
				snaps = append(snaps, [2]int{i, l})
				saved = append(saved, append([]int(nil), ref...))
			case 'r':
				p := snaps[len(snaps)-1]
				snaps = snaps[:len(snaps)-1]
				s.restore(p[0], p[1])
				ref = saved[len(saved)-1]
				saved = saved[:len(saved)-1]
			}
		}()
		if panicked {
			parts = append(parts, "PANIC")
			if (op[0] == 'o' || op[0] == 't') && len(ref) == 0 {
				// expected: Go panics on pop/top of an empty stack
			} else if res.bad < 0 {
				res.bad, res.what = k, "panic"
			}
			break
		}
		i, l, n := s.state()
		ch := s.chain()
		parts = append(parts, fmt.Sprintf("%s%d,%d,%d|%s", prefix, i, l, n, ints(ch)))
		if res.bad < 0 && ints(ch) != ints(ref) {
			res.bad, res.what = k, fmt.Sprintf("chain [%s], the list is [%s]", ints(ch), ints(ref))
		}
	}
	res.answer = strings.Join(parts, ";")
	return
}

// validOps reports whether ops is in LIFO discipline (every r has an outstanding s; pops of an
// empty list only as the last operation).
func validOps(ops []string) bool {
	depth := 0
	var cur int
	var saved []int
	for k, op := range ops {
		switch op[0] {
		case 'p':
			cur++
		case 'o', 't':
			if cur == 0 {
				return k == len(ops)-1
			}
			if op[0] == 'o' {
				cur--
			}
		case 's':
			depth++
			saved = append(saved, cur)
		case 'r':
			if depth == 0 {
				return false
			}
			depth--
			cur = saved[len(saved)-1]
			saved = saved[:len(saved)-1]
		}
	}
	return true
}

// genStackOps draws an operation sequence in fork discipline. profile shapes the mix:
// 0 balanced, 1 deep saves (many nested snapshots), 2 churn (restore then push: overwrites the
// blocks above the limit), 3 VM-like (save; push/pop burst; restore).
func genStackOps(r *common.Rand, n, profile int) []string {
	var ops []string
	cur, depth := 0, 0
	var saved []int
	next := 1
	push := func() {
		ops = append(ops, "p"+strconv.Itoa(next))
		next++
		cur++
	}
	for len(ops) < n {
		k := r.Intn(100)
		var pPush, pPop, pSave, pRestore, pTop int
		switch profile {
		case 1:
			pPush, pPop, pSave, pRestore, pTop = 30, 15, 35, 15, 5
		case 2:
			pPush, pPop, pSave, pRestore, pTop = 35, 20, 15, 25, 5
		case 3:
			pPush, pPop, pSave, pRestore, pTop = 40, 35, 10, 10, 5
		default:
			pPush, pPop, pSave, pRestore, pTop = 30, 25, 20, 20, 5
		}
		_ = pTop
		switch {
		case k < pPush:
			push()
		case k < pPush+pPop:
			if cur > 0 {
				ops = append(ops, "o")
				cur--
			} else {
				push()
			}
		case k < pPush+pPop+pSave:
			ops = append(ops, "s")
			saved = append(saved, cur)
			depth++
		case k < pPush+pPop+pSave+pRestore:
			if depth > 0 {
				ops = append(ops, "r")
				depth--
				cur = saved[len(saved)-1]
				saved = saved[:len(saved)-1]
				if profile == 2 && r.Chance(2, 3) {
					push() // overwrite above the restored limit
				}
			} else {
				push()
			}
		default:
			if cur > 0 {
				ops = append(ops, "t")
			}
		}
	}
	// unwind some of the outstanding snapshots so that old ones are observed again
	for depth > 0 && r.Chance(4, 5) {
		ops = append(ops, "r")
		depth--
		cur = saved[len(saved)-1]
		saved = saved[:len(saved)-1]
		if cur > 0 && r.Bool() {
			ops = append(ops, "t")
		}
	}
	if cur == 0 && r.Chance(1, 8) {
		ops = append(ops, "o") // Go panics; so must the model
	}
	return ops
}

// minimise shrinks a failing op sequence (greedy removal of single ops / chunks, keeping
// discipline and failure).
func minimise(kind string, ops []string) []string {
	fails := func(o []string) bool { return validOps(o) && runStackOps(kind, o).bad >= 0 }
	if r := runStackOps(kind, ops); r.bad >= 0 && r.bad+1 < len(ops) {
		ops = ops[:r.bad+1]
	}
	for chunk := len(ops) / 2; chunk >= 1; chunk /= 2 {
		for i := 0; i+chunk <= len(ops); {
			cand := append(append([]string(nil), ops[:i]...), ops[i+chunk:]...)
			if fails(cand) {
				ops = cand
			} else {
				i++
			}
		}
	}
	// canonical push values 1, 2, … so that the key identifies the shape of the failure
	out := make([]string, len(ops))
	next := 1
	for i, op := range ops {
		if op[0] == 'p' {
			out[i] = "p" + strconv.Itoa(next)
			next++
		} else {
			out[i] = op
		}
	}
	if fails(out) {
		return out
	}
	return ops
}

func runStacks(ctx *common.Ctx, auxDriver string) {
	r := ctx.R.Fork(0xC01A)
	nSeq := ctx.N(400, 2500)
	oracle := ctx.NewOracle("stack-vs-list",
		"the real stack.go / scope_stack.go structures, driven through gojq.VerifStack / VerifScopeStack with push/pop/top/save/restore in fork (LIFO) discipline, "+
			"must equal a naive immutable list with a stack of saved lists after every operation (pop/top values, and the whole chain)")
	reported := map[string]int{}
	for _, kind := range []string{"stack", "scopestack"} {
		st := ctx.NewStream(kind, "Gojq.Stack.Stack.{push,pop,top,save,restore} (Model/Stack.lean) — theorem Gojq.C01Stack.refines_list",
			"index, limit, len(data) and the chain after every operation of a random LIFO-disciplined sequence; distinct = distinct answer lines")
		var lines, impl []string
		for i := 0; i < nSeq; i++ {
			var n int
			switch {
			case i < 40:
				n = r.Range(1, 12)
			case i%10 == 0 && i < 400:
				n = r.Range(1000, 4000)
			default:
				n = r.Range(10, 300)
			}
			profile := r.Intn(4)
			ops := genStackOps(r, n, profile)
			res := runStackOps(kind, ops)
			lines = append(lines, strings.Join(ops, " "))
			impl = append(impl, res.answer)
			st.Distribution[fmt.Sprintf("profile%d", profile)]++
			st.Distribution[fmt.Sprintf("len<%d", bucket(len(ops)))]++
			oracle.Cases++
			oracle.Distribution[kind]++
			if strings.Contains(res.answer, "PANIC") {
				oracle.Distribution["ends with pop of empty (panic expected)"]++
			}
			if res.bad >= 0 && reported[kind] < 5 {
				reported[kind]++
				min := minimise(kind, ops)
				mres := runStackOps(kind, min)
				ctx.Violate(kind+":"+strings.Join(min, " "),
					kind+" diverges from the immutable list: "+mres.what,
					map[string]any{"stack": kind, "ops": strings.Join(min, " "), "observed": mres.answer, "what": mres.what,
						"how": "drive gojq.NewVerifStack()/NewVerifScopeStack() (build tag verif) with the ops: p<n> push, o pop, t top, s save, r restore most recent snapshot"})
			}
		}
		oracle.Distinct += len(lines)
		runAux(ctx, auxDriver, st, lines, impl)
	}
	oracle.Rule = oracle.Rule + "; distinct = operation sequences (all distinct by construction of the value counter)"
}

func bucket(n int) int {
	for _, b := range []int{10, 30, 100, 300, 1000, 5000} {
		if n < b {
			return b
		}
	}
	return 1 << 30
}

// Package jqgen generates jq programs as text: type-directed, mostly valid,
// biased to the nestings the properties name (closure parameters called inside
// reduce inside try after a backtrack, generators re-entered after their frame
// returned, labels crossing function boundaries, overlapping update paths …).
package jqgen

import (
	"fmt"
	"strings"

	"verifharness/common"
)

type G struct {
	R       *common.Rand
	Depth   int      // remaining depth
	Vars    []string // $names in scope
	Funcs   []fn     // user functions in scope
	Labels  []string
	NoUpd   bool // do not generate update operators
	NoDef   bool
	Counter *int
}

type fn struct {
	name   string
	params []string // "f" filter param, "$x" value param
}

func New(r *common.Rand, depth int) *G {
	c := 0
	return &G{R: r, Depth: depth, Counter: &c}
}

func (g *G) sub() *G {
	h := *g
	h.Depth = g.Depth - 1
	return &h
}

func (g *G) fresh(prefix string) string {
	*g.Counter++
	return fmt.Sprintf("%s%d", prefix, *g.Counter)
}

var keys = []string{"a", "b", "c", "x"}

// Atom: a small value expression.
func (g *G) Atom() string {
	r := g.R
	switch r.Intn(14) {
	case 0:
		return "."
	case 1:
		return fmt.Sprint(r.Range(-2, 5))
	case 2:
		return "null"
	case 3:
		return common.Pick(r, []string{"true", "false"})
	case 4:
		return `"` + common.Pick(r, []string{"a", "b", "", "x y", "é"}) + `"`
	case 5:
		return "." + common.Pick(r, keys)
	case 6:
		return fmt.Sprintf(".[%d]", r.Range(-2, 3))
	case 7:
		if len(g.Vars) > 0 {
			return common.Pick(r, g.Vars)
		}
		return "."
	case 8:
		return common.Pick(r, []string{"[]", "{}", "[1,2]", `{"a":1}`, "[.]", "{a:.}"})
	case 9:
		return common.Pick(r, []string{"1.5", "0.5", "1e2", "-0", "100000000000000000000"})
	case 10:
		return common.Pick(r, []string{".[]", ".[]?", "..", "empty", ".a?", ".[1:]", ".[:1]", ".a.b", ".a[0]"})
	case 11:
		return common.Pick(r, []string{"length", "keys", "type", "not", "add", "tostring", "tojson", "reverse", "first", "last", "values", "to_entries", "sort", "unique", "flatten", "min", "max", "floor", "abs", "explode", "ascii_downcase", "nulls"})
	default:
		for _, f := range g.Funcs {
			if len(f.params) == 0 && r.Chance(1, 2) {
				return f.name
			}
		}
		return "."
	}
}

// Query generates a core-grammar program.
func (g *G) Query() string {
	r := g.R
	if g.Depth <= 0 {
		return g.Atom()
	}
	s := g.sub()
	switch r.Intn(34) {
	case 0, 1, 2:
		return s.Query() + " | " + s.Query()
	case 3, 4:
		return s.Query() + ", " + s.Query()
	case 5:
		return "(" + s.Query() + ") " + common.Pick(r, []string{"+", "-", "*", "/", "%"}) + " (" + s.Query() + ")"
	case 6:
		return "(" + s.Query() + ") " + common.Pick(r, []string{"==", "!=", "<", "<=", ">", ">="}) + " (" + s.Query() + ")"
	case 7:
		return "(" + s.Query() + ") " + common.Pick(r, []string{"and", "or"}) + " (" + s.Query() + ")"
	case 8:
		return "(" + s.Query() + ") // (" + s.Query() + ")"
	case 9:
		return "[" + s.Query() + "]"
	case 10:
		return g.object()
	case 11:
		q := "if " + s.Query() + " then " + s.Query()
		if r.Bool() {
			q += " elif " + s.Query() + " then " + s.Query()
		}
		if r.Chance(3, 4) {
			q += " else " + s.Query()
		}
		return q + " end"
	case 12:
		if r.Bool() {
			return "try (" + s.Query() + ") catch (" + s.Query() + ")"
		}
		return "try (" + s.Query() + ")"
	case 13:
		return "(" + s.Query() + ")?"
	case 14:
		v := "$" + g.fresh("v")
		s2 := s.sub()
		s2.Vars = append(append([]string{}, g.Vars...), v)
		return "reduce (" + s.Query() + ") as " + v + " (" + s.Query() + "; " + s2.Query() + ")"
	case 15:
		v := "$" + g.fresh("v")
		s2 := s.sub()
		s2.Vars = append(append([]string{}, g.Vars...), v)
		q := "foreach (" + s.Query() + ") as " + v + " (" + s.Query() + "; " + s2.Query()
		if r.Bool() {
			q += "; " + s2.Query()
		}
		return q + ")"
	case 16:
		l := "$" + g.fresh("l")
		s2 := *s
		s2.Labels = append(append([]string{}, g.Labels...), l)
		return "label " + l + " | " + s2.Query()
	case 17:
		if len(g.Labels) > 0 {
			return "break " + common.Pick(r, g.Labels)
		}
		return s.Query()
	case 18, 19:
		return g.bind()
	case 20, 21:
		return g.def()
	case 22:
		return `"` + common.Pick(r, []string{"a", "", "x="}) + `\(` + s.Query() + `)` + common.Pick(r, []string{"", "b", `\(` + s.Atom() + `)`}) + `"`
	case 23:
		t := common.Pick(r, builtinTemplates)
		for strings.Contains(t, "%s") {
			t = strings.Replace(t, "%s", s.Query(), 1)
		}
		return t
	case 24:
		for _, f := range g.Funcs {
			if r.Chance(1, 2) {
				args := []string{}
				for range f.params {
					args = append(args, s.Query())
				}
				if len(args) == 0 {
					return f.name
				}
				return f.name + "(" + strings.Join(args, "; ") + ")"
			}
		}
		return s.Query()
	case 25:
		if g.NoUpd {
			return s.Query()
		}
		return g.update()
	case 26:
		return "-(" + s.Query() + ")"
	case 27:
		return "(" + s.Query() + ") as [$" + g.fresh("p") + "] ?// $" + g.fresh("p") + " | " + s.Query()
	case 28:
		return "(" + s.Query() + ")" + common.Pick(r, []string{".a", "[0]", "[]", "[]?", ".a?", "[1:]", `["b"]`, "[-1]"})
	case 29:
		return ".[" + s.Query() + "]"
	case 30:
		return ".[" + s.Atom() + ":" + s.Atom() + "]"
	default:
		return g.Atom()
	}
}

var builtinTemplates = []string{"first(%s)", "isempty(%s)", "[limit(2; %s)]", "[limit(0; %s)]", "last(%s)", "[%s] | length", "any(%s; .)", "all(%s; .)", "[range(%s)]", "map(%s)", "select(%s)",
	"[recurse(%s; . != null)] | .[:4]", "[.[]? | %s]", "path(%s)", "[paths(%s)]", "with_entries(%s)", "map_values(%s)", "del(%s)", "to_entries", "min_by(%s)", "sort_by(%s)", "group_by(%s)", "unique_by(%s)",
	"error(%s)", "[limit(3; while(%s; %s))]", "[limit(3; repeat(%s))]", "getpath(%s)", "has(%s)", "contains(%s)", "index(%s)", "ltrimstr(%s)", "join(%s)", "flatten(%s)", "[range(%s; %s)]", "add(%s)", "env", "$ENV",
	"[.[] | select(%s)]", "first(%s, %s)", "[limit(1; %s)]", "until(%s; %s)", "tostring", "tojson", "ascii_downcase", "startswith(%s)", "endswith(%s)", "inside(%s)", "[combinations]?", "walk(%s)", "in(%s)", "from_entries?",
	"indices(%s)", "[.[]?] | add", "any", "all", "splits(%s)?", "test(%s)?", "[match(%s)?] | length", "ascii", "@json", "@text", "@base64", "tonumber?", "implode?", "transpose?", "getpath([%s])", "setpath([%s]; %s)",
	"delpaths([[%s]])", "to_entries | from_entries", "[leaf_paths]", "input_line_number?", "splits(\"a\")?", "ltrimstr(\"a\")", "limit(%s; .[]?)", "[.[]?] | sort", "[.[]?] | unique", "min", "max", "INDEX(.[]?; %s)?", "IN(%s)", "isvalid(%s)?", "error", "halt_error?"}

func (g *G) object() string {
	r := g.R
	s := g.sub()
	n := r.Range(1, 3)
	var parts []string
	for i := 0; i < n; i++ {
		switch r.Intn(6) {
		case 0:
			parts = append(parts, common.Pick(r, keys)+": "+s.termQ())
		case 1:
			parts = append(parts, "("+s.Query()+"): "+s.termQ())
		case 2:
			parts = append(parts, `"`+common.Pick(r, keys)+`": `+s.termQ())
		case 3:
			parts = append(parts, common.Pick(r, keys))
		case 4:
			if len(g.Vars) > 0 {
				parts = append(parts, common.Pick(r, g.Vars))
			} else {
				parts = append(parts, "a: 1")
			}
		default:
			parts = append(parts, `"k\(`+s.Atom()+`)": `+s.termQ())
		}
	}
	return "{" + strings.Join(parts, ", ") + "}"
}

// termQ: a query usable as an object value (no bare comma/pipe at top level).
func (g *G) termQ() string { return "(" + g.Query() + ")" }

// Pattern generates a destructuring pattern of the full pattern grammar and the variables it binds.
func (g *G) Pattern(depth int) (string, []string) {
	r := g.R
	v := func() string { return "$" + g.fresh("p") }
	if depth <= 0 {
		x := v()
		return x, []string{x}
	}
	switch r.Intn(8) {
	case 0, 1:
		x := v()
		return x, []string{x}
	case 2, 3:
		n := r.Range(1, 3)
		var ps, vs []string
		for i := 0; i < n; i++ {
			p, w := g.Pattern(depth - 1)
			ps = append(ps, p)
			vs = append(vs, w...)
		}
		return "[" + strings.Join(ps, ", ") + "]", vs
	default:
		n := r.Range(1, 2)
		var ps, vs []string
		for i := 0; i < n; i++ {
			k := common.Pick(r, keys)
			switch r.Intn(6) {
			case 0: // {$a}
				ps = append(ps, "$"+k)
				vs = append(vs, "$"+k)
			case 1: // {$a: pat}
				p, w := g.Pattern(depth - 1)
				ps = append(ps, "$"+k+": "+p)
				vs = append(append(vs, "$"+k), w...)
			case 2: // {"a": pat}
				p, w := g.Pattern(depth - 1)
				ps = append(ps, "\""+k+"\": "+p)
				vs = append(vs, w...)
			case 3: // {(expr): pat}
				p, w := g.Pattern(depth - 1)
				ps = append(ps, "("+common.Pick(r, []string{"\"a\"", "\"b\"", "\"a\", \"b\"", ".x // \"a\"", "keys[0]?"})+"): "+p)
				vs = append(vs, w...)
			case 4: // {"k\(e)": pat}
				p, w := g.Pattern(depth - 1)
				ps = append(ps, "\"\\(\"a\")\": "+p)
				vs = append(vs, w...)
			default: // {a: pat}
				p, w := g.Pattern(depth - 1)
				ps = append(ps, k+": "+p)
				vs = append(vs, w...)
			}
		}
		return "{" + strings.Join(ps, ", ") + "}", vs
	}
}

// altBind: `src as p1 ?// p2 ?// p3 | body` where the body reads every variable of every alternative
// (an abandoned alternative must leave its variables null) and may raise an error per alternative.
func (g *G) altBind() string {
	r := g.R
	s := g.sub()
	n := r.Range(1, 3)
	var ps []string
	seen := map[string]bool{}
	var all []string
	for i := 0; i < n; i++ {
		p, vs := g.Pattern(r.Range(0, 2))
		ps = append(ps, p)
		for _, v := range vs {
			if !seen[v] {
				seen[v] = true
				all = append(all, v)
			}
		}
	}
	// share variable names between alternatives sometimes
	if n > 1 && r.Bool() && len(all) > 1 {
		ps[n-1] = all[0]
	}
	body := "[" + strings.Join(all, ", ") + "]"
	switch r.Intn(4) {
	case 0:
		body = "if (" + all[0] + " | type) == \"number\" then error(\"n\") else " + body + " end"
	case 1:
		body += " | " + s.Query()
	}
	src := common.Pick(r, []string{".", "(., [.])", "[., 1]", "{a: ., b: [.]}", ".[]?", "[[.]]", "{a: {b: .}}", s.Query()})
	return "(" + src + ") as " + strings.Join(ps, " ?// ") + " | " + body
}

func (g *G) bind() string {
	r := g.R
	s := g.sub()
	if r.Chance(1, 2) {
		return g.altBind()
	}
	switch r.Intn(4) {
	case 0:
		v := "$" + g.fresh("v")
		s2 := *s
		s2.Vars = append(append([]string{}, g.Vars...), v)
		return "(" + s.Query() + ") as " + v + " | " + s2.Query()
	case 1:
		a, b := "$"+g.fresh("v"), "$"+g.fresh("v")
		s2 := *s
		s2.Vars = append(append([]string{}, g.Vars...), a, b)
		return "(" + s.Query() + ") as [" + a + ", " + b + "] | " + s2.Query()
	case 2:
		a, b := "$"+g.fresh("v"), "$"+g.fresh("v")
		s2 := *s
		s2.Vars = append(append([]string{}, g.Vars...), a, b)
		return "(" + s.Query() + ") as {a: " + a + ", " + b[:1] + "b: " + b + "} | " + s2.Query()
	default:
		a := "$" + g.fresh("v")
		s2 := *s
		s2.Vars = append(append([]string{}, g.Vars...), a)
		return "(" + s.Query() + ") as [" + a + "] ?// " + a + " | " + s2.Query()
	}
}

func (g *G) def() string {
	r := g.R
	if g.NoDef {
		return g.sub().Query()
	}
	s := g.sub()
	name := g.fresh("f")
	var params []string
	for i, n := 0, r.Intn(3); i < n; i++ {
		if r.Bool() {
			params = append(params, g.fresh("g"))
		} else {
			params = append(params, "$"+g.fresh("a"))
		}
	}
	body := *s
	body.Funcs = append([]fn{}, g.Funcs...)
	body.Vars = append([]string{}, g.Vars...)
	for _, p := range params {
		if p[0] == '$' {
			body.Vars = append(body.Vars, p)
		} else {
			body.Funcs = append(body.Funcs, fn{p, nil})
		}
	}
	// occasionally recursive (guarded so that it terminates on small inputs)
	bodyText := body.Query()
	if r.Chance(1, 4) && len(params) == 0 {
		bodyText = "if type == \"array\" and length > 0 then (.[1:] | " + name + "), .[0] else " + bodyText + " end"
	}
	rest := *s
	rest.Funcs = append(append([]fn{}, g.Funcs...), fn{name, params})
	sig := name
	if len(params) > 0 {
		sig += "(" + strings.Join(params, "; ") + ")"
	}
	return "def " + sig + ": " + bodyText + "; " + rest.Query()
}

// PathExpr generates an expression of the path-safe grammar (C02).
func (g *G) PathExpr() string {
	r := g.R
	if g.Depth <= 0 {
		return common.Pick(r, []string{".", ".a", ".b", ".[0]", ".[1]", ".[]", ".a.b", ".[]?", ".a?", ".[1:]", ".[:2]", ".[-1]", "..", ".x", ".c", `.["a"]`, "first", "last", ".[0:1]"})
	}
	s := g.sub()
	switch r.Intn(16) {
	case 0, 1, 2:
		return s.PathExpr() + " | " + s.PathExpr()
	case 3, 4:
		return "(" + s.PathExpr() + ", " + s.PathExpr() + ")"
	case 5:
		return "select(" + s.cond() + ")"
	case 6:
		return "if " + s.cond() + " then " + s.PathExpr() + " else " + s.PathExpr() + " end"
	case 7:
		return "(" + s.PathExpr() + " // " + s.PathExpr() + ")"
	case 8:
		return "first(" + s.PathExpr() + ")"
	case 9:
		return "limit(" + fmt.Sprint(r.Range(0, 2)) + "; " + s.PathExpr() + ")"
	case 10:
		return "getpath([" + common.Pick(r, []string{`"a"`, `"a","b"`, "0", `"x",0`, ""}) + "])"
	case 11:
		return common.Pick(r, []string{"empty", "recurse", "recurse(.[]?; . != null)", ".[]?", "error(\"e\")?"})
	case 12:
		return "(" + s.PathExpr() + ")?"
	case 13:
		v := "$" + g.fresh("v")
		return ". as " + v + " | " + s.PathExpr()
	case 14:
		return "(" + s.PathExpr() + ")" + common.Pick(r, []string{".a", "[0]", "[]?", "[1:]", ".b?"})
	default:
		return s.PathExpr()
	}
}

func (g *G) cond() string {
	r := g.R
	return common.Pick(r, []string{"true", "false", ". != null", "type == \"object\"", "type == \"array\"", ".a", "length > 1", "type == \"number\"", ". == 1", "has(\"a\")?"})
}

// UpdateBody: bodies that copy, duplicate, re-embed, replace or drop their input.
func (g *G) UpdateBody() string {
	return common.Pick(g.R, []string{".", "[., .]", "{x: .}", "1", "null", "empty", "(., 2)", ". + 1", "[.]", "{x: ., y: .}", "tostring?", "length", ".. ", "if . == null then 1 else empty end", "[.[]?]", "(.a, .)?", "{}", "[]"})
}

func (g *G) update() string {
	r := g.R
	p := g.sub().PathExpr()
	switch r.Intn(6) {
	case 0, 1:
		return "(" + p + ") |= (" + g.UpdateBody() + ")"
	case 2:
		return "(" + p + ") = (" + common.Pick(r, []string{"1", ".", "[1]", "(1,2)", "null", "{a:1}"}) + ")"
	case 3:
		return "(" + p + ") " + common.Pick(r, []string{"+=", "-=", "*=", "/=", "%=", "//="}) + " (" + common.Pick(r, []string{"1", "2", "(1,2)", ".a", "null", "[1]"}) + ")"
	case 4:
		return "del(" + p + ")"
	default:
		return common.Pick(r, []string{"to_entries", "with_entries(.value |= .)", "map_values(" + g.UpdateBody() + ")", "[paths]", "[paths(type == \"number\")]", "[tostream]", "pick(" + p + ")?", "delpaths([path(" + p + ")])"})
	}
}

package jqgen

import (
	"fmt"
	"math/big"
	"sort"
	"strings"

	"verifharness/common"
)

// Typed generation: programs are generated against the (approximate) type of
// their input so that most of them run without a type error. Naive generation
// over-exercises error handling (measured: ≈80% of naive programs end in a type
// error at the first operator), which is why both generators are used.

type Kind int

const (
	KAny Kind = iota
	KNull
	KBool
	KNum
	KStr
	KArr
	KObj
)

type Ty struct {
	K      Kind
	Elem   *Ty            // arrays: join of element types (nil = empty array)
	Fields map[string]*Ty // objects
	Small  bool           // numbers: small non-negative integer (safe for range/limit/indices)
}

var tyAny = &Ty{K: KAny}
var tyNum = &Ty{K: KNum}
var tySmall = &Ty{K: KNum, Small: true}
var tyStr = &Ty{K: KStr}
var tyBool = &Ty{K: KBool}
var tyNull = &Ty{K: KNull}

func arrOf(e *Ty) *Ty { return &Ty{K: KArr, Elem: e} }

// TypeOf infers the type of a value.
func TypeOf(v any) *Ty {
	switch v := v.(type) {
	case nil:
		return tyNull
	case bool:
		return tyBool
	case int:
		if v >= 0 && v <= 6 {
			return tySmall
		}
		return tyNum
	case float64, *big.Int:
		return tyNum
	case string:
		return tyStr
	case []any:
		var e *Ty
		for _, x := range v {
			e = join(e, TypeOf(x))
		}
		return arrOf(e)
	case map[string]any:
		f := map[string]*Ty{}
		for k, x := range v {
			f[k] = TypeOf(x)
		}
		return &Ty{K: KObj, Fields: f}
	}
	return tyAny
}

func join(a, b *Ty) *Ty {
	if a == nil {
		return b
	}
	if b == nil {
		return a
	}
	if a.K != b.K {
		return tyAny
	}
	switch a.K {
	case KArr:
		return arrOf(join(a.Elem, b.Elem))
	case KObj:
		f := map[string]*Ty{}
		for k, x := range a.Fields {
			if y, ok := b.Fields[k]; ok {
				f[k] = join(x, y)
			}
		}
		return &Ty{K: KObj, Fields: f}
	case KNum:
		return &Ty{K: KNum, Small: a.Small && b.Small}
	}
	return a
}

func (t *Ty) keys() []string {
	var ks []string
	for k := range t.Fields {
		ks = append(ks, k)
	}
	sort.Strings(ks)
	return ks
}

func isIdent(s string) bool {
	if s == "" {
		return false
	}
	for i, c := range s {
		if !(c == '_' || c >= 'a' && c <= 'z' || c >= 'A' && c <= 'Z' || i > 0 && c >= '0' && c <= '9') {
			return false
		}
	}
	switch s {
	case "and", "or", "not", "if", "then", "else", "elif", "end", "as", "def", "reduce", "foreach", "try", "catch", "label", "import", "include", "__loc__":
		return false
	}
	return true
}

func fieldAccess(k string) string {
	if isIdent(k) {
		return "." + k
	}
	return fmt.Sprintf(".[%s]", jsonStr(k))
}

func jsonStr(s string) string {
	var sb strings.Builder
	sb.WriteByte('"')
	for _, c := range []byte(s) {
		switch {
		case c == '"' || c == '\\':
			sb.WriteByte('\\')
			sb.WriteByte(c)
		case c < 0x20 || c == 0x7f:
			fmt.Fprintf(&sb, "\\u%04x", c)
		default:
			sb.WriteByte(c)
		}
	}
	sb.WriteByte('"')
	return sb.String()
}

type tvar struct {
	name string
	ty   *Ty
}
type tfn struct {
	name   string
	arity  int
	in     *Ty // input type the body was generated for
	out    *Ty
	params []string
}

// TG is a typed generator state.
type TG struct {
	R      *common.Rand
	Depth  int
	Vars   []tvar
	Funcs  []tfn
	Labels []string
	Cnt    *int
	NoUpd  bool
}

func NewTyped(r *common.Rand, depth int) *TG {
	c := 0
	return &TG{R: r, Depth: depth, Cnt: &c}
}

func (g *TG) sub() *TG {
	h := *g
	h.Depth--
	return &h
}

func (g *TG) fresh(p string) string {
	*g.Cnt++
	return fmt.Sprintf("%s%d", p, *g.Cnt)
}

// Gen returns a program for input type t and (an approximation of) its output type.
func (g *TG) Gen(t *Ty) (string, *Ty) {
	r := g.R
	if g.Depth <= 0 {
		return g.leaf(t)
	}
	s := g.sub()
	switch r.Intn(30) {
	case 0, 1, 2, 3:
		a, ta := s.Gen(t)
		b, tb := s.Gen(ta)
		return a + " | " + b, tb
	case 4, 5:
		a, ta := s.Gen(t)
		b, tb := s.Gen(t)
		return "(" + a + ", " + b + ")", join(ta, tb)
	case 6:
		a, ta := s.Gen(t)
		return "[" + a + "]", arrOf(ta)
	case 7:
		return g.objectCons(t)
	case 8:
		c := s.cond(t)
		a, ta := s.Gen(t)
		b, tb := s.Gen(t)
		if r.Chance(1, 4) {
			c2 := s.cond(t)
			d, td := s.Gen(t)
			return "if " + c + " then " + a + " elif " + c2 + " then " + d + " else " + b + " end", join(join(ta, tb), td)
		}
		return "if " + c + " then " + a + " else " + b + " end", join(ta, tb)
	case 9:
		a, ta := s.Gen(t)
		if r.Bool() {
			b, tb := s.Gen(tyStr)
			return "try (" + a + ") catch (" + b + ")", join(ta, tb)
		}
		return "(" + a + ")?", ta
	case 10:
		// reduce over a generator with a numeric or array accumulator
		src, te := g.generator(t)
		v := "$" + g.fresh("v")
		s2 := s.sub()
		s2.Vars = append(append([]tvar{}, g.Vars...), tvar{v, te})
		if r.Bool() {
			upd, _ := s2.genTo(tyNum, tyNum)
			return "reduce (" + src + ") as " + v + " (0; " + upd + ")", tyNum
		}
		el, tel := s2.Gen(te)
		return "reduce (" + src + ") as " + v + " ([]; . + [" + v + " | " + el + "])", arrOf(tel)
	case 11:
		src, te := g.generator(t)
		v := "$" + g.fresh("v")
		s2 := s.sub()
		s2.Vars = append(append([]tvar{}, g.Vars...), tvar{v, te})
		upd, _ := s2.genTo(tyNum, tyNum)
		if r.Bool() {
			ex, tex := s2.Gen(tyNum)
			return "foreach (" + src + ") as " + v + " (0; " + upd + "; " + ex + ")", tex
		}
		return "foreach (" + src + ") as " + v + " (0; " + upd + ")", tyNum
	case 12:
		l := "$" + g.fresh("l")
		s2 := *s
		s2.Labels = append(append([]string{}, g.Labels...), l)
		a, ta := s2.Gen(t)
		return "label " + l + " | " + a, ta
	case 13:
		if len(g.Labels) > 0 {
			a, ta := s.Gen(t)
			return "(" + a + ", break " + common.Pick(r, g.Labels) + ")", ta
		}
		return s.Gen(t)
	case 14, 15:
		// binding
		a, ta := s.Gen(t)
		v := "$" + g.fresh("v")
		s2 := *s
		s2.Vars = append(append([]tvar{}, g.Vars...), tvar{v, ta})
		b, tb := s2.Gen(t)
		return "(" + a + ") as " + v + " | " + b, tb
	case 16:
		return g.destructure(t)
	case 17, 18:
		return g.defn(t)
	case 19:
		return g.callUser(t)
	case 20:
		a, ta := s.Gen(t)
		b, tb := s.Gen(t)
		return "((" + a + ") // (" + b + "))", join(ta, tb)
	case 21:
		a, _ := s.Gen(t)
		b, _ := s.Gen(t)
		return "((" + a + ") " + common.Pick(r, []string{"==", "!=", "<", "<=", ">", ">="}) + " (" + b + "))", tyBool
	case 22:
		a := s.cond(t)
		b := s.cond(t)
		return "((" + a + ") " + common.Pick(r, []string{"and", "or"}) + " (" + b + "))", tyBool
	case 23:
		a, ta := s.Gen(t)
		_ = ta
		return fmt.Sprintf(common.Pick(r, []string{"first(%s)", "[limit(2; %s)]", "[limit(1; %s)]", "isempty(%s)", "[%s]", "last(%s)", "[limit(0; %s)]", "[%s] | length"}), a), tyAny
	case 24:
		if !g.NoUpd {
			return g.update(t)
		}
		return g.typedOp(t)
	case 25:
		a, _ := s.genTo(t, tyStr)
		b, _ := s.genTo(t, tyStr)
		return `"` + common.Pick(r, []string{"", "a", "x="}) + `\(` + a + `)` + common.Pick(r, []string{"", "-", " "}) + `\(` + b + `)"`, tyStr
	default:
		return g.typedOp(t)
	}
}

// genTo tries to produce a program from t whose output has kind `want`.
func (g *TG) genTo(t, want *Ty) (string, *Ty) {
	r := g.R
	switch want.K {
	case KNum:
		switch t.K {
		case KNum:
			return common.Pick(r, []string{". + 1", ". * 2", ". - 1", ".", ". + 10", "-(.)", ". % 7", "(., . + 1)"}), tyNum
		case KStr, KArr, KObj:
			return "length", tySmall
		}
		for _, v := range g.Vars {
			if v.ty.K == KNum && r.Bool() {
				return common.Pick(r, []string{". + " + v.name, v.name, v.name + " * 2"}), tyNum
			}
		}
		return common.Pick(r, []string{"1", "2", "0", "(1, 2)"}), tySmall
	case KStr:
		switch t.K {
		case KStr:
			return common.Pick(r, []string{".", `. + "x"`, "ascii_downcase", ".[1:]", `ltrimstr("a")`}), tyStr
		}
		return common.Pick(r, []string{"tojson", "tostring", "type", `"s"`}), tyStr
	}
	return g.Gen(t)
}

func (g *TG) cond(t *Ty) string {
	r := g.R
	switch t.K {
	case KNum:
		return common.Pick(r, []string{". > 1", ". == 0", ". < 3", ". >= 2", ". != 1"})
	case KStr:
		return common.Pick(r, []string{`. == "a"`, "length > 1", `startswith("a")`, `. != ""`, `test("b")`})
	case KArr:
		return common.Pick(r, []string{"length > 1", "length == 0", ". == []", "any", "all"})
	case KObj:
		ks := t.keys()
		if len(ks) > 0 && r.Bool() {
			return "has(" + jsonStr(common.Pick(r, ks)) + ")"
		}
		return common.Pick(r, []string{"length > 0", ". == {}", `has("a")`})
	case KBool:
		return common.Pick(r, []string{".", "not", ". == true"})
	}
	return common.Pick(r, []string{". == null", "type == \"number\"", "type == \"array\"", "true", "false", ". != null", "(type == \"object\")", "(true, false)", "null"})
}

func (g *TG) leaf(t *Ty) (string, *Ty) {
	r := g.R
	if r.Chance(1, 3) {
		return g.typedOp(t)
	}
	switch r.Intn(9) {
	case 0, 1:
		return ".", t
	case 2:
		return fmt.Sprint(r.Range(0, 4)), tySmall
	case 3:
		return common.Pick(r, []string{`"a"`, `"b"`, `""`, `"ab"`}), tyStr
	case 4:
		return common.Pick(r, []string{"null", "true", "false"}), tyAny
	case 5:
		if len(g.Vars) > 0 {
			v := common.Pick(r, g.Vars)
			return v.name, v.ty
		}
		return ".", t
	case 6:
		return common.Pick(r, []string{"[]", "{}", "[1,2,3]", `{"a":1,"b":[2]}`, "[[1,2],[3]]", "[.]", "{a:.}"}), tyAny
	case 7:
		return common.Pick(r, []string{"empty", "(1,2)", "(.,.)", "type", "tojson", "[.] | length"}), tyAny
	default:
		return g.callUser(t)
	}
}

// typedOp: an operation valid for the input kind.
func (g *TG) typedOp(t *Ty) (string, *Ty) {
	r := g.R
	switch t.K {
	case KNum:
		ops := []struct {
			s string
			t *Ty
		}{{". + 1", tyNum}, {". * 2", tyNum}, {". - 1", tyNum}, {"-(.)", tyNum}, {". / 2", tyNum}, {". % 3", tyNum}, {"floor", tyNum}, {"abs", tyNum}, {"tostring", tyStr}, {"tojson", tyStr},
			{"[., 1]", arrOf(tyNum)}, {"{n: .}", &Ty{K: KObj, Fields: map[string]*Ty{"n": t}}}, {". == 1", tyBool}, {". < 2", tyBool}, {"(., . + 1)", tyNum}, {"[limit(3; repeat(1))]", arrOf(tySmall)},
			{"[limit(3; recurse(. + 1))]", arrOf(tyNum)}, {"select(. > 0)", tyNum}, {"if . > 1 then . else empty end", tyNum}, {"length", tyNum}, {"-1 * .", tyNum}, {". + 0.5", tyNum}, {"isnan", tyBool}, {"[.,.] | add", tyNum}}
		if t.Small {
			ops = append(ops, []struct {
				s string
				t *Ty
			}{{"range(.)", tySmall}, {"[range(.)]", arrOf(tySmall)}, {"[range(0; .; 2)]", arrOf(tySmall)}, {"[limit(.; 1, 2, 3)]", arrOf(tySmall)}, {"[range(.)] | map(. * 2)", arrOf(tyNum)}, {"reduce range(.) as $i (0; . + $i)", tyNum}, {"[foreach range(.) as $i (0; . + $i)]", arrOf(tyNum)}, {"until(. > 10; . + 3)", tyNum}, {"[while(. < 10; . + 4)]", arrOf(tyNum)}, {"[range(.; . + 2)]", arrOf(tyNum)}}...)
		}
		o := common.Pick(r, ops)
		return o.s, o.t
	case KStr:
		ops := []struct {
			s string
			t *Ty
		}{{"length", tySmall}, {`. + "x"`, tyStr}, {"explode", arrOf(tyNum)}, {"ascii_downcase", tyStr}, {"ascii_upcase", tyStr}, {".[1:]", tyStr}, {".[:2]", tyStr}, {".[0:1]", tyStr}, {`split("a")`, arrOf(tyStr)}, {`ltrimstr("a")`, tyStr}, {`rtrimstr("b")`, tyStr},
			{"tojson", tyStr}, {`"<\(.)>"`, tyStr}, {"[.]", arrOf(tyStr)}, {`. * 2`, tyStr}, {`. / "a"`, arrOf(tyStr)}, {`startswith("a")`, tyBool}, {`endswith("b")`, tyBool}, {"utf8bytelength", tySmall}, {`test("a")`, tyBool}, {`[match("a|b"; "g") | .offset]`, arrOf(tySmall)},
			{`sub("a"; "z")`, tyStr}, {`gsub("[ab]"; "-")`, tyStr}, {`[splits("b")]`, arrOf(tyStr)}, {`[scan(".")]`, arrOf(tyStr)}, {`index("b")`, tyAny}, {`indices("a")`, arrOf(tySmall)}, {"explode | implode", tyStr}, {"@base64", tyStr}, {"@uri", tyStr}, {"@json", tyStr}, {"@text", tyStr}, {`[., "y"] | join(",")`, tyStr},
			{`. == "a"`, tyBool}, {"tostring", tyStr}, {`{(.): 1}`, tyAny}, {`ascii_downcase | explode | reverse | implode`, tyStr}, {"trim", tyStr}, {`ltrimstr("x") | length`, tySmall}, {"[., .] | unique", arrOf(tyStr)}, {"fromjson?", tyAny}, {"tonumber?", tyNum}, {`.[1:] + .[:1]`, tyStr}}
		o := common.Pick(r, ops)
		return o.s, o.t
	case KBool, KNull:
		return common.Pick(r, []string{"not", ".", "[.]", "tojson", "type", ". == null", "if . then 1 else 2 end", "(. // 5)", ". and true", ". or false", "{a: .}", "[., .]", "select(.)", "select(. | not)", "tostring", ". + 1?", "[.] | length", "values", "nulls", "booleans", "length?", "type"}), tyAny
	case KArr:
		e := t.Elem
		if e == nil {
			e = tyAny
		}
		ops := []struct {
			s string
			t *Ty
		}{{".[]", e}, {".[0]", e}, {".[-1]", e}, {".[1:]", t}, {".[:2]", t}, {".[1:3]", t}, {"length", tySmall}, {"reverse", t}, {"first", e}, {"last", e}, {". + [1]", arrOf(tyAny)}, {"to_entries", arrOf(tyAny)}, {"keys", arrOf(tySmall)}, {"[.[] | tojson]", arrOf(tyStr)},
			{"sort", t}, {"unique", t}, {"min", e}, {"max", e}, {"flatten", arrOf(tyAny)}, {"flatten(1)", arrOf(tyAny)}, {"[paths]", arrOf(tyAny)}, {"[tostream]", arrOf(tyAny)}, {"[..]", arrOf(tyAny)}, {"tojson", tyStr}, {"[.[]?]", t}, {"map(tojson)", arrOf(tyStr)}, {"add", tyAny}, {"any", tyBool}, {"all", tyBool},
			{"[limit(2; .[])]", t}, {"first(.[])", e}, {"[.[] | select(. != null)]", t}, {". - [.[0]]", t}, {"index(.[0])", tyAny}, {"indices(.[0])", arrOf(tySmall)}, {"[.[-1], .[0]]", t}, {"del(.[0])", t}, {"del(.[1:])", t}, {"to_entries | from_entries?", tyAny}, {"with_entries(.)", t}, {"[.[] | [.]]", arrOf(t)}, {"transpose?", arrOf(tyAny)},
			{"group_by(.)", arrOf(t)}, {"unique_by(tojson)", t}, {"sort_by(tojson)", t}, {"min_by(tojson)", e}, {"[recurse]", arrOf(tyAny)}, {"[paths(type == \"number\")]", arrOf(tyAny)}, {"map(select(. != null))", t}, {"[.[] as $x | [$x, $x]]", arrOf(t)}, {"[foreach .[] as $x (0; . + 1; [., $x])]", arrOf(tyAny)},
			{"reduce .[] as $x ([]; [$x] + .)", t}, {"[first(.[]), last(.[])]", t}, {"isempty(.[])", tyBool}, {"[limit(1; .[])]", t}, {"[.[] | ., .]", t}, {"combinations?", tyAny}, {"[splits(\"a\")?]", arrOf(tyAny)}, {"bsearch(.[0])", tyNum}, {"contains([.[0]])", tyBool}, {"inside(. + [9])", tyBool}, {"has(0)", tyBool}, {"has(5)", tyBool}, {"getpath([0])", e}, {"[getpath([0], [1])]", t}, {"walk(.)", t}, {"map(type)", arrOf(tyStr)}, {"[.[] | strings]", arrOf(tyStr)}, {"[.[] | numbers]", arrOf(tyNum)}, {"map(values)", t}, {"implode?", tyStr}, {"join(\",\")?", tyStr}, {"[nth(0, 1; .[])]", t}, {"IN(.[]; 1, 2)?", tyBool}, {"any(.[]; . == 1)", tyBool}, {"all(.[]; . != null)", tyBool}, {"[range(length)]", arrOf(tySmall)}, {"[.[length - 1]]", t}, {".[length:]", t}, {"[.[] | objects]", arrOf(tyAny)}, {"INDEX(tojson)", tyAny}, {"map(.)", t}}
		o := common.Pick(r, ops)
		if e.K == KNum {
			o2 := common.Pick(r, []struct {
				s string
				t *Ty
			}{{"add", tyNum}, {"map(. + 1)", t}, {"map(. * 2) | add", tyNum}, {"[.[] | select(. > 1)]", t}, {"sort | reverse", t}, {"min_by(-(.))", tyNum}, {"[.[] | . % 2]", t}, {"reduce .[] as $x (0; . + $x)", tyNum}, {"[foreach .[] as $x (0; . + $x)]", t}, {"map(tostring) | join(\"-\")", tyStr}, {"[.[] | -(.)]", t}, {"(add / length)?", tyNum}, {"[limit(3; .[] | range(.)?)]", arrOf(tyNum)}, {"implode?", tyStr}, {"group_by(. % 2)", arrOf(t)}, {"[.[] | if . > 1 then . else empty end]", t}, {"index(1)", tyAny}, {"[.[] as $x | .[] | . + $x] | length", tySmall}})
			if r.Bool() {
				o = o2
			}
		}
		if e.K == KStr && r.Bool() {
			o = common.Pick(r, []struct {
				s string
				t *Ty
			}{{"add", tyStr}, {"join(\",\")", tyStr}, {"map(length)", arrOf(tySmall)}, {"map(ascii_upcase)", t}, {"sort", t}, {"map(. + \"!\")", t}, {"[.[] | select(startswith(\"a\"))]", t}, {"unique", t}, {"map(explode)", arrOf(arrOf(tyNum))}, {"join(\"-\") | split(\"-\")", t}, {"map({(.): 1}) | add", tyAny}, {"group_by(length)", arrOf(t)}, {"index(\"a\")", tyAny}, {"max_by(length)", tyStr}})
		}
		if e.K == KArr && r.Bool() {
			o = common.Pick(r, []struct {
				s string
				t *Ty
			}{{"add", e}, {"flatten", arrOf(tyAny)}, {"map(length)", arrOf(tySmall)}, {"transpose", arrOf(tyAny)}, {".[][0]?", tyAny}, {"map(first)", arrOf(tyAny)}, {"[.[][]]", arrOf(tyAny)}, {"map(reverse)", t}, {"sort", t}, {"[.[] | add]", arrOf(tyAny)}, {"[combinations] | length", tySmall}, {"map(.[1:])", t}, {".[0] + .[-1]", e}})
		}
		if e.K == KObj && r.Bool() {
			ks := e.keys()
			if len(ks) > 0 {
				k := common.Pick(r, ks)
				fa := fieldAccess(k)
				o = common.Pick(r, []struct {
					s string
					t *Ty
				}{{"map(" + fa + ")", arrOf(e.Fields[k])}, {"[.[] | " + fa + "]", arrOf(e.Fields[k])}, {"sort_by(" + fa + ")", t}, {"group_by(" + fa + ")", arrOf(t)}, {"unique_by(" + fa + ")", t}, {"min_by(" + fa + ")", e}, {"max_by(" + fa + ")", e}, {"map(select(" + fa + " != null))", t}, {"map(del(" + fa + "))", t}, {"map(keys)", arrOf(arrOf(tyStr))}, {"add", tyAny}, {"map(to_entries)", arrOf(tyAny)}, {"INDEX(" + fa + ")", tyAny}, {"[.[] | " + fa + " |= .]", t}, {"map(has(" + jsonStr(k) + "))", arrOf(tyBool)}, {"first | " + fa, e.Fields[k]}, {".[]" + fa, e.Fields[k]}, {"map(with_entries(.))", t}})
			}
		}
		return o.s, o.t
	case KObj:
		ks := t.keys()
		ops := []struct {
			s string
			t *Ty
		}{{"keys", arrOf(tyStr)}, {"to_entries", arrOf(tyAny)}, {"[.[]]", arrOf(tyAny)}, {".[]", tyAny}, {"length", tySmall}, {". + {x: 1}", tyAny}, {"tojson", tyStr}, {"with_entries(.)", t}, {"map_values(.)", t}, {"to_entries | from_entries", t}, {"[paths]", arrOf(tyAny)}, {"[tostream]", arrOf(tyAny)},
			{"[..]", arrOf(tyAny)}, {"map_values(tojson)", tyAny}, {"with_entries(.value |= [.])", tyAny}, {"[to_entries[] | .key]", arrOf(tyStr)}, {"add?", tyAny}, {"del(.[keys[0]])?", tyAny}, {"has(\"a\")", tyBool}, {". * {x: {y: 1}}", tyAny}, {"[.[] | type]", arrOf(tyStr)}, {"map(.)?", arrOf(tyAny)},
			{"walk(.)", t}, {"fromstream(tostream)", t}, {"[getpath(paths)] | length", tySmall}, {"reduce (tostream | select(length == 2)) as [$p, $v] (null; setpath($p; $v))", tyAny}, {"with_entries(select(.value != null))", tyAny}, {"to_entries | map(.key) | sort", arrOf(tyStr)}, {"pick(.[keys[0]])?", tyAny}, {"{} + .", t}, {"[keys[] as $k | .[$k]]", arrOf(tyAny)}, {"with_entries(.key |= . + \"_\")", tyAny}, {"map_values(empty)", tyAny}, {"any", tyBool}, {"del(..|nulls)?", tyAny}, {"contains({})", tyBool}, {"inside(. + {z: 1})", tyBool}, {"tostream | select(length == 2) | .[1]", tyAny}, {"[splits(\"a\")?]", tyAny}, {"getpath([\"a\", \"b\"])?", tyAny}, {"objects", t}}
		if len(ks) > 0 && r.Chance(2, 3) {
			k := common.Pick(r, ks)
			fa := fieldAccess(k)
			return common.Pick(r, []string{fa, fa, fa + "?", "{" + "a: " + fa + "}", "[" + fa + "]", "del(" + fa + ")", fa + " as $x | $x", "has(" + jsonStr(k) + ")", "getpath([" + jsonStr(k) + "])", "[" + fa + ", .[]] | length", "to_entries[0].key", "." + "[" + jsonStr(k) + "]"}), g.fieldTy(t, k, r)
		}
		o := common.Pick(r, ops)
		return o.s, o.t
	}
	// any
	return common.Pick(r, []string{".", "type", "tojson", "[.]", "{a: .}", ". as $x | [$x, $x]", "[., .] | length", "tostring", "(., .)", "[..] | length", "[paths] | length", "tojson | fromjson", ".. ", "[.[]?]", ".[0]?", ".a?", "length?", "keys?", "if . then 1 else 2 end", ". == .", "[tostream] | length", "tojson | length", "[.] | add", "select(. != null)", "values", "scalars", "iterables", "[recurse] | length", "getpath([])", "path(.)", "[path(..)] | length", "to_entries?", "first(., 1)", "isempty(.)", "[limit(1; ., .)]", "try error catch .", "try error(\"x\") catch .", "(.a?.b?)", "[.[]?.a?]", "not"}), tyAny
}

func (g *TG) fieldTy(t *Ty, k string, r *common.Rand) *Ty { return tyAny }

func (g *TG) generator(t *Ty) (string, *Ty) {
	r := g.R
	switch t.K {
	case KArr:
		if t.Elem != nil {
			return ".[]", t.Elem
		}
	case KObj:
		return ".[]", tyAny
	case KNum:
		if t.Small {
			return "range(.)", tySmall
		}
	}
	return common.Pick(r, []string{"range(3)", "(1, 2, 3)", "range(0; 4; 2)", "(0, 1)", "empty", "range(2)"}), tySmall
}

func (g *TG) objectCons(t *Ty) (string, *Ty) {
	r := g.R
	s := g.sub()
	n := r.Range(1, 3)
	f := map[string]*Ty{}
	var parts []string
	for i := 0; i < n; i++ {
		k := common.Pick(r, []string{"a", "b", "c", "x"})
		switch r.Intn(5) {
		case 0, 1:
			v, tv := s.Gen(t)
			parts = append(parts, k+": ("+v+")")
			f[k] = tv
		case 2:
			v, tv := s.Gen(t)
			kq, _ := s.genTo(t, tyStr)
			parts = append(parts, "("+kq+"): ("+v+")")
			_ = tv
		case 3:
			if len(g.Vars) > 0 {
				v := common.Pick(r, g.Vars)
				parts = append(parts, v.name)
				f[v.name[1:]] = v.ty
				continue
			}
			fallthrough
		default:
			v, tv := s.Gen(t)
			parts = append(parts, jsonStr(k)+": ("+v+")")
			f[k] = tv
		}
	}
	return "{" + strings.Join(parts, ", ") + "}", &Ty{K: KObj, Fields: f}
}

func (g *TG) destructure(t *Ty) (string, *Ty) {
	r := g.R
	s := g.sub()
	if r.Chance(1, 2) {
		// the full pattern grammar (shared with the type-blind generator)
		ng := &G{R: r, Depth: 1, Counter: g.Cnt}
		return ng.altBind(), tyAny
	}
	switch t.K {
	case KArr:
		e := t.Elem
		if e == nil {
			e = tyNull
		}
		a, b := "$"+g.fresh("v"), "$"+g.fresh("v")
		s2 := *s
		s2.Vars = append(append([]tvar{}, g.Vars...), tvar{a, e}, tvar{b, e})
		body, tb := s2.Gen(t)
		if r.Chance(1, 3) {
			return ". as [" + a + ", " + b + "] ?// " + a + " | " + body, tb
		}
		return ". as [" + a + ", " + b + "] | " + body, tb
	case KObj:
		ks := t.keys()
		if len(ks) > 0 {
			k := common.Pick(r, ks)
			a := "$" + g.fresh("v")
			s2 := *s
			s2.Vars = append(append([]tvar{}, g.Vars...), tvar{a, t.Fields[k]})
			body, tb := s2.Gen(t)
			return ". as {" + jsonStr(k) + ": " + a + "} | " + body, tb
		}
	}
	a := "$" + g.fresh("v")
	s2 := *s
	s2.Vars = append(append([]tvar{}, g.Vars...), tvar{a, tyAny})
	body, tb := s2.Gen(t)
	return "[., 1] as [" + a + "] ?// " + a + " | " + body, tb
}

func (g *TG) defn(t *Ty) (string, *Ty) {
	r := g.R
	s := g.sub()
	name := g.fresh("f")
	body := *s
	body.Funcs = append([]tfn{}, g.Funcs...)
	body.Vars = append([]tvar{}, g.Vars...)
	var params []string
	switch r.Intn(4) {
	case 0:
		// filter parameter applied to the input
		p := g.fresh("g")
		params = []string{p}
		body.Funcs = append(body.Funcs, tfn{name: p, arity: 0, in: t, out: tyAny})
	case 1:
		p := "$" + g.fresh("a")
		params = []string{p}
		body.Vars = append(body.Vars, tvar{p, tyAny})
	case 2:
		p, q := g.fresh("g"), "$"+g.fresh("a")
		params = []string{p, q}
		body.Funcs = append(body.Funcs, tfn{name: p, arity: 0, in: t, out: tyAny})
		body.Vars = append(body.Vars, tvar{q, tyAny})
	}
	bodyText, tout := body.Gen(t)
	if len(params) == 0 && r.Chance(1, 4) {
		// guarded recursion over arrays / numbers
		switch t.K {
		case KArr:
			bodyText = "if length > 1 then (.[1:] | " + name + "), .[0] else " + bodyText + " end"
			tout = tyAny
		case KNum:
			bodyText = "if . > 0 and . < 6 then (. - 1 | " + name + "), . else " + bodyText + " end"
			tout = tyAny
		}
	}
	rest := *s
	rest.Funcs = append(append([]tfn{}, g.Funcs...), tfn{name: name, arity: len(params), in: t, out: tout, params: params})
	sig := name
	if len(params) > 0 {
		sig += "(" + strings.Join(params, "; ") + ")"
	}
	restText, tr := rest.Gen(t)
	return "def " + sig + ": " + bodyText + "; " + restText, tr
}

func (g *TG) callUser(t *Ty) (string, *Ty) {
	r := g.R
	s := g.sub()
	for i := len(g.Funcs) - 1; i >= 0; i-- {
		f := g.Funcs[i]
		if !r.Chance(2, 3) {
			continue
		}
		if f.arity == 0 {
			return f.name, f.out
		}
		var args []string
		for range f.params {
			a, _ := s.Gen(t)
			args = append(args, a)
		}
		return f.name + "(" + strings.Join(args, "; ") + ")", f.out
	}
	return ".", t
}

// PathFor generates a path expression valid for type t (C02), with the type it reaches.
func (g *TG) PathFor(t *Ty) (string, *Ty) {
	r := g.R
	if g.Depth <= 0 {
		switch t.K {
		case KArr:
			e := t.Elem
			if e == nil {
				e = tyNull
			}
			o := common.Pick(r, []struct {
				s string
				t *Ty
			}{{".[]", e}, {".[0]", e}, {".[1]", e}, {".[-1]", e}, {".[1:]", t}, {".[:1]", t}, {".[0:2]", t}, {".", t}, {"first", e}, {"last", e}, {".[2]", e}, {".[]?", e}})
			return o.s, o.t
		case KObj:
			ks := t.keys()
			if len(ks) > 0 && r.Chance(3, 4) {
				k := common.Pick(r, ks)
				return fieldAccess(k), t.Fields[k]
			}
			return common.Pick(r, []string{".[]", ".", ".zz", ".[]?"}), tyAny
		case KNull:
			return common.Pick(r, []string{".a", ".[0]", ".", ".a.b", ".[1:]", ".[2]"}), tyNull
		}
		return common.Pick(r, []string{".", "..", ".[]?", ".a?", "empty"}), tyAny
	}
	s := g.sub()
	switch r.Intn(13) {
	case 12:
		// a binding inside the path expression: the source (identity or a navigation) and the
		// destructuring steps of the pattern are evaluated as values, the body navigates on
		b, tb := s.PathFor(t)
		src := common.Pick(r, []string{".", ".", ".", ".a?", ".[0]?", "(., .)", "first(.[]?)"})
		pat := common.Pick(r, []string{"$v", "[$v]", "[$v, $w]", "{a: $v}", "{$a}", "{a: [$v]}", "[$v] ?// $v", "{a: $v} ?// [$v] ?// $v", "{$a, b: [$w]}"})
		return "(" + src + " as " + pat + " | " + b + ")", tb
	case 0, 1, 2, 3:
		a, ta := s.PathFor(t)
		b, tb := s.PathFor(ta)
		return a + " | " + b, tb
	case 4, 5:
		a, ta := s.PathFor(t)
		b, tb := s.PathFor(t)
		return "(" + a + ", " + b + ")", join(ta, tb)
	case 6:
		a, ta := s.PathFor(t)
		return "(" + a + " | select(" + s.cond(ta) + "))", ta
	case 7:
		a, ta := s.PathFor(t)
		b, tb := s.PathFor(t)
		return "if " + s.cond(t) + " then " + a + " else " + b + " end", join(ta, tb)
	case 8:
		a, ta := s.PathFor(t)
		return common.Pick(r, []string{"first(", "limit(1; ", "limit(2; "}) + a + ")", ta
	case 9:
		return common.Pick(r, []string{"..", "recurse", ".. | select(type == \"number\")", "recurse(.[]?; . != null)", ".[]?", "paths as $p | getpath($p)"}), tyAny
	case 10:
		a, ta := s.PathFor(t)
		b, tb := s.PathFor(t)
		return "(" + a + " // " + b + ")", join(ta, tb)
	default:
		a, ta := s.PathFor(t)
		return "(" + a + ")?", ta
	}
}

func (g *TG) update(t *Ty) (string, *Ty) {
	r := g.R
	s := g.sub()
	p, tp := s.PathFor(t)
	switch r.Intn(7) {
	case 0, 1:
		body, _ := s.Gen(tp)
		return "(" + p + ") |= (" + body + ")", tyAny
	case 2:
		v, _ := s.Gen(t)
		return "(" + p + ") = (" + v + ")", tyAny
	case 3:
		if tp.K == KNum {
			return "(" + p + ") " + common.Pick(r, []string{"+=", "-=", "*="}) + " " + common.Pick(r, []string{"1", "2", "(1, 2)"}), tyAny
		}
		return "(" + p + ") //= 1", tyAny
	case 4:
		return "del(" + p + ")", tyAny
	case 5:
		return "[path(" + p + ")]", arrOf(tyAny)
	default:
		return common.Pick(r, []string{"delpaths([path(" + p + ")])", "[paths]", "to_entries?", "map_values(.)?", "pick(" + p + ")?", "[getpath(path(" + p + "))]", "reduce path(" + p + ") as $q (.; setpath($q; 1))"}), tyAny
	}
}

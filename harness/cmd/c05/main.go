// C05 — runs are isolated: inputs, variables, code constants and emitted values are never modified;
// re-runs are identical.
//
// correspondence stream `heap`: operation sequences over (value, registers, allocator) executed by the
//
//	REAL allocator-taking natives (`_setpath`, the getpath of `_modify`, `_delpaths`, `setpath`,
//	`delpaths`; hooks in /repo/verif_c05.go) under an address-tracking wrapper, versus the labelled-tree
//	model lean/Gojq/Model/Heap.lean (driver lean/Driver/C05.lean): result values, aliasing structure,
//	which containers are registered in the allocator, and which pre-existing containers were written.
//
//	The stream also covers SLICE path elements (lean/Gojq/Model/HeapSlice.lean) and the OTHER write
//	sites — add, `_add`, flatten, transpose, reverse, sort, unique, `_group_by`, join, implode called
//	through gojq.VerifNatives() (op `F`, lean/Gojq/Model/HeapWriters.lean): which cells of the result
//	are new, which are cells of the arguments, and that NO pre-existing cell is written.
//
// oracles (model-free, on the real code): harness/c05oracle (snapshots of input / variables / constants /
//
//	emitted values, re-runs) and harness/c02oracle (operators versus their defining reductions — it
//	exercises the same in-place update code).
package main

import (
	"encoding/json"
	"fmt"
	"os"
	"reflect"
	"runtime"
	"runtime/debug"
	"sort"
	"strconv"
	"strings"

	"github.com/itchyny/gojq"

	"verifharness/c02oracle"
	"verifharness/c05oracle"
	"verifharness/common"
)

var replayLine string

func main() {
	c02oracle.MaybeChild()
	ctx := common.ParseFlags("C05")
	only := os.Getenv("C05_ONLY") // development: heap | isolation | update
	if ctx.Replay != "" {
		// a replay file of the heap stream carries the protocol line; replays of the program oracles are
		// re-found by their stable key in a normal run (their generators are deterministic in the seed)
		if b, err := os.ReadFile(ctx.Replay); err == nil {
			var f struct {
				Replay map[string]any `json:"replay"`
			}
			if json.Unmarshal(b, &f) == nil {
				if l, ok := f.Replay["line"].(string); ok {
					replayLine, only = l, "heap"
				}
			}
		}
	}
	if only == "" || only == "heap" {
		heapStream(ctx)
		if replayLine == "" {
			deadRegistrationOracle(ctx)
		}
	}
	if only == "" || only == "isolation" {
		c05oracle.Run(ctx)
	}
	nBefore := len(ctx.Res.Violations)
	if only == "" || only == "update" {
		c02oracle.Run(ctx)
	}
	// `path(p)` versus `getpath` on strings is C02's business and has nothing to do with isolation:
	// keep it visible as a note, not as a C05 violation.
	kept := ctx.Res.Violations[:nBefore]
	for _, v := range ctx.Res.Violations[nBefore:] {
		if v.Key == c02oracle.StringIndexKey {
			ctx.Res.Notes = append(ctx.Res.Notes, "c02oracle (not an isolation matter, reported under C02): "+v.Key+" — "+v.What)
			continue
		}
		kept = append(kept, v)
	}
	ctx.Res.Violations = kept
	ctx.Finish()
}

// ------------------------------------------------------------------------------------------------
// generator of protocol lines
// ------------------------------------------------------------------------------------------------

var keyPool = []string{"a", "b", "c", "x"}

func genLit(r *common.Rand, depth int) []string {
	k := r.Intn(10)
	if depth >= 3 && k >= 5 {
		k = r.Intn(5)
	}
	switch {
	case k <= 1:
		return []string{"n"}
	case k == 2:
		return []string{common.Pick(r, []string{"t", "f"})}
	case k == 3:
		return []string{"i" + strconv.Itoa(r.Range(-3, 9))}
	case k == 4:
		return []string{"s" + common.Hex(common.Pick(r, []string{"", "a", "xy"}))}
	case k <= 7:
		n := r.Intn(4)
		cp := n + common.Pick(r, []int{0, 0, 0, 1, 2, 5})
		if n == 0 && r.Bool() {
			cp = 0
		}
		out := []string{"[", "c" + strconv.Itoa(cp)}
		for i := 0; i < n; i++ {
			out = append(out, genLit(r, depth+1)...)
		}
		return append(out, "]")
	default:
		n := r.Intn(4)
		out := []string{"{"}
		seen := map[string]bool{}
		for i := 0; i < n; i++ {
			key := common.Pick(r, keyPool)
			if seen[key] {
				continue
			}
			seen[key] = true
			out = append(out, "s"+common.Hex(key))
			out = append(out, genLit(r, depth+1)...)
		}
		return append(out, "}")
	}
}

func genContainerLit(r *common.Rand) []string {
	for {
		l := genLit(r, 0)
		if l[0] == "[" || l[0] == "{" {
			return l
		}
	}
}

// genPath draws a path; with walk != nil it mostly follows the structure of the current Go value so
// that deep existing containers are hit.
func genPath(r *common.Rand, walk any) string {
	n := common.Pick(r, []int{0, 1, 1, 1, 2, 2, 2, 3, 3, 4})
	var el []string
	cur := walk
	for i := 0; i < n; i++ {
		follow := r.Chance(3, 4)
		switch c := cur.(type) {
		case map[string]any:
			if follow && len(c) > 0 {
				keys := make([]string, 0, len(c))
				for k := range c {
					keys = append(keys, k)
				}
				sort.Strings(keys)
				k := common.Pick(r, keys)
				el = append(el, "k"+common.Hex(k))
				cur = c[k]
				continue
			}
		case []any:
			if r.Chance(1, 4) {
				// a slice element; the walk continues in the Go slice it denotes
				st, en := genBounds(r, len(c))
				el = append(el, "l"+st+":"+en)
				cur = sliceOf(c, st, en)
				continue
			}
			if follow && len(c) > 0 {
				j := r.Intn(len(c))
				if r.Chance(1, 5) {
					el = append(el, "i"+strconv.Itoa(j-len(c)))
				} else {
					el = append(el, "i"+strconv.Itoa(j))
				}
				cur = c[j]
				continue
			}
		}
		cur = nil
		if r.Chance(1, 8) {
			st, en := genBounds(r, r.Intn(4))
			el = append(el, "l"+st+":"+en)
		} else if r.Bool() {
			el = append(el, "k"+common.Hex(common.Pick(r, keyPool)))
		} else {
			el = append(el, "i"+strconv.Itoa(common.Pick(r, []int{0, 0, 1, 1, 2, 3, 4, 6, 11, -1, -1, -2, -4, 536870912})))
		}
	}
	return strings.Join(el, ",")
}

// genBounds draws the two bounds of a slice element for an array of length n: null, in range, negative,
// at and beyond the end, crossing.
func genBounds(r *common.Rand, n int) (string, string) {
	b := func() string {
		switch k := r.Intn(8); {
		case k == 0:
			return "n"
		case k <= 3:
			return strconv.Itoa(r.Intn(n + 1))
		case k == 4:
			return strconv.Itoa(-r.Range(1, n+1))
		case k == 5:
			return strconv.Itoa(n + r.Intn(3))
		case k == 6:
			return "0"
		default:
			return strconv.Itoa(r.Range(-2, 4))
		}
	}
	return b(), b()
}

func clampIdx(i, lo, hi int) int {
	if i < 0 {
		i += hi
	}
	if i < lo {
		return lo
	} else if i < hi {
		return i
	}
	return hi
}

// sliceOf is the generator's own reading of a slice element (for the walk only).
func sliceOf(c []any, st, en string) []any {
	s, e := 0, len(c)
	if st != "n" {
		i, _ := strconv.Atoi(st)
		s = clampIdx(i, 0, len(c))
	}
	if en != "n" {
		i, _ := strconv.Atoi(en)
		e = clampIdx(i, s, len(c))
	}
	return c[s:e]
}

// ------------------------------------------------------------------------------------------------
// the real side: state and operations
// ------------------------------------------------------------------------------------------------

type state struct {
	v    any
	regs []any
	a    any // gojq allocator
}

func (s *state) roots() []any { return append([]any{s.v}, s.regs...) }

func buildLit(toks []string) (any, []string, error) {
	if len(toks) == 0 {
		return nil, nil, fmt.Errorf("empty literal")
	}
	switch toks[0] {
	case "[":
		cp, err := strconv.Atoi(strings.TrimPrefix(toks[1], "c"))
		if err != nil {
			return nil, nil, err
		}
		rest := toks[2:]
		var elems []any
		for len(rest) > 0 && rest[0] != "]" {
			var x any
			x, rest, err = buildLit(rest)
			if err != nil {
				return nil, nil, err
			}
			elems = append(elems, x)
		}
		if len(rest) == 0 {
			return nil, nil, fmt.Errorf("unterminated array")
		}
		if cp < len(elems) {
			cp = len(elems)
		}
		xs := make([]any, len(elems), cp)
		copy(xs, elems)
		return xs, rest[1:], nil
	case "{":
		rest := toks[1:]
		m := map[string]any{}
		for len(rest) > 0 && rest[0] != "}" {
			k := common.UnHex(rest[0][1:])
			x, r2, err := buildLit(rest[1:])
			if err != nil {
				return nil, nil, err
			}
			m[k] = x
			rest = r2
		}
		if len(rest) == 0 {
			return nil, nil, fmt.Errorf("unterminated object")
		}
		return m, rest[1:], nil
	}
	x, err := common.ParseWire(toks[0])
	return x, toks[1:], err
}

func buildPath(body string) []any {
	p := []any{}
	if body == "" {
		return p
	}
	for _, e := range strings.Split(body, ",") {
		if e[0] == 'k' {
			p = append(p, common.UnHex(e[1:]))
		} else if e[0] == 'l' {
			bs := strings.SplitN(e[1:], ":", 2)
			m := map[string]any{"start": nil, "end": nil}
			for i, name := range []string{"start", "end"} {
				if bs[i] != "n" {
					x, _ := strconv.Atoi(bs[i])
					m[name] = x
				}
			}
			p = append(p, m)
		} else {
			i, _ := strconv.Atoi(e[1:])
			p = append(p, i)
		}
	}
	return p
}

func buildPaths(body string) []any {
	ps := []any{}
	if body == "" {
		return ps
	}
	for _, b := range strings.Split(body, "|") {
		ps = append(ps, buildPath(b))
	}
	return ps
}

func (s *state) buildSrc(toks []string) any {
	if toks[0] == "L" {
		x, _, err := buildLit(toks[1:])
		if err != nil {
			panic(err)
		}
		return x
	}
	k, _ := strconv.Atoi(toks[0][1:])
	r := s.regs[k]
	switch toks[0][0] {
	case 'R':
		return r
	case 'W':
		return []any{r, r}
	default:
		return map[string]any{"x": r}
	}
}

// buildSrcs reads the sources of an `F` operation, left to right.
func (s *state) buildSrcs(toks []string) []any {
	var out []any
	for len(toks) > 0 {
		if toks[0] == "L" {
			x, rest, err := buildLit(toks[1:])
			if err != nil {
				panic(err)
			}
			out = append(out, x)
			toks = rest
			continue
		}
		out = append(out, s.buildSrc(toks[:1]))
		toks = toks[1:]
	}
	return out
}

// callWriter calls one of the natives that build a container (op `F`) through the native table.
func callWriter(nat map[string]gojq.VerifNativeInfo, name string, args []any) any {
	arg := func(i int) any {
		if i < len(args) {
			return args[i]
		}
		return nil
	}
	switch name {
	case "add2":
		return nat["_add"].Callback(nil, []any{arg(0), arg(1)})
	case "add", "transpose", "reverse", "sort", "unique", "implode":
		return nat[name].Callback(arg(0), nil)
	case "flatten":
		return nat["flatten"].Callback(arg(0), []any{})
	case "flatten0", "flatten1", "flatten2":
		return nat["flatten"].Callback(arg(0), []any{int(name[7] - '0')})
	case "group":
		return nat["_group_by"].Callback(arg(0), []any{arg(0)})
	case "join":
		return nat["join"].Callback(arg(0), []any{arg(1)})
	case "sortby", "uniqueby", "groupby", "minby", "maxby":
		return nat["_"+name[:len(name)-2]+"_by"].Callback(arg(0), []any{arg(1)})
	case "mul":
		return nat["_multiply"].Callback(nil, []any{arg(0), arg(1)})
	}
	panic("native " + name)
}

// clipNew clips the capacity of every array of v that did not exist before (address not in pre) to its
// length: Go's growth policy for append is not modelled. It descends into new containers only.
func clipNew(v any, pre map[uintptr]int) any {
	switch c := v.(type) {
	case []any:
		if p, ok := ptrOf(c); ok {
			if _, old := pre[p]; old {
				return v
			}
		}
		for i, x := range c {
			c[i] = clipNew(x, pre)
		}
		return c[:len(c):len(c)]
	case map[string]any:
		if p, ok := ptrOf(c); ok {
			if _, old := pre[p]; old {
				return v
			}
		}
		for k, x := range c {
			c[k] = clipNew(x, pre)
		}
	}
	return v
}

// ---- address tracking -------------------------------------------------------------------------------

func ptrOf(v any) (uintptr, bool) {
	switch c := v.(type) {
	case map[string]any:
		return reflect.ValueOf(c).Pointer(), true
	case []any:
		if cap(c) == 0 {
			return 0, false // every zero-capacity slice has Go's zerobase address: no identity
		}
		return reflect.ValueOf(c).Pointer(), true
	}
	return 0, false
}

func shallowOne(v any) string {
	switch c := v.(type) {
	case map[string]any:
		p, _ := ptrOf(c)
		return fmt.Sprintf("@%x", p) // a map reference is a pointer
	case []any:
		p, ok := ptrOf(c)
		if !ok {
			return "e"
		}
		return fmt.Sprintf("@%x:%d", p, len(c)) // a slice header has a length
	case struct{}:
		return "H"
	}
	return common.Canon(v)
}

// fingerprint is the shallow content of a cell: for an array the FULL backing array up to its capacity.
func fingerprint(v any) string {
	var sb strings.Builder
	switch c := v.(type) {
	case map[string]any:
		keys := make([]string, 0, len(c))
		for k := range c {
			keys = append(keys, k)
		}
		sort.Strings(keys)
		for _, k := range keys {
			sb.WriteString(common.Hex(k) + "=" + shallowOne(c[k]) + " ")
		}
	case []any:
		for _, x := range c[:cap(c)] {
			sb.WriteString(shallowOne(x) + " ")
		}
	}
	return sb.String()
}

var zerobase = reflect.ValueOf(make([]any, 0)).Pointer()

// deadRegistrations counts the addresses registered in the allocator that no root reaches (the address
// shared by all zero-capacity arrays excluded).
func deadRegistrations(s *state) int {
	_, idx := numbering(s.roots())
	n := 0
	for _, k := range reflect.ValueOf(s.a).MapKeys() {
		p := uintptr(k.Uint())
		if p == zerobase {
			continue
		}
		if _, ok := idx[p]; !ok {
			n++
		}
	}
	return n
}

type cell struct {
	val any
	fp  string
}

// numbering lists the cells reachable from the roots in order of first visit (sorted keys).
func numbering(roots []any) ([]cell, map[uintptr]int) {
	var cells []cell
	idx := map[uintptr]int{}
	var walk func(v any)
	walk = func(v any) {
		p, ok := ptrOf(v)
		if ok {
			if _, seen := idx[p]; seen {
				return
			}
			idx[p] = len(cells)
			cells = append(cells, cell{val: v, fp: fingerprint(v)})
		}
		switch c := v.(type) {
		case map[string]any:
			keys := make([]string, 0, len(c))
			for k := range c {
				keys = append(keys, k)
			}
			sort.Strings(keys)
			for _, k := range keys {
				walk(c[k])
			}
		case []any:
			for _, x := range c {
				walk(x)
			}
		}
	}
	for _, r := range roots {
		walk(r)
	}
	return cells, idx
}

func render(s *state) string {
	_, idx := numbering(s.roots())
	seen := map[uintptr]int{}
	var rec func(v any) string
	rec = func(v any) string {
		switch c := v.(type) {
		case map[string]any:
			p, _ := ptrOf(c)
			if _, ok := seen[p]; ok {
				return fmt.Sprintf("^%d", idx[p])
			}
			seen[p] = len(c)
			own := ""
			if gojq.VerifAllocated(s.a, c) {
				own = "!"
			}
			keys := make([]string, 0, len(c))
			for k := range c {
				keys = append(keys, k)
			}
			sort.Strings(keys)
			parts := make([]string, 0, len(keys))
			for _, k := range keys {
				parts = append(parts, "k"+common.Hex(k)+"="+rec(c[k]))
			}
			return fmt.Sprintf("#%d%so(%s)", idx[p], own, strings.Join(parts, " "))
		case []any:
			p, ok := ptrOf(c)
			if !ok {
				return "a0"
			}
			if l, ok := seen[p]; ok {
				if l != len(c) {
					return fmt.Sprintf("^%d:%d", idx[p], len(c)) // a second slice header onto the cell
				}
				return fmt.Sprintf("^%d", idx[p])
			}
			seen[p] = len(c)
			own := ""
			if gojq.VerifAllocated(s.a, c) {
				own = "!"
			}
			parts := make([]string, 0, len(c))
			for _, x := range c {
				parts = append(parts, rec(x))
			}
			return fmt.Sprintf("#%d%sa%d/%d(%s)", idx[p], own, len(c), cap(c), strings.Join(parts, " "))
		case struct{}:
			return "H"
		}
		return common.Canon(v)
	}
	var parts []string
	for _, r := range s.roots() {
		parts = append(parts, rec(r))
	}
	return strings.Join(parts, " | ")
}

// exec runs one protocol line on the real natives.
func exec(line string, nat map[string]gojq.VerifNativeInfo) (answer string, written int, unowned []string) {
	// no collection while one line runs: the model draws fresh labels, and a registered array that is
	// dead (see Z=) would otherwise lend its address to a later allocation
	defer debug.SetGCPercent(debug.SetGCPercent(-1))
	segs := strings.Split(line, " ; ")
	toks := strings.Fields(segs[0])
	v, _, err := buildLit(toks[1:])
	if err != nil {
		panic(err)
	}
	s := &state{v: v, a: gojq.VerifAllocator()}
	out := []string{"init " + render(s)}
	for _, seg := range segs[1:] {
		op := strings.Fields(seg)
		pre, _ := numbering(s.roots())
		ownedBefore := make([]bool, len(pre))
		for i, c := range pre {
			ownedBefore[i] = gojq.VerifAllocated(s.a, c.val)
		}
		var res any
		isV := true
		switch op[0] {
		case "N":
			s.a = gojq.VerifAllocator()
			res = s.v
		case "S":
			res = gojq.VerifSetpathAlloc(s.v, buildPath(op[1][2:]), s.buildSrc(op[2:]), s.a)
		case "s":
			res = nat["setpath"].Callback(s.v, []any{buildPath(op[1][2:]), s.buildSrc(op[2:])})
		case "G":
			res, isV = gojq.VerifGetpathAlloc(s.v, buildPath(op[1][2:]), s.a), false
		case "g":
			res, isV = nat["getpath"].Callback(s.v, []any{buildPath(op[1][2:])}), false
		case "D":
			res = gojq.VerifDelpathsAlloc(s.v, buildPaths(op[1][2:]), s.a)
		case "d":
			res = nat["delpaths"].Callback(s.v, []any{buildPaths(op[1][2:])})
		case "F":
			wargs := s.buildSrcs(op[2:])
			// everything that exists when the native is called, the literals among its arguments included
			_, argIdx := numbering(append(s.roots(), wargs...))
			res, isV = callWriter(nat, op[1], wargs), false
			if _, isErr := res.(error); op[1] == "join" || op[1] == "implode" {
				// a string (or an error): no cell either way, rendered as null
				res = nil
			} else if !isErr {
				switch res.(type) {
				case nil, []any, map[string]any:
					res = clipNew(res, argIdx)
				default:
					if op[1] == "add2" && (wargs[0] == nil || wargs[1] == nil) {
						break // null + x, x + null: the other operand itself, whatever it is
					}
					if op[1] == "minby" || op[1] == "maxby" {
						break // an element of the array, whatever it is
					}
					// a scalar result (sums of numbers or strings): the model answers `?scalar`
					out = append(out, "scalar")
					return strings.Join(out, " ; "), written, unowned
				}
			}
		default:
			panic("op " + op[0])
		}
		if _, isErr := res.(error); isErr {
			out = append(out, "err")
			if op[0] == "D" || op[0] == "d" {
				// a failed delpaths may leave placeholders behind in owned containers: the reduction is
				// abandoned by the VM at this point, and so is the sequence here and in the driver
				out = append(out, "halt")
				break
			}
			if !isV {
				s.regs = append(s.regs, nil) // keep register numbers stable
			}
			continue
		}
		if isV {
			s.v = res
		} else {
			s.regs = append(s.regs, res)
		}
		if xs, isArr := res.([]any); op[0] == "g" && isArr && xs != nil && pathEndsInSlice(op[1][2:]) {
			// a plain getpath that ends with a slice returned a second header onto a cell (an interior
			// pointer): the model answers `?view` for the line, and the address-keyed bookkeeping below
			// would take the header for a container of its own: stop here
			out = append(out, "view")
			break
		}
		if cyclic(s.roots()) {
			// an aliased in-place write closed a cycle (the model answers `?` for such lines): stop here,
			// natives such as deleteEmpty would not terminate on it
			out = append(out, "cyclic")
			break
		}
		var ws []string
		for i, c := range pre {
			if fingerprint(c.val) != c.fp {
				ws = append(ws, strconv.Itoa(i))
				written++
				// the model-free part of C05.1: a container that was written must have been registered in
				// the allocator in use (`s`, `d` use none / their own: nothing pre-existing may change)
				if !ownedBefore[i] || op[0] == "s" || op[0] == "d" || op[0] == "F" {
					unowned = append(unowned, fmt.Sprintf("op %q changed pre-existing container #%d (%s -> %s)", seg, i, c.fp, fingerprint(c.val)))
				}
			}
		}
		out = append(out, "ok "+render(s)+" W="+strings.Join(ws, ",")+" Z="+strconv.Itoa(deadRegistrations(s)))
	}
	return strings.Join(out, " ; "), written, unowned
}

func heapStream(ctx *common.Ctx) {
	r := ctx.R.Fork(5)
	nat := gojq.VerifNatives()
	st := ctx.NewStream("heap", "Gojq.Heap.upd/mark/sweep/release/getp/observe (Model/Heap.lean); updS/markS/getpReleaseS for paths with SLICE elements (Model/HeapSlice.lean); wOpAdd/wAdd/wFlatten/wTranspose/wReverse/wSort/wUnique/wGroupBy/wSortBy/wUniqueBy/wGroupByK/wMinMaxBy/wDeepMerge/wScalar, the other write sites (Model/HeapWriters.lean)",
		"random operation sequences (1–9 ops: _setpath, setpath, allocator getpath with release, plain getpath creating aliases, _delpaths, delpaths, new allocator; payloads: fresh literals, registers, [r,r], {x:r}; path elements: keys, indices and slices {start,end} with null, negative, out-of-range and crossing bounds; op F: the natives _add, add, flatten, flatten(depth), transpose, reverse, sort, unique, _group_by, _sort_by, _unique_by, _min_by, _max_by, _multiply (deepMergeObjects), join, implode called through the native table on registers, aliases of the current value and literals with spare capacity) on random nested values with explicit capacities; compared per op: all roots as one DAG (addresses, lengths, capacities, registered marks), pre-existing containers whose backing array changed (W=), dead registrations (Z=); distinct = distinct implementation answers")
	orc := ctx.NewOracle("heap-writes", "model-free: in every operation of the heap stream, a pre-existing container whose shallow content (full backing array) changed must have been registered in the allocator passed to the native; setpath/delpaths without allocator and the natives of op F (add, _add, flatten, transpose, reverse, sort, unique, _group_by, _sort_by, _unique_by, _min_by, _max_by, _multiply on objects, join, implode) must change nothing that existed; distinct = operations that wrote at least one pre-existing container in place")
	var lines, impl []string
	n := ctx.N(8000, 50000)
	if replayLine != "" {
		n = 0
	}
	for i := 0; i < n; i++ {
		// the generator follows the real value so that paths go deep: run the prefix on the real side
		toks := append([]string{"V"}, genContainerLit(r)...)
		line := strings.Join(toks, " ")
		nops := r.Range(1, 9)
		nregs := 0
		for j := 0; j < nops; j++ {
			cur := currentValue(line, nat)
			var op string
			endsInSlice := func(p string) bool {
				i := strings.LastIndex(p, ",")
				return len(p) > i+1 && p[i+1] == 'l'
			}
			arrLit := func() string {
				for {
					if l := genLit(r, 1); l[0] == "[" {
						return "L " + strings.Join(l, " ")
					}
				}
			}
			// a path that ends with a slice takes an array: mostly give it one
			srcFor := func(p string) string {
				if endsInSlice(p) && r.Chance(5, 6) {
					if nregs > 0 && r.Bool() {
						return "W" + strconv.Itoa(r.Intn(nregs))
					}
					return arrLit()
				}
				if nregs > 0 && r.Chance(3, 5) {
					return common.Pick(r, []string{"R", "W", "W", "O"}) + strconv.Itoa(r.Intn(nregs))
				}
				return "L " + strings.Join(genLit(r, 1), " ")
			}
			// the other write sites: a native that builds a container from (parts of) the current value,
			// registers and literals with spare capacity
			if r.Chance(1, 6) {
				wsrc := func() string {
					if nregs > 0 && r.Chance(2, 3) {
						return common.Pick(r, []string{"R", "R", "R", "W", "O"}) + strconv.Itoa(r.Intn(nregs))
					}
					return arrLitTop(r)
				}
				if r.Chance(1, 2) {
					// alias (a part of) the current value first
					p := genPath(r, cur)
					if pathEndsInSlice(p) {
						if i := strings.LastIndex(p, ","); i >= 0 {
							p = p[:i]
						} else {
							p = ""
						}
					}
					line += " ; g p:" + p
					nregs++
				}
				name := common.Pick(r, []string{"add2", "add2", "add2", "add", "add", "flatten", "flatten1", "flatten0", "flatten2",
					"transpose", "reverse", "sort", "unique", "group", "join", "implode",
					"sortby", "uniqueby", "groupby", "minby", "maxby", "mul", "mul"})
				fop := "F " + name + " " + wsrc()
				if strings.HasSuffix(name, "by") {
					// values and keys: two arrays, mostly of the same length
					vals, keys := []string{"[", "c" + strconv.Itoa(r.Range(0, 5))}, []string{"[", "c0"}
					for i, cnt := 0, r.Range(0, 4); i < cnt; i++ {
						vals = append(vals, genLit(r, 2)...)
						keys = append(keys, common.Pick(r, []string{"i0", "i1", "i1", "i2", "n", "s" + common.Hex("a"), "[ c0 ]"}))
					}
					if r.Chance(1, 8) {
						keys = append(keys, "n")
					}
					v := "L " + strings.Join(append(vals, "]"), " ")
					if nregs > 0 && r.Chance(1, 4) {
						v = "R" + strconv.Itoa(r.Intn(nregs))
					}
					fop = "F " + name + " " + v + " L " + strings.Join(append(keys, "]"), " ")
				}
				if name == "mul" {
					// two objects, with common keys that hold objects now and then
					obj := func() string {
						for {
							if l := genLit(r, 0); l[0] == "{" {
								return "L " + strings.Join(l, " ")
							}
						}
					}
					a, b := obj(), obj()
					if nregs > 0 && r.Chance(1, 3) {
						a = common.Pick(r, []string{"R", "O"}) + strconv.Itoa(r.Intn(nregs))
					}
					fop = "F mul " + a + " " + b
				}
				if name == "transpose" && r.Chance(2, 3) {
					// an array of arrays of different lengths
					m := []string{"[", "c" + strconv.Itoa(r.Range(0, 4))}
					for i, rows := 0, r.Range(0, 3); i < rows; i++ {
						for {
							if l := genLit(r, 2); l[0] == "[" {
								m = append(m, l...)
								break
							}
						}
					}
					fop = "F transpose L " + strings.Join(append(m, "]"), " ")
				}
				if name == "add2" {
					fop += " " + wsrc()
				}
				if name == "join" {
					fop += " L " + common.Pick(r, []string{"s" + common.Hex(","), "n", "i1"})
				}
				line += " ; " + fop
				nregs++
				if a := execAnswer(line, nat); strings.HasSuffix(a, "halt") || strings.HasSuffix(a, "cyclic") || strings.HasSuffix(a, "view") || strings.HasSuffix(a, "scalar") {
					break
				}
				continue
			}
			switch k := r.Intn(20); {
			case k < 6: // one iteration of _modify: getpath with release, then _setpath of something built from it
				p := genPath(r, cur)
				line += " ; G p:" + p
				nregs++
				op = "S p:" + p + " " + common.Pick(r, []string{"R", "W", "W", "O"}) + strconv.Itoa(nregs-1)
				if endsInSlice(p) {
					// the register holds the clone of the slice: the same length (in place when owned), or not
					op = "S p:" + p + " " + common.Pick(r, []string{"R", "R", "W"}) + strconv.Itoa(nregs-1)
				}
				if r.Chance(1, 4) {
					op = "S p:" + p + " " + srcFor(p)
				}
			case k < 10:
				p := genPath(r, cur)
				op = "S p:" + p + " " + srcFor(p)
			case k < 12:
				p := genPath(r, cur)
				op = "s p:" + p + " " + srcFor(p)
			case k < 13:
				p := genPath(r, cur)
				if endsInSlice(p) && r.Chance(3, 4) {
					// a plain getpath that ends with a slice returns a second header onto the cell, which
					// the model answers `?` for: keep only a few
					if i := strings.LastIndex(p, ","); i >= 0 {
						p = p[:i]
					} else {
						p = ""
					}
				}
				op = "g p:" + p
				nregs++
			case k < 14:
				op = "G p:" + genPath(r, cur)
				nregs++
			case k < 17:
				var ps []string
				for m, cnt := 0, r.Range(1, 3); m < cnt; m++ {
					ps = append(ps, genPath(r, cur))
				}
				op = "D P:" + strings.Join(ps, "|")
			case k < 19:
				var ps []string
				for m, cnt := 0, r.Range(0, 3); m < cnt; m++ {
					ps = append(ps, genPath(r, cur))
				}
				op = "d P:" + strings.Join(ps, "|")
			default:
				op = "N"
			}
			line += " ; " + op
			if a := execAnswer(line, nat); strings.HasSuffix(a, "halt") || strings.HasSuffix(a, "cyclic") || strings.HasSuffix(a, "view") || strings.HasSuffix(a, "scalar") {
				break
			}
		}
		ans, written, unowned := exec(line, nat)
		lines = append(lines, line)
		impl = append(impl, ans)
		orc.Cases += strings.Count(line, " ; ")
		if written > 0 {
			orc.Distinct++
		}
		answers := strings.Split(ans, " ; ")
		for k, op := range strings.Split(line, " ; ")[1:] {
			st.Distribution["op "+op[:1]]++
			if op[:1] == "F" {
				name := strings.Fields(op)[1]
				st.Distribution["F "+name]++
				if k+1 < len(answers) && strings.HasPrefix(answers[k+1], "ok") {
					st.Distribution["F "+name+", no error"]++
				}
			}
			if strings.Contains(op, ":l") || strings.Contains(op, ",l") || strings.Contains(op, "|l") {
				st.Distribution["slice path in op "+op[:1]]++
				if k+1 < len(answers) && strings.HasPrefix(answers[k+1], "ok") {
					st.Distribution["slice path in op "+op[:1]+", no error"]++
					if !strings.Contains(answers[k+1], " W= ") {
						st.Distribution["slice path in op "+op[:1]+", wrote a pre-existing container in place"]++
					}
				}
			}
		}
		if strings.Contains(ans, " Z=") && !strings.HasSuffix(ans, " Z=0") {
			st.Distribution["ends with dead registrations"]++
		}
		if strings.Contains(ans, "^") {
			st.Distribution["aliased state"]++
		}
		if strings.Contains(ans, "err") {
			st.Distribution["with error"]++
		}
		if strings.Contains(ans, "!") {
			st.Distribution["with owned containers"]++
		}
		for _, u := range unowned {
			ctx.Violate("written-unowned:"+line, "a native changed a pre-existing container that was not registered in its allocator: "+u,
				map[string]any{"line": line, "observed": ans, "what": u,
					"how": "cd /verif/harness && go run -tags verif ./cmd/c05 -replay <file>  (re-executes the line on the real natives)"})
		}
	}
	if replayLine != "" {
		// -replay of a heap-stream violation / disagreement: that line only
		ans, _, unowned := exec(replayLine, nat)
		lines, impl = []string{replayLine}, []string{ans}
		for _, u := range unowned {
			ctx.Violate("written-unowned:"+replayLine, u, map[string]any{"line": replayLine, "observed": ans})
		}
	}
	if f := os.Getenv("C05_DUMP"); f != "" { // development: the protocol lines and the implementation's answers
		var sb strings.Builder
		for i := range lines {
			sb.WriteString(lines[i] + "\n  => " + impl[i] + "\n")
		}
		os.WriteFile(f, []byte(sb.String()), 0o644)
	}
	orc.Samples = []string{lines[0], lines[len(lines)/2]}
	ctx.RunStream(st, lines, impl)
}

// arrLitTop draws an array or object literal (arrays of arrays, of objects and of scalars; explicit
// capacities, some with spare capacity).
func arrLitTop(r *common.Rand) string {
	for {
		if l := genLit(r, 1); l[0] == "[" || l[0] == "{" {
			return "L " + strings.Join(l, " ")
		}
	}
}

func pathEndsInSlice(p string) bool {
	i := strings.LastIndex(p, ",")
	return len(p) > i+1 && p[i+1] == 'l'
}

func execAnswer(line string, nat map[string]gojq.VerifNativeInfo) string {
	a, _, _ := exec(line, nat)
	return a
}

// currentValue re-executes the line built so far and returns the current value (for the path generator).
func currentValue(line string, nat map[string]gojq.VerifNativeInfo) any {
	defer debug.SetGCPercent(debug.SetGCPercent(-1))
	segs := strings.Split(line, " ; ")
	toks := strings.Fields(segs[0])
	v, _, _ := buildLit(toks[1:])
	s := &state{v: v, a: gojq.VerifAllocator()}
	for _, seg := range segs[1:] {
		op := strings.Fields(seg)
		var res any
		isV := true
		switch op[0] {
		case "N":
			s.a = gojq.VerifAllocator()
			continue
		case "S":
			res = gojq.VerifSetpathAlloc(s.v, buildPath(op[1][2:]), s.buildSrc(op[2:]), s.a)
		case "s":
			res = nat["setpath"].Callback(s.v, []any{buildPath(op[1][2:]), s.buildSrc(op[2:])})
		case "G":
			res, isV = gojq.VerifGetpathAlloc(s.v, buildPath(op[1][2:]), s.a), false
		case "g":
			res, isV = nat["getpath"].Callback(s.v, []any{buildPath(op[1][2:])}), false
		case "D":
			res = gojq.VerifDelpathsAlloc(s.v, buildPaths(op[1][2:]), s.a)
		case "d":
			res = nat["delpaths"].Callback(s.v, []any{buildPaths(op[1][2:])})
		case "F":
			res, isV = callWriter(nat, op[1], s.buildSrcs(op[2:])), false
			if op[1] == "join" || op[1] == "implode" {
				res = nil
			}
		}
		if _, isErr := res.(error); isErr {
			if !isV {
				s.regs = append(s.regs, nil)
			}
			continue
		}
		if isV {
			s.v = res
		} else {
			s.regs = append(s.regs, res)
		}
	}
	return s.v
}

// cyclic reports whether a container is reachable from itself.
func cyclic(roots []any) bool {
	onStack := map[uintptr]bool{}
	done := map[uintptr]bool{}
	var walk func(v any) bool
	walk = func(v any) bool {
		p, ok := ptrOf(v)
		if ok {
			if onStack[p] {
				return true
			}
			if done[p] {
				return false
			}
			onStack[p] = true
			defer func() { onStack[p] = false; done[p] = true }()
		}
		switch c := v.(type) {
		case map[string]any:
			for _, x := range c {
				if walk(x) {
					return true
				}
			}
		case []any:
			for _, x := range c {
				if walk(x) {
					return true
				}
			}
		}
		return false
	}
	for _, r := range roots {
		if walk(r) {
			return true
		}
	}
	return false
}

// ------------------------------------------------------------------------------------------------
// dead registrations (bcc8a71): `|=` through slice paths under garbage collections
// ------------------------------------------------------------------------------------------------

// deadRegistrationOracle runs `|=` over many slice paths with a garbage collection forced inside the
// update query and compares with the defining reduction over setpath/getpath, on the real library.
// Before bcc8a71 updateArraySlice left the array that carried the new elements registered in the
// allocator after dropping it; the collector hands such an address out again, to an array the update
// query builds, which a later path then updates in place although it is referenced twice.
func deadRegistrationOracle(ctx *common.Ctx) {
	orc := ctx.NewOracle("slice-dead-registration", "model-free: (paths through slices, then paths into the values the update query stored) |= f, with runtime.GC() called inside f, equals reduce path(..) as $p (.; setpath($p; getpath($p) | f)) element by element; f stores an array that is referenced twice, so an in-place update licensed by a stale allocator entry shows; distinct = (path shape, n) pairs")
	shapes := []struct{ name, first, second string }{
		{"slice-index", ".[][1:][0]", ".[][1:][0][0][0]"},
		{"slice-slice-index", ".[][1:][1:][0]", ".[][1:][1:][0][0][0]"},
		{"slice-null-end", ".[][-2:][0]", ".[][-2:][0][0][0]"},
	}
	gc := gojq.WithFunction("gc", 0, 0, func(v any, _ []any) any { runtime.GC(); return v })
	for _, sh := range shapes {
		for _, n := range []int{ctx.N(400, 1500), ctx.N(8000, 40000)} {
			f := "[., 1] as $y | [$y, $y]"
			if n <= 1500 {
				f = "gc | " + f // small n: force the collections; large n: the collections the run itself triggers
			}
			src := fmt.Sprintf(`[range($n) | [0, null, null, null]] | . as $in
| ((%s, %s) |= (%s)) as $got
| (reduce ($in | path(%s, %s)) as $p ($in; setpath($p; getpath($p) | %s))) as $want
| [range($n) | select($got[.] != $want[.])] | {bad: length, first: (.[0] as $i | if $i == null then null else {i: $i, got: $got[$i], want: $want[$i]} end)}`,
				sh.first, sh.second, f, sh.first, sh.second, f)
			q, err := gojq.Parse(src)
			if err != nil {
				ctx.Errorf("slice-dead-registration: parse: %v", err)
				return
			}
			code, err := gojq.Compile(q, gojq.WithVariables([]string{"$n"}), gc)
			if err != nil {
				ctx.Errorf("slice-dead-registration: compile: %v", err)
				return
			}
			v, _ := code.Run(nil, n).Next()
			orc.Cases++
			orc.Distinct++
			orc.Distribution[sh.name]++
			m, ok := v.(map[string]any)
			if !ok {
				ctx.Errorf("slice-dead-registration: unexpected result %v", v)
				continue
			}
			if common.Canon(m["bad"]) != "i0" {
				cli := strings.ReplaceAll(strings.ReplaceAll(src, "gc | ", ""), "\n", " ")
				ctx.Violate("modify-slice-dead-registration", fmt.Sprintf("|= through slice paths (%s, n=%d) differs from its defining reduction on %s elements: an array built by the update query was updated in place although referenced twice (stale allocator entry)", sh.name, n, common.Canon(m["bad"])),
					map[string]any{"program": src, "n": n, "observed": common.Canon(m["first"]),
						"how": "gojq -n -c --argjson n 20000 '" + cli + "'   (bad must be 0; depends on garbage collections, repeat or raise n)"})
			}
		}
	}
	orc.Samples = []string{shapes[0].first + ", " + shapes[0].second + " |= ([., 1] as $y | [$y, $y])"}
}

// C15 — the command prints exactly what the library yields, with documented statuses.
//
// correspondence stream `process` (model = lean/Gojq/Model/Cli/Process.lean, driver drv_c15):
//
//	generated queries × input streams × output/status flags; the library is run in this
//	process on the same parsed inputs and supplies, per input, the list of outputs
//	(values with their rendering by the command's encoder, errors, halts); the model folds
//	them; the real command (cli.run through cli.VerifRunLog) is run on the same arguments.
//
// oracle `prescription` (model-free): the same library outputs folded by a reference written
// here directly from the property text, compared with the real command's stdout, stderr
// chunks and status. `early` checks the statuses of runs that end before any input is read;
// `binary` repeats a sample through the built cmd/gojq process (status modulo 256).
package main

import (
	"bytes"
	"context"
	"crypto/sha1"
	"encoding/hex"
	"encoding/json"
	"fmt"
	"io"
	"os"
	"os/exec"
	"path/filepath"
	"strconv"
	"strings"
	"time"

	"github.com/itchyny/gojq"
	"github.com/itchyny/gojq/cli"

	"verifharness/c1516"
	"verifharness/common"
)

type opts struct {
	raw, raw0, join, compact, tab bool
	indent                        *int
	exitStatus, nullIn, slurp     bool
}

func (o opts) args(r *common.Rand) []string {
	var groups [][]string
	var shorts []string
	add := func(on bool, short, long string) {
		if !on {
			return
		}
		if short != "" && r.Bool() {
			shorts = append(shorts, short)
		} else {
			groups = append(groups, []string{long})
		}
	}
	add(o.raw, "r", "--raw-output")
	add(o.raw0, "", "--raw-output0")
	add(o.join, "j", "--join-output")
	add(o.compact, "c", "--compact-output")
	add(o.tab, "", "--tab")
	if o.indent != nil {
		if r.Bool() {
			groups = append(groups, []string{"--indent", strconv.Itoa(*o.indent)})
		} else {
			groups = append(groups, []string{"--indent=" + strconv.Itoa(*o.indent)})
		}
	}
	add(o.exitStatus, "e", "--exit-status")
	add(o.nullIn, "n", "--null-input")
	add(o.slurp, "s", "--slurp")
	// short flags bundled (-rce) or separate
	if len(shorts) > 1 && r.Bool() {
		groups = append(groups, []string{"-" + strings.Join(shorts, "")})
	} else {
		for _, s := range shorts {
			groups = append(groups, []string{"-" + s})
		}
	}
	// flags may appear in any order
	for i := len(groups) - 1; i > 0; i-- {
		j := r.Intn(i + 1)
		groups[i], groups[j] = groups[j], groups[i]
	}
	var a []string
	for _, g := range groups {
		a = append(a, g...)
	}
	return a
}

func (o opts) letters() string {
	s := ""
	if o.raw {
		s += "r"
	}
	if o.raw0 {
		s += "0"
	}
	if o.join {
		s += "j"
	}
	if o.exitStatus {
		s += "e"
	}
	if s == "" {
		return "-"
	}
	return s
}

// the encoder arguments createMarshaler must select: -c wins over --tab wins over --indent n, default 2
func (o opts) encoder() (tab bool, indent int) {
	switch {
	case o.compact:
		return o.tab, -1
	case o.tab:
		return true, 1
	case o.indent != nil:
		return false, *o.indent
	}
	return false, 2
}

func optsFromIndex(i int, r *common.Rand) opts {
	o := opts{raw: i&1 != 0, raw0: i&2 != 0, join: i&4 != 0, compact: i&8 != 0, tab: i&16 != 0,
		exitStatus: i&64 != 0, nullIn: i&128 != 0, slurp: i&256 != 0}
	if i&32 != 0 {
		n := common.Pick(r, []int{0, 1, 2, 3, 4, 7, 9})
		o.indent = &n
	}
	return o
}

// ---- one output of the library, reduced to what the command looks at ---------------------

type out struct {
	kind    byte // 'v', 'e', 'h'
	falsy   bool
	isStr   bool
	str     string
	enc     []byte
	msg     string
	hasCode bool
	code    int
	hkind   byte // 'n', 's', 'j'
	hmsg    []byte
}

func (x out) wire() string {
	switch x.kind {
	case 'v':
		f, s := "0", "-"
		if x.falsy {
			f = "1"
		}
		if x.isStr {
			s = "s" + common.Hex(x.str)
		}
		return "v:" + f + ":" + s + ":" + hex.EncodeToString(x.enc)
	case 'e':
		c := "-"
		if x.hasCode {
			c = strconv.Itoa(x.code)
		}
		return "e:" + common.Hex(x.msg) + ":" + c
	}
	m := "n"
	if x.hkind != 'n' {
		m = string(x.hkind) + hex.EncodeToString(x.hmsg)
	}
	return "h:" + strconv.Itoa(x.code) + ":" + m
}

type effIn struct {
	isErr bool
	v     any
	outs  []out
}

// runLibrary collects what the library yields for v: everything up to the first error, plus
// (after a non-halt error) up to two further results, which the command must never look at.
func runLibrary(code *gojq.Code, v any, o opts) (outs []out) {
	defer func() {
		// a panic of the iterator AFTER its first error is not this property's business
		// (the command never calls Next again); before it, it is
		if r := recover(); r != nil {
			for _, x := range outs {
				if x.kind == 'e' {
					return
				}
			}
			panic(r)
		}
	}()
	tab, indent := o.encoder()
	it := code.Run(v, map[string]any{"named": map[string]any{}, "positional": []any{}})
	extra := -1
	for n := 0; n < 64; n++ {
		x, ok := it.Next()
		if !ok {
			return
		}
		if e, ok := x.(error); ok {
			if he, ok := e.(*gojq.HaltError); ok {
				h := out{kind: 'h', code: he.ExitCode(), hkind: 'n'}
				switch hv := he.Value().(type) {
				case nil:
				case string:
					h.hkind, h.hmsg = 's', []byte(hv)
				default:
					b, _ := gojq.Marshal(hv)
					h.hkind, h.hmsg = 'j', b
				}
				return append(outs, h)
			}
			eo := out{kind: 'e', msg: e.Error()}
			if ec, ok := e.(interface{ ExitCode() int }); ok {
				eo.hasCode, eo.code = true, ec.ExitCode()
			}
			outs = append(outs, eo)
			if extra < 0 {
				extra = 2
			}
		} else {
			enc, err := cli.VerifEncode(x, tab, indent)
			if err != nil {
				panic(err)
			}
			// "the library's outputs … each rendered in the selected format": in the compact format
			// the command's own encoder must write the bytes the library's Marshal writes
			if !tab && indent < 0 {
				if lib, err := gojq.Marshal(x); err == nil && !bytes.Equal(lib, enc) && renderCtx != nil {
					renderCtx.Violate("render-differs-from-library:"+common.Hex(string(lib)), fmt.Sprintf("the command's compact rendering %q differs from the library's %q", clipB(enc), clipB(lib)),
						map[string]any{"value": common.Canon(x), "command": string(enc), "library": string(lib), "cmd": "gojq -c . vs gojq.Marshal / tojson"})
				}
			}
			s, isStr := x.(string)
			outs = append(outs, out{kind: 'v', falsy: x == nil || x == false, isStr: isStr, str: s, enc: append([]byte(nil), enc...)})
		}
		if extra >= 0 {
			if extra == 0 {
				return
			}
			extra--
		}
	}
	return
}

// reference is the property's prescription, written from its text: stdout is the
// concatenation, input by input, of the rendered outputs before the first error; an error is
// one diagnostic and the next input follows; halt stops everything with its status and
// message; status 5 after any error, else -e's 1/4/0, else 0.
func reference(o opts, ins []effIn) (stdout []byte, chunks []string, status int) {
	failed, failCode := false, 5
	last := 4
	term := []byte("\n")
	if o.raw0 {
		term = []byte{0}
	} else if o.join {
		term = nil
	}
inputs:
	for _, in := range ins {
		if in.isErr {
			chunks = append(chunks, "J")
			failed, failCode = true, 5
			continue
		}
		for _, x := range in.outs {
			switch x.kind {
			case 'v':
				b := x.enc
				if x.isStr && (o.raw || o.raw0 || o.join) {
					if o.raw0 && strings.ContainsRune(x.str, 0) {
						chunks = append(chunks, "N")
						failed, failCode = true, 5
						continue inputs
					}
					b = []byte(x.str)
				}
				stdout = append(append(stdout, b...), term...)
				last = 0
				if x.falsy {
					last = 1
				}
			case 'e':
				chunks = append(chunks, "D"+common.Hex(x.msg))
				failed, failCode = true, 5
				if x.hasCode {
					failCode = x.code
				}
				continue inputs
			case 'h':
				switch x.hkind {
				case 's':
					chunks = append(chunks, "R"+hex.EncodeToString(x.hmsg))
				case 'j':
					chunks = append(chunks, "R"+hex.EncodeToString(x.hmsg), "R0a")
				}
				return stdout, chunks, x.code
			}
		}
	}
	switch {
	case failed:
		return stdout, chunks, failCode
	case o.exitStatus:
		return stdout, chunks, last
	}
	return stdout, chunks, 0
}

func classify(chunks []cli.VerifChunk) (stdout []byte, errs []string, raw []byte) {
	for _, c := range chunks {
		if c.Stream == 1 {
			stdout = append(stdout, c.Data...)
			continue
		}
		raw = append(raw, c.Data...)
		d := string(c.Data)
		switch {
		case strings.HasPrefix(d, "gojq: cannot output a string containing NUL character: ") && strings.HasSuffix(d, "\n"):
			errs = append(errs, "N")
		case strings.HasPrefix(d, "gojq: invalid json: ") && strings.HasSuffix(d, "\n"):
			errs = append(errs, "J")
		case strings.HasPrefix(d, "gojq: ") && strings.HasSuffix(d, "\n"):
			errs = append(errs, "D"+common.Hex(d[6:len(d)-1]))
		default:
			errs = append(errs, "R"+common.Hex(d))
		}
	}
	return
}

func answer(status int, stdout []byte, chunks []string) string {
	h, c := hex.EncodeToString(stdout), strings.Join(chunks, ",")
	if h == "" {
		h = "-"
	}
	if c == "" {
		c = "-"
	}
	return fmt.Sprintf("%d %s %s", status, h, c)
}

var renderCtx *common.Ctx

func clipB(b []byte) string {
	if len(b) > 120 {
		return string(b[:120]) + "…"
	}
	return string(b)
}

// ---- generators ---------------------------------------------------------------------------

var docPool = []string{`"\u2028\u2029"`, `{"\u2029k":"\u2028v"}`, "0", "1", "2", "null", "false", "true", `"s"`, `"a\u0000b"`, "[1,2]", `{"a":1}`, "[]", `{"a":{"b":{"c":3}}}`,
	`"line\nbreak"`, "1.0", "100000000000000000000", "-0", "1e2", `""`, `{"b":[],"a":[{"c":null}]}`}
var badTails = []string{"]", `{"a":`, "[1,", "tru", `"abc`, `{"a" 1}`, "[1 2]", "nul", "{,}", "}", "@"}

var valueAtoms = []string{".", "1", "null", "false", "true", `"a"`, `"a\u0000b"`, `"x\ny"`, "[., 1]", "{a: .}", `"é"`, "[]", "{}", "1.5", "empty",
	".[]?", `"\u0000"`, `""`, `[1,[2,{"a":"b"}]]`, `{"b":[],"a":{"c":null}}`, "1e1000", "[.[]?]", "100000000000000000000", "nan", "[infinite, -infinite]",
	// strings that are NOT valid UTF-8 (the library keeps the bytes; raw output writes them as they are)
	// and characters that other JSON encoders escape although jq does not (U+2028, U+2029, DEL, </>)
	`("iVBORw0KGgo=" | @base64d)`, `("/w==" | @base64d)`, `("w6k=" | @base64d | .[0:1] + "x")`, `[("/v8=" | @base64d)]`, `{("/w==" | @base64d): 1}`, `"\u2028"`, `"a\u2029b"`, `{"\u2028": ["\u2029"]}`, `["</script>", "\u007f", "\ud83d\ude00"]`,
	// strings longer than the encoder's 8 KiB buffer with escapes inside, at the top level, nested and as a key
	`("a" * 5000 + "\n" + "b" * 5000)`, `[("x\"y" * 3000)]`, `{("k" * 8200 + "\tq"): ("v" * 8190 + "\\" + "w")}`, `("é" * 4100 + "\u0000" + "z")`,
	`"tab\there"`, `"\u001f\u007f"`, "(1, 2)", "[range(3)]", `"<&>'"`, "tojson", "not", "null, false", "false, 1", `"NUL\u0000", 2`}
var failAtoms = []string{`error("x")`, "error", "error(null)", "error({a: 1})", ".a.b.c", "(1 / .)", ".[0]", "tonumber", `error("multi\nline")`, `error("é")`,
	`error("")`, `halt_error("x")`, "implode", "error([1, null])", `error("a\u0000b")`, ".[\"k\"]", "ltrimstr(1) | error"}
var haltAtoms = []string{"halt", "halt_error", "halt_error(1)", `"bye\n" | halt_error(3)`, "{a: 1} | halt_error(256)", `"m" | halt_error(-1)`, "null | halt_error",
	`"no newline" | halt_error`, `[1, "x"] | halt_error(0)`, "1 | halt_error(300)", `"é" | halt_error(2)`, "halt_error(5)", `"" | halt_error(4)`,
	"false | halt_error(7)", `"a\u0000b" | halt_error(1)`, "null | halt_error(9)", "1 | halt_error(1000000)"}

func genItem(r *common.Rand, depth int) string {
	atom := func() string {
		switch r.Intn(10) {
		case 0, 1:
			return common.Pick(r, failAtoms)
		case 2:
			return common.Pick(r, haltAtoms)
		}
		return common.Pick(r, valueAtoms)
	}
	if depth > 1 {
		return atom()
	}
	switch r.Intn(9) {
	case 0:
		return fmt.Sprintf("if . == %s then %s else %s end", common.Pick(r, docPool), genItem(r, depth+1), genItem(r, depth+1))
	case 1:
		return fmt.Sprintf("(select(. == %s) | %s)", common.Pick(r, docPool), genItem(r, depth+1))
	case 2:
		return fmt.Sprintf("(%s, %s)", genItem(r, depth+1), genItem(r, depth+1))
	case 3:
		return fmt.Sprintf("(try (%s) catch .)", genItem(r, depth+1))
	case 4:
		return fmt.Sprintf("first(%s, %s)", genItem(r, depth+1), genItem(r, depth+1))
	case 5:
		return fmt.Sprintf("(%s | %s)", common.Pick(r, valueAtoms), genItem(r, depth+1))
	}
	return atom()
}

func genQuery(r *common.Rand) string {
	n := r.Range(1, 4)
	items := make([]string, n)
	for i := range items {
		items[i] = genItem(r, 0)
	}
	return strings.Join(items, ", ")
}

func decodeAll(text string) (vs []any) {
	dec := json.NewDecoder(strings.NewReader(text))
	dec.UseNumber()
	for {
		var v any
		if err := dec.Decode(&v); err != nil {
			if err != io.EOF {
				panic(err)
			}
			return
		}
		vs = append(vs, v)
	}
}

func shq(args []string) string {
	var sb strings.Builder
	for _, a := range args {
		sb.WriteString(" '" + strings.ReplaceAll(a, "'", `'\''`) + "'")
	}
	return sb.String()
}

func keyOf(prefix, s string) string {
	if len(s) > 120 {
		return fmt.Sprintf("%s:sha1:%x", prefix, sha1.Sum([]byte(s)))
	}
	return prefix + ":" + s
}

var gctx *common.Ctx

// runLog runs the real command in-process under a watchdog: a run that does not return or
// floods its output is reported and ends the harness.
func runLog(args []string, stdin string, seekable bool) ([]cli.VerifChunk, int) {
	type res struct {
		chunks []cli.VerifChunk
		code   int
	}
	ch := make(chan res, 1)
	go func() {
		defer func() {
			if rec := recover(); rec != nil {
				gctx.Violate(keyOf("command-panic", fmt.Sprint(args, "<", stdin)), fmt.Sprintf("gojq %v panics: %v", args, rec),
					map[string]any{"args": args, "stdin": stdin, "observed": fmt.Sprint("panic: ", rec), "expected": "outputs or a diagnostic", "cmd": fmt.Sprintf("printf %%s%s | gojq%s", shq([]string{stdin}), shq(args))})
				ch <- res{[]cli.VerifChunk{{Stream: 2, Data: []byte(fmt.Sprint("panic: ", rec))}}, 2}
			}
		}()
		c, code := cli.VerifRunLog(args, []byte(stdin), seekable)
		ch <- res{c, code}
	}()
	what := ""
	select {
	case rr := <-ch:
		if rr.code != cli.VerifRunawayCode {
			return rr.chunks, rr.code
		}
		what = fmt.Sprintf("wrote more than %d bytes", cli.VerifOutputLimit)
	case <-time.After(30 * time.Second):
		what = "did not terminate within 30 s"
	}
	gctx.Violate(keyOf("runaway", fmt.Sprint(args, "<", stdin)), fmt.Sprintf("gojq %v %s", args, what),
		map[string]any{"args": args, "stdin": stdin, "observed": what, "expected": "the command terminates", "cmd": fmt.Sprintf("printf %%s%s | timeout 10 gojq%s", shq([]string{stdin}), shq(args))})
	gctx.Finish()
	return nil, 0
}

type runCase struct {
	args  []string
	stdin string
	want  string // reference answer
}

func main() {
	ctx := common.ParseFlags("C15")
	renderCtx = ctx
	gctx = ctx
	r := ctx.R
	st := ctx.NewStream("process", "Gojq.Process.process/printValues/marshal/exitCode/runStatus (Model/Cli/Process.lean = cli/cli.go run, process, printValues, createMarshaler; cli/marshaler.go; cli/error.go)",
		"generated queries (values, strings with NUL/newlines, errors of every carrier at chosen positions, try/catch, halt, halt_error with and without codes and messages) × 0..5 input documents with optional malformed tail × every combination of -r -j --raw-output0 -c --tab --indent n -e -n -s; library outputs obtained in-process; distinct = distinct implementation answers")
	orc := ctx.NewOracle("prescription", "the real command's stdout bytes, stderr chunks and status vs a reference fold of the library's outputs written from the property text (independent of the Lean model); distinct = distinct (query, options, input) triples whose run contains an error, a halt, a NUL string or -e")
	var lines, impl []string
	var sample []runCase
	distinct := 0
	combos := map[int]bool{}
	nCases := ctx.N(40000, 600000)
	for i := 0; i < nCases; i++ {
		oi := i % 512
		if i >= 1024 {
			oi = r.Intn(512)
			if r.Bool() {
				oi &^= 128 | 256 // half of the random part without -n / -s: several inputs per run
			}
		}
		combos[oi] = true
		o := optsFromIndex(oi, r)
		q := genQuery(r)
		// inputs
		nd := r.Intn(6)
		var parts []string
		for j := 0; j < nd; j++ {
			parts = append(parts, common.Pick(r, docPool))
		}
		text := strings.Join(parts, common.Pick(r, []string{"\n", " ", "\n\n"}))
		docs := decodeAll(text)
		bad := ""
		if r.Chance(1, 4) {
			bad = common.Pick(r, badTails)
			text += "\n" + bad
			if r.Bool() {
				text += " 7"
			}
		} else if nd > 0 && r.Bool() {
			text += "\n"
		}
		var ins []effIn
		switch {
		case o.nullIn:
			ins = []effIn{{v: nil}}
		case o.slurp:
			if bad != "" {
				ins = []effIn{{isErr: true}}
			} else {
				ins = []effIn{{v: append([]any{}, docs...)}}
			}
		default:
			for _, d := range docs {
				ins = append(ins, effIn{v: d})
			}
			if bad != "" {
				ins = append(ins, effIn{isErr: true})
			}
		}
		// library
		query, err := gojq.Parse(q)
		if err != nil {
			panic(fmt.Sprintf("generated query does not parse: %s: %v", q, err))
		}
		code, err := gojq.Compile(query, gojq.WithVariables([]string{"$ARGS"}))
		if err != nil {
			panic(fmt.Sprintf("generated query does not compile: %s: %v", q, err))
		}
		fields := []string{o.letters()}
		interesting := o.exitStatus
		for k := range ins {
			if ins[k].isErr {
				fields = append(fields, "E")
				interesting = true
				continue
			}
			ins[k].outs = runLibrary(code, ins[k].v, o)
			ws := []string{"V"}
			for _, x := range ins[k].outs {
				ws = append(ws, x.wire())
				if x.kind != 'v' || x.isStr && strings.ContainsRune(x.str, 0) {
					interesting = true
				}
				st.Distribution["out:"+string(x.kind)]++
			}
			fields = append(fields, strings.Join(ws, " "))
		}
		// real command
		args := append(o.args(r), q)
		chunks, status := runLog(args, text, r.Bool())
		stdout, errs, _ := classify(chunks)
		got := answer(status, stdout, errs)
		lines = append(lines, strings.Join(fields, " | "))
		impl = append(impl, got)
		st.Distribution[fmt.Sprintf("inputs=%d", len(ins))]++
		// prescription
		wout, wchunks, wstatus := reference(o, ins)
		want := answer(wstatus, wout, wchunks)
		orc.Cases++
		if interesting {
			distinct++
		}
		orc.Distribution[fmt.Sprintf("status=%d", wstatus)]++
		if got != want {
			what := "stdout"
			switch {
			case status != wstatus:
				what = fmt.Sprintf("status %d, prescribed %d", status, wstatus)
			case !bytes.Equal(stdout, wout):
				what = fmt.Sprintf("stdout %q, prescribed %q", clip(string(stdout)), clip(string(wout)))
			default:
				what = fmt.Sprintf("stderr chunks %v, prescribed %v", errs, wchunks)
			}
			ctx.Violate(keyOf("process", fmt.Sprint(args, "<", text)), fmt.Sprintf("gojq %v on %q: %s", args, clip(text), what),
				map[string]any{"args": args, "stdin": text, "observed": got, "expected": want, "library_outputs": strings.Join(fields, " | "),
					"cmd": fmt.Sprintf("printf %%s%s | gojq%s; echo status=$?", shq([]string{text}), shq(args))})
		}
		if len(sample) < ctx.N(120, 1200) && (i%97 == 0 || wstatus > 5 || wstatus < 0) {
			sample = append(sample, runCase{args, text, want})
		}
	}
	orc.Distinct = distinct
	st.Distribution["option combinations covered (of 512)"] = len(combos)
	orc.Samples = []string{`printf '1 2' | gojq -e 'if . == 1 then error("x") else null end'  -> stdout "null\n", status 5`, `gojq -n --raw-output0 '"a\u0000b", 1' -> status 5, nothing printed`, `printf '1 2 3' | gojq '., if . == 2 then "bye\n" | halt_error(3) else empty end' -> 1 2 then status 3`}
	ctx.RunStream(st, lines, impl)

	c1516.FlagsCorrespondence(ctx, r.Fork(8))
	earlyOracle(ctx, r.Fork(7))
	binaryOracle(ctx, sample)
	ctx.Finish()
}

func clip(s string) string {
	if len(s) > 160 {
		return s[:160] + "…"
	}
	return s
}

// ---- runs that end before any input is read ---------------------------------------------

func earlyOracle(ctx *common.Ctx, r *common.Rand) {
	orc := ctx.NewOracle("early", "statuses of runs that end before the first input: 2 for flag errors (unknown flag, missing or malformed flag argument, argument to a boolean flag), 3 for query parse and compile errors, 5 for the remaining start-up errors (indentation out of range, missing -f/--slurpfile/--rawfile file, invalid --argjson), each with and without -e and other flags; stdout must stay empty and stderr carry exactly one diagnostic; distinct = distinct argument lists")
	type ec struct {
		args   []string
		status int
	}
	missing := filepath.Join(os.TempDir(), "verif-c15-definitely-missing.json")
	base := []ec{
		{[]string{"--nope", "."}, 2}, {[]string{"-Z", "."}, 2}, {[]string{"--indent", "x", "."}, 2}, {[]string{".", "--indent"}, 2},
		{[]string{"--compact-output=1", "."}, 2}, {[]string{"--arg", "a"}, 2}, {[]string{"--argjson", "a"}, 2}, {[]string{"-rX", "."}, 2},
		{[]string{"--indent=1.5", "."}, 2}, {[]string{"--slurpfile", "a"}, 2}, {[]string{"--exit-status=1", "."}, 2},
		{[]string{"1 +"}, 3}, {[]string{"["}, 3}, {[]string{". |"}, 3}, {[]string{"nosuchfunction"}, 3}, {[]string{"$nosuchvar"}, 3}, {[]string{"break $x"}, 3},
		{[]string{"import \"nosuchmodule\" as m; ."}, 3}, {[]string{"{"}, 3}, {[]string{"\"unterminated"}, 3}, {[]string{"1 as $x | $y"}, 3},
		{[]string{"--indent", "10", "."}, 5}, {[]string{"--indent", "-1", "."}, 5}, {[]string{"--indent=100", "."}, 5},
		{[]string{"-f", missing}, 5}, {[]string{"--slurpfile", "a", missing, "."}, 5}, {[]string{"--rawfile", "a", missing, "."}, 5},
		{[]string{"--argjson", "a", "{", "."}, 5}, {[]string{"--jsonargs", ".", "{"}, 5}, {[]string{"-f"}, 5},
	}
	extras := [][]string{nil, {"-e"}, {"-n"}, {"-e", "-n"}, {"-r", "-e"}, {"-c", "--exit-status"}, {"-s"}, {"--raw-output0", "-e"}}
	seen := map[string]bool{}
	for _, b := range base {
		for _, x := range extras {
			args := append(append([]string{}, x...), b.args...)
			chunks, status := runLog(args, "1 2", false)
			stdout, errs, _ := classify(chunks)
			orc.Cases++
			seen[fmt.Sprint(args)] = true
			orc.Distribution[fmt.Sprintf("status=%d", b.status)]++
			if status != b.status || len(stdout) != 0 || len(errs) != 1 {
				ctx.Violate(keyOf("early", fmt.Sprint(args)), fmt.Sprintf("gojq %v: status %d (documented %d), %d bytes on stdout, %d stderr chunks", args, status, b.status, len(stdout), len(errs)),
					map[string]any{"args": args, "observed_status": status, "expected_status": b.status, "stdout": string(stdout), "cmd": "echo 1 2 | gojq" + shq(args) + "; echo status=$?"})
			}
		}
	}
	orc.Distinct = len(seen)
	orc.Samples = []string{"gojq -e --nope . -> 2", "gojq -e '1 +' -> 3", "gojq --indent 10 . -> 5"}
}

// ---- the same through a real process -----------------------------------------------------

func binaryOracle(ctx *common.Ctx, sample []runCase) {
	orc := ctx.NewOracle("binary", "cmd/gojq built from the tree (no verif tag) as a process with a stdin pipe on a sample of the cases above (all with a status outside 0..5 included): stdout, stderr bytes and exit status (modulo 256) must equal the in-process run; distinct = distinct command lines")
	tmp, err := os.MkdirTemp("", "verif-c15-")
	if err != nil {
		panic(err)
	}
	defer os.RemoveAll(tmp)
	bin := filepath.Join(tmp, "gojq")
	cmd := exec.Command("go", "build", "-o", bin, "./cmd/gojq")
	cmd.Dir = common.Getenv("VERIF_REPO", "/repo")
	if out, err := cmd.CombinedOutput(); err != nil {
		ctx.Errorf("building cmd/gojq failed: %v\n%s", err, out)
		return
	}
	for _, c := range sample {
		cx, cancel := context.WithTimeout(context.Background(), 20*time.Second)
		p := exec.CommandContext(cx, bin, c.args...)
		p.Stdin = strings.NewReader(c.stdin)
		p.Env = append(os.Environ(), "NO_COLOR=1")
		var o, e bytes.Buffer
		p.Stdout, p.Stderr = &o, &e
		err := p.Run()
		cancel()
		status := 0
		if ee, ok := err.(*exec.ExitError); ok {
			status = ee.ExitCode()
		} else if err != nil {
			status = -1
		}
		chunks, istatus := runLog(c.args, c.stdin, false)
		iout, _, ierr := classify(chunks)
		orc.Cases++
		orc.Distribution[fmt.Sprintf("status=%d", status)]++
		if !bytes.Equal(o.Bytes(), iout) || !bytes.Equal(e.Bytes(), ierr) || status != ((istatus%256)+256)%256 {
			ctx.Violate(keyOf("binary", fmt.Sprint(c.args, "<", c.stdin)), fmt.Sprintf("process status %d vs in-process %d (mod 256: %d); stdout/stderr equal: %v/%v", status, istatus, ((istatus%256)+256)%256, bytes.Equal(o.Bytes(), iout), bytes.Equal(e.Bytes(), ierr)),
				map[string]any{"args": c.args, "stdin": c.stdin, "observed": o.String(), "expected": string(iout), "cmd": fmt.Sprintf("printf %%s%s | gojq%s; echo status=$?", shq([]string{c.stdin}), shq(c.args))})
		}
	}
	orc.Distinct = len(sample)
	os.RemoveAll(tmp)
}

// C11 — one total order governs comparison, sorting, grouping and key order.
//
// correspondence streams (real gojq vs lean/Gojq/Model/{Compare,Sort}.lean):
//
//	cmp    : gojq.Compare on all ordered pairs of the value universe (every Go carrier) and on
//	         random deep values
//	ops    : the six comparison operators through the public API
//	native : sort, sort_by, group_by, unique, unique_by, min, max, min_by, max_by, bsearch,
//	         indices, array subtraction, keys, [.[]] through the public API
//
// oracles (model-free, on the real code only): order laws over all ordered triples of the
// NaN-free, |float| < 2^53 sub-universe in every carrier; operator agreement; every consumer
// against a reference implementation written only in terms of gojq.Compare.
package main

import (
	"bytes"
	"encoding/json"
	"fmt"
	"math"
	"math/big"
	"sort"
	"strings"
	"unicode/utf8"

	"github.com/itchyny/gojq"
	"github.com/itchyny/gojq/cli"

	"verifharness/common"
)

func compile(src string, vars ...string) *gojq.Code {
	q, err := gojq.Parse(src)
	if err != nil {
		panic(src + ": " + err.Error())
	}
	c, err := gojq.Compile(q, gojq.WithVariables(vars))
	if err != nil {
		panic(src + ": " + err.Error())
	}
	return c
}

// run1 runs compiled code for its first output and canonicalises it.
func run1(c *gojq.Code, in any, vars ...any) (res string, val any) {
	defer func() {
		if r := recover(); r != nil {
			res, val = fmt.Sprint("PANIC ", r), nil
		}
	}()
	it := c.Run(in, vars...)
	v, ok := it.Next()
	if !ok {
		return "empty", nil
	}
	if e, ok := v.(error); ok {
		m := e.Error()
		switch {
		case strings.Contains(m, "length mismatch"):
			return "err length", e
		case strings.Contains(m, "cannot be applied to"), strings.Contains(m, "cannot be subtracted"):
			return "err type", e
		}
		return "err other " + m, e
	}
	return "ok " + common.Canon(v), v
}

func sign(c int) int {
	switch {
	case c < 0:
		return -1
	case c > 0:
		return 1
	}
	return 0
}

func ordName(c int) string {
	switch sign(c) {
	case -1:
		return "lt"
	case 1:
		return "gt"
	}
	return "eq"
}

func safeCompare(a, b any) (c int, pan string) {
	defer func() {
		if r := recover(); r != nil {
			pan = fmt.Sprint(r)
		}
	}()
	return gojq.Compare(a, b), ""
}

const two53 = 9007199254740992.0

// tame: inside the property's domain (NaN-free, every float of magnitude below 2^53).
func tame(v any) bool {
	switch v := v.(type) {
	case float64:
		return !math.IsNaN(v) && math.Abs(v) < two53
	case json.Number:
		return tame(common.NormalizeNumber(v))
	case []any:
		for _, x := range v {
			if !tame(x) {
				return false
			}
		}
	case map[string]any:
		for _, x := range v {
			if !tame(x) {
				return false
			}
		}
	}
	return true
}

// twins: values that compare equal but are different representations / different values of the
// model (so that stability and "first/last extreme" are observable).
func tiePool() []any {
	return []any{nil, false, true, 0, 0.0, math.Copysign(0, -1), 1, 1.0, 2, 2.0, -1, 1.5, 3, 10, big.NewInt(1), big.NewInt(3),
		9007199254740991, 9007199254740991.0, common.NormInt(new(big.Int).Lsh(big.NewInt(1), 70)), "", "a", "b", "ab", "\xff", "é",
		[]any{}, []any{1}, []any{1.0}, []any{1, 2}, []any{1.0, 2}, []any{1, 2.0}, []any{[]any{1}}, []any{[]any{1.0}}, []any{nil},
		map[string]any{}, map[string]any{"a": 1}, map[string]any{"a": 1.0}, map[string]any{"a": 2}, map[string]any{"b": 1},
		map[string]any{"a": 1, "b": 2}, map[string]any{"a": 1.0, "b": 2.0}, map[string]any{"a": []any{1}}, map[string]any{"a": []any{1.0}}}
}

type gen struct {
	r      *common.Rand
	pool   []any // tame
	poolNT []any // including non-tame values
	small  []any
}

func (g *gen) elem(tameOnly bool) any {
	switch g.r.Intn(6) {
	case 0, 1:
		return common.Pick(g.r, g.small)
	case 2, 3:
		return common.Pick(g.r, tiePool())
	case 4:
		if tameOnly {
			return common.Pick(g.r, g.pool)
		}
		return common.Pick(g.r, g.poolNT)
	default:
		for {
			v := common.RandValue(g.r, common.GenOpts{Floats: true, BigInts: true, BadUTF8: true, MaxDepth: 2, MaxWidth: 3, SmallKeys: true, NonFinite: !tameOnly}, 0)
			if !tameOnly || tame(v) {
				return v
			}
		}
	}
}

func (g *gen) length() int {
	switch g.r.Intn(8) {
	case 0:
		return g.r.Intn(3)
	case 1, 2, 3:
		return g.r.Range(2, 9)
	case 4, 5:
		return g.r.Range(13, 30) // beyond the insertion-sort thresholds of package sort
	default:
		return g.r.Range(21, 70) // several SliceStable blocks
	}
}

func (g *gen) array(tameOnly bool) []any {
	n := g.length()
	xs := make([]any, n)
	// few distinct values so that ties are frequent
	k := g.r.Range(1, 6)
	alphabet := make([]any, k)
	for i := range alphabet {
		alphabet[i] = g.elem(tameOnly)
	}
	for i := range xs {
		if g.r.Chance(1, 6) {
			xs[i] = g.elem(tameOnly)
		} else {
			xs[i] = common.Pick(g.r, alphabet)
		}
	}
	return xs
}

// keyed builds an array of [key, payload] pairs with distinct payloads.
func (g *gen) keyed(tameOnly bool) []any {
	ks := g.array(tameOnly)
	xs := make([]any, len(ks))
	for i, k := range ks {
		xs[i] = []any{k, i}
	}
	return xs
}

func keysOf(pairs []any) []any {
	ks := make([]any, len(pairs))
	for i, p := range pairs {
		ks[i] = []any{p.([]any)[0]}
	}
	return ks
}

// perturb returns a value close to v: the same, a representation twin, or one leaf changed.
func perturb(r *common.Rand, v any) any {
	switch v := v.(type) {
	case int:
		switch r.Intn(4) {
		case 0:
			return float64(v)
		case 1:
			return v + 1
		case 2:
			return big.NewInt(int64(v))
		}
		return v
	case float64:
		if r.Bool() && v == math.Trunc(v) && math.Abs(v) < 1e15 {
			return int(v)
		}
		if r.Chance(1, 3) {
			return math.Nextafter(v, math.Inf(1))
		}
		return v
	case string:
		if r.Chance(1, 3) {
			return v + "a"
		}
		if r.Chance(1, 3) && len(v) > 0 {
			return v[:len(v)-1]
		}
		return v
	case []any:
		w := make([]any, len(v))
		copy(w, v)
		if len(w) > 0 && r.Chance(2, 3) {
			i := r.Intn(len(w))
			w[i] = perturb(r, w[i])
		} else if r.Chance(1, 2) {
			w = append(w, nil)
		} else if len(w) > 0 {
			w = w[:len(w)-1]
		}
		return w
	case map[string]any:
		w := make(map[string]any, len(v))
		ks := []string{}
		for k, x := range v {
			w[k] = x
			ks = append(ks, k)
		}
		sort.Strings(ks)
		if len(ks) > 0 && r.Chance(2, 3) {
			k := common.Pick(r, ks)
			w[k] = perturb(r, w[k])
		} else if r.Chance(1, 2) {
			w[common.Pick(r, []string{"a", "b", "zz", ""})] = 0
		} else if len(ks) > 0 {
			delete(w, common.Pick(r, ks))
		}
		return w
	}
	return v
}

func kind(v any) string {
	switch v := v.(type) {
	case nil:
		return "null"
	case bool:
		return "bool"
	case int:
		return "int"
	case *big.Int:
		return "big"
	case float64:
		if math.IsNaN(v) {
			return "nan"
		}
		if math.IsInf(v, 0) {
			return "inf"
		}
		if math.Abs(v) >= two53 {
			return "bigfloat"
		}
		return "float"
	case json.Number:
		return "number"
	case string:
		return "string"
	case []any:
		return "array"
	case map[string]any:
		return "object"
	}
	return "?"
}

func main() {
	ctx := common.ParseFlags("C11")
	r := ctx.R
	uni := common.Universe(true)
	var tameUni []any
	for _, v := range common.Universe(false) {
		if tame(v) {
			tameUni = append(tameUni, v)
		}
	}
	g := &gen{r: r, pool: tameUni, poolNT: uni, small: []any{0, 1, 1.0, 2, "a", []any{1}, nil, "b", 2.0, []any{1.0}}}

	// =====================================================================================
	// stream cmp
	// =====================================================================================
	stCmp := ctx.NewStream("cmp", "Gojq.cmp / cmpList / cmpVals / cmpKeys / cmpNum (Model/Compare.lean)",
		"gojq.Compare on all ordered pairs of the value universe (NaN, ±Inf, floats ≥ 2^53 included) with every combination of Go carriers (int / *big.Int / json.Number / float64) folded into one answer, plus random deep pairs (independent, equal, and one-leaf perturbations); distinct = distinct (answer, type pair) classes")
	var lines, impl []string
	classes := map[string]bool{}
	carrierDep := ctx.NewOracle("carrier-independence", "gojq.Compare(a, b) must not depend on the Go representation of the numbers inside a and b: every pair of the universe × every carrier combination; distinct = distinct value pairs having more than one carrier combination")
	seenCarrier := map[string]bool{}
	addCmp := func(a, b any, carriers bool) {
		c, pan := safeCompare(a, b)
		ans := ordName(c)
		if pan != "" {
			ans = "PANIC " + pan
		}
		if carriers {
			cas, cbs := common.Carriers(a), common.Carriers(b)
			if len(cas)*len(cbs) > 1 {
				seenCarrier[common.Canon(a)+" "+common.Canon(b)] = true
			}
			for _, ca := range cas {
				for _, cb := range cbs {
					carrierDep.Cases++
					c2, pan2 := safeCompare(ca, cb)
					if pan2 != "" || sign(c2) != sign(c) {
						ans += "/" + ordName(c2) + pan2
						ctx.Violate("carrier:"+common.Canon(a)+":"+common.Canon(b),
							fmt.Sprintf("Compare(%v, %v) = %d but %d with carriers %T, %T %s", a, b, c, c2, ca, cb, pan2),
							map[string]any{"a": common.Canon(a), "b": common.Canon(b), "carrier_a": fmt.Sprintf("%T", ca), "carrier_b": fmt.Sprintf("%T", cb), "observed": c2, "expected": c})
					}
				}
			}
		}
		lines = append(lines, common.Canon(a)+" "+common.Canon(b))
		impl = append(impl, ans)
		stCmp.Distribution[kind(a)+"×"+kind(b)]++
		classes[ans+kind(a)+kind(b)] = true
	}
	for _, a := range uni {
		for _, b := range uni {
			addCmp(a, b, true)
		}
	}
	uniPairs := len(lines)
	deepOpts := common.GenOpts{NonFinite: true, Floats: true, BigInts: true, BadUTF8: true, MaxDepth: 4, MaxWidth: 4, SmallKeys: true}
	for i, n := 0, ctx.N(60000, 600000); i < n; i++ {
		a := common.RandValue(r, deepOpts, 0)
		var b any
		switch r.Intn(4) {
		case 0:
			b = common.RandValue(r, deepOpts, 0)
		case 1:
			b = perturb(r, perturb(r, a))
		default:
			b = perturb(r, a)
		}
		if r.Bool() {
			a, b = b, a
		}
		addCmp(a, b, i%4 == 0)
	}
	carrierDep.Distinct = len(seenCarrier)
	carrierDep.Samples = []string{"Compare(1, 1.0) with 1 as int, *big.Int, json.Number(\"1\")", "Compare([9223372036854775808], [9.223372036854775808e18])"}
	ctx.RunStream(stCmp, lines, impl)
	stCmp.Distinct = len(classes)
	stCmp.Distribution["(universe pairs)"] = uniPairs

	// =====================================================================================
	// stream ops + operator oracle
	// =====================================================================================
	opsCode := compile("[$a == $b, $a != $b, $a < $b, $a <= $b, $a > $b, $a >= $b]", "$a", "$b")
	stOps := ctx.NewStream("ops", "Gojq.opEq/opNe/opLt/opLe/opGt/opGe (Model/Compare.lean)",
		"`[$a == $b, $a != $b, $a < $b, $a <= $b, $a > $b, $a >= $b]` through the public API on universe pairs and random deep pairs; distinct = distinct answers × type pair")
	opsOr := ctx.NewOracle("operators", "== != < <= > >= must be the projections of gojq.Compare (c==0, c!=0, c<0, c<=0, c>0, c>=0) on the same operands, all values including NaN; distinct = distinct (Compare result, type pair)")
	lines, impl = nil, nil
	opsSeen := map[string]bool{}
	opsDistinct := map[string]bool{}
	doOps := func(a, b any) {
		v, ok := opsCode.Run(nil, a, b).Next()
		ans := "?"
		if xs, isArr := v.([]any); ok && isArr && len(xs) == 6 {
			ans = ""
			for _, x := range xs {
				if x == true {
					ans += "t"
				} else {
					ans += "f"
				}
			}
		} else {
			ans = fmt.Sprint("unexpected ", v)
		}
		lines = append(lines, common.Canon(a)+" "+common.Canon(b))
		impl = append(impl, ans)
		opsDistinct[ans+kind(a)+kind(b)] = true
		c, _ := safeCompare(a, b)
		want := map[int]string{0: "tfftft", -1: "ftttff", 1: "ftfftt"}[sign(c)]
		opsOr.Cases++
		opsSeen[fmt.Sprint(sign(c), kind(a), kind(b))] = true
		if ans != want {
			ctx.Violate("ops:"+common.Canon(a)+":"+common.Canon(b), fmt.Sprintf("operators on (%v, %v) give %s but Compare = %d wants %s", a, b, ans, c, want),
				map[string]any{"query": "[$a == $b, $a != $b, $a < $b, $a <= $b, $a > $b, $a >= $b]", "a": common.Canon(a), "b": common.Canon(b), "observed": ans, "expected": want,
					"cmd": fmt.Sprintf("gojq -nc --argjson a '%s' --argjson b '%s' '[$a == $b, $a != $b, $a < $b, $a <= $b, $a > $b, $a >= $b]'", jsonOf(a), jsonOf(b))})
		}
	}
	for i, a := range uni {
		for j, b := range uni {
			if ctx.Thorough || (i*7+j)%3 == 0 || i == j {
				doOps(a, b)
			}
		}
	}
	for i, n := 0, ctx.N(10000, 100000); i < n; i++ {
		a := common.RandValue(r, deepOpts, 0)
		doOps(a, perturb(r, a))
	}
	opsOr.Distinct = len(opsSeen)
	opsOr.Samples = []string{"[1 == 1.0, …] = tfftft", "[null < false, …]"}
	ctx.RunStream(stOps, lines, impl)
	stOps.Distinct = len(opsDistinct)

	// =====================================================================================
	// oracle: order laws over triples (model-free)
	// =====================================================================================
	laws := ctx.NewOracle("order-laws", "reflexivity, antisymmetry Compare(a,b) = -Compare(b,a), transitivity (a≤b≤c ⇒ a≤c, strict if either is strict; a≡b ⇒ same relation to every c) over ALL ordered triples of the NaN-free |float|<2^53 sub-universe with every Go carrier as a separate element, then of random deep tame values; distinct = number of values in the matrices")
	{
		var vals []any
		for _, v := range tameUni {
			vals = append(vals, common.Carriers(v)...)
		}
		for _, v := range tiePool() {
			vals = append(vals, v)
		}
		lawMatrix(ctx, laws, vals, "universe")
		laws.Distribution["universe values (with carriers)"] = len(vals)
		nrand := ctx.N(400, 1000)
		var rv []any
		tameOpts := common.GenOpts{Floats: true, BigInts: true, BadUTF8: true, MaxDepth: 3, MaxWidth: 3, SmallKeys: true}
		for len(rv) < nrand {
			v := common.RandValue(r, tameOpts, 0)
			if !tame(v) {
				continue
			}
			rv = append(rv, v)
			if r.Chance(1, 2) {
				w := perturb(r, v)
				if tame(w) {
					rv = append(rv, w)
				}
			}
		}
		// values that agree on a NESTED prefix (objects with several keys, nested again, arrays of
		// objects) and differ only in a LATER member: a comparison that loses its place after
		// descending into a nested container (shared scratch buffers, pooled key lists) shows here
		{
			nested := []any{
				map[string]any{"x": 1, "y": 2}, map[string]any{"x": 1, "y": 2, "z": map[string]any{"p": 1, "q": 2}}, []any{map[string]any{"x": 1, "y": 2}, map[string]any{"u": 1, "v": 2}},
				map[string]any{"k": []any{map[string]any{"a": 1, "b": 2}}, "l": map[string]any{"m": 1, "n": 2, "o": 3}}, map[string]any{"a": map[string]any{"a": map[string]any{"a": 1, "b": 2}, "b": 2}, "b": 2},
			}
			for _, n := range nested {
				for _, tail := range [][2]any{{1, 2}, {"a", "b"}, {nil, false}, {[]any{1}, []any{2}}, {map[string]any{"a": 1}, map[string]any{"a": 2}}} {
					rv = append(rv,
						map[string]any{"a": common.DeepCopy(n), "b": tail[0]}, map[string]any{"a": common.DeepCopy(n), "b": tail[1]},
						map[string]any{"a": common.DeepCopy(n), "b": common.DeepCopy(n), "c": tail[0]}, map[string]any{"a": common.DeepCopy(n), "b": common.DeepCopy(n), "c": tail[1]},
						[]any{common.DeepCopy(n), tail[0]}, []any{common.DeepCopy(n), tail[1]},
						map[string]any{"o": map[string]any{"a": common.DeepCopy(n), "b": tail[0]}, "p": 0}, map[string]any{"o": map[string]any{"a": common.DeepCopy(n), "b": tail[1]}, "p": 0})
				}
			}
		}
		lawMatrix(ctx, laws, rv, "random")
		// the order as the property words it, written from scratch with math/big
		doc := ctx.NewOracle("documented-order", "gojq.Compare against a comparator written from the property's wording only (type rank; numbers by exact value with math/big; strings by code point = bytewise on valid UTF-8, bytewise otherwise; arrays lexicographically then by length; objects by sorted key list, then values in key order) on all ordered pairs of the tame sub-universe with carriers and of the random deep tame values; distinct = distinct (type pair, result)")
		docSeen := map[string]bool{}
		for _, set := range [][]any{vals, rv} {
			for _, a := range set {
				for _, b := range set {
					c, _ := safeCompare(a, b)
					want := refCompare(a, b)
					doc.Cases++
					docSeen[fmt.Sprint(kind(a), kind(b), want)] = true
					if sign(c) != want {
						ctx.Violate("docorder:"+common.Canon(a)+":"+common.Canon(b), fmt.Sprintf("Compare(%s, %s) = %d, the documented order says %d", clip(jsonOf(a)), clip(jsonOf(b)), c, want),
							map[string]any{"a": common.Canon(a), "b": common.Canon(b), "a_json": jsonOf(a), "b_json": jsonOf(b), "observed": c, "expected": want,
								"cmd": fmt.Sprintf("gojq -nc --argjson a '%s' --argjson b '%s' '[$a < $b, $a == $b, $a > $b]'", jsonOf(a), jsonOf(b))})
					}
				}
			}
		}
		doc.Distinct = len(docSeen)
		doc.Samples = []string{`Compare({"a":1,"b":2}, {"a":2,"b":1}) = -1 (values in key order)`, "Compare(9007199254740993, 9007199254740992.5) by exact value"}
		laws.Distribution["random deep values"] = len(rv)
		laws.Distinct = len(vals) + len(rv)
		laws.Samples = []string{"(1, 1.0, [1]) in carriers int/big/json.Number", "({\"a\":1}, {\"a\":1.0}, {\"a\":2})"}
		// type chain
		chain := []any{nil, false, true, 0, "", []any{}, map[string]any{}}
		for i := range chain {
			for j := range chain {
				c, _ := safeCompare(chain[i], chain[j])
				laws.Cases++
				if sign(c) != sign(i-j) {
					ctx.Violate(fmt.Sprint("typechain:", i, ":", j), fmt.Sprintf("type order: Compare(%v, %v) = %d", chain[i], chain[j], c), map[string]any{"a": common.Canon(chain[i]), "b": common.Canon(chain[j]), "observed": c, "expected": sign(i - j)})
				}
			}
		}
		// every tame value of one type is below every value of the next type
		for _, a := range vals {
			for _, b := range vals {
				ta, tb := typeRank(a), typeRank(b)
				if ta != tb {
					c, _ := safeCompare(a, b)
					laws.Cases++
					if sign(c) != sign(ta-tb) {
						ctx.Violate("typeorder:"+common.Canon(a)+":"+common.Canon(b), fmt.Sprintf("type order: Compare(%v, %v) = %d", a, b, c), map[string]any{"a": common.Canon(a), "b": common.Canon(b), "observed": c, "expected": sign(ta - tb)})
					}
				}
			}
		}
	}

	// =====================================================================================
	// stream native + consumer oracles
	// =====================================================================================
	stNat := ctx.NewStream("native", "Gojq.sortBy/sort/groupBy/uniqueBy/unique/minMaxBy/bsearch/indices/arraySub/keys/iterValues (Model/Sort.lean)",
		"sort, sort_by(.[0]), group_by(.[0]), unique, unique_by(.[0]), min, max, min_by(.[0]), max_by(.[0]), bsearch, indices, array `-`, keys, [.[]] through the public API (the *_by natives also directly with explicit key arrays, including wrong lengths and non-arrays) on tie-rich arrays of length 0..70 over universe values, NaN/Inf/large floats included; distinct = distinct implementation answers")
	cons := ctx.NewOracle("consumers", "each builtin on tame tie-rich arrays against a reference written only with gojq.Compare: sort/sort_by = stable insertion sort; unique(_by) = sort then drop items equal to their predecessor; group_by = sort then split where adjacent keys differ; min(_by)/max(_by) = first minimal / last maximal; bsearch on a sorted array = index of an equal element or -1-insertion point; indices/index/rindex = positions where every element compares equal; a - b = elements of a equal to no element of b; distinct = distinct (builtin, input)")
	lines, impl = nil, nil
	code := map[string]*gojq.Code{}
	for name, src := range map[string]string{
		"sort": "sort", "unique": "unique", "min": "min", "max": "max", "keys": "keys", "iter": "[.[]]",
		"sort_by": "sort_by(.[0])", "group_by": "group_by(.[0])", "unique_by": "unique_by(.[0])", "min_by": "min_by(.[0])", "max_by": "max_by(.[0])",
		"_sort_by": "_sort_by($x)", "_group_by": "_group_by($x)", "_unique_by": "_unique_by($x)", "_min_by": "_min_by($x)", "_max_by": "_max_by($x)",
		"bsearch": "bsearch($x)", "indices": "indices($x)", "index": "index($x)", "rindex": "rindex($x)", "sub": ". - $x",
		"sort_by2": "sort_by(.[0], .[1])", "to_entries": "to_entries",
	} {
		code[name] = compile(src, "$x")
	}
	consSeen := map[string]bool{}
	emit := func(name string, in any, arg any, hasArg bool, res string) {
		l := name + " " + common.Canon(in)
		if hasArg {
			l += " " + common.Canon(arg)
		}
		lines = append(lines, l)
		impl = append(impl, res)
		stNat.Distribution[name]++
	}
	violate := func(name string, in, arg any, got, want string, query string) {
		key := "cons:" + name + ":" + common.Canon(in)
		rep := map[string]any{"query": query, "input": common.Canon(in), "input_json": jsonOf(in), "observed": got, "expected": want,
			"cmd": fmt.Sprintf("gojq -c '%s' <<< '%s'", query, jsonOf(in))}
		if arg != nil {
			key += ":" + common.Canon(arg)
			rep["arg"] = common.Canon(arg)
			rep["arg_json"] = jsonOf(arg)
			rep["cmd"] = fmt.Sprintf("gojq -c --argjson x '%s' '%s' <<< '%s'", jsonOf(arg), query, jsonOf(in))
		}
		ctx.Violate(key, fmt.Sprintf("%s on %s gives %s, the order demands %s", query, clip(jsonOf(in)), clip(got), clip(want)), rep)
	}
	check := func(name, query string, in, arg any, got, want string) {
		cons.Cases++
		cons.Distribution[name]++
		consSeen[name+common.Canon(in)] = true
		if got != want {
			violate(name, in, arg, got, want, query)
		}
	}

	nArr := ctx.N(6000, 60000)
	for i := 0; i < nArr; i++ {
		tameOnly := i%4 != 3 // a quarter of the arrays leave the domain: correspondence only
		xs := g.array(tameOnly)
		isTame := tame(xs)
		// ---- sort / unique / min / max on plain arrays
		for _, name := range []string{"sort", "unique", "min", "max"} {
			res, _ := run1(code[name], xs, nil)
			emit(name, xs, nil, false, res)
			if isTame {
				check(name, name, xs, nil, res, "ok "+common.Canon(refPlain(name, xs)))
			}
		}
		// ---- *_by on [key, payload] pairs: through builtin.jq's wrappers and directly
		ps := g.keyed(tameOnly)
		ks := keysOf(ps)
		psTame := tame(ps)
		for _, name := range []string{"sort_by", "group_by", "unique_by", "min_by", "max_by"} {
			res, _ := run1(code[name], ps, nil)
			emit(name, ps, ks, true, res)
			res2, _ := run1(code["_"+name], ps, ks)
			if res2 != res {
				// the wrapper must be `_name(map([f]))`
				emit(name, ps, ks, true, res2)
			}
			if psTame {
				check(name, name+"(.[0])", ps, nil, res, "ok "+common.Canon(refBy(name, ps, ks)))
			}
		}
		if i%6 == 0 && psTame {
			// key filters with a VARYING number of outputs per element: the key is the array of all
			// outputs (empty, one, two; a single output that is itself an array)
			ps3 := make([]any, len(ps))
			ks3 := make([]any, len(ps))
			for j, p := range ps {
				k0 := p.([]any)[0]
				var outs []any
				switch r.Intn(5) {
				case 0:
					outs = []any{}
				case 1, 2:
					outs = []any{k0}
				case 3:
					outs = []any{k0, common.Pick(r, g.small)}
				default:
					outs = []any{[]any{k0}}
				}
				ps3[j] = []any{outs, j}
				ks3[j] = outs
			}
			if tame(ps3) {
				for _, name := range []string{"sort_by", "group_by", "unique_by", "min_by", "max_by"} {
					if code[name+"-multi"] == nil {
						code[name+"-multi"] = compile(name+"(.[0][])", "$x")
					}
					res, _ := run1(code[name+"-multi"], ps3, nil)
					emit(name, ps3, ks3, true, res)
					check(name+"-multi", name+"(.[0][])", ps3, nil, res, "ok "+common.Canon(refBy(name, ps3, ks3)))
				}
			}
		}
		if i%10 == 0 && psTame {
			// two sort keys: the key is the array [k0, k1]
			ps2 := make([]any, len(ps))
			ks2 := make([]any, len(ps))
			for j, p := range ps {
				k1 := common.Pick(r, g.small)
				ps2[j] = []any{p.([]any)[0], k1, j}
				ks2[j] = []any{p.([]any)[0], k1}
			}
			res, _ := run1(code["sort_by2"], ps2, nil)
			emit("sort_by", ps2, ks2, true, res)
			check("sort_by2", "sort_by(.[0], .[1])", ps2, nil, res, "ok "+common.Canon(refBy("sort_by", ps2, ks2)))
		}
		// ---- bsearch on a sorted array (and, for the correspondence only, sometimes unsorted)
		{
			sorted := refPlain("sort", xs).([]any)
			arr := sorted
			if i%7 == 0 {
				arr = xs
			}
			var t any
			if len(arr) > 0 && r.Chance(2, 3) {
				t = perturbMaybe(r, common.Pick(r, arr))
			} else {
				t = g.elem(tameOnly)
			}
			res, v := run1(code["bsearch"], arr, t)
			emit("bsearch", arr, t, true, res)
			if isTame && tame(t) && i%7 != 0 {
				cons.Cases++
				cons.Distribution["bsearch"]++
				consSeen["bsearch"+common.Canon(arr)+common.Canon(t)] = true
				if msg := checkBsearch(arr, t, v); msg != "" {
					violate("bsearch", arr, t, res, msg, "bsearch($x)")
				}
			}
		}
		// ---- indices / index / rindex / subtraction
		{
			n := r.Intn(12)
			vs := make([]any, n)
			for j := range vs {
				vs[j] = common.Pick(r, g.small)
			}
			var x any
			switch r.Intn(4) {
			case 0:
				x = common.Pick(r, g.small)
			case 1:
				if n > 0 {
					lo := r.Intn(n)
					hi := lo + r.Range(1, 3)
					if hi > n {
						hi = n
					}
					sub := make([]any, hi-lo)
					for j := range sub {
						sub[j] = perturbMaybe(r, vs[lo+j])
					}
					x = sub
				} else {
					x = []any{}
				}
			case 2:
				x = []any{common.Pick(r, g.small), common.Pick(r, g.small)}
			default:
				x = g.elem(tameOnly)
			}
			res, _ := run1(code["indices"], vs, x)
			emit("indices", vs, x, true, res)
			xsArg, isArr := x.([]any)
			if !isArr {
				xsArg = []any{x}
			}
			if tame(x) && len(xsArg) > 0 {
				idx := refIndices(vs, xsArg)
				check("indices", "indices($x)", vs, x, res, "ok "+common.Canon(idx))
				r1, _ := run1(code["index"], vs, x)
				r2, _ := run1(code["rindex"], vs, x)
				var first, last any
				if len(idx) > 0 {
					first, last = idx[0], idx[len(idx)-1]
				}
				check("index", "index($x)", vs, x, r1, "ok "+common.Canon(first))
				check("rindex", "rindex($x)", vs, x, r2, "ok "+common.Canon(last))
			}
			ys := g.array(tameOnly)
			if len(ys) > 6 {
				ys = ys[:6]
			}
			zs := append(append([]any{}, vs...), xs...)
			if len(zs) > 14 {
				zs = zs[:14]
			}
			res, _ = run1(code["sub"], zs, ys)
			emit("sub", zs, ys, true, res)
			if tame(zs) && tame(ys) {
				check("sub", ". - $x", zs, ys, res, "ok "+common.Canon(refSub(zs, ys)))
			}
		}
	}
	// ---- error classes and non-array inputs (correspondence)
	for _, v := range uni {
		for _, name := range []string{"sort", "unique", "min", "max", "keys", "iter"} {
			if name == "iter" {
				if _, ok := v.([]any); !ok {
					if _, ok := v.(map[string]any); !ok {
						continue // `[.[]]` on scalars: an iterate error, not part of this property
					}
				}
			}
			res, _ := run1(code[name], v, nil)
			emit(name, v, nil, false, res)
		}
		for _, name := range []string{"sort_by", "group_by", "unique_by", "min_by", "max_by"} {
			x := common.Pick(r, uni)
			res, _ := run1(code["_"+name], v, x)
			emit(name, v, x, true, res)
		}
		x := common.Pick(r, uni)
		res, _ := run1(code["bsearch"], v, x)
		emit("bsearch", v, x, true, res)
		if _, isStr := v.(string); !isStr {
			res, _ = run1(code["indices"], v, x)
			emit("indices", v, x, true, res)
		}
	}
	for i := 0; i < ctx.N(300, 3000); i++ {
		// length mismatch / equal length with explicit key arrays
		vs, ks := g.array(false), g.array(false)
		if r.Bool() && len(ks) > len(vs) {
			ks = ks[:len(vs)]
		}
		for _, name := range []string{"sort_by", "group_by", "unique_by", "min_by", "max_by"} {
			res, _ := run1(code["_"+name], vs, ks)
			emit(name, vs, ks, true, res)
		}
	}

	// ---- near ties: every consumer of the order on pairs that only an EXACT comparison separates
	// (adjacent integers beyond 2^53 and at the int64 limits, an integer next to the float it
	// rounds to) and on pairs that are equal in different carriers
	{
		near := ctx.NewOracle("near-ties", "pairs (a, b) of numbers that differ by one unit beyond 2^53 / at ±2^63 / between an integer and the nearest float, and equal values in different carriers (also nested in arrays/objects), through every consumer of the order — `[a] - [b]`, unique, group_by, index/rindex/indices, inside/contains, IN, any(==), sort, min/max, bsearch, == on wrappers — each compared with what gojq.Compare(a, b) demands; distinct = distinct (pair, carriers)")
		big := func(s string) *big.Int { z, _ := new(big.Int).SetString(s, 10); return z }
		var nums []any
		for _, s := range []string{"9007199254740992", "9007199254740993", "9007199254740994", "-9007199254740993", "-9007199254740992", "9223372036854775806", "9223372036854775807", "9223372036854775808", "9223372036854775809",
			"-9223372036854775807", "-9223372036854775808", "-9223372036854775809", "100000000000000000", "100000000000000001", "18014398509481984", "18014398509481985", "4611686018427387904", "4611686018427387905", "0", "1", "-1"} {
			nums = append(nums, common.NormInt(big(s)))
		}
		nums = append(nums, 9007199254740992.0, 9007199254740994.0, 9223372036854775808.0, -9223372036854775808.0, 1e17, 1.0, 0.0, math.Copysign(0, -1), 4611686018427387904.0)
		qs := map[string]*gojq.Code{}
		for name, src := range map[string]string{
			"sub": "[$a] - [$b] | length", "sub2": "[$b, $a, $b] - [$b] | length", "unique": "[$a, $b] | unique | length", "group_by": "[$a, $b] | group_by(.) | length", "index": "[$a] | index($b) != null", "rindex": "[$a, $a] | rindex($b) != null",
			"indices": "[$a, $b, $a] | indices($b) | length", "indices-arr": "[$a, $b] | indices([$b]) | length", "inside": "[$a] | inside([$b])", "contains": "[[$a]] | contains([[$b]])", "IN": "$a | IN($b)", "any": "[$b] | any(. == $a)", "eq-wrapped": "[{k: [$a]}] == [{k: [$b]}]",
			"sort": "[$a, $b] | sort == [$a, $b]", "min": "[$a, $b] | min == $a", "max": "[$a, $b] | max == $b", "bsearch": "[$b] | bsearch($a)", "unique_by": "[[$a, 1], [$b, 2]] | unique_by(.[0]) | length", "sub-nested": "[[$a]] - [[$b]] | length", "sub-obj": "[{k: $a}] - [{k: $b}] | length",
			"lt-wrapped": "[$a] < [$b]", "sort_by": "[{k: $a, i: 0}, {k: $b, i: 1}] | sort_by(.k) | map(.i)", "has-key-order": "{($a | tostring): 1} | length",
		} {
			qs[name] = compile(src, "$a", "$b")
		}
		want := func(name string, c int) string {
			b2 := func(b bool) string {
				if b {
					return "ok t"
				}
				return "ok f"
			}
			n2 := func(eq bool, a, b int) string {
				if eq {
					return fmt.Sprintf("ok i%d", a)
				}
				return fmt.Sprintf("ok i%d", b)
			}
			switch name {
			case "sub", "sub-nested", "sub-obj":
				return n2(c == 0, 0, 1)
			case "sub2":
				return n2(c == 0, 0, 1)
			case "unique", "group_by", "unique_by":
				return n2(c == 0, 1, 2)
			case "index", "rindex", "inside", "contains", "IN", "any", "eq-wrapped":
				return b2(c == 0)
			case "indices":
				return n2(c == 0, 3, 1)
			case "indices-arr":
				return n2(c == 0, 2, 1)
			case "sort", "min", "max":
				return b2(c <= 0)
			case "lt-wrapped":
				return b2(c < 0)
			case "bsearch":
				if c == 0 {
					return "ok i0"
				} else if c < 0 {
					return "ok i-1"
				}
				return "ok i-2"
			case "sort_by":
				if c <= 0 {
					return "ok [ i0 i1 ]"
				}
				return "ok [ i1 i0 ]"
			}
			return ""
		}
		seenNear := map[string]bool{}
		for _, a := range nums {
			for _, b := range nums {
				c := gojq.Compare(a, b)
				for _, ca := range common.Carriers(a) {
					for _, cb := range common.Carriers(b) {
						seenNear[common.Canon(a)+"|"+common.Canon(b)+fmt.Sprintf("%T%T", ca, cb)] = true
						for name, code := range qs {
							w := want(name, c)
							if w == "" {
								continue
							}
							got, _ := run1(code, nil, ca, cb)
							near.Cases++
							if got != w {
								ctx.Violate("near-tie:"+name+":"+common.Canon(a)+":"+common.Canon(b), fmt.Sprintf("%s with $a=%v (%T) $b=%v (%T) gives %s, gojq.Compare($a,$b)=%d demands %s", name, a, ca, b, cb, got, c, w),
									map[string]any{"consumer": name, "a": fmt.Sprint(a), "b": fmt.Sprint(b), "carrier_a": fmt.Sprintf("%T", ca), "carrier_b": fmt.Sprintf("%T", cb), "observed": got, "expected": w})
							}
						}
					}
				}
			}
		}
		near.Distinct = len(seenNear)
	}

	// ---- keys, iteration order, to_entries, Marshal key order on objects
	keyOr := ctx.NewOracle("key-order", "on objects: `keys` = sort.Strings of the keys (bytewise = the order of strings), `[.[]]`, `to_entries` and the member order printed by gojq.Marshal and by the command's encoder (compact and indented) all follow it, and gojq.Compare on the key strings is strictly increasing along it; distinct = distinct objects")
	keySeen := map[string]bool{}
	var objs []any
	for _, v := range uni {
		if _, ok := v.(map[string]any); ok {
			objs = append(objs, v)
		}
	}
	for i := 0; i < ctx.N(1500, 20000); i++ {
		n := r.Intn(9)
		m := map[string]any{}
		for j := 0; j < n; j++ {
			var k string
			if r.Chance(1, 4) {
				// code points on both sides of the surrogate range: UTF-8 (= code point) order and
				// UTF-16 code unit order differ exactly here
				k = common.Pick(r, []string{"\U00010000", "\uE000", "\uFFFF", "😀", "ｚ", "\uD7FF", "a😀", "aｚ", "\U0010FFFF", "\uFB01", "𝒳", "\uF8FF"})
				if r.Chance(1, 3) {
					k += common.Pick(r, []string{"", "a", "0", "😀"})
				}
			} else if r.Chance(1, 3) {
				k = common.RandKey(r, common.GenOpts{SmallKeys: true})
			} else {
				k = common.RandString(r, i%3 == 0)
			}
			m[k] = common.Pick(r, g.small)
		}
		objs = append(objs, m)
	}
	for _, o := range objs {
		m := o.(map[string]any)
		res, _ := run1(code["keys"], m, nil)
		emit("keys", m, nil, false, res)
		res2, _ := run1(code["iter"], m, nil)
		emit("iter", m, nil, false, res2)
		ks := make([]string, 0, len(m))
		for k := range m {
			ks = append(ks, k)
		}
		sort.Strings(ks)
		keyOr.Cases++
		keySeen[common.Canon(m)] = true
		wantKeys, wantVals, wantEntries := make([]any, len(ks)), make([]any, len(ks)), make([]any, len(ks))
		for i, k := range ks {
			wantKeys[i], wantVals[i] = k, m[k]
			wantEntries[i] = map[string]any{"key": k, "value": m[k]}
			if i > 0 {
				if c, _ := safeCompare(ks[i-1], k); c >= 0 {
					ctx.Violate("keyorder:cmp:"+common.Hex(ks[i-1])+":"+common.Hex(k), fmt.Sprintf("Compare(%q, %q) = %d but Go's string order says <", ks[i-1], k, c), map[string]any{"a": ks[i-1], "b": k, "observed": c})
				}
			}
		}
		if want := "ok " + common.Canon(wantKeys); res != want {
			violate("keys", m, nil, res, want, "keys")
		}
		if want := "ok " + common.Canon(wantVals); res2 != want {
			violate("iter", m, nil, res2, want, "[.[]]")
		}
		if res3, _ := run1(code["to_entries"], m, nil); res3 != "ok "+common.Canon(wantEntries) {
			violate("to_entries", m, nil, res3, "ok "+common.Canon(wantEntries), "to_entries")
		}
		// output key order of the library encoder (valid UTF-8 keys only: invalid bytes are
		// replaced on output, which is C12's business)
		valid := true
		for _, k := range ks {
			if strings.ToValidUTF8(k, "�") != k || strings.Contains(k, "�") {
				valid = false
			}
		}
		if valid {
			b, err := gojq.Marshal(m)
			if err != nil {
				continue
			}
			got, err := topLevelKeys(b)
			if err != nil || strings.Join(got, "\x00") != strings.Join(ks, "\x00") || len(got) != len(ks) {
				ctx.Violate("keyorder:marshal:"+common.Canon(m), fmt.Sprintf("gojq.Marshal prints members in order %q, sorted order is %q", got, ks), map[string]any{"input": common.Canon(m), "observed": string(b), "expected_keys": ks})
			}
			keyOr.Distribution["marshal"]++
			// the command's own encoder (cli/encoder.go), compact and indented
			for _, ind := range []int{-1, 2} {
				cb, err := cli.VerifEncode(m, false, ind)
				if err != nil {
					continue
				}
				got, err := topLevelKeys(cb)
				if err != nil || strings.Join(got, "\x00") != strings.Join(ks, "\x00") || len(got) != len(ks) {
					ctx.Violate("keyorder:cli-encoder:"+common.Canon(m), fmt.Sprintf("the command's encoder prints members in order %q, sorted order is %q", got, ks), map[string]any{"input": common.Canon(m), "observed": string(cb), "expected_keys": ks, "indent": ind,
						"cmd": "gojq -c . (or gojq .) on the input object"})
				}
				keyOr.Distribution["cli-encoder"]++
			}
		}
		keyOr.Distribution[fmt.Sprintf("keys=%d", len(ks))]++
	}
	keyOr.Distinct = len(keySeen)
	keyOr.Samples = []string{`{"é":1,"z":2,"a b":3} | keys, [.[]], to_entries, Marshal`, `{"0":0,"1":1,"10":10,"2":2}`}
	cons.Distinct = len(consSeen)
	cons.Samples = []string{"[[1,0],[1.0,1],[0,2],[1,3]] | sort_by(.[0]) keeps payload order 0,1,3 among equal keys", "[1,1.0,[1],[1.0]] | unique", "bsearch(1.0) on [0,1,1,2]"}
	ctx.RunStream(stNat, lines, impl)
	ctx.Finish()
}

func perturbMaybe(r *common.Rand, v any) any {
	if r.Chance(1, 2) {
		return v
	}
	return perturb(r, v)
}

func clip(s string) string {
	if len(s) > 300 {
		return s[:300] + "…"
	}
	return s
}

func typeRank(v any) int {
	switch v := v.(type) {
	case nil:
		return 0
	case bool:
		if v {
			return 2
		}
		return 1
	case int, float64, *big.Int, json.Number:
		return 3
	case string:
		return 4
	case []any:
		return 5
	}
	return 6
}

// ---------- the order as documented, written from scratch (tame values only) --------------------

func ratOf(v any) *big.Rat {
	switch v := v.(type) {
	case int:
		return new(big.Rat).SetInt64(int64(v))
	case *big.Int:
		return new(big.Rat).SetInt(v)
	case float64:
		if f := new(big.Rat).SetFloat64(v); f != nil { // exact
			return f
		}
	case json.Number:
		return ratOf(common.NormalizeNumber(v))
	}
	panic(fmt.Sprintf("ratOf %T", v))
}

func refCompare(a, b any) int {
	ra, rb := typeRank(a), typeRank(b)
	if ra != rb {
		return sign(ra - rb)
	}
	switch ra {
	case 3:
		return ratOf(a).Cmp(ratOf(b))
	case 4:
		x, y := a.(string), b.(string)
		if utf8.ValidString(x) && utf8.ValidString(y) {
			// by code point
			p, q := []rune(x), []rune(y)
			for i := 0; i < len(p) && i < len(q); i++ {
				if p[i] != q[i] {
					return sign(int(p[i]) - int(q[i]))
				}
			}
			return sign(len(p) - len(q))
		}
		return strings.Compare(x, y)
	case 5:
		x, y := a.([]any), b.([]any)
		for i := 0; i < len(x) && i < len(y); i++ {
			if c := refCompare(x[i], y[i]); c != 0 {
				return c
			}
		}
		return sign(len(x) - len(y))
	case 6:
		x, y := a.(map[string]any), b.(map[string]any)
		kx, ky := sortedKeys(x), sortedKeys(y)
		for i := 0; i < len(kx) && i < len(ky); i++ {
			if c := refCompare(kx[i], ky[i]); c != 0 {
				return c
			}
		}
		if c := sign(len(kx) - len(ky)); c != 0 {
			return c
		}
		for _, k := range kx {
			if c := refCompare(x[k], y[k]); c != 0 {
				return c
			}
		}
		return 0
	}
	return 0 // null, or the same boolean
}

func sortedKeys(m map[string]any) []string {
	ks := make([]string, 0, len(m))
	for k := range m {
		ks = append(ks, k)
	}
	sort.Strings(ks)
	return ks
}

// lawMatrix checks the preorder laws on every ordered triple of vals.
func lawMatrix(ctx *common.Ctx, o *common.Oracle, vals []any, tag string) {
	n := len(vals)
	m := make([][]int8, n)
	for i := range m {
		m[i] = make([]int8, n)
		for j := range m[i] {
			c, pan := safeCompare(vals[i], vals[j])
			if pan != "" {
				ctx.Violate("laws:panic:"+common.Canon(vals[i])+":"+common.Canon(vals[j]), "Compare panics: "+pan, map[string]any{"a": common.Canon(vals[i]), "b": common.Canon(vals[j])})
			}
			if c < -1 || c > 1 {
				ctx.Violate("laws:range:"+common.Canon(vals[i])+":"+common.Canon(vals[j]), fmt.Sprintf("Compare returned %d, documented results are -1, 0, 1", c), map[string]any{"a": common.Canon(vals[i]), "b": common.Canon(vals[j]), "observed": c})
			}
			m[i][j] = int8(sign(c))
			o.Cases++
		}
	}
	desc := func(i int) string { return fmt.Sprintf("%s (%T)", common.Canon(vals[i]), vals[i]) }
	for i := 0; i < n; i++ {
		if m[i][i] != 0 {
			ctx.Violate("laws:refl:"+common.Canon(vals[i]), fmt.Sprintf("not reflexive: Compare(a, a) = %d for a = %s", m[i][i], desc(i)),
				map[string]any{"a": common.Canon(vals[i]), "a_json": jsonOf(vals[i]), "observed": m[i][i], "expected": 0, "cmd": fmt.Sprintf("gojq -n --argjson a '%s' '$a == $a'", jsonOf(vals[i]))})
		}
		for j := 0; j < n; j++ {
			if m[i][j] != -m[j][i] {
				ctx.Violate("laws:antisym:"+common.Canon(vals[i])+":"+common.Canon(vals[j]), fmt.Sprintf("not antisymmetric: Compare(a,b) = %d, Compare(b,a) = %d for a = %s, b = %s", m[i][j], m[j][i], desc(i), desc(j)),
					map[string]any{"a": common.Canon(vals[i]), "b": common.Canon(vals[j]), "a_json": jsonOf(vals[i]), "b_json": jsonOf(vals[j]), "observed": []int{int(m[i][j]), int(m[j][i])},
						"cmd": fmt.Sprintf("gojq -nc --argjson a '%s' --argjson b '%s' '[$a < $b, $b > $a, $a == $b, $b == $a]'", jsonOf(vals[i]), jsonOf(vals[j]))})
			}
		}
	}
	bad := 0
	for i := 0; i < n && bad < 20; i++ {
		mi := m[i]
		for j := 0; j < n; j++ {
			ab := mi[j]
			mj := m[j]
			for k := 0; k < n; k++ {
				bc := mj[k]
				ac := mi[k]
				// composition table: eq∘x = x, x∘eq = x, lt∘lt = lt, gt∘gt = gt, lt∘gt unconstrained
				var want int8
				switch {
				case ab == 0:
					want = bc
				case bc == 0:
					want = ab
				case ab == bc:
					want = ab
				default:
					continue
				}
				if ac != want {
					bad++
					ctx.Violate("laws:trans:"+common.Canon(vals[i])+":"+common.Canon(vals[j])+":"+common.Canon(vals[k]),
						fmt.Sprintf("not transitive: Compare(a,b) = %d, Compare(b,c) = %d but Compare(a,c) = %d for a = %s, b = %s, c = %s", ab, bc, ac, desc(i), desc(j), desc(k)),
						map[string]any{"a": common.Canon(vals[i]), "b": common.Canon(vals[j]), "c": common.Canon(vals[k]), "a_json": jsonOf(vals[i]), "b_json": jsonOf(vals[j]), "c_json": jsonOf(vals[k]),
							"observed": []int{int(ab), int(bc), int(ac)}, "expected_ac": want,
							"cmd": fmt.Sprintf("gojq -nc --argjson a '%s' --argjson b '%s' --argjson c '%s' '[($a|tojson), ($b|tojson), ($c|tojson), $a <= $b, $b <= $c, $a <= $c]'", jsonOf(vals[i]), jsonOf(vals[j]), jsonOf(vals[k]))})
				}
			}
		}
	}
	o.Cases += n * n * n
	o.Distribution[tag+" triples"] = n * n * n
}

// ---------- reference implementations, written only with gojq.Compare ------------------------

type item struct{ value, key any }

func refSortItems(items []item) []item {
	out := make([]item, 0, len(items))
	for _, it := range items {
		// insert after every element that is <= it (stable)
		pos := len(out)
		for pos > 0 && gojq.Compare(out[pos-1].key, it.key) > 0 {
			pos--
		}
		out = append(out, item{})
		copy(out[pos+1:], out[pos:])
		out[pos] = it
	}
	return out
}

func refItems(name string, items []item) any {
	sorted := refSortItems(items)
	switch name {
	case "sort", "sort_by":
		rs := make([]any, len(sorted))
		for i, it := range sorted {
			rs[i] = it.value
		}
		return rs
	case "unique", "unique_by":
		rs := []any{}
		for i, it := range sorted {
			if i == 0 || gojq.Compare(sorted[i-1].key, it.key) != 0 {
				rs = append(rs, it.value)
			}
		}
		return rs
	case "group_by":
		rs := []any{}
		for i, it := range sorted {
			if i == 0 || gojq.Compare(sorted[i-1].key, it.key) != 0 {
				rs = append(rs, []any{it.value})
			} else {
				rs[len(rs)-1] = append(rs[len(rs)-1].([]any), it.value)
			}
		}
		return rs
	case "min", "min_by":
		// the first item that no item is strictly below
		for j := range items {
			ok := true
			for i := range items {
				if gojq.Compare(items[i].key, items[j].key) < 0 {
					ok = false
					break
				}
			}
			if ok {
				return items[j].value
			}
		}
		return nil
	case "max", "max_by":
		// the last item that no item is strictly above
		for j := len(items) - 1; j >= 0; j-- {
			ok := true
			for i := range items {
				if gojq.Compare(items[i].key, items[j].key) > 0 {
					ok = false
					break
				}
			}
			if ok {
				return items[j].value
			}
		}
		return nil
	}
	panic(name)
}

func refPlain(name string, xs []any) any {
	items := make([]item, len(xs))
	for i, x := range xs {
		items[i] = item{x, x}
	}
	return refItems(name, items)
}

func refBy(name string, vs, ks []any) any {
	items := make([]item, len(vs))
	for i := range vs {
		items[i] = item{vs[i], ks[i]}
	}
	return refItems(name, items)
}

func refIndices(vs, xs []any) []any {
	rs := []any{}
	for i := 0; i+len(xs) <= len(vs); i++ {
		ok := true
		for j := range xs {
			if gojq.Compare(vs[i+j], xs[j]) != 0 {
				ok = false
				break
			}
		}
		if ok {
			rs = append(rs, i)
		}
	}
	return rs
}

func refSub(l, r []any) []any {
	rs := []any{}
	for _, x := range l {
		found := false
		for _, y := range r {
			if gojq.Compare(x, y) == 0 {
				found = true
			}
		}
		if !found {
			rs = append(rs, x)
		}
	}
	return rs
}

// checkBsearch: on a sorted array the result is an index of an equal element, or
// -1-insertion point with everything before it below t and everything from it on above t.
func checkBsearch(arr []any, t any, v any) string {
	i, ok := v.(int)
	if !ok {
		return fmt.Sprintf("an integer (got %v)", v)
	}
	if i >= 0 {
		if i >= len(arr) || gojq.Compare(arr[i], t) != 0 {
			return "an index of an element equal to the target"
		}
		return ""
	}
	ins := -1 - i
	if ins > len(arr) {
		return "-1-insertion point within the array"
	}
	for k, x := range arr {
		c := gojq.Compare(x, t)
		if c == 0 {
			return fmt.Sprintf("the index of an equal element (there is one at %d)", k)
		}
		if k < ins && c > 0 || k >= ins && c < 0 {
			return fmt.Sprintf("-1-insertion point: element %d is on the wrong side of %d", k, ins)
		}
	}
	return ""
}

// topLevelKeys reads the member names of a JSON object text in order of appearance.
func topLevelKeys(b []byte) ([]string, error) {
	dec := json.NewDecoder(bytes.NewReader(b))
	tok, err := dec.Token()
	if err != nil {
		return nil, err
	}
	if d, ok := tok.(json.Delim); !ok || d != '{' {
		return nil, fmt.Errorf("not an object")
	}
	var ks []string
	for dec.More() {
		tok, err := dec.Token()
		if err != nil {
			return nil, err
		}
		k, ok := tok.(string)
		if !ok {
			return nil, fmt.Errorf("non-string key")
		}
		ks = append(ks, k)
		var skip json.RawMessage
		if err := dec.Decode(&skip); err != nil {
			return nil, err
		}
	}
	return ks, nil
}

// jsonOf renders a value as JSON text for replay commands (best effort: NaN/Inf and invalid
// UTF-8 print as gojq prints them).
func jsonOf(v any) string {
	b, err := gojq.Marshal(v)
	if err != nil {
		return fmt.Sprint(v)
	}
	return string(b)
}

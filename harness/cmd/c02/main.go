// C02 — paths and update operators equal their defining reductions.
//
// correspondence stream `path` (driver drv_c01, stream `eval`): real gojq vs Spec.eval on
//
//	path / update programs: `path(p)`, `[paths]`, `p |= f`, `p = x`, `p op= x`, `del(p)`,
//	`delpaths`, `to_entries`, `with_entries`, `map_values`, `pick`, `tostream`, generated against
//	the inferred type of the input so that paths overlap (ancestor / descendant / slices).
//
// oracle (model-free, package c02oracle by the heap agent): every operator against its EXPLICIT
//
//	defining reduction on the real implementation, adversarial path lists and update bodies.
package main

import (
	"fmt"
	"sort"
	"strings"

	"github.com/itchyny/gojq"

	"verifharness/c02oracle"
	"verifharness/common"
	"verifharness/defred"
	"verifharness/jqast"
	"verifharness/jqgen"
)

const budget = 60000
const maxOuts = 300

func main() {
	c02oracle.MaybeChild()
	ctx := common.ParseFlags("C02")
	r := ctx.R
	type caseT struct {
		src string
		in  any
	}
	var cases []caseT
	seen := map[string]bool{}
	add := func(s string, in any) {
		k := s + "\x00" + common.Canon(in)
		if !seen[k] {
			seen[k] = true
			cases = append(cases, caseT{s, in})
		}
	}
	inputs := []any{nil, []any{1, 2, 3}, []any{[]any{1, 2}, []any{3}}, map[string]any{"a": 1, "b": []any{1, 2}}, map[string]any{"a": map[string]any{"b": nil}}, []any{[]any{nil}}, []any{0, 1, 2, 3},
		map[string]any{"a": []any{map[string]any{"b": 1}, map[string]any{"b": 2}}}, []any{}, map[string]any{}, 1, "abc", []any{map[string]any{"a": 1}, map[string]any{"a": 2}}, []any{nil, 1, "x", []any{}}, map[string]any{"a": nil, "b": false}}
	for _, p := range fixed {
		for _, in := range inputs {
			add(p, in)
		}
	}
	// bounded-exhaustive overlap schedules: every ordered triple of paths from a pool of
	// overlapping paths (elements, paths below them, slices with every start, the root) × update
	// bodies that duplicate / re-embed / drop by type, on three small inputs (thorough: all;
	// quick: a third, chosen by the PRNG). These only feed the reduction-rewrite oracle and, one
	// in eight, the model stream.
	exh := map[string]bool{}
	for _, sc := range overlapPools {
		for _, a := range sc.pool {
			for _, b := range sc.pool {
				for _, c := range sc.pool {
					for _, body := range sc.bodies {
						if !ctx.Thorough && !r.Chance(1, 3) {
							continue
						}
						src := "(" + a + ", " + b + ", " + c + ") |= (" + body + ")"
						add(src, sc.in)
						if !r.Chance(1, 8) {
							exh[src] = true
						}
					}
				}
			}
		}
	}
	n := ctx.N(5000, 100000)
	for i := 0; i < n; i++ {
		var in any
		if r.Chance(1, 2) {
			in = common.Pick(r, inputs)
		} else {
			in = common.RandValue(r, common.GenOpts{MaxDepth: 3, MaxWidth: 3, SmallKeys: true}, 0)
		}
		t := jqgen.TypeOf(in)
		g := jqgen.NewTyped(r, r.Range(0, 3))
		p, tp := g.PathFor(t)
		body, _ := jqgen.NewTyped(r, r.Range(0, 2)).Gen(tp)
		var src string
		switch r.Intn(23) {
		case 0, 1:
			src = "[path(" + p + ")]"
		case 2, 3, 4:
			src = "(" + p + ") |= (" + common.Pick(r, []string{body, ".", "[., .]", "{x: .}", "1", "empty", "(., 2)", "[.]", "{x: ., y: .}", "null", ".. ", "if . == null then 1 else empty end"}) + ")"
		case 5:
			src = "(" + p + ") = (" + common.Pick(r, []string{"1", ".", "[1]", "(1, 2)", "null", "{a: 1}", body}) + ")"
		case 6:
			src = "(" + p + ") " + common.Pick(r, []string{"+=", "-=", "*=", "/=", "%=", "//="}) + " (" + common.Pick(r, []string{"1", "2", "(1, 2)", "null", "[1]", "\"x\""}) + ")"
		case 7:
			src = "del(" + p + ")"
		case 8:
			src = common.Pick(r, []string{"[paths]", "[paths(type == \"number\")]", "[tostream]", "to_entries", "with_entries(.value |= .)", "map_values(" + body + ")", "[getpath(path(" + p + "))]", "delpaths([path(" + p + ")])", "pick(" + p + ")", "[path(..)]", "[leaf_paths]"[:0] + "[paths(scalars)]"})
		case 9:
			src = "try ((" + p + ") |= (" + body + ")) catch ."
		case 10:
			src = "reduce path(" + p + ") as $q (.; setpath($q; getpath($q) | " + common.Pick(r, []string{".", "[.]", "1"}) + "))"
		case 18, 19, 20, 21, 22:
			if q := overlapSchedule(r, in); q != "" {
				src = q
			} else {
				src = "[paths]"
			}
		case 14, 15, 16:
			// two activations of an update alive at once, each dropping some of its paths
			// (the deleted-path lists of nested `|=` must not interfere)
			drop := func() string {
				return common.Pick(r, []string{"select(. != null)", "values", "if . == null then empty else . end", "select(type != \"number\")", "select(. != 1)", "select(type == \"array\" or type == \"object\")", "select(. != [])", "if type == \"number\" and . > 1 then empty else . end"})
			}
			q, _ := jqgen.NewTyped(r, r.Range(0, 2)).PathFor(tp)
			inner := common.Pick(r, []string{"(" + q + ") |= (" + drop() + ")", "(.[]?) |= (" + drop() + ")", "map_values(" + drop() + ")?", "(.. | select(type != \"array\" and type != \"object\")) |= (" + drop() + ")", "del(" + q + ")", "(.[]?) |= ((.[]?) |= (" + drop() + "))"})
			src = common.Pick(r, []string{
				"(" + p + ") |= (" + drop() + " | " + inner + ")",
				"(.[]?) |= (" + drop() + " | " + inner + ")",
				"map_values(" + drop() + " | " + inner + ")?",
				"(" + p + ") |= (" + inner + " | " + drop() + ")",
				"[(" + p + ") |= (" + drop() + " | " + inner + "), ((" + p + ") |= (" + drop() + "))]",
				"(" + p + ") |= (" + drop() + " | " + inner + ") | (" + p + ")? |= (" + drop() + ")",
			})
		case 11, 12, 13:
			// navigation from a COMPUTED value (must raise the invalid-path error, whatever the
			// computed value is: empty or not, array, object, scalar or null)
			sel := common.Pick(r, []string{"select(. == null)", "select(. != null)", "select(false)", "select(type == \"number\")", "select(type == \"array\")", "select(. > 5)?", "."})
			comp := common.Pick(r, []string{
				"[" + p + "]", "[" + p + " | " + sel + "]", "[.[]? | " + sel + "]", "map(" + sel + ")?", "[]", "{}", "[.]", "{a: .}", "{a: (" + p + ")}", "[" + body + "]", "(" + body + ")",
				"(" + p + " | [.[]?])", "(" + p + " | {x: .})", "to_entries?", "keys?", "[paths]", "(. as $x | [$x[]?])", "([" + p + "] | .[1:])", "(tojson | fromjson)", "(" + p + " | tostring)",
			})
			nav := common.Pick(r, []string{"[]", "[0]", ".a", "[1:]", "[]?", ".a?", "[0]?", "[]?[]?", ".x", "[-1]", "[:1]",
				// bounds and keys that are COMPUTED (compiled to the _slice / _index natives, not to opindex)
				"[(1):]", "[:(length - 1)]", "[(0):(1)]", "[1:(2)]", "[(0)]", "[(\"a\")]", "[(1, 0)]", "[(0):]?", "[:(1)]?", "[(length - 1):]"})
			acc := comp + " | ." + nav
			if nav[0] == '.' {
				acc = comp + " | " + nav
			}
			src = common.Pick(r, []string{"[path(" + acc + ")]", "try [path(" + acc + ")] catch \"invalid\"", "del(" + acc + ")", "(" + acc + ") |= 1", "(" + acc + ") = 1", "try ((" + acc + ") |= empty) catch \"invalid\"",
				"[paths(" + acc + ")]?", "(" + acc + ") += 1", "[path(" + p + " | " + acc + ")]", "try del(" + p + " | " + acc + ") catch \"invalid\"", "pick(" + acc + ")"})
		default:
			src = "[path(" + p + ")] as $ps | [$ps[] as $q | getpath($q)] == [" + p + "]"
		}
		add(src, in)
	}
	st := ctx.NewStream("eval", "Gojq.Spec.eval in path mode (navigated / iterate / pathIntact / evalModify / evalAssign of Model/Spec.lean)",
		"path and update programs generated against the input's inferred type (overlapping, ancestor/descendant and slice paths; bodies that copy, duplicate, re-embed, replace or drop) plus a fixed list × 15 inputs; programs that fail to compile or exceed the step budget are not compared; distinct = distinct implementation answers")
	var lines, impl, labels, srcs []string
	var ins []any
	altCache := map[string]string{}
	cache := map[string]*gojq.Code{}
	asts := map[string]string{}
	for _, c := range cases {
		if exh[c.src] {
			// oracle only: compiled here, not sent to the model
			if _, ok := cache[c.src]; !ok {
				if q, err := gojq.Parse(c.src); err == nil {
					if cc, err := gojq.Compile(q); err == nil {
						cache[c.src] = cc
					}
				}
			}
			continue
		}
		code, ok := cache[c.src]
		if !ok {
			if q, err := gojq.Parse(c.src); err == nil {
				if cc, err := gojq.Compile(q); err == nil {
					code = cc
					asts[c.src] = jqast.Sexp(jqast.Query(q))
				}
			}
			cache[c.src] = code
		}
		if code == nil {
			st.Distribution["skipped:compile"]++
			continue
		}
		o := common.RunCode(code, common.DeepCopy(c.in), budget, maxOuts)
		if o.Panic != "" {
			ctx.Violate("panic:"+c.src+":"+common.Canon(c.in), "panic: "+o.Panic, map[string]any{"query": c.src, "input": common.Canon(c.in)})
			continue
		}
		if o.Budget {
			st.Distribution["skipped:budget"]++
			continue
		}
		if o.Err != nil {
			st.Distribution["ends:error"]++
		} else {
			st.Distribution["ends:done"]++
		}
		lines = append(lines, asts[c.src]+" ||| "+common.Canon(c.in))
		impl = append(impl, common.CanonOutcome(o))
		labels = append(labels, c.src+"  ON  "+common.Canon(c.in))
		srcs = append(srcs, c.src)
		ins = append(ins, c.in)
		if len(st.Samples) < 4 && len(lines)%701 == 1 {
			st.Samples = append(st.Samples, c.src+" on "+common.Canon(c.in)+" => "+common.CanonOutcome(o))
		}
	}
	st.Labels = labels
	ctx.RunStream(st, lines, impl)
	if n := common.RefereeJq(ctx, st, srcs, ins); n > 0 {
		ctx.Res.Notes = append(ctx.Res.Notes, fmt.Sprintf("%d disagreement(s) confirmed against jq 1.6", n))
	}

	// ---------- every update operator against its defining reduction, by rewriting the program ----
	red := ctx.NewOracle("reduction-rewrite", "every generated program that contains `|=`, `=`, `op=` (at any depth, nested in each other, inside path expressions, bodies and conditions) is rewritten by replacing each operator with its defining reduction written in jq (reduce path(l) … setpath/getpath/delpaths, package defred) and both programs run on the real implementation: same outputs, same termination kind and same error value; distinct = distinct programs compared")
	redSeen := map[string]bool{}
	for _, c := range cases {
		alt, ok := altCache[c.src]
		if !ok {
			alt = defred.Program(c.src)
			altCache[c.src] = alt
		}
		if alt == "" || cache[c.src] == nil {
			continue
		}
		a := common.RunCode(cache[c.src], common.DeepCopy(c.in), budget, maxOuts)
		b := common.RunSrc(alt, common.DeepCopy(c.in), 30*budget, maxOuts)
		if a.Budget || b.Budget || a.Panic != "" || b.Panic != "" || b.ParseErr != nil || b.CompErr != nil {
			red.Distribution["skipped"]++
			continue
		}
		red.Cases++
		redSeen[c.src] = true
		ca, cb := looseOutcome(a), looseOutcome(b)
		if a.Err != nil {
			red.Distribution["ends:error"]++
		} else {
			red.Distribution["ends:done"]++
		}
		if ca != cb {
			ctx.Violate("defred:"+c.src+":"+common.Canon(c.in), "update operator differs from its defining reduction: "+c.src,
				map[string]any{"query": c.src, "input": common.Canon(c.in), "operator_gives": ca, "reduction_gives": cb, "reduction_program": alt})
		}
	}
	red.Distinct = len(redSeen)
	// ---------- a binding inside a path expression is evaluated as a VALUE ------------------------
	// `path(SRC as PATTERN | B)`: the source and the destructuring steps of the pattern leave no
	// trace in the path; with SRC = `.` and pattern variables B does not use, the paths are those of
	// B — the same binding performed OUTSIDE the path expression gives the reference (same
	// multiplicity, same destructuring errors)
	{
		bo := ctx.NewOracle("bind-in-path", "`try [path(. as P | B)] catch \"E\"` against `try [(. as P | 1) as $one | path(B)] catch \"E\"`, and the same with `(…) |= 1` / `del(…)`, for 12 patterns P (plain, array, object, nested, `?//` lists) × generated path expressions B × inputs of every shape: the implementation against itself; distinct = distinct (P, B, input)")
		pats := []string{"$v", "[$v]", "[$v, $w]", "{a: $v}", "{$a}", "{a: [$v]}", "[$v] ?// $v", "{a: $v} ?// [$v] ?// $v", "{$a, b: [$w]}", "[[$v]]", "{\"a\": $v, \"b\": $w}", "{(\"a\", \"b\"): $v}"}
		seenB := map[string]bool{}
		for i := 0; i < ctx.N(2500, 40000); i++ {
			var in any
			if r.Chance(1, 2) {
				in = common.Pick(r, inputs)
			} else {
				in = common.RandValue(r, common.GenOpts{MaxDepth: 3, MaxWidth: 3, SmallKeys: true}, 0)
			}
			b, _ := jqgen.NewTyped(r, r.Range(0, 2)).PathFor(jqgen.TypeOf(in))
			if strings.Contains(b, " as ") {
				continue // B must not bind the same names itself
			}
			pat := common.Pick(r, pats)
			wrapL, wrapR := "[path(%s)]", "[%s path(%s)]"
			// the update forms only for patterns that bind once: an update through k copies of a
			// path list is not the update through one copy when an earlier path covers a later one
			once := !strings.Contains(pat, "(\"a\", \"b\")")
			switch r.Intn(4) {
			case 0:
				if once {
					wrapL, wrapR = "(%s) |= 1", "%s ((%s) |= 1)"
				}
			case 1:
				if once {
					wrapL, wrapR = "del(%s)", "%s del(%s)"
				}
			}
			bind := "(. as " + pat + " | 1) as $one | "
			lhs := "try (" + fmt.Sprintf(wrapL, ". as "+pat+" | "+b) + ") catch \"E\""
			rhs := "try (([. as " + pat + " | 1] | length) as $n | if $n == 0 then . else " + fmt.Sprintf(wrapL, b) + " end) catch \"E\""
			if strings.HasPrefix(wrapR, "[") {
				rhs = "try [" + bind + "path(" + b + ")] catch \"E\""
			}
			oa := common.RunSrc(lhs, common.DeepCopy(in), budget, maxOuts)
			ob := common.RunSrc(rhs, common.DeepCopy(in), budget, maxOuts)
			if oa.Budget || ob.Budget || oa.ParseErr != nil || ob.ParseErr != nil || oa.CompErr != nil || ob.CompErr != nil {
				bo.Distribution["skipped"]++
				continue
			}
			bo.Cases++
			seenB[pat+"|"+b+"|"+common.Canon(in)] = true
			bo.Distribution["pattern:"+pat]++
			if ca, cb := common.CanonOutcome(oa), common.CanonOutcome(ob); ca != cb {
				ctx.Violate("bind-in-path:"+pat+":"+b+":"+common.Canon(in), fmt.Sprintf("`%s` on %s gives %s; with the binding performed outside the path expression (`%s`) it gives %s", lhs, common.Canon(in), ca, rhs, cb),
					map[string]any{"query": lhs, "reference": rhs, "input": common.Canon(in), "observed": ca, "expected": cb, "cmd": "gojq -c '" + lhs + "'"})
			}
		}
		bo.Distinct = len(seenB)
	}
	c02oracle.Run(ctx)
	_ = fmt.Sprint
	ctx.Finish()
}

// concretePaths lists path expressions (as jq text) that exist in v, slices included.
func concretePaths(v any, prefix string, depth int, out *[]string) {
	if depth > 3 {
		return
	}
	switch v := v.(type) {
	case []any:
		n := len(v)
		for i, x := range v {
			p := fmt.Sprintf("%s[%d]", prefix, i)
			*out = append(*out, p)
			concretePaths(x, p, depth+1, out)
		}
		// fractional bounds: reading rounds the start down and the end up; writing must act on
		// exactly the elements the path outputs
		*out = append(*out, fmt.Sprintf("%s[%d:%d.5]", prefix, 0, max(n-2, 0)), fmt.Sprintf("%s[0.5:%d.5]", prefix, max(n-1, 0)), fmt.Sprintf("%s[:1.2]", prefix), fmt.Sprintf("%s[1.7:]", prefix), fmt.Sprintf("%s[(0.5):(1.5)]", prefix))
		for lo := 0; lo <= n && lo <= 3; lo++ {
			*out = append(*out, fmt.Sprintf("%s[%d:]", prefix, lo))
			for hi := lo; hi <= n && hi <= lo+2; hi++ {
				*out = append(*out, fmt.Sprintf("%s[%d:%d]", prefix, lo, hi))
			}
		}
		if n > 0 {
			*out = append(*out, prefix+"[-1]", prefix+"[-1:]", prefix+"[:-1]")
		}
	case map[string]any:
		for k, x := range v {
			ok := k != ""
			for _, c := range k {
				ok = ok && (c >= 'a' && c <= 'z')
			}
			p := prefix + "." + k
			if !ok {
				p = fmt.Sprintf("%s[%q]", prefix, k)
			}
			*out = append(*out, p)
			concretePaths(x, p, depth+1, out)
		}
	}
}

// overlapSchedule: an update over 2–5 concrete, mostly overlapping paths of `in` (ancestors,
// descendants, slices with every start, the same path twice) in random order, with an update
// body that decides by the type of what it is handed and re-embeds / duplicates / drops it.
func overlapSchedule(r *common.Rand, in any) string {
	var ps []string
	concretePaths(in, "", 0, &ps)
	if len(ps) == 0 {
		return ""
	}
	sort.Strings(ps)
	k := r.Range(2, 5)
	var sel []string
	anchor := common.Pick(r, ps)
	if es := elementSites(in, "", 0); len(es) > 0 && r.Chance(2, 3) {
		// role-based: an element E of an array (a container itself), writes below it, the
		// element, slices of its parent array that cover it (every start), the parent
		e := common.Pick(r, es)
		roles := func() string {
			switch r.Intn(7) {
			case 0, 1:
				return common.Pick(r, e.below)
			case 2, 3:
				lo := r.Range(0, e.idx)
				if r.Bool() {
					lo = e.idx
				}
				hi := r.Range(e.idx+1, e.n)
				if r.Chance(1, 3) {
					return fmt.Sprintf("%s[%d:]", e.parent, lo)
				}
				return fmt.Sprintf("%s[%d:%d]", e.parent, lo, hi)
			case 4:
				return fmt.Sprintf("%s[%d]", e.parent, e.idx)
			case 5:
				if e.parent == "" {
					return "."
				}
				return e.parent
			default:
				return common.Pick(r, ps)
			}
		}
		for i := 0; i < k+1; i++ {
			sel = append(sel, roles())
		}
		k = 0
	}
	for i := 0; i < k; i++ {
		p := common.Pick(r, ps)
		// bias to paths related to the anchor: same array/object neighbourhood
		for try := 0; try < 6 && !related(anchor, p); try++ {
			p = common.Pick(r, ps)
		}
		if r.Chance(1, 5) {
			p = anchor
		}
		sel = append(sel, p)
	}
	for i := range sel {
		if sel[i] == "" {
			sel[i] = "."
		} else if sel[i][0] == '[' {
			sel[i] = "." + sel[i]
		}
	}
	arr := common.Pick(r, []string{"[.[0], .[0]]", "[.[0], .[0]]", "[.[], .[]]", "[.[]?, .[0]]", ". + .", "[.]", ".[1:]", "map(.)", "reverse", "[.[-1], .[0]]", ".", "[.[0]]", "[{w: .[0]}, .[0]]", "empty", "[.[0], .[0], .[0]]"})
	obj := common.Pick(r, []string{"{x: ., y: .}", ". + {n: .}", ".", "{a: .a, b: .a}", "[., .]", "map_values([.])", "empty", ". + {a: [.a, .a]}", "{a: .}"})
	sc := common.Pick(r, []string{". + 1", "[.]", "{v: .}", ".", "[., .]", "empty", "null", "(. // 0) + 1", "tostring"})
	body := "if type == \"array\" then " + arr + " elif type == \"object\" then " + obj + " else " + sc + " end"
	if r.Chance(1, 4) {
		body = "(" + body + ")?"
	}
	lhs := "(" + strings.Join(sel, ", ") + ")"
	switch r.Intn(8) {
	case 0:
		return "try (" + lhs + " |= (" + body + ")) catch \"E\""
	case 1:
		return lhs + " = (" + common.Pick(r, []string{"[1]", "{a: 1}", ".", ".[0]?", "[.]", "null"}) + ")"
	case 2:
		return "del" + lhs
	case 3:
		return "[" + lhs + " |= (" + body + "), .]"
	default:
		return lhs + " |= (" + body + ")"
	}
}

var overlapPools = []struct {
	in     any
	pool   []string
	bodies []string
}{
	{[]any{[]any{0}, []any{1}, []any{2}}, []string{".[0]", ".[1]", ".[2]", ".[1][0]", ".[2][0]", ".[0:]", ".[1:]", ".[2:]", ".[0:2]", ".[1:2]", ".[1:3]", "."},
		[]string{"if type == \"array\" then [.[0], .[0]] else . + 10 end", "if type == \"array\" then . + . else [.] end", "if type == \"array\" then [.] else {v: .} end", "if type == \"array\" then .[1:] else empty end", "[., .]", "if type == \"number\" then . + 1 else map(.) end"}},
	{[]any{0, map[string]any{"a": 1}, map[string]any{"a": 2}}, []string{".[0]", ".[1]", ".[2]", ".[1].a", ".[2].a", ".[0:]", ".[1:]", ".[2:]", ".[0:2]", ".[1:2]", ".[1:3]", "."},
		[]string{"if type == \"array\" then [.[0], .[0]] elif type == \"object\" then . else . + 10 end", "if type == \"array\" then . + . elif type == \"object\" then {a: ., b: .} else [.] end", "if type == \"object\" then . + {n: .} else . end", "if type == \"array\" then [.[-1], .[0]] elif type == \"object\" then empty else . + 1 end", "[., .]", "if type == \"number\" then . + 1 else . end"}},
	{map[string]any{"a": []any{map[string]any{"b": []any{1}}, map[string]any{"b": []any{2}}}}, []string{".a", ".a[0]", ".a[1]", ".a[1].b", ".a[1].b[0]", ".a[0].b", ".a[0:]", ".a[1:]", ".a[0:1]", ".a[1:2]", ".", ".a[1].b[0:]"},
		[]string{"if type == \"array\" then [.[0], .[0]] elif type == \"object\" then . else . + 10 end", "if type == \"array\" then . + . elif type == \"object\" then {b: .b, c: .b} else [.] end", "if type == \"object\" then {b: [.]} else . end", "if type == \"array\" then .[1:] elif type == \"object\" then empty else . + 1 end", "[., .]", "if type == \"number\" then . + 1 else . end"}},
}

type elemSite struct {
	parent string   // path text of the array
	idx, n int      // element index, array length
	below  []string // paths strictly below the element
}

// elementSites: array elements that are themselves non-empty containers.
func elementSites(v any, prefix string, depth int) []elemSite {
	var out []elemSite
	if depth > 3 {
		return nil
	}
	switch v := v.(type) {
	case []any:
		for i, x := range v {
			p := fmt.Sprintf("%s[%d]", prefix, i)
			var below []string
			concretePaths(x, p, depth+1, &below)
			if len(below) > 0 {
				sort.Strings(below)
				out = append(out, elemSite{prefix, i, len(v), below})
			}
			out = append(out, elementSites(x, p, depth+1)...)
		}
	case map[string]any:
		ks := make([]string, 0, len(v))
		for k := range v {
			ks = append(ks, k)
		}
		sort.Strings(ks)
		for _, k := range ks {
			ok := k != ""
			for _, c := range k {
				ok = ok && (c >= 'a' && c <= 'z')
			}
			p := prefix + "." + k
			if !ok {
				p = fmt.Sprintf("%s[%q]", prefix, k)
			}
			out = append(out, elementSites(v[k], p, depth+1)...)
		}
	}
	return out
}

// related: one path is a prefix of the other, or both go through the same container.
func related(a, b string) bool {
	if strings.HasPrefix(a, b) || strings.HasPrefix(b, a) {
		return true
	}
	cut := func(s string) string {
		i := strings.LastIndexAny(s, ".[")
		if i <= 0 {
			return ""
		}
		return s[:i]
	}
	return cut(a) == cut(b) || strings.HasPrefix(a, cut(b)) && cut(b) != "" || strings.HasPrefix(b, cut(a)) && cut(a) != ""
}

// looseOutcome: outputs and termination; the text of a built-in error message is not compared
// (the reduction reports the same failure through other call sites), error values are.
func looseOutcome(o common.Outcome) string {
	s := common.CanonOutcome(o)
	if i := strings.Index(s, "ERR msg "); i >= 0 {
		return s[:i] + "ERR msg"
	}
	return s
}

var fixed = []string{
	"[path(..)]", "[paths]", "[path(.[]?)]", "[path(.a?)]", "[path(.a.b?)]", "[path(.[0]?)]", "[path(.[1:]?)]", "[path(.[]?[]?)]", "[path(first(.[]?))]", "[path(.a? // .b?)]", "[path(select(. != null))]", "[path(if . then .a? else .[0]? end)]",
	"[path(getpath([\"a\",\"b\"])?)]", "[path(limit(1; .[]?))]", "[path(empty)]", "[path(.[]? | select(. != 1))]", "[path(recurse(.[]?; . != null))]", "[path(.. | select(type == \"number\"))]", "try path(1) catch .", "try path([.] | .[0]) catch .", "try path({a: .} | .a) catch .",
	"try path(.a? | tostring) catch .", "try path([][]) catch \"invalid\"", "try path({}[]) catch \"invalid\"", "try path([.[]? | select(false)][]) catch \"invalid\"", "try del([.[]? | select(. == \"none\")][]) catch \"invalid\"", "try path(map(select(false))[]?) catch \"invalid\"",
	"try ([.[]?][] |= 1) catch \"invalid\"", "[null, [1, null]] | .[] |= (values | (.[] |= values))", "[null, [1, null], null, [null, 2, null]] | map_values(values | map_values(values))", "{\"a\": null, \"b\": {\"c\": 1, \"d\": null}} | map_values(values | map_values(values))",
	"[1, [2, 1], [[1, 3]]] | .[] |= (select(. != 1) | (.[]? |= (select(. != 1) | (.[]? |= select(. != 1)))))", "[null, [1, null]] | [.[] |= (values | (.[] |= values)), (.[] |= values)]", "try path({a: 1} | .a) catch \"invalid\"", "try path([] | .[0]) catch \"invalid\"", "try path({} | .a) catch \"invalid\"", "try path([] | .[1:]) catch \"invalid\"", "try path(null | [] | .[]) catch \"invalid\"", "try path([.[]?] | .[]) catch \"invalid\"", "try path(. as $x | $x) catch .", "[path(. as $x | .[]?)]", "try [path(.[]? | . as $x | $x)] catch .", "try path(. + 0) catch .", "(.[]?) |= (. // 0)", "(.a?, .b?) |= 1", ".[]? |= empty", "(.[0]?, .[1]?) |= empty", ".[1:]? |= [9]", ".[:1]? |= []",
	"(.[0]?, .[0]?) |= [.]", "(.a?, .a?.b?) |= {x: .}", "(.. | select(type == \"number\")) |= . + 1", "(.[]? | select(. == 1)) |= 2", ".a? = 1", ".[0]? = 1", "(.a?, .b?) = (1, 2)", ".[]? = 1", ".a? += 1", ".[]? += 1", ".a? //= 5", "del(.[0]?)", "del(.a?)", "del(.[]?)", "del(.[0]?, .[1]?)",
	"del(.[1:]?)", "del(.. | select(. == null))?", "delpaths([[0],[1]])?", "delpaths([[\"a\"]])?", "delpaths([[0,0],[0]])?", "delpaths([])", "to_entries?", "with_entries(.)?", "with_entries(.value |= [.])?", "map_values(. // 0)?", "map_values(empty)?", "pick(.a?)", "pick(.[0]?)", "pick(.a?.b?)", "[tostream]", "fromstream(tostream)",
	"[paths(type == \"number\")]", "[paths(..)]", "getpath([\"a\",\"b\"])?", "setpath([\"a\",\"b\"]; 1)?", "setpath([0]; 1)?", "setpath([]; 1)", "setpath([1:2]; [9])?"[:0] + "setpath([{\"start\":1,\"end\":2}]; [9])?", "[.[]?] | .[1:] = [7]", "[.[]?] | .[2] = 7", "[.[]?] | del(.[0])", "reduce path(.[]?) as $p (.; setpath($p; 1))", "[getpath(path(..))] == [..]",
	"[0,1,2,3] | .[1:2.5] |= map(. * 10)", "[0,1,2,3] | .[1:2.5] = [\"x\"]", "[0,1,2,3] | del(.[1:2.5])", "[0,1,2,3] | [.[1:2.5]] == [getpath(path(.[1:2.5]))]", "[0,1,2,3] | setpath([{\"start\": 1, \"end\": 2.5}]; [9]) | getpath([{\"start\": 1, \"end\": 2.5}])", "[0,1,2,3] | delpaths([[{\"start\": 0.5, \"end\": 1.5}]])", ".[1:1.5]? |= [7]", "1.5 as $e | [0,1,2,3] | .[1:$e] |= map(-.)",
	"try (([7,8,9] | .[(1):2]) = [\"x\"]) catch \"invalid\"", "try del(map(. * 2)? | .[(length - 1):]) catch \"invalid\"", "1 as $n | try ((.[]? | [.] | .[:$n]) |= [0]) catch \"invalid\"",
	"([[null]] | (.[0][0], .[0], .[0][0][0]) |= [., .])", "([0,1,2,3] | (.[2], .[0:1][1]) |= 7)", "([0,1] | (.[1:], .[1:]) |= [.])", "({\"a\":{\"b\":null}} | (.a.b, .a, .a.x.b) |= {x: ., y: .})", "[0,1,2,3] | delpaths([[1],[2]])", "[0,1,2,3] | del(.[1,2])", "[1,2,3] | (.[] | select(. >= 2)) |= empty", "[[1,2],[3]] | .[][0] |= . + 1",
}

package main

import (
	"fmt"
	"math/big"
	"sort"
	"unicode/utf8"

	"github.com/itchyny/gojq"

	"verifharness/common"
)

func wireOptInt(v any) string {
	if v == nil {
		return "n"
	}
	return common.Canon(v)
}

// strStreams: correspondence stream `str` and the model-free oracles `strlaws` / `indlaws`
func strStreams(ctx *common.Ctx, e *env, subs, invalid []string) {
	r := ctx.R
	st := ctx.NewStream("str", "Gojq.Regex.{strLength,indexStr,sliceStr,clampIndex,runeStart,strIndices,strIndex,strRindex,satInt} (Model/Regex.lean) = funcLength (string), indexString, sliceString, indices/funcIndex/funcRindex via indexFunc",
		"length, .[i], .[i:j] (i, j over null and every integer in [-len-2, len+2] plus ±2^31, ±2^63, ±10^30), indices/index/rindex with every code-point substring of the subject and foreign needles; subjects: every string over the alphabet up to length 3 (quick: full i x j grid on lengths <= 2 and a third of length 3), random longer ones, 7 invalid-UTF-8 subjects; distinct = distinct implementation answers")
	qLen := compile(`length`)
	qIdx := compile(`.[$i]`, "$i")
	qSlice := compile(`.[$i:$j]`, "$i", "$j")
	qIndices := compile(`indices($x)`, "$x")
	qIndex := compile(`index($x)`, "$x")
	qRindex := compile(`rindex($x)`, "$x")
	run := func(c *gojq.Code, s string, vars ...any) string {
		o := common.RunCode(c, s, 1000000, 10, vars...)
		if o.Panic != "" {
			ctx.Violate("panic:str:"+common.Hex(s)+":"+fmt.Sprint(vars), "string position builtin panics: "+o.Panic, map[string]any{"subject_hex": common.Hex(s), "vars": fmt.Sprint(vars), "panic": o.Panic})
			return "PANIC"
		}
		if o.Err != nil {
			return "err " + o.Err.Error()
		}
		if len(o.Outs) != 1 {
			return fmt.Sprintf("outs=%d", len(o.Outs))
		}
		return "ok " + common.Canon(o.Outs[0])
	}
	var lines, impl []string
	add := func(line, ans string) { lines = append(lines, line); impl = append(impl, ans) }

	all := append([]string{}, subs...)
	for i := 0; i < ctx.N(150, 3000); i++ {
		s := ""
		for j, n := 0, r.Range(4, 12); j < n; j++ {
			s += common.Pick(r, alphabet)
		}
		all = append(all, s)
	}
	nGrid := len(all)
	all = append(all, invalid...)
	for i := 0; i < ctx.N(40, 1000); i++ {
		all = append(all, common.RandString(r, true))
	}
	huge := []any{1 << 31, -(1 << 31), common.NormInt(bigPow(63)), common.NormInt(bigNeg(bigPow(63))), common.NormInt(bigPow(100)), common.NormInt(bigNeg(bigPow(100)))}

	orc := ctx.NewOracle("strlaws", "per valid subject: length == (explode|length); for every i, j in [-len-2, len+2]: .[i:j], .[i:], .[:i] == (explode|slice|implode) and .[i] == the i-th code point of explode; distinct = distinct subjects")
	ind := ctx.NewOracle("indlaws", "per (valid subject, needle): indices/index/rindex == positions computed on explode, and slicing the subject at each reported position by the needle's length returns the needle; distinct = distinct (subject, needle) pairs with at least one occurrence")
	indDistinct := map[string]bool{}
	for si, s := range all {
		n := utf8.RuneCountInString(s) // = len([]rune(s)) also for invalid strings
		valid := utf8.ValidString(s)
		add("length "+hexs(s), run(qLen, s))
		var idxs []any
		for i := -n - 2; i <= n+2; i++ {
			idxs = append(idxs, i)
		}
		for _, i := range idxs {
			add("index "+hexs(s)+" "+common.Canon(i), run(qIdx, s, i))
		}
		if si%10 == 0 {
			for _, h := range huge {
				add("index "+hexs(s)+" "+common.Canon(h), run(qIdx, s, h))
				add("slice "+hexs(s)+" "+common.Canon(h)+" n", run(qSlice, s, h, nil))
				add("slice "+hexs(s)+" n "+common.Canon(h), run(qSlice, s, nil, h))
				add("slice "+hexs(s)+" "+common.Canon(huge[(si/10)%len(huge)])+" "+common.Canon(h), run(qSlice, s, huge[(si/10)%len(huge)], h))
			}
		}
		full := ctx.Thorough || n <= 2 || si%3 == 0 || si >= nGrid
		bounds := append([]any{nil}, idxs...)
		for _, i := range bounds {
			for _, j := range bounds {
				if !full && r.Intn(6) != 0 {
					continue
				}
				add("slice "+hexs(s)+" "+wireOptInt(i)+" "+wireOptInt(j), run(qSlice, s, i, j))
				st.Distribution["slice"]++
			}
		}
		// needles: every code-point substring, plus foreign ones
		rs := []rune(s)
		needles := map[string]bool{"": true, "a": true, "é": true, "\u0301": true, "aa": true, "\xc3": true, "\xa9": true}
		if valid {
			for i := 0; i <= len(rs); i++ {
				for j := i + 1; j <= len(rs) && j <= i+3; j++ {
					needles[string(rs[i:j])] = true
				}
			}
		}
		nl := make([]string, 0, len(needles))
		for x := range needles {
			nl = append(nl, x)
		}
		sort.Strings(nl)
		for _, x := range nl {
			add("indices "+hexs(s)+" "+hexs(x), run(qIndices, s, x))
			add("sindex "+hexs(s)+" "+hexs(x), run(qIndex, s, x))
			add("srindex "+hexs(s)+" "+hexs(x), run(qRindex, s, x))
			st.Distribution["indices"]++
			if valid && utf8.ValidString(x) {
				o := common.RunCode(e.qIndLaws, s, 50000000, 10, x)
				ind.Cases++
				if checkLaws(ctx, o, "indlaws", indLawsQuery, s, map[string]any{"x": x}, common.Hex(x)+":"+common.Hex(s)) && x != "" {
					if oc := common.RunCode(qIndex, s, 1000000, 10, x); len(oc.Outs) == 1 && oc.Outs[0] != nil {
						indDistinct[s+"\x00"+x] = true
					}
				}
			}
		}
		if valid {
			o := common.RunCode(e.qStrLaws, s, 50000000, 10)
			orc.Cases++
			orc.Distribution[fmt.Sprintf("len%d", n)]++
			checkLaws(ctx, o, "strlaws", strLawsQuery, s, map[string]any{}, common.Hex(s))
			orc.Distinct++
		}
		st.Distribution[fmt.Sprintf("subject-len%d", min(n, 5))]++
	}
	ind.Distinct = len(indDistinct)
	orc.Samples = []string{`"a😀é" | .[1:2] == "😀"`, `"é́漢" | .[-1] == "漢"`}
	ind.Samples = []string{`"漢a漢a" | indices("a") == [1,3]`, `"😀é" | index("é") == 1`}
	ctx.RunStream(st, lines, impl)
}

func bigPow(k uint) *big.Int     { return new(big.Int).Lsh(big.NewInt(1), k) }
func bigNeg(z *big.Int) *big.Int { return new(big.Int).Neg(z) }

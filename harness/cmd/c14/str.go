package main

import (
	"fmt"
	"math"
	"math/big"
	"sort"
	"unicode/utf8"

	"github.com/itchyny/gojq"

	"verifharness/common"
)

func wireOptInt(v any) string {
	if v == nil {
		return "n"
	}
	return common.Canon(v)
}

// strStreams: correspondence stream `str` and the model-free oracles `strlaws` / `indlaws`
func strStreams(ctx *common.Ctx, e *env, subs, invalid []string) {
	r := ctx.R
	st := ctx.NewStream("str", "Gojq.Regex.{strLength,indexStr,sliceStr,sliceList,clampIndex,runeStart,strIndices,strIndex,strRindex} (Model/Regex.lean) on bounds converted by Gojq.{toInt?,toIntCeil?} (Model/Native/Base.lean) = funcLength (string), indexString, sliceString, slice, toInt/toIntCeil/floatToInt, indices/funcIndex/funcRindex via indexFunc",
		"length, .[i], .[i:j] (i, j over null and every integer in [-len-2, len+2] plus ±2^31, ±2^63, ±10^30; FRACTIONAL and non-finite bounds: every half step in [-len-1.5, len+1.5], len±0.25, ±0.25, ±0.999999, -0.0, ±5e-324, ±(2^32+0.5), 2^53, ±1e300, ±2^63, the floats next to ±2^63, ±Inf, NaN — full grid on lengths <= 2, 16 random mixed pairs otherwise; the same bounds on the arrays [range(n)], n <= 4: lines `aslice`), indices/index/rindex with every code-point substring of the subject and foreign needles; subjects: every string over the alphabet up to length 3 (quick: full i x j grid on lengths <= 2 and a third of length 3), random longer ones, 7 invalid-UTF-8 subjects; distinct = distinct implementation answers")
	qLen := compile(`length`)
	qIdx := compile(`.[$i]`, "$i")
	qSlice := compile(`.[$i:$j]`, "$i", "$j")
	qASlice := compile(`[range($n)] | .[$i:$j]`, "$n", "$i", "$j")
	qIndices := compile(`indices($x)`, "$x")
	qIndex := compile(`index($x)`, "$x")
	qRindex := compile(`rindex($x)`, "$x")
	run := func(c *gojq.Code, s string, vars ...any) string {
		o := common.RunCode(c, s, 1000000, 10, vars...)
		if o.Panic != "" {
			ctx.Violate("panic:str:"+common.Hex(s)+":"+fmt.Sprint(vars), "string position builtin panics: "+o.Panic, map[string]any{"subject_hex": common.Hex(s), "vars": fmt.Sprint(vars), "panic": o.Panic})
			return "PANIC"
		}
		if o.Err != nil {
			return "err " + o.Err.Error()
		}
		if len(o.Outs) != 1 {
			return fmt.Sprintf("outs=%d", len(o.Outs))
		}
		return "ok " + common.Canon(o.Outs[0])
	}
	var lines, impl []string
	add := func(line, ans string) { lines = append(lines, line); impl = append(impl, ans) }

	all := append([]string{}, subs...)
	for i := 0; i < ctx.N(150, 3000); i++ {
		s := ""
		for j, n := 0, r.Range(4, 12); j < n; j++ {
			s += common.Pick(r, alphabet)
		}
		all = append(all, s)
	}
	nGrid := len(all)
	all = append(all, invalid...)
	for i := 0; i < ctx.N(40, 1000); i++ {
		all = append(all, common.RandString(r, true))
	}
	huge := []any{1 << 31, -(1 << 31), common.NormInt(bigPow(63)), common.NormInt(bigNeg(bigPow(63))), common.NormInt(bigPow(100)), common.NormInt(bigNeg(bigPow(100)))}

	// fractional / non-finite bounds: toInt truncates the start, toIntCeil rounds the end up, both saturate
	fr := r.Fork(0xF7AC)
	specials := []any{math.Copysign(0, -1), 0.25, -0.25, 0.999999, -0.999999, 5e-324, -5e-324, 4294967296.5, -4294967296.5,
		9007199254740992.0, 1e300, -1e300, 9223372036854775808.0, -9223372036854775808.0, 9223372036854774784.0, -9223372036854777856.0,
		math.Inf(1), math.Inf(-1), math.NaN()}
	fracsOf := func(n int) []any {
		var fs []any
		for k := -2*n - 3; k <= 2*n+3; k++ {
			if k%2 != 0 {
				fs = append(fs, float64(k)/2)
			}
		}
		return append(fs, float64(n)+0.25, float64(n)-0.25, -float64(n)+0.25, -float64(n)-0.25)
	}
	isFloat := func(v any) bool { _, ok := v.(float64); return ok }
	for n := 0; n <= 4; n++ {
		bs := []any{nil}
		for i := -n - 2; i <= n+2; i++ {
			bs = append(bs, i)
		}
		bs = append(append(bs, fracsOf(n)...), specials...)
		for _, i := range bs {
			for _, j := range bs {
				if !isFloat(i) && !isFloat(j) && !(ctx.Thorough || fr.Intn(4) == 0) {
					continue
				}
				add(fmt.Sprintf("aslice %d %s %s", n, wireOptInt(i), wireOptInt(j)), run(qASlice, "", n, i, j))
				st.Distribution["aslice"]++
			}
		}
	}

	orc := ctx.NewOracle("strlaws", "per valid subject: length == (explode|length); for every i, j in [-len-2, len+2]: .[i:j], .[i:], .[:i] == (explode|slice|implode) and .[i] == the i-th code point of explode; distinct = distinct subjects")
	ind := ctx.NewOracle("indlaws", "per (valid subject, needle): indices/index/rindex == positions computed on explode, and slicing the subject at each reported position by the needle's length returns the needle; distinct = distinct (subject, needle) pairs with at least one occurrence")
	indDistinct := map[string]bool{}
	for si, s := range all {
		n := utf8.RuneCountInString(s) // = len([]rune(s)) also for invalid strings
		valid := utf8.ValidString(s)
		add("length "+hexs(s), run(qLen, s))
		var idxs []any
		for i := -n - 2; i <= n+2; i++ {
			idxs = append(idxs, i)
		}
		for _, i := range idxs {
			add("index "+hexs(s)+" "+common.Canon(i), run(qIdx, s, i))
		}
		if si%10 == 0 {
			for _, h := range huge {
				add("index "+hexs(s)+" "+common.Canon(h), run(qIdx, s, h))
				add("slice "+hexs(s)+" "+common.Canon(h)+" n", run(qSlice, s, h, nil))
				add("slice "+hexs(s)+" n "+common.Canon(h), run(qSlice, s, nil, h))
				add("slice "+hexs(s)+" "+common.Canon(huge[(si/10)%len(huge)])+" "+common.Canon(h), run(qSlice, s, huge[(si/10)%len(huge)], h))
			}
		}
		full := ctx.Thorough || n <= 2 || si%3 == 0 || si >= nGrid
		bounds := append([]any{nil}, idxs...)
		for _, i := range bounds {
			for _, j := range bounds {
				if !full && r.Intn(6) != 0 {
					continue
				}
				add("slice "+hexs(s)+" "+wireOptInt(i)+" "+wireOptInt(j), run(qSlice, s, i, j))
				st.Distribution["slice"]++
			}
		}
		fracs := fracsOf(n)
		for _, i := range fracs {
			add("index "+hexs(s)+" "+common.Canon(i), run(qIdx, s, i))
			st.Distribution["index-frac"]++
		}
		if si%10 == 0 {
			for _, h := range specials {
				add("index "+hexs(s)+" "+common.Canon(h), run(qIdx, s, h))
				add("slice "+hexs(s)+" "+common.Canon(h)+" n", run(qSlice, s, h, nil))
				add("slice "+hexs(s)+" n "+common.Canon(h), run(qSlice, s, nil, h))
				o := common.Pick(fr, specials)
				add("slice "+hexs(s)+" "+common.Canon(o)+" "+common.Canon(h), run(qSlice, s, o, h))
				st.Distribution["slice-frac"] += 3
			}
		}
		if ctx.Thorough || n <= 2 {
			fb := append([]any{nil}, fracs...)
			for _, i := range fb {
				for _, j := range fb {
					if i == nil && j == nil {
						continue
					}
					add("slice "+hexs(s)+" "+wireOptInt(i)+" "+wireOptInt(j), run(qSlice, s, i, j))
					st.Distribution["slice-frac"]++
				}
			}
		}
		mixed := append(append(append([]any{}, bounds...), fracs...), specials...)
		for k := 0; k < 16; k++ {
			i, j := common.Pick(fr, mixed), common.Pick(fr, mixed)
			if !isFloat(i) && !isFloat(j) {
				i = common.Pick(fr, fracs)
			}
			add("slice "+hexs(s)+" "+wireOptInt(i)+" "+wireOptInt(j), run(qSlice, s, i, j))
			st.Distribution["slice-frac"]++
		}
		// needles: every code-point substring, plus foreign ones
		rs := []rune(s)
		needles := map[string]bool{"": true, "a": true, "é": true, "\u0301": true, "aa": true, "\xc3": true, "\xa9": true}
		if valid {
			for i := 0; i <= len(rs); i++ {
				for j := i + 1; j <= len(rs) && j <= i+3; j++ {
					needles[string(rs[i:j])] = true
				}
			}
		}
		nl := make([]string, 0, len(needles))
		for x := range needles {
			nl = append(nl, x)
		}
		sort.Strings(nl)
		for _, x := range nl {
			add("indices "+hexs(s)+" "+hexs(x), run(qIndices, s, x))
			add("sindex "+hexs(s)+" "+hexs(x), run(qIndex, s, x))
			add("srindex "+hexs(s)+" "+hexs(x), run(qRindex, s, x))
			st.Distribution["indices"]++
			if valid && utf8.ValidString(x) {
				o := common.RunCode(e.qIndLaws, s, 50000000, 10, x)
				ind.Cases++
				if checkLaws(ctx, o, "indlaws", indLawsQuery, s, map[string]any{"x": x}, common.Hex(x)+":"+common.Hex(s)) && x != "" {
					if oc := common.RunCode(qIndex, s, 1000000, 10, x); len(oc.Outs) == 1 && oc.Outs[0] != nil {
						indDistinct[s+"\x00"+x] = true
					}
				}
			}
		}
		if valid {
			o := common.RunCode(e.qStrLaws, s, 50000000, 10)
			orc.Cases++
			orc.Distribution[fmt.Sprintf("len%d", n)]++
			checkLaws(ctx, o, "strlaws", strLawsQuery, s, map[string]any{}, common.Hex(s))
			orc.Distinct++
		}
		st.Distribution[fmt.Sprintf("subject-len%d", min(n, 5))]++
	}
	ind.Distinct = len(indDistinct)
	orc.Samples = []string{`"a😀é" | .[1:2] == "😀"`, `"é́漢" | .[-1] == "漢"`}
	ind.Samples = []string{`"漢a漢a" | indices("a") == [1,3]`, `"😀é" | index("é") == 1`}
	ctx.RunStream(st, lines, impl)
}

func bigPow(k uint) *big.Int     { return new(big.Int).Lsh(big.NewInt(1), k) }
func bigNeg(z *big.Int) *big.Int { return new(big.Int).Neg(z) }

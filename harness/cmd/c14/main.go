// C14 — string positions are code points; the regex builtins agree with `match`.
//
// The regular-expression engine is a parameter of the model (Model/Regex.lean): the harness asks
// Go's regexp — compiled from the same syntax string compileRegexp builds — for
// FindAllStringSubmatchIndex / SubexpNames, checks MatchesOK on that answer, feeds it to the model
// and compares with what the real builtins return through the public API.
//
//	stream `flags`   compileRegexp's flags -> syntax mapping, observed through the error message of
//	                 an unparsable regex (it quotes the string handed to regexp.Compile)
//	stream `match`   [match($re; $flags)] vs Regex.funcMatch on the raw answer (+ MatchesOK bit)
//	stream `builtin` test, [capture], [scan], [splits], split/2, [sub], [gsub] vs the model's folds
//	stream `str`     length, .[i], .[i:j], indices, index, rindex on strings vs the model
//	oracle `laws`    model-free: the laws of the property as jq booleans on the real code
//	oracle `strlaws` model-free: length / slice / index / indices against explode-implode
//	oracle `termination` every builtin returns within a deterministic step budget
package main

import (
	"encoding/json"
	"fmt"
	"os"
	"regexp"
	"sort"
	"strconv"
	"strings"
	"unicode/utf8"

	"github.com/itchyny/gojq"

	"verifharness/common"
	"verifharness/samequery"
)

func hexs(s string) string { return "s" + common.Hex(s) }

var alphabet = []string{"a", "b", "A", "é", "漢", "😀", "\u0301", "\n", " "}

// every string over the alphabet with at most n symbols
func subjectsUpTo(n int) []string {
	out := []string{""}
	prev := []string{""}
	for l := 1; l <= n; l++ {
		var cur []string
		for _, p := range prev {
			for _, a := range alphabet {
				cur = append(cur, p+a)
			}
		}
		out = append(out, cur...)
		prev = cur
	}
	return out
}

// hand-picked regexes: every construct of the grammar at least once, several empty-matching ones
var fixedRegexes = []string{
	"", "a", "b", "A", "é", "漢", "😀", "\u0301", "\\x{301}", ".", "..", ".\\x{301}", "[ab]", "[^a]", "[a-zé]",
	"a*", "a+", "a?", "x*", "é*", "(a|)", "()", "(a)", "(a)|b", "(a)(b)?", "(é|😀)?", "(.)(.)",
	"(?<n>a)", "(?P<n>[ab])(?<m>.)?", "(?<x>a)|(?<x>b)", "(?<first>.)(?<rest>.*)", "(?<e>)", "(?<u>é)|(.)",
	"^", "$", "^a", "a$", "^$", "\\b", "\\B", "\\s", "\\s*", "\\S+", "\\w+", "\\pL", "\\p{L}+", "\\p{M}", "\\PL",
	"a|b", "a|é|漢", "(a|b)*", "(?:a|b)+", ".*", ".*?", ".+?", "\\n", "(?m)^", "(?m)$", "(?m)^.", " ", "[^\\n]*",
	"(a*)(b*)", "(a*)*", "(|a)+", "b*?", "(?i:é)", "漢|(?<k>😀)", "(?<a1>a)(?<a2>\\x{301})?",
	// repeated alternations of groups: a group keeps the capture of an EARLIER iteration, so a
	// higher-numbered group may lie before a lower-numbered one (capture offsets are not monotone)
	"(?:(a)|(b))*", "(?:(b)|(a))+", "((é)|(b))+", "(?:(a)|(b)|(é))+", "(?:(?<p>😀)|(?<q>a))*", "((a)|(漢)|(😀))*",
	"(?:(a)|(.))+", "(?:(\\x{301})|(.))*", "(?:(a)?(b)?)*", "(?:(?<n>é)|(?<m>漢)|(b))+a?",
}

// random regexes from a small grammar (filtered by regexp.Compile)
func genRegex(r *common.Rand, depth int) string {
	atoms := []string{"a", "b", "A", "é", "漢", "😀", "\\x{301}", ".", "[ab]", "[^a]", "[a-zé]", "\\s", "\\w", "\\pL", "\\p{M}", "\\n", " ", "\\b", "^", "$", "()", "(a|)", ""}
	if depth <= 0 {
		return common.Pick(r, atoms)
	}
	switch r.Intn(10) {
	case 0, 1:
		return genRegex(r, depth-1) + genRegex(r, depth-1)
	case 2:
		return genRegex(r, depth-1) + "|" + genRegex(r, depth-1)
	case 3:
		return "(" + genRegex(r, depth-1) + ")" + common.Pick(r, []string{"", "*", "?", "+", "*?"})
	case 4:
		return "(?:" + genRegex(r, depth-1) + ")" + common.Pick(r, []string{"*", "?", "+", "??"})
	case 5:
		return "(?<" + common.Pick(r, []string{"n", "m", "x"}) + ">" + genRegex(r, depth-1) + ")"
	case 6:
		return "(?P<" + common.Pick(r, []string{"n", "m", "y"}) + ">" + genRegex(r, depth-1) + ")" + common.Pick(r, []string{"", "?"})
	case 7:
		if r.Intn(3) == 0 {
			// repeated alternation of capture groups (stale captures of earlier iterations)
			alts := []string{}
			for i, n := 0, 2+r.Intn(2); i < n; i++ {
				alts = append(alts, "("+genRegex(r, depth-1)+")")
			}
			return common.Pick(r, []string{"(?:", "("}) + strings.Join(alts, "|") + ")" + common.Pick(r, []string{"*", "+", "{2,3}"})
		}
		return common.Pick(r, atoms[:17]) + common.Pick(r, []string{"*", "?", "+", "*?", "{0,2}"})
	default:
		return common.Pick(r, atoms)
	}
}

// the syntax string compileRegexp hands to regexp.Compile (validated against the real code by
// the `flags` stream and, indirectly, by every `match` comparison)
func syntaxOf(re string, flags any) (string, bool) {
	fl, _ := flags.(string)
	for _, c := range fl {
		if c != 'g' && c != 'i' && c != 'm' {
			return "", false
		}
	}
	if strings.ContainsRune(fl, 'i') {
		re = "(?i)" + re
	}
	if strings.ContainsRune(fl, 'm') {
		re = "(?s)" + re
	}
	return re, true
}

func isGlobal(flags any) bool { fl, _ := flags.(string); return strings.ContainsRune(fl, 'g') }

func addG(flags any) any { fl, _ := flags.(string); return fl + "g" }

func flagName(flags any) string {
	if flags == nil {
		return "null"
	}
	return strconv.Quote(flags.(string))
}

// MatchesOK, evaluated in Go on the engine's answer (the Lean side evaluates Regex.matchesOK on the
// same answer; the two bits are compared in the `match` stream)
func matchesOK(s string, names []string, raw [][]int) bool {
	if !utf8.ValidString(s) {
		return false
	}
	boundary := func(b int) bool { return 0 <= b && b <= len(s) && (b == len(s) || utf8.RuneStart(s[b])) }
	prev := 0
	for _, x := range raw {
		if len(x)%2 != 0 || len(x) < 2 || len(names) != len(x)/2 || x[0] < 0 {
			return false
		}
		for j := 0; j+1 < len(x); j += 2 {
			a, b := x[j], x[j+1]
			if a == -1 && b == -1 {
				continue
			}
			if !boundary(a) || !boundary(b) || a > b {
				return false
			}
		}
		if prev > x[0] {
			return false
		}
		prev = x[1]
	}
	return true
}

func rawField(raw [][]int) string {
	var sb strings.Builder
	for i, x := range raw {
		if i > 0 {
			sb.WriteString(" ;")
		}
		for _, v := range x {
			fmt.Fprintf(&sb, " %d", v)
		}
	}
	return strings.TrimSpace(sb.String())
}

func namesField(names []string) string {
	ts := make([]string, len(names))
	for i, n := range names {
		ts[i] = hexs(n)
	}
	return strings.Join(ts, " ")
}

func compile(src string, vars ...string) *gojq.Code {
	q, err := gojq.Parse(src)
	if err != nil {
		panic(fmt.Sprintf("%s: %v", src, err))
	}
	c, err := gojq.Compile(q, gojq.WithVariables(vars))
	if err != nil {
		panic(fmt.Sprintf("%s: %v", src, err))
	}
	return c
}

type replVariant struct {
	name string // c | f | l1 | l2 | l3
	str  string // the jq replacement filter ($k = key into the capture object)
}

var replVariants = []replVariant{
	{"c", `"X"`},
	{"f", `.[$k]`},
	{"l1", `(.[$k], "-")`},
	{"l2", `if .[$k] == "" or .[$k] == null then empty else .[$k] + "!" end`},
	{"l3", `"<\(.[$k] // "~")>"`},
}

type env struct {
	ctx                                              *common.Ctx
	qMatch, qTest, qCapture, qScan, qSplits, qSplit2 *gojq.Code
	qSub, qGsub, qOutsSub, qOutsGsub                 map[string]*gojq.Code
	qLaws, qStrLaws, qIndLaws                        *gojq.Code
	term                                             *common.Oracle
	maxPolls                                         int
	maxPollsAt                                       string
}

var stdVars = []string{"$re", "$flags", "$k"}

func newEnv(ctx *common.Ctx) *env {
	e := &env{ctx: ctx}
	e.qMatch = compile(`[match($re; $flags)]`, stdVars...)
	e.qTest = compile(`test($re; $flags)`, stdVars...)
	e.qCapture = compile(`[capture($re; $flags)]`, stdVars...)
	e.qScan = compile(`[scan($re; $flags)]`, stdVars...)
	e.qSplits = compile(`[splits($re; $flags)]`, stdVars...)
	e.qSplit2 = compile(`split($re; $flags)`, stdVars...)
	e.qSub, e.qGsub, e.qOutsSub, e.qOutsGsub = map[string]*gojq.Code{}, map[string]*gojq.Code{}, map[string]*gojq.Code{}, map[string]*gojq.Code{}
	for _, v := range replVariants {
		e.qSub[v.name] = compile(`[sub($re; `+v.str+`; $flags)]`, stdVars...)
		e.qGsub[v.name] = compile(`[gsub($re; `+v.str+`; $flags)]`, stdVars...)
		e.qOutsSub[v.name] = compile(`[capture($re; $flags) | [`+v.str+`]]`, stdVars...)
		e.qOutsGsub[v.name] = compile(`[capture($re; $flags + "g") | [`+v.str+`]]`, stdVars...)
	}
	e.qLaws = compile(lawsQuery, "$re", "$flags", "$gre", "$hasg")
	e.qStrLaws = compile(strLawsQuery)
	e.qIndLaws = compile(indLawsQuery, "$x")
	return e
}

const lawsQuery = `. as $s
| [match($re; $flags)] as $ms
| [match($re; $flags + "g")] as $gs
| { offsets: ($ms + $gs | all(.[]; . as $m
        | ($s[$m.offset:$m.offset+$m.length] == $m.string) and $m.offset >= 0 and $m.length >= 0
          and (($m.string|length) == $m.length)
          and all($m.captures[]; . as $c
                | if $c.string == null then $c.offset == -1 and $c.length == 0
                  else $s[$c.offset:$c.offset+$c.length] == $c.string and ($c.string|length) == $c.length end))),
    ordered: ([range(1; $gs|length)] | all(.[]; $gs[.-1].offset + $gs[.-1].length <= $gs[.].offset)),
    first: ($ms == (if ($flags // "" | contains("g")) then $gs else $gs[:1] end)),
    test: (test($re; $flags) == (($ms|length) > 0)),
    scan: ([scan($re; $flags)] == ($gs | map(if $hasg then [.captures[].string] else .string end))),
    splits: ([splits($re; $flags)] as $p | ($gs|map(.string)) as $m
        | (($p|length) == ($m|length) + 1) and (([range($p|length) | $p[.] + ($m[.] // "")] | add) == $s)
          and (split($re; $flags) == $p) and all($p[]; type == "string")),
    gsubself: ([gsub($gre; .zz; $flags)] == [$s]),
    subself: ([sub($gre; .zz; $flags)] == [$s]),
    capture: ([capture($re; $flags)]
        == ($ms | map([.captures[] | select(.name != null) | {key: .name, value: .string}] | from_entries))),
    names: (($ms + $gs | map([.captures[].name]) | unique | length) <= 1) }`

const strLawsQuery = `. as $s | explode as $e | ($e|length) as $n
| { length: (length == $n),
    slice: ([range(-$n-2; $n+3) as $i | range(-$n-2; $n+3) as $j | $s[$i:$j] == ($e[$i:$j] | implode)] | all),
    open: ([range(-$n-2; $n+3) as $i | ($s[$i:] == ($e[$i:] | implode)) and ($s[:$i] == ($e[:$i] | implode))] | all),
    index: ([range(-$n-2; $n+3) as $i | $s[$i] == ($e[$i] | if . == null then null else [.] | implode end)] | all) }`

const indLawsQuery = `. as $s | explode as $e | ($x|explode) as $xe | ($xe|length) as $k
| [range(0; ($e|length) - $k + 1) | select($k > 0 and $e[.:.+$k] == $xe)] as $want
| { indices: (indices($x) == $want),
    index: (index($x) == ($want | if length == 0 then null else .[0] end)),
    rindex: (rindex($x) == ($want | if length == 0 then null else .[-1] end)),
    positions: ([indices($x)[] | . as $p | $s[$p:$p+$k] == $x] | all) }`

func budgetFor(s string) int { return 3000 * (utf8.RuneCountInString(s) + 4) }

// run one builtin on the real code under the step budget; a budget overrun is a termination violation
func (e *env) run(name string, code *gojq.Code, s, re string, flags any, k string) (string, []any) {
	o := common.RunCode(code, s, budgetFor(s), 100000, re, flags, k)
	e.term.Cases++
	if o.Polls > e.maxPolls {
		e.maxPolls, e.maxPollsAt = o.Polls, fmt.Sprintf("%s re=%q flags=%s subject=%q", name, re, flagName(flags), s)
	}
	switch {
	case o.Panic != "":
		e.ctx.Violate("panic:"+name+":"+common.Hex(re)+":"+flagName(flags)+":"+common.Hex(s), fmt.Sprintf("%s panics on subject %q regex %q flags %s: %s", name, s, re, flagName(flags), o.Panic),
			map[string]any{"builtin": name, "subject_hex": common.Hex(s), "re": re, "flags": flags, "panic": o.Panic})
		return "PANIC", nil
	case o.Budget:
		e.ctx.Violate("nonterminating:"+name+":"+common.Hex(re)+":"+common.Hex(s), fmt.Sprintf("%s did not return within %d VM steps on subject %q regex %q flags %s", name, budgetFor(s), s, re, flagName(flags)),
			map[string]any{"builtin": name, "subject_hex": common.Hex(s), "subject": s, "re": re, "flags": flags, "budget": budgetFor(s)})
		return "BUDGET", nil
	case o.Err != nil:
		return "err " + o.Err.Error(), nil
	}
	return "", o.Outs
}

func ans1(status string, outs []any) string {
	if status != "" {
		return status
	}
	if len(outs) != 1 {
		return fmt.Sprintf("outs=%d", len(outs))
	}
	return "ok " + common.Canon(outs[0])
}

type triple struct {
	s, re string
	flags any
}

func main() {
	ctx := common.ParseFlags("C14")
	r := ctx.R
	e := newEnv(ctx)
	if ctx.Replay != "" {
		replayFile(ctx, e, ctx.Replay)
		ctx.Finish()
	}

	// ---------- flags -> syntax --------------------------------------------------------------
	{
		st := ctx.NewStream("flags", "Gojq.Regex.regexSyntax (Model/Regex.lean) = compileRegexp's flag check and (?i)/(?s) prefixes",
			"every flag string over {g,i,m,x,s,n,é} of length <= 3 (<= 4 thorough) and null, for 3 regex bodies; the real syntax string is read from the quoted text of the compile error of an unparsable regex; distinct = distinct implementation answers")
		var lines, impl []string
		letters := []string{"g", "i", "m", "x", "s", "n", "é"}
		fls := []string{""}
		prev := []string{""}
		for l := 1; l <= ctx.N(3, 4); l++ {
			var cur []string
			for _, p := range prev {
				for _, a := range letters {
					cur = append(cur, p+a)
				}
			}
			fls = append(fls, cur...)
			prev = cur
		}
		q := compile(`[match($re; $flags)]`, "$re", "$flags")
		for _, body := range []string{"a", "é.", "(?<n>b)|"} {
			for fi, fl := range fls {
				var fv any = fl
				if fi == 0 && body == "a" {
					fv = nil // null flags behave as ""
				}
				o := common.RunCode(q, "x", 100000, 10, body+"(", fv)
				ans := "noerr"
				if o.Err != nil {
					m := o.Err.Error()
					switch {
					case strings.HasPrefix(m, "unsupported regular expression flag"):
						ans = "err"
					case strings.HasPrefix(m, "invalid regular expression "):
						rest := strings.TrimPrefix(m, "invalid regular expression ")
						if qs, err := strconv.QuotedPrefix(rest); err == nil {
							if syn, err := strconv.Unquote(qs); err == nil && strings.HasSuffix(syn, "(") {
								ans = "ok " + hexs(strings.TrimSuffix(syn, "("))
							}
						}
					default:
						ans = "other " + m
					}
				}
				lines = append(lines, hexs(body)+" "+hexs(fl))
				impl = append(impl, ans)
				st.Distribution[fmt.Sprintf("len%d:%s", len([]rune(fl)), strings.SplitN(ans, " ", 2)[0])]++
			}
		}
		ctx.RunStream(st, lines, impl)
	}

	// ---------- (subject, regex, flags) triples ------------------------------------------------
	maxLen := ctx.N(3, 4)
	subs := subjectsUpTo(maxLen)
	regexes := append([]string{}, fixedRegexes...)
	seenRe := map[string]bool{}
	for _, x := range regexes {
		seenRe[x] = true
	}
	for tries := 0; len(regexes) < len(fixedRegexes)+ctx.N(40, 120) && tries < 100000; tries++ {
		x := genRegex(r, r.Range(1, 3))
		if seenRe[x] || len(x) > 40 {
			continue
		}
		if _, err := regexp.Compile(x); err != nil {
			continue
		}
		seenRe[x] = true
		regexes = append(regexes, x)
	}
	flagSets := []any{nil, "g", "i", "gi", "m", "gm", "ig"}
	var triples []triple
	for si, s := range subs {
		n := utf8.RuneCountInString(s)
		for ri, re := range regexes {
			switch {
			case ctx.Thorough && n <= 2:
				for _, fl := range flagSets[:5] {
					triples = append(triples, triple{s, re, fl})
				}
			case n <= 2 && ri < len(fixedRegexes):
				for _, fl := range flagSets[:4] {
					triples = append(triples, triple{s, re, fl})
				}
			default:
				// one flag set per pair, rotating; quick keeps a third of the (length-3 subject, regex) pairs
				if !ctx.Thorough && n == 3 && (si+ri)%3 != 0 {
					continue
				}
				if ctx.Thorough && n == 4 && (si+ri)%6 != 0 {
					continue
				}
				triples = append(triples, triple{s, re, flagSets[(si/3+ri)%len(flagSets)]})
			}
		}
	}
	exhaustiveTriples := len(triples)
	// random longer subjects
	for i := 0; i < ctx.N(1500, 30000); i++ {
		var sb strings.Builder
		for j, n := 0, r.Range(maxLen+1, 14); j < n; j++ {
			sb.WriteString(common.Pick(r, alphabet))
		}
		triples = append(triples, triple{sb.String(), common.Pick(r, regexes), common.Pick(r, flagSets)})
	}
	// subjects of EVERY byte length 15..130 and around the powers of two up to 8 KiB (fixed-size
	// scratch buffers, chunked conversions): ASCII, and with multi-byte characters at the start,
	// in the middle and at the very end
	{
		var lens []int
		for n := 15; n <= 130; n++ {
			lens = append(lens, n)
		}
		for _, p := range []int{256, 512, 1024, 4096, 8192} {
			lens = append(lens, p-1, p, p+1)
		}
		for li, n := range lens {
			if !ctx.Thorough && n > 70 && n < 250 && li%3 != 0 {
				continue
			}
			fill := func(prefix, unit, suffix string) string {
				var sb strings.Builder
				sb.WriteString(prefix)
				for sb.Len()+len(suffix)+len(unit) <= n {
					sb.WriteString(unit)
				}
				for sb.Len()+len(suffix) < n {
					sb.WriteString("b")
				}
				sb.WriteString(suffix)
				return sb.String()
			}
			for vi, sub := range []string{fill("", "a", ""), fill("é", "ab", "漢"), fill("a", "é", "a"), fill("", "ab ", "😀"), fill("漢", "a", "b")} {
				if len(sub) != n {
					continue
				}
				for ri, re := range []string{"a", "^(?<x>.)(b)?", "b$", "é|漢|😀", "zz|^", "[^a]+$", "(.)$"} {
					if !ctx.Thorough && (li+vi+ri)%3 != 0 && n != 63 && n != 64 && n != 65 {
						continue
					}
					triples = append(triples, triple{sub, re, flagSets[(li+ri)%len(flagSets)]})
				}
			}
		}
	}
	// letters whose simple case folding is not their lower-case mapping (final sigma, micro sign,
	// long s, dotted/dotless i, Kelvin and Angstrom signs, title-case digraphs): literal regexes
	// with and without the i flag — every builtin must agree with `match` on them
	{
		foldSubs := []string{"ΣΑΣ", "σας", "ς", "5 µm", "μ", "ſet", "set", "İz", "ız", "iz", "IZ", "K", "k", "Å", "å", "ǅ", "ǆ", "Ǆ", "ß", "SS", "ẞ"}
		foldRes := []string{"ς", "σ", "Σ", "µ", "μ", "Μ", "ſ", "s", "S", "i", "I", "İ", "ı", "K", "k", "å", "Å", "ǆ", "ǅ", "ß", "ss", "σας", "set"}
		for si, sub := range foldSubs {
			for ri, re := range foldRes {
				for fi, fl := range []any{"i", "gi", nil} {
					if !ctx.Thorough && fi == 2 && (si+ri)%4 != 0 {
						continue
					}
					triples = append(triples, triple{sub, re, fl})
				}
			}
		}
	}
	// a few subjects that are not valid UTF-8: the model's conversion is still compared, MatchesOK is false
	invalid := []string{"\xff", "a\xffb", "\xc3", "é\xc3a", "\xed\xa0\x80", "a\xf0\x9f\x98", "\x80é\x80"}
	for _, s := range invalid {
		for _, re := range []string{".", "a", "", "é", "[^a]*", "(?<n>.)(.)?"} {
			triples = append(triples, triple{s, re, "g"})
		}
	}

	stM := ctx.NewStream("match", "Gojq.Regex.funcMatch / mkMatches / Match.toJV / matchesOK (Model/Regex.lean) = funcMatch's byte->code-point conversion and object construction",
		"[match($re; $flags)] through the public API vs the model fed with Go regexp's FindAllStringSubmatchIndex/SubexpNames for the syntax compileRegexp builds; subjects: every string over {a,b,A,é,漢,😀,U+0301,LF,space} up to length 3 (4 thorough; the longest length subsampled: a third in quick, a sixth in thorough) x hand-picked + random grammar regexes x flag sets among null,g,i,gi,m,gm,ig; random subjects of length up to 14; 42 cases on invalid UTF-8; distinct = distinct implementation answers (per chunk, as for `builtin`)")
	stB := ctx.NewStream("builtin", "Gojq.Regex.{test,capture,scan,splits,split2,sub,gsub,capturesKvs,sliceStr} (Model/Regex.lean) = builtin.jq's definitions over the match list + funcCaptures",
		"test, [capture], [scan], [splits], split/2, [sub], [gsub] through the public API vs the model's folds over the same raw engine answer; sub/gsub with 5 replacement filters (constant, .name, two-output generator, sometimes-empty generator, interpolation), on the regex and on the regex wrapped in (?<zz>…); distinct = distinct implementation answers (counted per chunk of 1M lines and summed; quick is one chunk)")
	orc := ctx.NewOracle("laws", "per (subject, regex, flags): 9 laws evaluated as jq booleans on the real code — offsets (slice by offset/length returns string, for matches and captures), ordered, first (non-global match = first global match), test, scan, splits (interleave rebuilds subject, split/2 agrees), gsubself, subself, capture; distinct = distinct triples whose global match list is non-empty")
	e.term = ctx.NewOracle("termination", "every builtin run of the `builtin`/`match` streams under a deterministic VM step budget of 3000*(code points+4); a budget overrun is a violation; distinct = distinct (subject, regex, flags) triples")

	var linesM, implM, linesB, implB []string
	okCount, okValid, validCount := 0, 0, 0
	distinctLaw := map[string]bool{}
	rxCache := map[string]*regexp.Regexp{}
	getRx := func(syn string) *regexp.Regexp {
		if x, ok := rxCache[syn]; ok {
			return x
		}
		x, err := regexp.Compile(syn)
		if err != nil {
			x = nil
		}
		rxCache[syn] = x
		return x
	}
	find := func(re string, flags any, s string) ([][]int, []string, bool) {
		syn, ok := syntaxOf(re, flags)
		if !ok {
			return nil, nil, false
		}
		rx := getRx(syn)
		if rx == nil {
			return nil, nil, false
		}
		n := 1
		if isGlobal(flags) {
			n = -1
		}
		return rx.FindAllStringSubmatchIndex(s, n), rx.SubexpNames(), true
	}

	flush := func(force bool) {
		if force || len(linesB) > 1000000 {
			ctx.RunStream(stM, linesM, implM)
			ctx.RunStream(stB, linesB, implB)
			linesM, implM, linesB, implB = nil, nil, nil, nil
		}
	}
	for ti, t := range triples {
		flush(false)
		s, re, flags := t.s, t.re, t.flags
		raw, names, ok := find(re, flags, s)
		if !ok {
			continue
		}
		rawG, _, _ := find(re, addG(flags), s)
		valid := utf8.ValidString(s)
		mok := matchesOK(s, names, raw) && matchesOK(s, names, rawG)
		if valid {
			validCount++
			if mok {
				okValid++
			}
		}
		if mok {
			okCount++
		}
		// distribution: what kind of answer the engine gave
		kind := "nomatch"
		for _, x := range rawG {
			if x[0] == x[1] {
				kind = "emptymatch"
				break
			}
			kind = "match"
		}
		mb := false
		for _, x := range rawG {
			if utf8.RuneCountInString(s[:x[0]]) != x[0] {
				mb = true
			}
		}
		if mb {
			stM.Distribution["multibyte-prefix"]++
		}
		stM.Distribution[kind]++
		stM.Distribution["flags:"+flagName(flags)]++
		stM.Distribution[fmt.Sprintf("groups:%d", len(names)-1)]++

		// --- match ---
		bit := "0"
		if matchesOK(s, names, raw) {
			bit = "1"
		}
		status, outs := e.run("match", e.qMatch, s, re, flags, "")
		a := ans1(status, outs)
		if strings.HasPrefix(a, "ok ") {
			a = "ok " + bit + " " + a[3:]
		}
		linesM = append(linesM, hexs(s)+" | "+namesField(names)+" | "+rawField(raw))
		implM = append(implM, a)

		// --- builtins ---
		head := func(name string, rw [][]int, nm []string) string {
			return name + " " + hexs(s) + " | " + namesField(nm) + " | " + rawField(rw)
		}
		addB := func(line, ans string) {
			if len(s) > 48 && !strings.HasPrefix(line, "test ") {
				// long subjects: the implementation ran (a panic or a budget overrun is reported by
				// e.run) but the model's regex builtins are quadratic, so only `match`/`test` go to it
				stB.Distribution["long-subject:implementation-only"]++
				return
			}
			linesB = append(linesB, line)
			implB = append(implB, ans)
			stB.Distribution[strings.SplitN(line, " ", 2)[0]]++
		}
		status, outs = e.run("test", e.qTest, s, re, flags, "")
		addB(head("test", raw, names), ans1(status, outs))
		for _, b := range []struct {
			name string
			code *gojq.Code
			rw   [][]int
			one  bool
		}{{"capture", e.qCapture, raw, true}, {"scan", e.qScan, rawG, true}, {"splits", e.qSplits, rawG, true}, {"split2", e.qSplit2, rawG, true}} {
			status, outs = e.run(b.name, b.code, s, re, flags, "")
			addB(head(b.name, b.rw, names), ans1(status, outs))
		}
		// sub / gsub: one replacement variant on the regex itself (key = one of its names, or an
		// absent key), one on the wrapped regex (key zz = the whole match)
		for wi, wrapped := range []bool{false, true} {
			v := replVariants[(ti+wi*2)%len(replVariants)]
			re2, k := re, "zz"
			if wrapped {
				re2 = "(?<zz>" + re + ")"
			} else {
				for _, n := range names {
					if n != "" && (ti/5)%2 == 0 {
						k = n
					}
				}
			}
			raw2, names2, ok2 := find(re2, flags, s)
			rawG2, _, _ := find(re2, addG(flags), s)
			if !ok2 {
				continue
			}
			for _, g := range []bool{false, true} {
				name, code, outsCode, rw := "sub", e.qSub[v.name], e.qOutsSub[v.name], raw2
				if g {
					name, code, outsCode, rw = "gsub", e.qGsub[v.name], e.qOutsGsub[v.name], rawG2
				}
				status, outs = e.run(name, code, s, re2, flags, k)
				repl := ""
				switch v.name {
				case "c":
					repl = "c " + hexs("X")
				case "f":
					repl = "f " + hexs(k)
				default:
					// the outputs of the replacement on each match's capture object, from the real code
					st2, o2 := e.run("capture", outsCode, s, re2, flags, k)
					if st2 != "" || len(o2) != 1 {
						continue
					}
					var sb strings.Builder
					sb.WriteString("l")
					for mi, per := range o2[0].([]any) {
						if mi > 0 {
							sb.WriteString(" ;")
						}
						for _, x := range per.([]any) {
							xs, _ := x.(string) // a null output adds nothing: string + null = string
							sb.WriteString(" " + hexs(xs))
						}
					}
					repl = sb.String()
				}
				stB.Distribution["repl:"+v.name]++
				addB(head(name, rw, names2)+" | "+repl, ans1(status, outs))
			}
		}

		// --- laws (valid subjects only: the property quantifies over them; the laws are quadratic
		//     jq programs, so the long boundary-length subjects are left to the streams) ---
		if valid && len(s) <= 48 {
			hasg := len(names) > 1
			o := common.RunCode(e.qLaws, s, 5000000, 10, re, flags, "(?<zz>"+re+")", hasg)
			orc.Cases++
			if len(rawG) > 0 {
				distinctLaw[fmt.Sprint(s, "\x00", re, "\x00", flags)] = true
			}
			orc.Distribution[kind]++
			checkLaws(ctx, o, "laws", lawsQuery, s, map[string]any{"re": re, "flags": flags, "gre": "(?<zz>" + re + ")", "hasg": hasg},
				common.Hex(re)+":"+flagName(flags)+":"+common.Hex(s))
		}
	}
	orc.Distinct = len(distinctLaw)
	orc.Samples = []string{`"aé漢" | gsub("(?<zz>[^a])"; .zz) == .`, `"😀a" | [match("a")] | .[0].offset == 1`, `"ab" | [splits("x*")] == ["","a","b",""]`}
	e.term.Distinct = len(triples)
	e.term.Samples = []string{"max VM steps used by one builtin run: " + fmt.Sprint(e.maxPolls) + " at " + e.maxPollsAt}
	flush(true)
	ctx.Res.Notes = append(ctx.Res.Notes,
		fmt.Sprintf("triples: %d (%d from the exhaustive subject grid), regexes: %d (%d hand-picked)", len(triples), exhaustiveTriples, len(regexes), len(fixedRegexes)),
		fmt.Sprintf("MatchesOK held on %d of %d engine answers for valid-UTF-8 subjects (must be all); %d answers for invalid subjects fed with MatchesOK false", okValid, validCount, len(triples)-validCount),
		fmt.Sprintf("max VM steps used by one builtin run: %d (%s)", e.maxPolls, e.maxPollsAt))
	if okValid != validCount {
		ctx.Errorf("MatchesOK failed on %d engine answers for valid subjects: the hypothesis of the theorems does not describe Go's regexp", validCount-okValid)
	}
	_ = okCount

	// ---------- string positions ---------------------------------------------------------------
	strStreams(ctx, e, subs, invalid)
	samequery.Run(ctx)
	ctx.Finish()
}

// checkLaws reads the object of booleans a law query returns; every false / error is a violation
func checkLaws(ctx *common.Ctx, o common.Outcome, kind, query, s string, vars map[string]any, keyTail string) bool {
	bad := func(law, what string) {
		args := ""
		names := make([]string, 0, len(vars))
		for k := range vars {
			names = append(names, k)
		}
		sort.Strings(names)
		for _, k := range names {
			j, _ := json.Marshal(vars[k])
			args += fmt.Sprintf(" --argjson %s '%s'", k, j)
		}
		js, _ := json.Marshal(s)
		ctx.Violate(kind+":"+law+":"+keyTail, fmt.Sprintf("law %s fails on subject %q with %v: %s", law, s, vars, what),
			map[string]any{"law": law, "kind": kind, "subject": s, "subject_hex": common.Hex(s), "vars": vars, "observed": what, "query": query,
				"cmd": fmt.Sprintf("gojq -n --argjson s '%s'%s '$s | (%s) | .%s'   # expected: true", js, args, strings.Join(strings.Fields(query), " "), law)})
	}
	switch {
	case o.Panic != "":
		bad("panic", o.Panic)
		return false
	case o.Budget:
		bad("budget", "law query exceeded its step budget")
		return false
	case o.Err != nil:
		bad("error", o.Err.Error())
		return false
	case len(o.Outs) != 1:
		bad("outputs", fmt.Sprintf("%d outputs", len(o.Outs)))
		return false
	}
	m, _ := o.Outs[0].(map[string]any)
	all := true
	keys := make([]string, 0, len(m))
	for k := range m {
		keys = append(keys, k)
	}
	sort.Strings(keys)
	for _, k := range keys {
		if m[k] != true {
			bad(k, fmt.Sprintf("evaluates to %v", m[k]))
			all = false
		}
	}
	return all
}

func replayFile(ctx *common.Ctx, e *env, path string) {
	b, err := os.ReadFile(path)
	if err != nil {
		ctx.Errorf("replay: %v", err)
		return
	}
	var f struct {
		Key    string `json:"key"`
		Replay struct {
			Kind    string         `json:"kind"`
			Subject string         `json:"subject_hex"`
			Vars    map[string]any `json:"vars"`
		} `json:"replay"`
	}
	if err := json.Unmarshal(b, &f); err != nil || f.Replay.Kind == "" {
		ctx.Errorf("replay: %s is not a C14 law replay (%v)", path, err)
		return
	}
	s := common.UnHex(f.Replay.Subject)
	orc := ctx.NewOracle("replay", "one recorded law instance re-evaluated on the real code")
	orc.Cases, orc.Distinct = 1, 1
	var o common.Outcome
	var q string
	switch f.Replay.Kind {
	case "laws":
		q = lawsQuery
		o = common.RunCode(e.qLaws, s, 5000000, 10, f.Replay.Vars["re"], f.Replay.Vars["flags"], f.Replay.Vars["gre"], f.Replay.Vars["hasg"])
	case "strlaws":
		q = strLawsQuery
		o = common.RunCode(e.qStrLaws, s, 50000000, 10)
	case "indlaws":
		q = indLawsQuery
		o = common.RunCode(e.qIndLaws, s, 50000000, 10, f.Replay.Vars["x"])
	default:
		ctx.Errorf("replay: unknown kind %q", f.Replay.Kind)
		return
	}
	parts := strings.SplitN(f.Key, ":", 3)
	tail := ""
	if len(parts) == 3 {
		tail = parts[2]
	}
	ok := checkLaws(ctx, o, f.Replay.Kind, q, s, f.Replay.Vars, tail)
	ctx.Res.Notes = append(ctx.Res.Notes, fmt.Sprintf("replay of %s: all laws hold now = %v", f.Key, ok))
}

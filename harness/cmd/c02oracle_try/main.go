// c02oracle_try runs the C02 search oracle standalone and prints the result JSON.
package main

import (
	"verifharness/c02oracle"
	"verifharness/common"
)

func main() {
	c02oracle.MaybeChild()
	ctx := common.ParseFlags("C02")
	c02oracle.Run(ctx)
	ctx.Finish()
}

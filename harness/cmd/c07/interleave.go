package main

// interleaveOracle: terminality and independence over HISTORIES of several iterators.
// "After exhaustion or cancellation it stays terminal" must hold whatever else the program does
// with the library in between: other runs of the same or another Code are started, advanced and
// finished while a finished iterator is still held. And two live iterators advanced alternately
// must each produce what they produce alone.

import (
	"context"
	"fmt"
	"strings"
	"time"

	"github.com/itchyny/gojq"

	"verifharness/common"
)

type ilProg struct {
	src string
	in  any
}

func ilCollect(code *gojq.Code, in any, limit int) []string {
	it := code.RunWithContext(context.Background(), common.DeepCopy(in))
	var out []string
	for i := 0; i < limit; i++ {
		v, ok := it.Next()
		if !ok {
			out = append(out, "END")
			break
		}
		out = append(out, ilItem(v))
	}
	return out
}

func ilItem(v any) string {
	if e, ok := v.(error); ok {
		return "ERR:" + e.Error()
	}
	return common.Canon(v)
}

func interleaveOracle(ctx *common.Ctx) {
	orc := ctx.NewOracle("interleaved-iterators", "histories over several iterators of one or two Codes: (1) A is driven to its end (exhaustion, or cancellation then the context error), then B is started and advanced j steps, then A.Next is called 3 more times — (nil,false) each time — and B, drained, yields exactly what it yields alone; (2) A and B advanced alternately yield what each yields alone; with A = B's Code or another, started on equal or different inputs; distinct = distinct (A, B, j, ending)")
	progs := []ilProg{
		{".[]", []any{1, 2, 3}}, {".[]", []any{}}, {"range(5)", nil}, {"range(0)", nil}, {".[] | select(. > 5)", []any{1, 2}}, {"1, 2, 3", nil}, {"empty", nil}, {".a, .b", map[string]any{"a": 1, "b": 2}},
		{".[] | if . == 2 then error(\"x\") else . end", []any{1, 2, 3}}, {"first(range(10))", nil}, {"[.[] | . * 2]", []any{1, 2}}, {"reduce range(50) as $i (0; . + $i)", nil}, {"label $l | 1, 2, break $l, 3", nil},
		{"def f: if . < 40 then ., (. + 1 | f) else empty end; 0 | f", nil}, {".[] as [$a] ?// $a | $a", []any{[]any{1}, 2}}, {"limit(3; repeat(7))", nil}, {"path(..)", []any{[]any{1}}}, {"try error(\"y\") catch .", nil}, {"tostream", []any{1, []any{2}}},
	}
	codes := make([]*gojq.Code, len(progs))
	alone := make([][]string, len(progs))
	for i, p := range progs {
		q, err := gojq.Parse(p.src)
		if err != nil {
			ctx.Errorf("interleave: parse %q: %v", p.src, err)
			return
		}
		if codes[i], err = gojq.Compile(q); err != nil {
			ctx.Errorf("interleave: compile %q: %v", p.src, err)
			return
		}
		alone[i] = ilCollect(codes[i], p.in, 200)
	}
	distinct := map[string]bool{}
	violate := func(key, what string, a, b int, j int, ending string, extra map[string]any) {
		rp := map[string]any{"A": progs[a].src, "A_input": common.Canon(progs[a].in), "B": progs[b].src, "B_input": common.Canon(progs[b].in), "j": j, "A_ending": ending,
			"history": "itA := A.RunWithContext(ctx, inA); drive A to its end; itB := B.RunWithContext(ctx2, inB); j × itB.Next(); 3 × itA.Next(); drain itB"}
		for k, v := range extra {
			rp[k] = v
		}
		ctx.Violate(key+":"+progs[a].src+"|"+progs[b].src, what, rp)
	}
	for a := range progs {
		for b := range progs {
			if !ctx.Thorough && (a*7+b*3)%4 != 0 {
				continue
			}
			for _, ending := range []string{"exhausted", "cancelled"} {
				for _, j := range []int{0, 1, 2} {
					orc.Cases++
					distinct[fmt.Sprint(a, b, j, ending)] = true
					func() {
						defer func() {
							if rec := recover(); rec != nil {
								violate("interleave-panic", fmt.Sprintf("panic in a history of two iterators: %v", rec), a, b, j, ending, nil)
							}
						}()
						cx, cancel := context.WithCancel(context.Background())
						defer cancel()
						itA := codes[a].RunWithContext(cx, common.DeepCopy(progs[a].in))
						if ending == "cancelled" {
							itA.Next()
							cancel()
							for k := 0; k < 400; k++ {
								if _, ok := itA.Next(); !ok {
									break
								}
							}
						} else {
							for k := 0; k < 400; k++ {
								if _, ok := itA.Next(); !ok {
									break
								}
							}
						}
						itB := codes[b].RunWithContext(context.Background(), common.DeepCopy(progs[b].in))
						var gotB []string
						step := func() bool {
							v, ok := itB.Next()
							if !ok {
								gotB = append(gotB, "END")
								return false
							}
							gotB = append(gotB, ilItem(v))
							return true
						}
						live := true
						for k := 0; k < j && live; k++ {
							live = step()
						}
						for k := 0; k < 3; k++ {
							if v, ok := itA.Next(); ok {
								violate("finished-iterator-revived", fmt.Sprintf("Next on a finished iterator returned (%s, true) after another run was started", ilItem(v)), a, b, j, ending, map[string]any{"extra_call": k + 1, "returned": ilItem(v)})
								break
							}
						}
						for k := 0; k < 200 && live; k++ {
							live = step()
						}
						if strings.Join(gotB, " ; ") != strings.Join(alone[b], " ; ") {
							violate("second-run-disturbed", fmt.Sprintf("a run started after another iterator had finished yields %s, alone it yields %s", strings.Join(gotB, " ; "), strings.Join(alone[b], " ; ")), a, b, j, ending,
								map[string]any{"observed": gotB, "expected": alone[b]})
						}
					}()
				}
			}
			// (2) alternately
			orc.Cases++
			func() {
				defer func() {
					if rec := recover(); rec != nil {
						violate("interleave-panic", fmt.Sprintf("panic while advancing two iterators alternately: %v", rec), a, b, -1, "alternate", nil)
					}
				}()
				itA := codes[a].RunWithContext(context.Background(), common.DeepCopy(progs[a].in))
				itB := codes[b].RunWithContext(context.Background(), common.DeepCopy(progs[b].in))
				var gotA, gotB []string
				la, lb := true, true
				for k := 0; k < 200 && (la || lb); k++ {
					if la {
						if v, ok := itA.Next(); ok {
							gotA = append(gotA, ilItem(v))
						} else {
							gotA = append(gotA, "END")
							la = false
						}
					}
					if lb {
						if v, ok := itB.Next(); ok {
							gotB = append(gotB, ilItem(v))
						} else {
							gotB = append(gotB, "END")
							lb = false
						}
					}
				}
				if strings.Join(gotA, " ; ") != strings.Join(alone[a], " ; ") || strings.Join(gotB, " ; ") != strings.Join(alone[b], " ; ") {
					violate("alternating-iterators-differ", fmt.Sprintf("advanced alternately the two iterators yield %v and %v; alone %v and %v", gotA, gotB, alone[a], alone[b]), a, b, -1, "alternate", nil)
				}
			}()
		}
	}
	orc.Distinct = len(distinct)
}

// realContextsOracle: the value returned on cancellation is the context's error (ctx.Err()),
// for every kind of context the standard library offers — with and without a cause, cancelled
// by hand, by a timeout, by a deadline, by a parent, before and during the run.
func realContextsOracle(ctx *common.Ctx) {
	orc := ctx.NewOracle("real-contexts", "contexts of the standard library (WithCancel, WithCancelCause, WithTimeout, WithTimeoutCause, WithDeadline, WithDeadlineCause, a child of a cancelled parent, contexts with a FAR deadline cancelled by hand or through their parent, WithoutCancel of a cancelled parent) on endless and finite programs, cancelled before the first Next and after some outputs: the first value returned after the cancellation is observed is exactly ctx.Err() (errors.Is for both directions), then (nil,false) for ever; WithoutCancel is never cancelled; distinct = (context kind, program, moment)")
	cause := fmt.Errorf("the caller's own cause")
	type mk struct {
		name string
		make func() (context.Context, func())
	}
	kinds := []mk{
		{"WithCancel", func() (context.Context, func()) { c, f := context.WithCancel(context.Background()); return c, f }},
		{"WithCancelCause", func() (context.Context, func()) {
			c, f := context.WithCancelCause(context.Background())
			return c, func() { f(cause) }
		}},
		{"WithCancelCause(nil)", func() (context.Context, func()) {
			c, f := context.WithCancelCause(context.Background())
			return c, func() { f(nil) }
		}},
		{"WithTimeoutCause(expired)", func() (context.Context, func()) {
			c, f := context.WithTimeoutCause(context.Background(), 0, cause)
			return c, func() { f() }
		}},
		{"WithDeadlineCause(past)", func() (context.Context, func()) {
			c, f := context.WithDeadlineCause(context.Background(), time.Unix(0, 0), cause)
			return c, func() { f() }
		}},
		{"WithTimeout(expired)", func() (context.Context, func()) {
			c, f := context.WithTimeout(context.Background(), 0)
			return c, func() { f() }
		}},
		// contexts that CARRY a deadline (far away) but are cancelled by hand or through their parent
		{"WithTimeout(1h)-cancelled-by-hand", func() (context.Context, func()) {
			c, f := context.WithTimeout(context.Background(), time.Hour)
			return c, func() { f() }
		}},
		{"WithDeadline(far)-cancelled-by-hand", func() (context.Context, func()) {
			c, f := context.WithDeadline(context.Background(), time.Now().Add(24*time.Hour))
			return c, func() { f() }
		}},
		{"WithTimeout(1h)-parent-cancelled", func() (context.Context, func()) {
			p, pf := context.WithCancel(context.Background())
			c, f := context.WithTimeout(p, time.Hour)
			return c, func() { pf(); _ = f }
		}},
		{"WithCancel-child-of-WithTimeout(1h)", func() (context.Context, func()) {
			p, pf := context.WithTimeout(context.Background(), time.Hour)
			c, f := context.WithCancel(p)
			return c, func() { f(); _ = pf }
		}},
		{"WithValue-child-of-WithDeadline(far)-cancelled", func() (context.Context, func()) {
			p, pf := context.WithDeadline(context.Background(), time.Now().Add(24*time.Hour))
			type k struct{}
			return context.WithValue(p, k{}, 1), func() { pf() }
		}},
		{"child-of-cancelled-with-cause", func() (context.Context, func()) {
			p, pf := context.WithCancelCause(context.Background())
			c, f := context.WithCancel(p)
			return c, func() { pf(cause); _ = f }
		}},
	}
	hung := 0
	progs := []string{"repeat(1)", "range(infinite) | select(. < 0)", "def f: f; f", "range(5)", "[range(100)] | length", "reduce range(100000) as $i (0; . + 1)"}
	n := 0
	for _, k := range kinds {
		for _, src := range progs {
			q, err := gojq.Parse(src)
			if err != nil {
				continue
			}
			code, err := gojq.Compile(q)
			if err != nil {
				continue
			}
			for _, moment := range []int{0, 1, 3} {
				if moment > 0 && (strings.HasPrefix(src, "def f") || strings.Contains(src, "select(. < 0)")) {
					continue // these never yield: only a cancellation can end the first call
				}
				orc.Cases++
				n++
				if hung >= 3 {
					continue // three runs already ignore their context and keep spinning
				}
				var vio []func()
				violate := func(key, what string, rp map[string]any) { vio = append(vio, func() { ctx.Violate(key, what, rp) }) }
				done := make(chan struct{})
				go func() {
					defer close(done)
					defer func() {
						if rec := recover(); rec != nil {
							violate("real-context-panic:"+k.name+":"+src, fmt.Sprintf("panic with a %s context: %v", k.name, rec), map[string]any{"context": k.name, "query": src})
						}
					}()
					cx, cancel := k.make()
					expired := strings.Contains(k.name, "expired") || strings.Contains(k.name, "past")
					it := code.RunWithContext(cx, nil)
					finished := false
					for i := 0; i < moment && !finished; i++ {
						if _, ok := it.Next(); !ok {
							finished = true
						}
					}
					cancel()
					if !expired && cx.Err() == nil {
						return
					}
					var got any
					ok := false
					for i := 0; i < 2000000 && !finished; i++ {
						v, more := it.Next()
						if !more {
							finished = true
							break
						}
						if e, isErr := v.(error); isErr {
							got, ok = e, true
							break
						}
					}
					if !ok {
						if !finished {
							violate("real-context-ignored:"+k.name+":"+src, fmt.Sprintf("a cancelled %s context is not observed by `%s` within 2,000,000 Next calls", k.name, src), map[string]any{"context": k.name, "query": src, "moment": moment})
						}
						return // a finite program may finish before the poll sees the cancellation
					}
					e := got.(error)
					if e != cx.Err() {
						violate("real-context-error:"+k.name+":"+src, fmt.Sprintf("after a %s context was cancelled `%s` returns the error %q, ctx.Err() is %q", k.name, src, e.Error(), cx.Err().Error()),
							map[string]any{"context": k.name, "query": src, "moment": moment, "observed": e.Error(), "expected": cx.Err().Error(), "cause": fmt.Sprint(context.Cause(cx))})
					}
					for i := 0; i < 3; i++ {
						if v, more := it.Next(); more {
							violate("real-context-not-terminal:"+k.name+":"+src, fmt.Sprintf("after the context error `%s` returned another value: %v", src, v), map[string]any{"context": k.name, "query": src})
							break
						}
					}
				}()
				select {
				case <-done:
					for _, f := range vio {
						f()
					}
				case <-time.After(40 * time.Second):
					hung++
					ctx.Violate("real-context-ignored:"+k.name+":"+src, fmt.Sprintf("a cancelled %s context is not observed by `%s`: the call of Next has not returned 40 s after the cancellation", k.name, src),
						map[string]any{"context": k.name, "query": src, "moment": moment, "history": "ctx := the named context; it := code.RunWithContext(ctx, nil); `moment` calls of Next; cancel; Next"})
				}
			}
		}
	}
	orc.Distinct = n
}

// customIterErrorsOracle: iterators of custom functions that report a failure the documented way
// (NewIter(err)), alone or after values, with and without a pending fork: the error is yielded
// once, and the iterator can be advanced afterwards without a panic, like any error value.
func customIterErrorsOracle(ctx *common.Ctx) {
	orc := ctx.NewOracle("custom-iterator-errors", "WithIterFunction callbacks returning NewIter(err), NewIter(v, err), NewIter(err, v), NewIter() and a hand-written Iter, called where no fork is pending (`f`, `0 | f`, `path(f)`, last element of `.[] | f`) and where one is (`f, 1`, `.[] | f`, `try f catch .`, `[f]?`, `first(f)`): the history is advanced 4 calls past its first error value — no panic, up to and including the first error value the outputs equal those of the equivalent jq definition, and after (nil,false) it stays terminal; distinct = (callback, context)")
	boom := fmt.Errorf("boom")
	type cb struct {
		name string
		f    func(any, []any) gojq.Iter
		def  string
	}
	cbs := []cb{
		{"NewIter(err)", func(any, []any) gojq.Iter { return gojq.NewIter(boom) }, `def f: error("boom");`},
		{"NewIter(v,err)", func(v any, _ []any) gojq.Iter { return gojq.NewIter[any](v, boom) }, `def f: ., error("boom");`},
		{"NewIter(err,v)", func(v any, _ []any) gojq.Iter { return gojq.NewIter[any](boom, v) }, `def f: error("boom"), .;`},
		{"NewIter()", func(any, []any) gojq.Iter { return gojq.NewIter[any]() }, `def f: empty;`},
		{"NewIter(v)", func(v any, _ []any) gojq.Iter { return gojq.NewIter(v) }, `def f: .;`},
	}
	ctxs := []string{"f", "0 | f", "path(f)", ".[] | f", "f, 1", "try f catch .", "[f]?", "first(f)", "[.[] | f]", "f | f", "label $l | f, break $l", ". as $x | f", "reduce f as $x (0; . + 1)", "[limit(2; f, f)]", "f?", "(f | error)?", "[.[] | try f catch 7]"}
	ins := []any{nil, []any{1, 2}, []any{}}
	n := 0
	collect := func(code *gojq.Code, in any) (outs []string, panicked string) {
		defer func() {
			if rec := recover(); rec != nil {
				panicked = fmt.Sprint(rec)
			}
		}()
		it := code.Run(common.DeepCopy(in))
		done := 0
		for i := 0; i < 60 && done < 3; i++ {
			v, ok := it.Next()
			if !ok {
				outs = append(outs, "END")
				done++
				continue
			}
			if done > 0 {
				outs = append(outs, "REVIVED:"+ilItem(v))
				continue
			}
			if e, isErr := v.(error); isErr {
				outs = append(outs, "ERR:"+strings.TrimPrefix(e.Error(), "error: "))
			} else {
				outs = append(outs, common.Canon(v))
			}
		}
		return outs, ""
	}
	for _, c := range cbs {
		for _, cx := range ctxs {
			q1, err := gojq.Parse(cx)
			if err != nil {
				ctx.Errorf("custom-iterator-errors: parse %q: %v", cx, err)
				return
			}
			q2, err := gojq.Parse(c.def + " " + cx)
			if err != nil {
				ctx.Errorf("custom-iterator-errors: parse %q: %v", c.def+cx, err)
				return
			}
			code1, err1 := gojq.Compile(q1, gojq.WithIterFunction("f", 0, 0, c.f))
			code2, err2 := gojq.Compile(q2)
			if err1 != nil || err2 != nil {
				continue
			}
			for _, in := range ins {
				orc.Cases++
				n++
				got, p := collect(code1, in)
				want, _ := collect(code2, in)
				rp := map[string]any{"callback": c.name, "query": cx, "input": common.Canon(in), "definition": c.def, "history": "it := code.Run(input); call it.Next() until it has returned false three times (at most 60 calls)"}
				if p != "" {
					rp["panic"] = p
					rp["outputs_before"] = got
					ctx.Violate("custom-iter-panic:"+c.name+":"+cx, fmt.Sprintf("`%s` with f = %s on %s: Next panics after %v: %s", cx, c.name, common.Canon(in), got, p), rp)
					continue
				}
				// what follows an uncaught error is only required not to panic and to stay terminal
				// once ended; the outputs are compared up to and including the first error value
				cut := func(xs []string) []string {
					for i, x := range xs {
						if strings.HasPrefix(x, "ERR:") {
							return xs[:i+1]
						}
					}
					return xs
				}
				for _, x := range got {
					if strings.HasPrefix(x, "REVIVED:") {
						rp["observed"] = got
						ctx.Violate("custom-iter-revived:"+c.name+":"+cx, fmt.Sprintf("`%s` with f = %s on %s: a value after Next had returned false: %v", cx, c.name, common.Canon(in), got), rp)
						break
					}
				}
				got, want = cut(got), cut(want)
				if strings.Join(got, " ; ") != strings.Join(want, " ; ") {
					rp["observed"], rp["expected"] = got, want
					ctx.Violate("custom-iter-differs:"+c.name+":"+cx, fmt.Sprintf("`%s` with f = %s on %s yields %v, with `%s` it yields %v", cx, c.name, common.Canon(in), got, c.def, want), rp)
				}
			}
		}
	}
	orc.Distinct = n
}

package main

import (
	"encoding/json"
	"math"
	"os"
	"path/filepath"
	"strconv"
	"strings"
)

// A corpus entry drawn from /repo/cli/test.yaml: a query that is run without
// any flag that changes the language (only -n, -c, -r, -j, -s-free) and its inputs.
type corpusEntry struct {
	Name   string
	Query  string
	Inputs []any
}

// loadCorpus reads cli/test.yaml with a line scanner that understands exactly
// the YAML subset that file uses for `name`, `args` and `input` (plain, single-
// and double-quoted one-line scalars and `|` block scalars). Entries it cannot
// read, entries with flags other than -n/-c/-r/-j and entries without a
// single query argument are skipped.
func loadCorpus(repo string) []corpusEntry {
	b, err := os.ReadFile(filepath.Join(repo, "cli", "test.yaml"))
	if err != nil {
		return nil
	}
	lines := strings.Split(string(b), "\n")
	var out []corpusEntry
	type raw struct {
		name  string
		args  []string
		input string
		bad   bool
		null  bool
	}
	var cur *raw
	flush := func() {
		if cur == nil || cur.bad {
			return
		}
		var query string
		nq := 0
		nullInput := false
		for _, a := range cur.args {
			switch {
			case a == "-n" || a == "--null-input":
				nullInput = true
			case a == "-c" || a == "-r" || a == "-j" || a == "-M" || a == "-S" || a == "-C":
			case strings.HasPrefix(a, "-") && a != "-":
				return
			default:
				query = a
				nq++
			}
		}
		if nq != 1 || strings.TrimSpace(query) == "" {
			return
		}
		e := corpusEntry{Name: cur.name, Query: query}
		if nullInput {
			e.Inputs = []any{nil}
		} else {
			dec := json.NewDecoder(strings.NewReader(cur.input))
			for len(e.Inputs) < 3 {
				var v any
				if err := dec.Decode(&v); err != nil {
					break
				}
				e.Inputs = append(e.Inputs, normalize(v))
			}
			if len(e.Inputs) == 0 {
				e.Inputs = []any{nil}
			}
		}
		out = append(out, e)
	}
	// scalar parses the scalar starting at lines[i] after the given prefix; returns value, next line index, ok
	scalar := func(rest string, i int, indent int) (string, int, bool) {
		rest = strings.TrimSpace(rest)
		switch {
		case rest == "|" || rest == "|-" || rest == "|+":
			var sb []string
			j := i + 1
			blockIndent := -1
			for ; j < len(lines); j++ {
				l := lines[j]
				if strings.TrimSpace(l) == "" {
					sb = append(sb, "")
					continue
				}
				ind := len(l) - len(strings.TrimLeft(l, " "))
				if ind <= indent {
					break
				}
				if blockIndent < 0 {
					blockIndent = ind
				}
				if ind < blockIndent {
					break
				}
				sb = append(sb, l[blockIndent:])
			}
			for len(sb) > 0 && sb[len(sb)-1] == "" {
				sb = sb[:len(sb)-1]
			}
			s := strings.Join(sb, "\n")
			if rest != "|-" {
				s += "\n"
			}
			return s, j, true
		case strings.HasPrefix(rest, "'"):
			if len(rest) < 2 || !strings.HasSuffix(rest, "'") {
				return "", i + 1, false
			}
			body := rest[1 : len(rest)-1]
			if strings.Contains(strings.ReplaceAll(body, "''", ""), "'") {
				return "", i + 1, false
			}
			return strings.ReplaceAll(body, "''", "'"), i + 1, true
		case strings.HasPrefix(rest, "\""):
			s, err := strconv.Unquote(rest)
			if err != nil {
				return "", i + 1, false
			}
			return s, i + 1, true
		case strings.HasPrefix(rest, ">") || strings.HasPrefix(rest, "&") || strings.HasPrefix(rest, "*") || strings.HasPrefix(rest, "!"):
			return "", i + 1, false
		default:
			return rest, i + 1, true
		}
	}
	for i := 0; i < len(lines); {
		l := lines[i]
		switch {
		case strings.HasPrefix(l, "- name:"):
			flush()
			cur = &raw{name: strings.TrimSpace(strings.TrimPrefix(l, "- name:"))}
			i++
		case cur != nil && strings.HasPrefix(l, "  args:"):
			i++
			for i < len(lines) && strings.HasPrefix(lines[i], "    - ") {
				v, ni, ok := scalar(strings.TrimPrefix(lines[i], "    - "), i, 4)
				if !ok {
					cur.bad = true
				}
				cur.args = append(cur.args, v)
				i = ni
			}
		case cur != nil && strings.HasPrefix(l, "  input:"):
			v, ni, ok := scalar(strings.TrimPrefix(l, "  input:"), i, 2)
			if !ok {
				cur.bad = true
			}
			cur.input = v
			i = ni
		case cur != nil && strings.HasPrefix(l, "  env:"):
			cur.bad = true // environment-dependent
			i++
		default:
			i++
		}
	}
	flush()
	return out
}

// normalize turns integral float64 values into int, as the command's input
// reader does for integer literals.
func normalize(v any) any {
	switch v := v.(type) {
	case float64:
		if v == math.Trunc(v) && math.Abs(v) < 1e15 {
			return int(v)
		}
		return v
	case []any:
		for i := range v {
			v[i] = normalize(v[i])
		}
		return v
	case map[string]any:
		for k := range v {
			v[k] = normalize(v[k])
		}
		return v
	}
	return v
}

// C07 — cancellation is prompt, prefix-consistent and terminal.
//
// correspondence streams (model = lean/Gojq/Model/VM.lean, a transliteration of (*env).Next that
// runs the real bytecode with every call out of the loop taken from the real run as an oracle):
//
//	vm       (value, ok) history of each subject, uncancelled and cancelled at poll k
//	lockstep the VM state at the top of every instruction (VerifStep) of the same runs
//	oneshot  the iterators RunWithContext returns on arity mismatch / compile error
//
// oracle (model-free, real code only): for every subject and every cancellation point k the
// history is the uncancelled history cut at poll k, one context error returned at that very
// poll, then (nil, false) for ever; every instruction polls the context exactly once; no Next
// call after exhaustion, after cancellation or after an emitted error panics.
package main

import (
	"fmt"
	"hash/fnv"
	"math/big"
	"os"
	"regexp"
	"sort"
	"strings"

	"github.com/itchyny/gojq"

	"verifharness/common"
)

// ---------- subjects ------------------------------------------------------------------------

type subject struct {
	src    string
	input  any
	origin string
}

var fixedSubjects = []subject{
	{"def f: f; f, f", nil, ""},
	{"def f: f; f", nil, ""},
	{"repeat(1)", nil, ""},
	{"range(infinite)", nil, ""},
	{"range(5)", nil, ""},
	{"range(0)", nil, ""},
	{"range(1)", nil, ""},
	{"range(0;10;3)", nil, ""},
	{"[range(10)] | length", nil, ""},
	{"0 | until(. > 20; . + 1)", nil, ""},
	{"1 | until(false; . + 1)", nil, ""},
	{"[1,[2,[3,[4]]]] | recurse", nil, ""},
	{"recurse(if . < 30 then . + 1 else empty end)", 0, ""},
	{"..", map[string]any{"a": []any{1, 2, map[string]any{"b": nil}}, "c": "x"}, ""},
	{"[limit(3; repeat(1))]", nil, ""},
	{"limit(1; 1, 2)", nil, ""},
	{"limit(0; 1, 2)", nil, ""},
	{"first(1, 2)", nil, ""},
	{"first(empty)", nil, ""},
	{"isempty(empty)", nil, ""},
	{"label $l | 1", nil, ""},
	{"label $l | 1, break $l, 2", nil, ""},
	{"[label $out | range(10) | ., (select(. == 3) | break $out)]", nil, ""},
	{"label $f | error(\"x\")", nil, ""},
	{"path(..)", []any{[]any{1}, map[string]any{"a": 2}}, ""},
	{"[paths]", map[string]any{"a": []any{1, 2}, "b": map[string]any{"c": 3}}, ""},
	{"path(.a[].b?)", map[string]any{"a": []any{map[string]any{"b": 1}, 2}}, ""},
	{"path([] | .[])", nil, ""},
	{"path({} | .[])", nil, ""},
	{".[:0] as $x | path($x | .[])", []any{1, 2}, ""},
	{"path(1 | .a)", nil, ""},
	{"try path(.a | map(. + 1)) catch .", map[string]any{"a": []any{1}}, ""},
	{"path(getpath([\"a\",\"b\"]))", nil, ""},
	{"path(.[1:][0])", []any{1, 2, 3}, ""},
	{"reduce range(10) as $x (0; . + $x)", nil, ""},
	{"reduce .[] as [$a, $b] (0; . + $a * $b)", []any{[]any{1, 2}, []any{3, 4}}, ""},
	{"foreach range(5) as $x (0; . + $x; [$x, .])", nil, ""},
	{"[foreach .[] as $x (0; . + $x)]", []any{1, 2, 3}, ""},
	{".[] |= . + 1", []any{1, 2, 3}, ""},
	{".a.b |= . + 1", map[string]any{"a": map[string]any{"b": 1}}, ""},
	{"(.a, .b) = 3", map[string]any{"a": 1}, ""},
	{".[] += 2", []any{1, 2}, ""},
	{"del(.[0, 2])", []any{1, 2, 3, 4}, ""},
	{"to_entries", map[string]any{"a": 1, "b": 2}, ""},
	{"with_entries(.value += 1)", map[string]any{"a": 1, "b": 2}, ""},
	{"def f(n): if n > 0 then n, f(n - 1) else empty end; f(5)", nil, ""},
	{"def f: if . < 50 then . + 1 | f else . end; f", 0, ""},
	{"def h: ., (. + 1 | select(. < 20) | h); h", 0, ""},
	{"def g: (. + 1 | select(. < 15) | g) // .; g", 0, ""},
	{"def fac: if . <= 1 then 1 else . * (. - 1 | fac) end; [range(8) | fac]", nil, ""},
	{"try error catch .", "boom", ""},
	{"try error(\"x\") catch .", nil, ""},
	{"try error({a: 1}) catch .a", nil, ""},
	{"try (1 | .[]) catch .", nil, ""},
	{"[.[] | try error catch .]", []any{1, nil, "a"}, ""},
	{"try (try error(\"x\") catch error(\"y\")) catch .", nil, ""},
	{"(try error(\"x\") catch .) | error", nil, ""},
	{".[]?", 1, ""},
	{".[]?", []any{1, []any{2}}, ""},
	{"[.[] | .a?]", []any{1, map[string]any{"a": 2}}, ""},
	{"error(\"x\"), 1", nil, ""},
	{"1, error(\"x\"), 2, error(\"y\"), 3", nil, ""},
	{".[] | error", []any{1, 2}, ""},
	{"error(null)", nil, ""},
	{".[]", []any{}, ""},
	{".[]", map[string]any{}, ""},
	{".[]", []any{1, 2, 3}, ""},
	{".[]", map[string]any{"b": 1, "a": 2}, ""},
	{".[]", 1, ""},
	{".a[]", map[string]any{"a": []any{}}, ""},
	{"1 | .[]", nil, ""},
	{"{(1): 2}", nil, ""},
	{"{a: (1, 2), (\"b\", \"c\"): 3}", nil, ""},
	{".a.b.c", map[string]any{"a": map[string]any{"b": map[string]any{"c": 1}}}, ""},
	{".a", 1, ""},
	{". as [$a, {b: $c}] | $a + $c", []any{1, map[string]any{"b": 2}}, ""},
	{". as [$a] ?// $a | $a", []any{1}, ""},
	{". as {a: $x} ?// [$x] | $x", []any{3}, ""},
	{"1 // 2", nil, ""},
	{"(false, null, 1) // 2", nil, ""},
	{"empty // 2", nil, ""},
	{"[.[] | select(. > 1)]", []any{1, 2, 3}, ""},
	{"map(. * 2) | add", []any{1, 2, 3}, ""},
	{"[splits(\", \")]", "a, b, c", ""},
	{"[match(\"a\"; \"g\").offset]", "banana", ""},
	{"group_by(.a) | map(length)", []any{map[string]any{"a": 1}, map[string]any{"a": 2}, map[string]any{"a": 1}}, ""},
	{"[range(5)] | sort_by(-.) | first, last", nil, ""},
	{"[limit(5; range(infinite) | select(. % 2 == 0))]", nil, ""},
	{"[while(. < 10; . * 2)]", 1, ""},
	{"halt", nil, ""},
	{"1, halt_error, 2", "bye", ""},
	{"getpath([\"a\", 0, \"b\"])", map[string]any{"a": []any{map[string]any{"b": 5}}}, ""},
	{"[paths(type == \"number\")]", []any{1, []any{2, "x"}}, ""},
	{"tostream", map[string]any{"a": []any{1, 2}}, ""},
	{"fromstream(tostream)", []any{1, []any{2}}, ""},
	{"[.[] as $x | $x | tojson]", []any{1, "a", nil}, ""},
	{"walk(if type == \"number\" then . + 1 else . end)", []any{1, []any{2}}, ""},
	{"env | type", nil, ""},
	{"ltrimstr(\"a\") | ascii_downcase | explode | implode", "aBC", ""},
	{"if . then 1 elif . == null then 2 else 3 end", nil, ""},
	{"[.[] | if . > 1 then \"big\" else \"small\" end]", []any{1, 2}, ""},
	{"\"x\\(1 + 2)y\\(.)\"", "z", ""},
	{"@base64 \"a\\(.)\"", "hi", ""},
	{"[combinations]", []any{[]any{1, 2}, []any{3, 4}}, ""},
	{"first(range(10; 0; -3))", nil, ""},
	{"[range(3) as $i | range($i)]", nil, ""},
	{"any(.[]; . > 2), all(.[]; . > 0)", []any{1, 2, 3}, ""},
	{"indices(1)", []any{0, 1, 2, 1}, ""},
	{"inside([1,2,3])", []any{1}, ""},
	{"getpath([\"a\"]) = 1", nil, ""},
	{"to_entries[] | select(.value > 1) | .key", map[string]any{"a": 1, "b": 2, "c": 3}, ""},
	{"[.. | numbers]", []any{1, []any{2, map[string]any{"a": 3}}}, ""},
	{"splits(\"a\")", 1, ""},
	{"[limit(3; .[])]", []any{1, 2, 3, 4, 5}, ""},
	{"nth(2; .[])", []any{1, 2, 3, 4, 5}, ""},
	{"[.[] | tostring]", []any{1, "1", []any{1}}, ""},
	{"min_by(.a), max_by(.a)", []any{map[string]any{"a": 2}, map[string]any{"a": 1}}, ""},
	{"flatten(1)", []any{1, []any{2, []any{3}}}, ""},
	{"try flatten(-1) catch .", []any{1}, ""},
	{"ltrimstr(1)", "a", ""},
	{"[.[] | (1 / .)?]", []any{1, 0, 2}, ""},
	{"try (1 / 0) catch .", nil, ""},
	{".. |= (if type == \"number\" then . + 1 else . end)", []any{1, []any{2}}, ""},
	{"[.[] | numbers, strings]", []any{1, "a", nil}, ""},
	{"@json, @text, @csv, @tsv, @html, @uri, @sh, @base64, @base64d", []any{1, "a b"}, ""},
}

var nondet = regexp.MustCompile(`\bnow\b|localtime|mktime|gmtime|strftime|strflocaltime|date|\binput_filename\b|\bimport\b|\binclude\b|\$__prog|get_search_list|modulemeta|\d{7,}|infinite \*|\* *infinite`)

// ---------- preparing a subject -------------------------------------------------------------

type prepared struct {
	subject
	key     string
	code    *gojq.Code // instrumented: natives report to rec
	plain   *gojq.Code
	rec     *gojq.VerifRecorder
	instrs  []gojq.VerifInstr
	codeTxt string // "" if some constant has no wire form
	inTxt   string
}

func prepare(s subject) (*prepared, error) {
	q, err := gojq.Parse(s.src)
	if err != nil {
		return nil, err
	}
	c, err := gojq.Compile(q)
	if err != nil {
		return nil, err
	}
	p := &prepared{subject: s, plain: c, rec: &gojq.VerifRecorder{}}
	p.code = gojq.VerifInstrument(c, p.rec)
	p.instrs = gojq.VerifCodes(c)
	p.codeTxt = encodeCode(p.instrs)
	p.inTxt = common.Canon(s.input)
	p.key = s.src + ":" + p.inTxt
	return p, nil
}

func isJSON(v any) bool {
	switch v := v.(type) {
	case nil, bool, int, float64, *big.Int, string:
		return true
	case []any:
		for _, x := range v {
			if !isJSON(x) {
				return false
			}
		}
		return true
	case map[string]any:
		for _, x := range v {
			if !isJSON(x) {
				return false
			}
		}
		return true
	}
	return false
}

func encodeCode(ins []gojq.VerifInstr) string {
	var sb strings.Builder
	for i, in := range ins {
		if i > 0 {
			sb.WriteString(" ; ")
		}
		switch in.Op {
		case "nop", "pop", "dup", "forktryend", "backtrack", "callpc", "ret", "iter", "expbegin", "expend", "pathbegin", "pathend":
			sb.WriteString(in.Op) // these cases never look at the operand (the optimiser leaves stale ones on nop)
		case "push", "const", "index", "indexarray":
			if in.Kind != "value" {
				sb.WriteString("bad")
			} else if !isJSON(in.Value) {
				return ""
			} else {
				sb.WriteString(in.Op + " " + common.Canon(in.Value))
			}
		case "load", "store", "append", "forklabel":
			if in.Kind != "ints" || len(in.Ints) != 2 {
				sb.WriteString("bad")
			} else {
				fmt.Fprintf(&sb, "%s %d %d", in.Op, in.Ints[0], in.Ints[1])
			}
		case "object", "fork", "forktrybegin", "forkalt", "jump", "jumpifnot", "callrec", "pushpc":
			if in.Kind != "int" {
				sb.WriteString("bad")
			} else {
				fmt.Fprintf(&sb, "%s %d", in.Op, in.Int)
			}
		case "call":
			switch in.Kind {
			case "int":
				fmt.Fprintf(&sb, "call %d", in.Int)
			case "native":
				fmt.Fprintf(&sb, "calln %s %d", in.Name, in.Argc)
			default:
				sb.WriteString("bad")
			}
		case "scope":
			if in.Kind != "ints" || len(in.Ints) != 3 {
				sb.WriteString("bad")
			} else {
				fmt.Fprintf(&sb, "scope %d %d %d", in.Ints[0], in.Ints[1], in.Ints[2])
			}
		default:
			sb.WriteString("bad")
		}
	}
	return sb.String()
}

// ---------- rendering -----------------------------------------------------------------------

func showV(v any) string {
	if id, ok := gojq.VerifIterID(v); ok {
		return fmt.Sprintf("I%d", id)
	}
	if isJSON(v) {
		return common.Canon(v)
	}
	return "T"
}

func showErr(err error) string {
	class, name, v, inner, _ := gojq.VerifErrInfo(err)
	switch class {
	case "tryend":
		return "tryend " + showErr(inner)
	case "break":
		return "break " + xhex(name) + " " + showV(v)
	case "halt":
		return "halt " + showV(v)
	case "value":
		return "value " + showV(v)
	}
	return "msg " + xhex(err.Error())
}

// ---------- one real run --------------------------------------------------------------------

type item struct {
	txt        string
	pollsAfter int
	traceEnd   int
	kind       byte // V E D C P
}

type extRec struct {
	call, intact, preview string
}

type run struct {
	items     []item
	trace     []gojq.VerifState
	ext       map[int]*extRec
	polls     int
	noPoll    string // an instruction ran without polling the context / cancellation was ignored
	noPollKey string // "no-poll" | "not-prompt"
	panicAt   int
	panicTxt  string
}

type sentinel string

// runReal runs the subject with the context cancelled at poll `limit` (<0: never). It calls
// Next until it returns false and then `extra` more times, or exactly `fixedCalls` times if > 0.
func runReal(p *prepared, limit, fixedCalls, maxCalls, extra int, record bool) *run {
	r := &run{panicAt: -1, ext: map[int]*extRec{}}
	ctx := common.NewCountCtx(limit)
	var it gojq.Iter
	steps := 0
	var cur *extRec
	p.rec.On = nil
	if record {
		p.rec.On = func(ev gojq.VerifExtEvent) {
			if cur == nil {
				return
			}
			switch {
			case ev.End:
				cur.call = "c end"
			case ev.Err != nil:
				cur.call = "c e " + showErr(ev.Err)
			default:
				cur.call = "c v " + showV(ev.Value)
			}
		}
	}
	gojq.VerifStep = func(st gojq.VerifState) {
		if steps != ctx.Polls {
			r.noPoll = fmt.Sprintf("instruction #%d (pc %d -> now pc %d) ran without polling the context: %d polls after %d instructions", steps-1, prevPC(r), st.PC, ctx.Polls, steps)
			r.noPollKey = "no-poll"
			panic(sentinel("nopoll"))
		}
		if limit >= 0 && steps > limit {
			r.noPoll = fmt.Sprintf("context cancelled at poll %d but instruction #%d (pc %d) is being executed", limit, steps, st.PC)
			r.noPollKey = "not-prompt"
			panic(sentinel("notprompt"))
		}
		k := steps
		steps++
		if !record {
			return
		}
		r.trace = append(r.trace, st)
		cur = &extRec{}
		probe(p, it, st, cur)
		r.ext[k] = cur
	}
	defer func() { gojq.VerifStep = nil; p.rec.On = nil }()
	it = p.code.RunWithContext(ctx, common.DeepCopy(p.input))
	done := false
	for calls := 0; ; calls++ {
		if fixedCalls > 0 && calls >= fixedCalls || fixedCalls <= 0 && (calls >= maxCalls || done && extra <= 0) {
			break
		}
		if done {
			extra--
		}
		var v any
		var ok bool
		var pan any
		func() {
			defer func() { pan = recover() }()
			v, ok = it.Next()
		}()
		cur = nil
		itm := item{pollsAfter: ctx.Polls, traceEnd: len(r.trace)}
		switch {
		case pan != nil:
			itm.kind, itm.txt = 'P', fmt.Sprint("PANIC ", pan)
			r.panicAt, r.panicTxt = calls, fmt.Sprint(pan)
			r.items = append(r.items, itm)
			r.polls = ctx.Polls
			return r
		case !ok:
			itm.kind, itm.txt = 'D', "DONE"
			done = true
		default:
			if e, isErr := v.(error); isErr {
				if e == common.ErrBudget {
					itm.kind, itm.txt = 'C', "CTXERR"
				} else {
					itm.kind, itm.txt = 'E', "ERR "+showErr(e)
				}
			} else {
				itm.kind, itm.txt = 'V', "VAL "+showV(v)
			}
		}
		r.items = append(r.items, itm)
	}
	r.polls = ctx.Polls
	return r
}

func prevPC(r *run) int {
	if len(r.trace) == 0 {
		return -1
	}
	return r.trace[len(r.trace)-1].PC
}

// probe records what the instruction about to run will obtain from outside the loop and cannot
// be intercepted at a callback: funcIndex2, pathIntact, typeErrorPreview of the blamed value.
func probe(p *prepared, it gojq.Iter, st gojq.VerifState, cur *extRec) {
	if st.PC < 0 || st.PC >= len(p.instrs) {
		return
	}
	in := p.instrs[st.PC]
	blame := func(depth int, intact bool) (any, bool) {
		v, ok := gojq.VerifPeek(it, depth)
		if !ok {
			return nil, false
		}
		if pv, ok := preview(v); ok {
			cur.preview = "p " + xhex(pv)
		}
		if intact {
			if b, ok := gojq.VerifPathIntact(it, v); ok {
				if b {
					cur.intact = "i 1"
				} else {
					cur.intact = "i 0"
				}
			}
		}
		return v, true
	}
	switch in.Op {
	case "index", "indexarray":
		if v, ok := blame(0, true); ok && in.Kind == "value" {
			w := gojq.VerifIndex2(v, in.Value)
			if e, isErr := w.(error); isErr {
				cur.call = "c e " + showErr(e)
			} else {
				cur.call = "c v " + showV(w)
			}
		}
	case "iter":
		blame(0, true)
	case "pathend":
		blame(1, true)
	case "call":
		if in.Kind == "native" {
			switch in.Name {
			case "_index", "_slice":
				blame(1, true)
			case "getpath":
				blame(0, true)
			}
		}
	case "object":
		for i := 0; i < in.Int; i++ {
			k, ok := gojq.VerifPeek(it, 2*i+1)
			if !ok {
				break
			}
			if _, isStr := k.(string); !isStr {
				if pv, ok := preview(k); ok {
					cur.preview = "p " + xhex(pv)
				}
				break
			}
		}
	}
}

// preview is typeErrorPreview(v); it panics on values that are not of the gojq value universe
// (closures, []pathValue), exactly as the error's Error() method would.
func preview(v any) (s string, ok bool) {
	defer func() {
		if recover() != nil {
			s, ok = "", false
		}
	}()
	return gojq.VerifTypeErrorPreview(v), true
}

// xhex is the protocol's byte-string token: "x" + hex (never empty)
func xhex(s string) string { return "x" + common.Hex(s) }

func (r *run) history() string {
	xs := make([]string, len(r.items))
	for i, it := range r.items {
		xs[i] = it.txt
	}
	return strings.Join(xs, " ; ")
}

func (r *run) nvals() int {
	n := 0
	for _, it := range r.items {
		if it.kind == 'V' {
			n++
		}
	}
	return n
}

func (r *run) extTxt() string {
	ks := make([]int, 0, len(r.ext))
	for k, e := range r.ext {
		if e.call != "" || e.intact != "" || e.preview != "" {
			ks = append(ks, k)
		}
	}
	sort.Ints(ks)
	var sb strings.Builder
	for i, k := range ks {
		if i > 0 {
			sb.WriteString(" ; ")
		}
		e := r.ext[k]
		fmt.Fprintf(&sb, "%d", k)
		for _, f := range []string{e.call, e.intact, e.preview} {
			if f != "" {
				sb.WriteString(" " + f)
			}
		}
	}
	return sb.String()
}

func b01(b bool) string {
	if b {
		return "1"
	}
	return "0"
}

func (r *run) traceTxt() string {
	var sb strings.Builder
	pos := 0
	for i, it := range r.items {
		for ; pos < it.traceEnd; pos++ {
			s := r.trace[pos]
			fmt.Fprintf(&sb, "%d,%s,%s,%d,%d,%d,%d,%d,%d,%d,%d,%d,%d,%d,%d,%d,%d ", s.PC, b01(s.Backtrack), b01(s.Err), s.Forks,
				s.StackIndex, s.StackLimit, s.StackLen, s.ScopeIndex, s.ScopeLimit, s.ScopeLen, s.PathIndex, s.PathLimit, s.PathLen,
				s.Offset, s.Values, s.Expdepth, s.Label)
		}
		sb.WriteString("/ " + it.txt)
		if i < len(r.items)-1 {
			sb.WriteString(" ")
		}
	}
	return sb.String()
}

func hashTxt(nvals int, txt string) string {
	h := fnv.New64a()
	h.Write([]byte(txt))
	return fmt.Sprintf("H%d:%d", nvals, h.Sum64())
}

// ---------- the oracle on one (subject, k) --------------------------------------------------

// expected history of the run cancelled at poll k, computed from the reference run alone
func expected(ref *run, k int) (items []item) {
	cancelled := false
	for _, it := range ref.items {
		switch {
		case cancelled:
			items = append(items, item{txt: "DONE", kind: 'D', pollsAfter: k + 1})
		case it.pollsAfter <= k:
			items = append(items, it)
		default:
			cancelled = true
			items = append(items, item{txt: "CTXERR", kind: 'C', pollsAfter: k + 1})
		}
	}
	return
}

func replay(p *prepared, extra map[string]any) map[string]any {
	m := map[string]any{"query": p.src, "input": p.inTxt, "origin": p.origin,
		"how": "library: gojq.Parse(query), Compile, code.RunWithContext(ctx, input) with a context whose Done() closes at the k-th poll (harness/common/run.go CountCtx); call Next repeatedly"}
	for k, v := range extra {
		m[k] = v
	}
	return m
}

func main() {
	ctx := common.ParseFlags("C07")
	r := ctx.R
	repo := common.Getenv("VERIF_REPO", "/repo")

	// ----- subjects --------------------------------------------------------------------------
	var subs []*prepared
	seen := map[string]bool{}
	add := func(s subject) *prepared {
		if nondet.MatchString(s.src) {
			return nil
		}
		p, err := prepare(s)
		if err != nil || seen[p.key] {
			return nil
		}
		seen[p.key] = true
		subs = append(subs, p)
		return p
	}
	for _, s := range fixedSubjects {
		s.origin = "fixed"
		if add(s) == nil {
			ctx.Errorf("fixed subject does not compile: %s", s.src)
		}
	}
	corpus := loadCorpus(repo)
	if len(corpus) < 300 {
		ctx.Errorf("only %d programs could be read from %s/cli/test.yaml", len(corpus), repo)
	}
	nCorpus := 0
	for _, e := range corpus {
		for i, in := range e.Inputs {
			if i > 0 && !ctx.Thorough {
				break
			}
			if add(subject{e.Query, in, "corpus"}) != nil {
				nCorpus++
			}
		}
	}
	// token-mutation fuzz of corpus queries
	nFuzz := ctx.N(4000, 60000)
	var fuzz []*prepared
	pool := tokenPool(corpus)
	for tries := 0; len(fuzz) < nFuzz && tries < nFuzz*20; tries++ {
		e := corpus[r.Intn(len(corpus))]
		src := mutate(r, e.Query, pool)
		if src == e.Query || nondet.MatchString(src) {
			continue
		}
		s := subject{src, common.Pick(r, e.Inputs), "fuzz"}
		p, err := prepare(s)
		if err != nil || seen[p.key] {
			continue
		}
		seen[p.key] = true
		fuzz = append(fuzz, p)
	}

	capPolls := ctx.N(400, 2500)
	vm := ctx.NewStream("vm", "Gojq.VM.next / history (Model/VM.lean): the (value, ok) history of successive Next calls on the real bytecode, uncancelled and cancelled at poll k",
		"one case per (program, input): the uncancelled history in full plus the hashed history for every listed cancellation point; distinct = distinct implementation answers")
	lock := ctx.NewStream("lockstep", "Gojq.VM.step / exec (Model/VM.lean): pc, backtrack, err, |forks|, index/limit/len of the three stacks, offset, |values|, expdepth, label at the top of every instruction (VerifStep)",
		"one case per (program, input, cancellation point): the whole state trace; distinct = distinct traces")
	orc := ctx.NewOracle("cancel-sweep", "every (program, input, k): history = uncancelled history cut at poll k ++ [context error at poll k] ++ (nil,false)…; every instruction polls once; no panic in any call after exhaustion/cancellation/error; distinct = distinct (program, input) with at least 4 polls")
	var vmLines, vmImpl, lockLines, lockImpl []string

	sweep := func(p *prepared, allK bool, nLock int) {
		ref := runReal(p, capPolls, 0, capPolls+60, 8, true)
		orc.Cases++
		if ref.noPoll != "" {
			ctx.Violate(ref.noPollKey+":"+p.key, ref.noPoll, replay(p, map[string]any{"k": capPolls, "observed": ref.noPoll, "expected": "ctx.Done() is polled once at the top of every instruction"}))
			return
		}
		checkPanic(ctx, p, ref, capPolls)
		if ref.panicAt >= 0 {
			return
		}
		N := ref.polls
		if N >= 4 {
			orc.Distinct++
		}
		orc.Distribution[p.origin+":polls<"+bucket(N)]++
		if ref.polls > capPolls {
			orc.Distribution["capped (infinite or long)"]++
		}
		// after the first DONE or CTXERR everything must be DONE
		checkTerminal(ctx, p, ref, capPolls)
		ncalls := len(ref.items)
		// cancellation points
		var ks []int
		top := N
		if top > capPolls {
			top = capPolls
		}
		for k := 0; k <= top; k++ {
			if allK || ctx.Thorough || k <= 250 || k%5 == 0 || k >= top-3 {
				ks = append(ks, k)
			}
		}
		refK := "-"
		if ref.polls > capPolls {
			refK = fmt.Sprintf("=%d", capPolls)
		}
		ksTxt := []string{refK}
		impl := []string{ref.history()}
		lockKs := map[int]bool{}
		for i := 0; i < nLock && len(ks) > 0; i++ {
			lockKs[ks[r.Intn(len(ks))]] = true
		}
		for _, k := range ks {
			rk := runReal(p, k, ncalls, 0, 0, lockKs[k])
			orc.Cases++
			if rk.noPoll != "" {
				ctx.Violate(rk.noPollKey+":"+p.key, rk.noPoll, replay(p, map[string]any{"k": k, "observed": rk.noPoll, "expected": "Next returns the context error at poll k without executing the instruction"}))
				return
			}
			checkPanic(ctx, p, rk, k)
			want := expected(ref, k)
			if bad := diffItems(want, rk.items); bad != "" {
				ctx.Violate("cancel-history:"+p.key, fmt.Sprintf("cancelled at poll %d: %s", k, bad),
					replay(p, map[string]any{"k": k, "observed": rk.history(), "expected": (&run{items: want}).history(), "uncancelled": ref.history()}))
			}
			ksTxt = append(ksTxt, fmt.Sprint(k))
			impl = append(impl, hashTxt(rk.nvals(), rk.history()))
			if lockKs[k] && p.codeTxt != "" {
				lockLines = append(lockLines, fmt.Sprintf("%s | %s | %s | %d | %d | %d", p.codeTxt, p.inTxt, ref.extTxt(), k, ncalls, 2*N+100))
				lockImpl = append(lockImpl, rk.traceTxt())
			}
		}
		if p.codeTxt == "" {
			vm.Distribution["skipped: constant without wire form"]++
			return
		}
		vm.Distribution[p.origin]++
		vmLines = append(vmLines, fmt.Sprintf("%s | %s | %s | %s | %d | %d", p.codeTxt, p.inTxt, ref.extTxt(), strings.Join(ksTxt, " "), ncalls, 2*N+100))
		vmImpl = append(vmImpl, strings.Join(impl, " || "))
		lockLines = append(lockLines, fmt.Sprintf("%s | %s | %s | %s | %d | %d", p.codeTxt, p.inTxt, ref.extTxt(), refK, ncalls, 2*N+100))
		lockImpl = append(lockImpl, ref.traceTxt())
		lock.Distribution[p.origin]++
	}
	for _, p := range subs {
		sweep(p, p.origin == "fixed", 2)
	}
	orc.Samples = []string{"def f: f; f, f cancelled at every poll 0..300", "path([] | .[]): error, then 8 more Next calls", ".[] |= . + 1 on [1,2,3] cancelled at every poll"}

	// ----- fuzz: extra Next calls never panic; a sample also goes through the model -------------
	fz := ctx.NewOracle("extra-next-fuzz", "token-mutated corpus queries that still compile: run under a 1500-poll budget (a) through errors to the end, (b) to the first error, then 8 more Next calls: no panic, and (nil,false) for ever after the first (nil,false) or context error; distinct = distinct mutated queries")
	nModel := ctx.N(800, 4000)
	for i, p := range fuzz {
		fz.Cases++
		fz.Distinct++
		if i < nModel {
			sweepFuzz(ctx, p, r, capPolls, orc, vm, lock, &vmLines, &vmImpl, &lockLines, &lockImpl)
		}
		budget := 1500
		a := runReal(p, budget, 0, 400, 8, false)
		if a.noPoll != "" {
			ctx.Violate(a.noPollKey+":"+p.key, a.noPoll, replay(p, map[string]any{"k": budget, "observed": a.noPoll}))
			continue
		}
		checkPanic(ctx, p, a, budget)
		checkTerminal(ctx, p, a, budget)
		fz.Distribution["end:"+endKind(a)]++
		// (b) stop at the first error, then 8 more calls
		firstErr := -1
		for j, it := range a.items {
			if it.kind == 'E' {
				firstErr = j
				break
			}
		}
		if firstErr >= 0 && a.panicAt < 0 {
			b := runReal(p, budget, firstErr+1+8, 0, 0, false)
			checkPanic(ctx, p, b, budget)
			fz.Cases++
		}
	}
	fz.Samples = []string{"mutants of cli/test.yaml queries, e.g. " + sample(fuzz, 0), sample(fuzz, 1)}

	if d := os.Getenv("C07_DUMP"); d != "" {
		os.WriteFile(d+"/vm.lines", []byte(strings.Join(vmLines, "\n")+"\n"), 0o644)
		os.WriteFile(d+"/vm.impl", []byte(strings.Join(vmImpl, "\n")+"\n"), 0o644)
		os.WriteFile(d+"/lock.lines", []byte(strings.Join(lockLines, "\n")+"\n"), 0o644)
		os.WriteFile(d+"/lock.impl", []byte(strings.Join(lockImpl, "\n")+"\n"), 0o644)
	}
	ctx.RunStream(vm, vmLines, vmImpl)
	ctx.RunStream(lock, lockLines, lockImpl)

	// ----- one-shot iterators ----------------------------------------------------------------
	oneshot(ctx)
	// ----- histories over several iterators ---------------------------------------------------
	interleaveOracle(ctx)
	realContextsOracle(ctx)
	customIterErrorsOracle(ctx)

	ctx.Res.Notes = append(ctx.Res.Notes,
		fmt.Sprintf("subjects: %d fixed, %d from cli/test.yaml (%d entries readable), %d token mutants (%d of them also through the model)", len(fixedSubjects), nCorpus, len(corpus), len(fuzz), min(nModel, len(fuzz))),
		"promptness is counted in interpreter polls (one per instruction); a single native call on a huge value is one step and is not interruptible (DESIGN C07 gap)")
	ctx.Finish()
}

func sweepFuzz(ctx *common.Ctx, p *prepared, r *common.Rand, capPolls int, orc *common.Oracle, vm, lock *common.Stream, vmLines, vmImpl, lockLines, lockImpl *[]string) {
	ref := runReal(p, capPolls, 0, capPolls+60, 8, true)
	if ref.noPoll != "" || ref.panicAt >= 0 {
		return // reported by the caller's own run
	}
	N := ref.polls
	ncalls := len(ref.items)
	top := min(N, capPolls)
	refK := "-"
	if ref.polls > capPolls {
		refK = fmt.Sprintf("=%d", capPolls)
	}
	ksTxt := []string{refK}
	impl := []string{ref.history()}
	for i := 0; i < 12; i++ {
		k := r.Intn(top + 1)
		rk := runReal(p, k, ncalls, 0, 0, false)
		orc.Cases++
		if rk.noPoll != "" {
			ctx.Violate(rk.noPollKey+":"+p.key, rk.noPoll, replay(p, map[string]any{"k": k, "observed": rk.noPoll}))
			return
		}
		checkPanic(ctx, p, rk, k)
		want := expected(ref, k)
		if bad := diffItems(want, rk.items); bad != "" {
			ctx.Violate("cancel-history:"+p.key, fmt.Sprintf("cancelled at poll %d: %s", k, bad),
				replay(p, map[string]any{"k": k, "observed": rk.history(), "expected": (&run{items: want}).history(), "uncancelled": ref.history()}))
		}
		ksTxt = append(ksTxt, fmt.Sprint(k))
		impl = append(impl, hashTxt(rk.nvals(), rk.history()))
	}
	if p.codeTxt == "" {
		vm.Distribution["skipped: constant without wire form"]++
		return
	}
	vm.Distribution[p.origin]++
	lock.Distribution[p.origin]++
	*vmLines = append(*vmLines, fmt.Sprintf("%s | %s | %s | %s | %d | %d", p.codeTxt, p.inTxt, ref.extTxt(), strings.Join(ksTxt, " "), ncalls, 2*N+100))
	*vmImpl = append(*vmImpl, strings.Join(impl, " || "))
	*lockLines = append(*lockLines, fmt.Sprintf("%s | %s | %s | %s | %d | %d", p.codeTxt, p.inTxt, ref.extTxt(), refK, ncalls, 2*N+100))
	*lockImpl = append(*lockImpl, ref.traceTxt())
}

func sample(ps []*prepared, i int) string {
	if i < len(ps) {
		return ps[i].src
	}
	return ""
}

func endKind(r *run) string {
	for _, it := range r.items {
		switch it.kind {
		case 'D':
			return "exhausted"
		case 'C':
			return "budget"
		case 'P':
			return "panic"
		}
	}
	return "call-limit"
}

func bucket(n int) string {
	for _, b := range []int{4, 16, 64, 256, 1024, 4096} {
		if n < b {
			return fmt.Sprint(b)
		}
	}
	return "inf"
}

func diffItems(want, got []item) string {
	if len(want) != len(got) {
		return fmt.Sprintf("%d calls answered, %d expected", len(got), len(want))
	}
	for i := range want {
		if want[i].txt != got[i].txt {
			return fmt.Sprintf("call %d returned %s, expected %s", i+1, clip(got[i].txt), clip(want[i].txt))
		}
		if want[i].pollsAfter != got[i].pollsAfter {
			return fmt.Sprintf("call %d (%s) returned after %d polls, expected %d", i+1, clip(got[i].txt), got[i].pollsAfter, want[i].pollsAfter)
		}
	}
	return ""
}

func clip(s string) string {
	if len(s) > 200 {
		return s[:200] + "…"
	}
	return s
}

// checkPanic: a panic in a call made after (nil,false), after the context error or after an
// emitted error violates C07. A panic before any of those is C08's subject: noted, not judged here.
func checkPanic(ctx *common.Ctx, p *prepared, r *run, k int) {
	if r.panicAt < 0 || r.noPoll != "" {
		return
	}
	after := ""
	for _, it := range r.items[:r.panicAt] {
		switch it.kind {
		case 'D':
			after = "exhaustion"
		case 'C':
			after = "cancellation"
		case 'E':
			if after == "" {
				after = "an emitted error"
			}
		}
	}
	if after == "" {
		if len(ctx.Res.Notes) < 20 {
			ctx.Res.Notes = append(ctx.Res.Notes, fmt.Sprintf("panic during the run proper (C08, not judged here): %s on %s: %s", p.src, p.inTxt, r.panicTxt))
		}
		return
	}
	ctx.Violate("extra-next-panic:"+p.key, fmt.Sprintf("Next call %d, made after %s, panics: %s", r.panicAt+1, after, r.panicTxt),
		replay(p, map[string]any{"k": k, "observed": r.history(), "expected": "no panic; (nil,false) once the iterator is exhausted or cancelled",
			"cmd": "go program: it := gojq.Parse(query).Run(input); call it.Next() " + fmt.Sprint(r.panicAt+1) + " times"}))
}

func checkTerminal(ctx *common.Ctx, p *prepared, r *run, k int) {
	term := false
	for i, it := range r.items {
		if term && it.kind != 'D' && it.kind != 'P' {
			ctx.Violate("not-terminal:"+p.key, fmt.Sprintf("call %d returns %s after the iterator had returned (nil,false) or the context error", i+1, clip(it.txt)),
				replay(p, map[string]any{"k": k, "observed": r.history(), "expected": "(nil,false) for ever"}))
			return
		}
		if it.kind == 'D' || it.kind == 'C' {
			term = true
		}
	}
}

// ---------- token mutation ------------------------------------------------------------------

var tokRe = regexp.MustCompile(`"(?:[^"\\]|\\.)*"|\$?[A-Za-z_][A-Za-z0-9_:]*|\d+(?:\.\d+)?|\?//|\.\.|[|&=!<>+\-*/%]=?|//=?|\S`)

func tokenPool(corpus []corpusEntry) []string {
	seen := map[string]bool{}
	var pool []string
	for _, e := range corpus {
		for _, t := range tokRe.FindAllString(e.Query, -1) {
			if !seen[t] && len(t) < 24 {
				seen[t] = true
				pool = append(pool, t)
			}
		}
	}
	sort.Strings(pool)
	return pool
}

func mutate(r *common.Rand, q string, pool []string) string {
	toks := tokRe.FindAllString(q, -1)
	if len(toks) == 0 || len(toks) > 120 {
		return q
	}
	for n := r.Range(1, 3); n > 0; n-- {
		i := r.Intn(len(toks))
		switch r.Intn(6) {
		case 0:
			toks = append(toks[:i:i], toks[i+1:]...)
		case 1:
			toks = append(toks[:i+1:i+1], toks[i:]...)
		case 2:
			j := r.Intn(len(toks))
			toks[i], toks[j] = toks[j], toks[i]
		case 3:
			toks[i] = common.Pick(r, pool)
		case 4:
			toks = append(toks[:i:i], append([]string{common.Pick(r, []string{"path(", "try", "label $l |", ".[]", "[", "first(", "limit(1;", "| .[]", "?", "reduce", "foreach", "error", "|= ", "break $l", "empty", "getpath(", "..", "as $x |", "//", "?//", "until(", "recurse", "input", "halt_error", "$__loc__", ", ", ")", "]"})}, toks[i:]...)...)
		default:
			toks[i] = common.Pick(r, toks)
		}
		if len(toks) == 0 {
			return q
		}
	}
	return strings.Join(toks, " ")
}

// ---------- one-shot iterators --------------------------------------------------------------

func oneshot(ctx *common.Ctx) {
	st := ctx.NewStream("oneshot", "Gojq.VM.UnitIter (Model/VM.lean): the iterator RunWithContext returns without starting the VM", "each line is a number of Next calls; distinct = distinct answers")
	orc := ctx.NewOracle("oneshot", "arity mismatch (too many / too few variable values) and Query.RunWithContext on a query that does not compile: (err,true), then (nil,false) for ever, under a cancelled and an open context; distinct = distinct (situation, context) pairs")
	q, _ := gojq.Parse("$a + $b")
	code, err := gojq.Compile(q, gojq.WithVariables([]string{"$a", "$b"}))
	if err != nil {
		ctx.Errorf("oneshot: %v", err)
		return
	}
	bad, _ := gojq.Parse("$undefined | nosuchfunction")
	type mk func(c *common.CountCtx) gojq.Iter
	sits := []struct {
		name string
		mk   mk
	}{
		{"too-many-values", func(c *common.CountCtx) gojq.Iter { return code.RunWithContext(c, nil, 1, 2, 3) }},
		{"too-few-values", func(c *common.CountCtx) gojq.Iter { return code.RunWithContext(c, nil, 1) }},
		{"no-values", func(c *common.CountCtx) gojq.Iter { return code.RunWithContext(c, nil) }},
		{"compile-error", func(c *common.CountCtx) gojq.Iter { return bad.RunWithContext(c, nil) }},
	}
	var lines, impl []string
	for _, s := range sits {
		for _, lim := range []int{-1, 0} {
			for _, n := range []int{1, 2, 10} {
				c := common.NewCountCtx(lim)
				it := s.mk(c)
				var xs []string
				for i := 0; i < n; i++ {
					var v any
					var ok bool
					var pan any
					func() {
						defer func() { pan = recover() }()
						v, ok = it.Next()
					}()
					switch {
					case pan != nil:
						xs = append(xs, "PANIC")
					case !ok:
						xs = append(xs, "DONE")
					default:
						if _, isErr := v.(error); isErr && v != common.ErrBudget {
							xs = append(xs, "ERR")
						} else {
							xs = append(xs, "OTHER")
						}
					}
				}
				got := strings.Join(xs, " ")
				want := "ERR" + strings.Repeat(" DONE", n-1)
				orc.Cases++
				if got != want || gojq.VerifIsEnv(it) {
					ctx.Violate(fmt.Sprintf("oneshot:%s:%d", s.name, lim), fmt.Sprintf("one-shot iterator (%s) answers %q, expected %q", s.name, got, want),
						map[string]any{"situation": s.name, "observed": got, "expected": want})
				}
				lines = append(lines, fmt.Sprint(n))
				impl = append(impl, got)
			}
			orc.Distinct++
		}
	}
	orc.Samples = []string{"code with 2 variables run with 3 values: ERR DONE DONE …"}
	ctx.RunStream(st, lines, impl)
	_ = os.Stderr
}

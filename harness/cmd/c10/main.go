// C10 — integer arithmetic is exact; number literals are not degraded.
//
// correspondence stream `arith`: real gojq operators (through the public API, every
//
//	exact Go carrier) vs Model/Arith.lean.
//
// oracle (model-free search): the same operators vs math/big; literals through `.`
//
//	and through the encoders compared byte-wise with the input digits.
package main

import (
	"encoding/json"
	"fmt"
	"math"
	"math/big"
	"regexp"
	"strconv"
	"strings"

	"github.com/itchyny/gojq"
	"github.com/itchyny/gojq/cli"

	"verifharness/common"
)

var ops = []struct{ name, src string }{
	{"add", "$a + $b"}, {"sub", "$a - $b"}, {"mul", "$a * $b"}, {"div", "$a / $b"}, {"mod", "$a % $b"},
	// "comparisons between integers are exact"
	{"lt", "$a < $b"}, {"le", "$a <= $b"}, {"eq", "$a == $b"}, {"ne", "$a != $b"}, {"gt", "$a > $b"}, {"ge", "$a >= $b"},
	{"srt", "[$a, $b] | sort == [$a, $b]"}, {"idx", "[$a] | index($b) != null"}, {"unq", "[$a, $b] | unique | length"},
}
var unops = []struct{ name, src string }{{"neg", "-$a"}, {"abs", "$a | abs"}, {"len", "$a | length"}}

func compile(src string, vars ...string) *gojq.Code {
	q, err := gojq.Parse(src)
	if err != nil {
		panic(err)
	}
	c, err := gojq.Compile(q, gojq.WithVariables(vars))
	if err != nil {
		panic(err)
	}
	return c
}

func run1(c *gojq.Code, vars ...any) (res string, val any) {
	defer func() {
		if r := recover(); r != nil {
			res, val = fmt.Sprint("PANIC ", r), nil
		}
	}()
	it := c.Run(nil, vars...)
	v, ok := it.Next()
	if !ok {
		return "empty", nil
	}
	if e, ok := v.(error); ok {
		m := e.Error()
		switch {
		case strings.HasPrefix(m, "cannot divide"):
			return "err zerodiv", e
		case strings.HasPrefix(m, "cannot modulo"):
			return "err zeromod", e
		}
		return "err other " + m, e
	}
	return "ok " + common.Canon(v), v
}

func toBig(v any) (*big.Int, bool) {
	switch v := v.(type) {
	case int:
		return big.NewInt(int64(v)), true
	case *big.Int:
		return v, true
	}
	return nil, false
}

func main() {
	ctx := common.ParseFlags("C10")
	r := ctx.R
	codes := map[string]*gojq.Code{}
	for _, o := range ops {
		codes[o.name] = compile(o.src, "$a", "$b")
	}
	for _, o := range unops {
		codes[o.name] = compile(o.src, "$a")
	}

	// ---------- operand pairs -------------------------------------------------------------
	type pair struct{ a, b any }
	var pairs []pair
	bset := common.BoundaryInts()
	nPairs := ctx.N(6000, 120000)
	// exhaustive over a core boundary subset, then random from the full boundary set and random ints
	core := []*big.Int{}
	for _, z := range bset {
		bl := z.BitLen()
		abs := new(big.Int).Abs(z)
		isPow := abs.Sign() > 0 && new(big.Int).And(abs, new(big.Int).Sub(abs, big.NewInt(1))).Sign() == 0
		switch {
		case bl <= 2, isPow && bl <= 66:
			core = append(core, z)
		case bl >= 31 && bl <= 33, bl >= 62 && bl <= 65:
			core = append(core, z)
		case ctx.Thorough && (bl >= 127 && bl <= 129 || bl <= 66):
			core = append(core, z)
		}
	}
	for _, a := range core {
		for _, b := range core {
			pairs = append(pairs, pair{common.NormInt(a), common.NormInt(b)})
		}
	}
	gridPairs := len(pairs)
	nPairs += gridPairs
	for len(pairs) < nPairs {
		var a, b any
		switch r.Intn(8) {
		case 0:
			a, b = common.NormInt(common.RandInt(r)), common.RandFloat(r)
		case 1:
			a, b = common.RandFloat(r), common.NormInt(common.RandInt(r))
		case 2:
			a, b = common.RandFloat(r), common.RandFloat(r)
		case 3:
			// products near the overflow boundary: a * b ≈ ±2^63
			a0 := common.RandInt(r)
			if a0.Sign() == 0 || a0.BitLen() > 62 {
				a0 = big.NewInt(int64(r.Range(2, 1<<20)))
			}
			lim := new(big.Int).Lsh(big.NewInt(1), 63)
			q := new(big.Int).Quo(lim, new(big.Int).Abs(a0))
			q.Add(q, big.NewInt(int64(r.Range(-2, 2))))
			if r.Bool() {
				q.Neg(q)
			}
			a, b = common.NormInt(a0), common.NormInt(q)
		case 4:
			// divisible pairs: a = b * k
			b0 := common.RandInt(r)
			k := common.RandInt(r)
			a, b = common.NormInt(new(big.Int).Mul(b0, k)), common.NormInt(b0)
		default:
			a, b = common.NormInt(common.RandInt(r)), common.NormInt(common.RandInt(r))
		}
		pairs = append(pairs, pair{a, b})
	}

	// ---------- correspondence + oracle ---------------------------------------------------
	st := ctx.NewStream("arith", "Gojq.opAddNum/opSubNum/opMulNum/opDivNum/opModNum/opNegNum/absNum (Model/Arith.lean)",
		"operand pairs: grid over boundary integers (0, ±1, ±2^k, ±2^k±1 around k=31,32,63,64,128), random boundary/1..40-digit integers, near-overflow products, divisible pairs, int×float and float×float; distinct = distinct implementation answers")
	orc := ctx.NewOracle("bigint", "every integer pair through each operator in every exact carrier (int, *big.Int, json.Number) compared with math/big; distinct = distinct (op, result) among integer cases")
	var lines, impl []string
	distinct := map[string]bool{}
	for pi, p := range pairs {
		for _, o := range ops {
			if _, okx := toBig(p.a); o.name == "srt" || o.name == "idx" || o.name == "unq" {
				// derived order consumers: judged on integer pairs only (NaN makes sort/unique irregular)
				if _, oky := toBig(p.b); !okx || !oky {
					continue
				}
			}
			res, _ := run1(codes[o.name], p.a, p.b)
			lines = append(lines, o.name+" "+common.Canon(p.a)+" "+common.Canon(p.b))
			impl = append(impl, res)
			st.Distribution[o.name+":"+kindOf(p.a)+"×"+kindOf(p.b)]++
			// oracle: integers only, against math/big, all carriers
			x, okx := toBig(p.a)
			y, oky := toBig(p.b)
			if !okx || !oky {
				continue
			}
			want := bigOp(o.name, x, y)
			if want != "" && res != want {
				ctx.Violate(fmt.Sprintf("arith:%s:%s:%s", o.name, common.Canon(p.a), common.Canon(p.b)),
					fmt.Sprintf("%v %s %v = %s, exact result is %s", p.a, o.name, p.b, res, want),
					map[string]any{"op": o.src, "a": fmt.Sprint(p.a), "b": fmt.Sprint(p.b), "observed": res, "expected": want,
						"cmd": fmt.Sprintf("gojq -n --argjson a %v --argjson b %v '%s'", p.a, p.b, o.src)})
			}
			orc.Cases++
			distinct[o.name+res] = true
			// comparisons: equal and adjacent integers are where a representation shortcut can go
			// wrong (int MinInt64 vs *big.Int -2^63), so those pairs always get every carrier
			near := isCmp(o.name) && new(big.Int).Sub(x, y).IsInt64() && new(big.Int).Abs(new(big.Int).Sub(x, y)).Cmp(big.NewInt(2)) <= 0
			if !near && (!ctx.Thorough && pi >= gridPairs/1 && pi%4 != 0 || !ctx.Thorough && pi < gridPairs && pi%7 != 0) {
				continue // quick: all carriers on a fixed fraction of the pairs only
			}
			for _, ca := range common.Carriers(p.a) {
				for _, cb := range common.Carriers(p.b) {
					ka, kb := fmt.Sprint(ca), fmt.Sprint(cb)
					got, _ := run1(codes[o.name], ca, cb)
					if fmt.Sprint(ca) != ka || fmt.Sprint(cb) != kb {
						ctx.Violate(fmt.Sprintf("operand-changed:%s:%s:%s", o.name, ka, kb), fmt.Sprintf("%s changed an operand: (%s, %s) became (%v, %v)", o.name, ka, kb, ca, cb), map[string]any{"op": o.src, "a": ka, "b": kb})
					}
					orc.Cases++
					orc.Distribution[o.name]++
					if want != "" && got != want {
						ctx.Violate(fmt.Sprintf("arith:%s:%s:%s", o.name, common.Canon(p.a), common.Canon(p.b)),
							fmt.Sprintf("%v %s %v (carriers %T,%T) = %s, exact result is %s", p.a, o.name, p.b, ca, cb, got, want),
							map[string]any{"op": o.src, "a": fmt.Sprint(p.a), "b": fmt.Sprint(p.b), "carrier_a": fmt.Sprintf("%T", ca), "carrier_b": fmt.Sprintf("%T", cb), "observed": got, "expected": want,
								"cmd": fmt.Sprintf("gojq -n --argjson a %v --argjson b %v '%s'", p.a, p.b, o.src)})
					}
					distinct[o.name+got] = true
				}
			}
		}
	}
	// unary
	for i, p := range pairs {
		if i%3 != 0 {
			continue
		}
		for _, o := range unops {
			res, _ := run1(codes[o.name], p.a)
			lines = append(lines, o.name+" "+common.Canon(p.a))
			impl = append(impl, res)
			if x, ok := toBig(p.a); ok {
				want := new(big.Int).Neg(x)
				if o.name == "abs" || o.name == "len" {
					want = new(big.Int).Abs(x)
				}
				for _, ca := range common.Carriers(p.a) {
					keep := fmt.Sprint(ca)
					got, v := run1(codes[o.name], ca)
					orc.Cases++
					// the operand is a value: computing with it must not change it (a *big.Int is a
					// mutable Go object; math/big methods write their receiver)
					if now := fmt.Sprint(ca); now != keep {
						ctx.Violate(fmt.Sprintf("operand-changed:%s:%s", o.name, common.Canon(p.a)), fmt.Sprintf("%s changed its operand: %s (%T) became %s", o.name, keep, ca, now), map[string]any{"op": o.src, "a": keep, "carrier": fmt.Sprintf("%T", ca), "operand_after": now,
							"cmd": fmt.Sprintf("gojq -nc '%s | [(%s), .]'", keep, strings.ReplaceAll(o.src, "$a", "."))})
					}
					// json.Number carriers keep the literal: compare numerically
					if n, ok := v.(json.Number); ok {
						got = "ok " + common.Canon(common.NormalizeNumber(n))
					}
					if got != "ok i"+want.String() {
						ctx.Violate(fmt.Sprintf("arith:%s:%s", o.name, common.Canon(p.a)), fmt.Sprintf("%s %v (%T) = %s, exact %s", o.name, p.a, ca, got, want), map[string]any{"op": o.src, "a": fmt.Sprint(p.a), "observed": got, "expected": want.String()})
					}
					distinct[o.name+got] = true
				}
			}
		}
	}
	orc.Distinct = len(distinct)
	orc.Samples = []string{"9223372036854775807 + 1 in carriers int/big/json.Number vs math/big", "(-9223372036854775808) * (-1)", "3037000500 * 3037000500"}
	ctx.RunStream(st, lines, impl)

	// ---------- literals are not degraded (oracle, model-free) ----------------------------
	lit := ctx.NewOracle("literals", "number literals of every lexical shape passed as json.Number through `.`, `[.]`, `{a:.}`, `.[0]` and printed by gojq.Marshal must keep their digits; `abs`, `length`, `-(-.)` on them must denote exactly |x| / x; computed floats must read back equal and NaN/inf print as null/±MaxFloat64; distinct = distinct literals")
	idq := []*gojq.Code{compile("."), compile("[.] | .[0]"), compile("{a:.} | .a"), compile("[., .] | first"), compile("if . then . else . end"), compile(". as $x | $x")}
	shapes := []string{"0", "-0", "1", "-1", "10", "100000000000000000000000000000", "-123456789012345678901234567890", "1.0", "1.10", "0.1", "1e2", "1E2", "1e+2", "1e-2", "1.5e300", "0.10000000000000000000000000001",
		"3.141592653589793238462643383279", "1e1000", "-1e1000", "1e-1000", "9007199254740993", "9223372036854775808", "0.0", "-0.0", "0e0", "1.7976931348623157e309", "123456789.123456789e-5", "5e-324", "4.9e-324", "2.5e-324"}
	for i := 0; i < ctx.N(300, 5000); i++ {
		var sb strings.Builder
		if r.Bool() {
			sb.WriteByte('-')
		}
		n := r.Range(1, 40)
		for j := 0; j < n; j++ {
			d := byte('0' + r.Intn(10))
			if j == 0 && n > 1 && d == '0' {
				d = '1'
			}
			sb.WriteByte(d)
		}
		if r.Chance(1, 3) {
			sb.WriteByte('.')
			for j, m := 0, r.Range(1, 30); j < m; j++ {
				sb.WriteByte(byte('0' + r.Intn(10)))
			}
		}
		if r.Chance(1, 4) {
			sb.WriteString(common.Pick(r, []string{"e", "E", "e+", "e-", "E-"}))
			sb.WriteString(fmt.Sprint(r.Intn(400)))
		}
		shapes = append(shapes, sb.String())
	}
	// long literals (the encoders have fixed-size scratch buffers): 41..400 digits
	for i := 0; i < ctx.N(120, 2000); i++ {
		var sb strings.Builder
		if r.Bool() {
			sb.WriteByte('-')
		}
		n := common.Pick(r, []int{41, 47, 48, 62, 63, 64, 65, 66, 100, 127, 128, 129, 200, 400, r.Range(41, 300)})
		frac := 0
		if r.Chance(1, 2) {
			frac = r.Range(1, n-1)
		}
		for j := 0; j < n; j++ {
			d := byte('0' + r.Intn(10))
			if j == 0 && d == '0' {
				d = '7'
			}
			if frac > 0 && j == n-frac {
				sb.WriteByte('.')
			}
			sb.WriteByte(d)
		}
		if r.Chance(1, 4) {
			sb.WriteString(common.Pick(r, []string{"e", "E", "e+", "e-"}) + fmt.Sprint(r.Intn(400)))
		}
		shapes = append(shapes, sb.String())
	}
	// the command's own encoder: the literal as standard input text through the real cli.run,
	// alone, inside an array and as an object value, compact and indented, plain and coloured
	cliLit := ctx.NewOracle("literals-cli", "the same literals as stdin text through the real command (`.`, `[.]`, `{a: .}`; -c / default indent / -C): the digits on stdout are the digits of the input; distinct = distinct literals")
	sgr := regexp.MustCompile("\x1b\\[[0-9;]*m")
	for i, s := range shapes {
		if !ctx.Thorough && i%3 != 0 && len(s) < 41 {
			continue
		}
		for vi, variant := range [][]string{{"-c", "."}, {"-c", "[.]"}, {".", "--indent", "3"}, {"-c", "{a: .}"}, {"-C", "-c", "[., .]"}} {
			if !ctx.Thorough && vi != i%5 && len(s) < 41 {
				continue
			}
			cliLit.Cases++
			stdout, _, code := cli.VerifRun(variant, []byte(s+"\n"))
			got := sgr.ReplaceAllString(string(stdout), "")
			digits := strings.Map(func(c rune) rune {
				if strings.ContainsRune(" \n\t[]{}:,\"a", c) {
					return -1
				}
				return c
			}, got)
			want := s
			if vi == 4 {
				want = s + s
			}
			if code != 0 || digits != want {
				ctx.Violate("literal-cli:"+s+fmt.Sprint(":", vi), fmt.Sprintf("literal %s through `gojq %s` prints %s (status %d)", s, strings.Join(variant, " "), clipS(got), code),
					map[string]any{"literal": s, "args": variant, "observed": got, "cmd": "echo '" + s + "' | gojq " + strings.Join(variant, " ")})
			}
		}
	}
	cliLit.Distinct = len(shapes)
	seenLit := map[string]bool{}
	for _, s := range shapes {
		seenLit[s] = true
		for qi, c := range idq {
			lit.Cases++
			it := c.Run(json.Number(s))
			v, ok := it.Next()
			if !ok {
				continue
			}
			b, err := gojq.Marshal(v)
			if err != nil || string(b) != s {
				ctx.Violate("literal:"+s+fmt.Sprint(":", qi), fmt.Sprintf("literal %s passed untouched through query #%d prints as %s", s, qi, b),
					map[string]any{"literal": s, "query_index": qi, "observed": string(b), "cmd": "echo '" + s + "' | gojq ."})
			}
		}
	}
	// sign-only functions on literals: abs, length (= abs on numbers) and unary minus twice must
	// denote exactly |x| / x — whatever carrier the answer comes in, its printed text is compared
	// as an exact rational (or, for a float64 answer, with the double nearest to the literal)
	signQ := []struct {
		src string
		abs bool
	}{{"abs", true}, {"length", true}, {"-(-.)", false}, {"[.] | map(abs) | .[0]", true}}
	for si, s := range shapes {
		if strings.ContainsAny(s, "eE") {
			if i := strings.IndexAny(s, "eE"); len(s)-i > 5 {
				continue // exponents of four and more digits: the exact rational is huge
			}
		}
		want, okr := new(big.Rat).SetString(s)
		if !okr {
			continue
		}
		for qi, sq := range signQ {
			if !ctx.Thorough && (si+qi)%2 != 0 && si > 40 {
				continue
			}
			lit.Cases++
			w := new(big.Rat).Set(want)
			if sq.abs {
				w.Abs(w)
			}
			it := compile(sq.src).Run(json.Number(s))
			v, ok := it.Next()
			if !ok {
				continue
			}
			good := false
			var shown string
			switch x := v.(type) {
			case float64:
				f, _ := strconv.ParseFloat(s, 64)
				if sq.abs {
					f = math.Abs(f)
				}
				good, shown = x == f || math.IsInf(f, 0) && math.Abs(x) == math.MaxFloat64, fmt.Sprint(x)
			case error:
				shown = "error: " + x.Error()
			default:
				b, err := gojq.Marshal(v)
				shown = string(b)
				if g, ok2 := new(big.Rat).SetString(string(b)); err == nil && ok2 {
					good = g.Cmp(w) == 0
				}
			}
			if !good {
				ctx.Violate("literal-sign:"+sq.src+":"+s, fmt.Sprintf("`%s` on the literal %s gives %s, which does not denote %s", sq.src, s, shown, w.RatString()),
					map[string]any{"literal": s, "query": sq.src, "observed": shown, "cmd": "echo '" + s + "' | gojq '" + sq.src + "'"})
			}
		}
	}
	lit.Distinct = len(seenLit)
	lit.Samples = []string{shapes[5], shapes[16], shapes[len(shapes)-1]}

	// computed floats: shortest round trip, valid JSON
	fl := ctx.NewOracle("float-print", "computed float64 values printed by gojq.Marshal parse back (strconv) to the same bits; NaN prints null; ±Inf print ±1.7976931348623157e308; distinct = distinct bit patterns")
	seenF := map[uint64]bool{}
	addc := compile(". * 1") // a computed float64 that keeps the operand's bits (also the sign of zero)
	tjc := compile(". * 1 | tojson, tostring, \"\\(.)\", @text, @json")
	for i := 0; i < ctx.N(20000, 400000); i++ {
		var f float64
		if i < len(common.InterestingFloats()) {
			f = common.InterestingFloats()[i]
		} else if i%50 == 0 {
			f = common.Pick(r, []float64{math.NaN(), math.Inf(1), math.Inf(-1)})
		} else {
			f = common.RandFloat(r)
		}
		fl.Cases++
		seenF[math.Float64bits(f)] = true
		v, _ := addc.Run(f).Next()
		b, err := gojq.Marshal(v)
		if err != nil {
			ctx.Violate(fmt.Sprintf("floatprint:err:%x", math.Float64bits(f)), "Marshal failed: "+err.Error(), map[string]any{"bits": fmt.Sprintf("%016x", math.Float64bits(f))})
			continue
		}
		s := string(b)
		ok := true
		switch {
		case math.IsNaN(f):
			ok = s == "null"
		case math.IsInf(f, 0):
			var back float64
			ok = json.Valid(b) && json.Unmarshal(b, &back) == nil && back == math.Copysign(math.MaxFloat64, f)
		default:
			var back float64
			if !json.Valid(b) {
				ok = false
			} else if err := json.Unmarshal(b, &back); err != nil || math.Float64bits(back) != math.Float64bits(f) {
				ok = false
			} else {
				// shortest: no shorter digit string reads back equal (checked against strconv 'g' -1)
				short := strings.ToLower(fmt.Sprint(json.Number(shortest(f))))
				if digits(s) != digits(short) {
					ok = false
				}
			}
		}
		if !ok {
			ctx.Violate(fmt.Sprintf("floatprint:%016x", math.Float64bits(f)), fmt.Sprintf("float %016x prints as %s", math.Float64bits(f), s),
				map[string]any{"bits": fmt.Sprintf("%016x", math.Float64bits(f)), "observed": s})
		}
		// the in-language printers use the same encoder: tojson, tostring, interpolation, @text, @json
		if i < 400 || i%20 == 0 {
			it := tjc.Run(f)
			for k := 0; k < 5; k++ {
				w, ok := it.Next()
				if !ok {
					break
				}
				if ws, isStr := w.(string); !isStr || ws != s {
					ctx.Violate(fmt.Sprintf("floatprint-inlang:%016x:%d", math.Float64bits(f), k), fmt.Sprintf("float %016x: in-language printer #%d (tojson, tostring, interpolation, @text, @json) gives %v, gojq.Marshal gives %s", math.Float64bits(f), k, w, s),
						map[string]any{"bits": fmt.Sprintf("%016x", math.Float64bits(f)), "observed": fmt.Sprint(w), "marshal": s})
				}
			}
		}
	}
	fl.Distinct = len(seenF)
	fl.Samples = []string{"0.1+0 -> 0.1", "1e21+0 -> 1e+21", "NaN -> null"}
	ctx.Finish()
}

func shortest(f float64) string { b, _ := json.Marshal(f); return string(b) }

// digits extracts the significant digit string (no sign, point, exponent, leading/trailing zeros).
func digits(s string) string {
	s = strings.ToLower(s)
	if i := strings.IndexByte(s, 'e'); i >= 0 {
		s = s[:i]
	}
	s = strings.NewReplacer("-", "", ".", "").Replace(s)
	s = strings.Trim(s, "0")
	return s
}

func kindOf(v any) string {
	switch v.(type) {
	case int:
		return "int"
	case *big.Int:
		return "big"
	case float64:
		return "float"
	}
	return "?"
}

func isCmp(op string) bool {
	switch op {
	case "lt", "le", "eq", "ne", "gt", "ge", "srt", "idx", "unq":
		return true
	}
	return false
}

func clipS(s string) string {
	if len(s) > 200 {
		return s[:200] + "…"
	}
	return s
}

func okBool(b bool) string {
	if b {
		return "ok t"
	}
	return "ok f"
}

func bigOp(op string, x, y *big.Int) string {
	switch op {
	case "add":
		return "ok i" + new(big.Int).Add(x, y).String()
	case "sub":
		return "ok i" + new(big.Int).Sub(x, y).String()
	case "mul":
		return "ok i" + new(big.Int).Mul(x, y).String()
	case "div":
		if y.Sign() == 0 {
			return "err zerodiv"
		}
		q, m := new(big.Int).QuoRem(x, y, new(big.Int))
		if m.Sign() == 0 {
			return "ok i" + q.String()
		}
		return "" // non-integral quotient: float result, not judged here
	case "mod":
		if y.Sign() == 0 {
			return "err zeromod"
		}
		return "ok i" + new(big.Int).Rem(x, y).String()
	case "lt":
		return okBool(x.Cmp(y) < 0)
	case "le", "srt":
		return okBool(x.Cmp(y) <= 0)
	case "eq", "idx":
		return okBool(x.Cmp(y) == 0)
	case "ne":
		return okBool(x.Cmp(y) != 0)
	case "gt":
		return okBool(x.Cmp(y) > 0)
	case "ge":
		return okBool(x.Cmp(y) >= 0)
	case "unq":
		if x.Cmp(y) == 0 {
			return "ok i1"
		}
		return "ok i2"
	}
	return ""
}

// C04 — compiler optimisations never change what a query outputs.
//
// correspondence streams `codeops` / `tailrec`: the real compiler's instruction list before a
//
//	whole-code pass (compiled with that pass switched off through gojq.VerifOptMask) is sent to
//	the Lean transliteration of the pass (Model/Optimize.lean); the result must equal the real
//	compiler's instruction list with the pass on.
//
// oracle (model-free): every program compiled with each single rewrite disabled, and with all
//
//	disabled, must emit the same values and errors in the same order as the fully optimised
//	program; plus a static scan of the rewritten pairs against jump targets.
package main

import (
	"fmt"
	"strings"

	"github.com/itchyny/gojq"

	"verifharness/common"
	"verifharness/jqgen"
)

const budget = 40000
const maxOuts = 200

func compileMask(q *gojq.Query, mask uint) (code *gojq.Code, err error) {
	old := gojq.VerifOptMask
	gojq.VerifOptMask = mask
	defer func() {
		gojq.VerifOptMask = old
		if r := recover(); r != nil {
			err = fmt.Errorf("compile panic: %v", r)
		}
	}()
	return gojq.Compile(q)
}

func bit(name string) uint {
	for i, n := range gojq.VerifOptNames {
		if n == name {
			return 1 << uint(i)
		}
	}
	panic("unknown optimisation " + name)
}

// encode an instruction list for the Lean pass models: `op|int-or-_|opaque`
func encode(ins []gojq.VerifInstr) string {
	var sb strings.Builder
	for i, in := range ins {
		if i > 0 {
			sb.WriteByte(' ')
		}
		tgt, arg := "_", "_"
		switch in.Kind {
		case "int":
			tgt = fmt.Sprint(in.Int)
		case "ints":
			parts := make([]string, len(in.Ints))
			for j, x := range in.Ints {
				parts[j] = fmt.Sprint(x)
			}
			arg = strings.Join(parts, ",")
		case "native":
			arg = fmt.Sprintf("@%s/%d", in.Name, in.Argc)
		case "value":
			arg = "v" + common.Hex(common.Canon(normConst(in.Value)))
		}
		sb.WriteString(in.Op + "|" + tgt + "|" + arg)
	}
	return sb.String()
}

// hasOp reports whether an encoded instruction list contains one of the opcodes.
func hasOp(enc string, ops ...string) bool {
	for _, tok := range strings.Fields(enc) {
		op := tok
		if k := strings.IndexByte(tok, '|'); k >= 0 {
			op = tok[:k]
		}
		for _, o := range ops {
			if op == o {
				return true
			}
		}
	}
	return false
}

func normConst(v any) any {
	switch v.(type) {
	case nil, bool, int, float64, string, []any, map[string]any:
		return v
	}
	if b, ok := v.(interface{ String() string }); ok {
		return "#" + b.String()
	}
	return fmt.Sprintf("#%T", v)
}

type prog struct {
	src  string
	kind string
}

func main() {
	ctx := common.ParseFlags("C04")
	r := ctx.R
	var progs []prog
	seen := map[string]bool{}
	add := func(s, kind string) {
		if !seen[s] {
			seen[s] = true
			progs = append(progs, prog{s, kind})
		}
	}
	for _, s := range biased {
		add(s, "biased")
	}
	for _, c := range common.Corpus() {
		add(c.Query, "corpus")
	}
	// bounded-exhaustive: every program with at most 3 constructors over a small alphabet (the
	// rewrites match opcode shapes, so what matters is which small shapes sit next to each other)
	for _, q := range enumerate(ctx.Thorough, r) {
		add(q, "exhaustive")
	}
	// generated: rewrite-precondition-biased templates filled with random sub-programs
	n := ctx.N(2500, 24000)
	for i := 0; i < n; i++ {
		g := jqgen.NewTyped(r, r.Range(0, 3))
		g2 := jqgen.New(r, r.Range(0, 2))
		a, _ := g.Gen(jqgen.TypeOf(common.Pick(r, inputs)))
		b := g2.Query()
		t := common.Pick(r, templates)
		t = strings.ReplaceAll(t, "%A", "("+a+")")
		t = strings.ReplaceAll(t, "%B", "("+b+")")
		t = strings.ReplaceAll(t, "%K", common.Pick(r, []string{"1", "-1", `"a"`, "1.5", "-0", "null", "(1,2)", ".", "[]", "{}", "[1,2]", `{"a":1}`, "$__loc__", "-1[0]?"}))
		add(t, "template")
		if i%3 == 0 {
			src, _ := jqgen.NewTyped(r, r.Range(1, 4)).Gen(jqgen.TypeOf(common.Pick(r, inputs)))
			add(src, "random-typed")
		}
	}

	orc := ctx.NewOracle("opt-differential", "each program is compiled with all rewrites on, with each of the "+fmt.Sprint(len(gojq.VerifOptNames))+" rewrites disabled alone, and with all disabled; all variants run on the same inputs must give identical value/error sequences (error texts included); distinct = distinct (program, input) pairs that ran to completion under every variant")
	scan := ctx.NewOracle("pair-scan", "static scan: every instruction pair rewritten by optimizeCodeOps (difference between the code with the pass off and on) must not have its second instruction as the target of a jump/fork; no jumpifnot may target its own successor before the pass; distinct = programs in which the pass rewrote at least one pair")
	stCode := ctx.NewStream("codeops", "Gojq.Opt.optimizeCodeOps (Model/Optimize.lean)", "instruction lists of real programs compiled with the peephole pass off, sent through the model pass, compared with the real compiler's list with the pass on; distinct = distinct optimised lists")
	stTail := ctx.NewStream("tailrec", "Gojq.Opt.optimizeTailRec (Model/Optimize.lean)", "same for tail-call detection (both whole-code passes off vs only the peephole pass off)")
	var codeLines, codeImpl, tailLines, tailImpl, codeLabels, tailLabels []string

	nb := uint(len(gojq.VerifOptNames))
	all := uint(1)<<nb - 1
	masks := []uint{all}
	for i := uint(0); i < nb; i++ {
		masks = append(masks, 1<<i)
	}
	distinct := map[string]bool{}
	rewrote := 0
	for _, p := range progs {
		q, err := gojq.Parse(p.src)
		if err != nil {
			continue
		}
		base, err := compileMask(q, 0)
		if err != nil {
			// a compile error must not depend on the switches either
			for _, m := range masks {
				if _, err2 := compileMask(q, m); err2 == nil || err2.Error() != err.Error() {
					ctx.Violate("compile-differs:"+p.src, fmt.Sprintf("compile error depends on optimisation switch %b: %v vs %v", m, err, err2), map[string]any{"query": p.src, "mask": m})
				}
			}
			continue
		}
		orc.Distribution["kind:"+p.kind]++
		// pass models
		cOff, e1 := compileMask(q, bit("codeops"))
		bOff, e2 := compileMask(q, bit("codeops")|bit("tailrec"))
		tOff, e3 := compileMask(q, bit("tailrec"))
		if e1 == nil && e2 == nil && e3 == nil {
			before, after := gojq.VerifCodes(cOff), gojq.VerifCodes(base)
			codeLines = append(codeLines, encode(before))
			codeImpl = append(codeImpl, encode(after))
			codeLabels = append(codeLabels, p.src)
			tailLines = append(tailLines, encode(gojq.VerifCodes(bOff)))
			tailImpl = append(tailImpl, encode(before))
			tailLabels = append(tailLabels, p.src)
			_ = tOff
			// static scan
			scan.Cases++
			targets := map[int]bool{}
			for i, in := range before {
				switch in.Op {
				case "fork", "forktrybegin", "forkalt", "jump", "jumpifnot":
					targets[in.Int] = true
					if in.Op == "jumpifnot" && in.Int == i+1 {
						ctx.Violate("jumpifnot-to-next:"+p.src, "a jumpifnot targets its own successor: the peephole pass would turn it into nop and drop its pop", map[string]any{"query": p.src, "pc": i})
					}
				}
			}
			changed := false
			for i := 0; i+1 < len(before) && i+1 < len(after); i++ {
				pair := (before[i].Op == "push" || before[i].Op == "dup" || before[i].Op == "load") && (before[i+1].Op == "pop" || before[i+1].Op == "const")
				if pair && after[i].Op == "nop" && after[i+1].Op != before[i+1].Op {
					changed = true
					if targets[i+1] {
						ctx.Violate("pair-across-target:"+p.src, fmt.Sprintf("optimizeCodeOps merged instructions %d,%d (%s;%s) although %d is a jump target", i, i+1, before[i].Op, before[i+1].Op, i+1), map[string]any{"query": p.src, "pc": i})
					}
				}
			}
			if changed {
				rewrote++
			}
		}
		// differential runs
		var variants []*gojq.Code
		ok := true
		for _, m := range masks {
			c, err := compileMask(q, m)
			if err != nil {
				ctx.Violate("compile-differs:"+p.src, fmt.Sprintf("compiles with all rewrites but not with switch mask %b: %v", m, err), map[string]any{"query": p.src, "mask": m, "error": err.Error()})
				ok = false
				break
			}
			variants = append(variants, c)
		}
		if !ok {
			continue
		}
		ins := inputs
		if p.kind == "corpus" || !ctx.Thorough {
			ins = []any{common.Pick(r, inputs), common.Pick(r, inputs), inputs[0]}
		} else if len(inputs) > 6 {
			// thorough: six inputs per program (all of them made the tier run for hours)
			ins = []any{inputs[0]}
			for k := 0; k < 5; k++ {
				ins = append(ins, common.Pick(r, inputs))
			}
		}
		stops := common.MemStops
		for _, in := range ins {
			if common.MemStops > stops {
				orc.Distribution["skipped:memory-hungry-program"]++
				break // this program blows the heap up: its other inputs and variants would too
			}
			ref := common.RunCode(base, common.DeepCopy(in), budget, maxOuts)
			orc.Cases++
			if ref.Panic != "" {
				ctx.Violate("panic:"+p.src+":"+common.Canon(in), "optimised program panicked: "+ref.Panic, map[string]any{"query": p.src, "input": common.Canon(in)})
				continue
			}
			if ref.Budget {
				orc.Distribution["skipped:budget"]++
				continue
			}
			rc := common.CanonOutcome(ref)
			for vi, c := range variants {
				if common.MemStops > stops {
					break
				}
				o := common.RunCode(c, common.DeepCopy(in), budget*4, maxOuts)
				oc := common.CanonOutcome(o)
				if o.Budget && o.Panic == "" {
					continue
				}
				if oc != rc {
					which := "all-off"
					if vi > 0 {
						which = gojq.VerifOptNames[vi-1] + "-off"
					}
					key := "opt-differs:" + which + ":" + p.src + ":" + common.Canon(in)
					what := fmt.Sprintf("with %s the program %s on %s gives %s, fully optimised it gives %s", which, p.src, common.Canon(in), clip(oc), clip(rc))
					if isAssignPathText(ref, o) && (which == "all-off" || which == "assign-path-off") {
						key = "assign-path-shortcut-error-text"
						what = "the constant-path `=` shortcut reports setpath's wrapped error where the defining reduction reports the navigation error: " + what
					}
					ctx.Violate(key, what, map[string]any{"query": p.src, "input": common.Canon(in), "switch": which, "optimised": rc, "unoptimised": oc,
						"note": "rebuild with -tags verif and set gojq.VerifOptMask to reproduce"})
				}
			}
			distinct[p.src+"\x00"+common.Canon(in)] = true
			if ref.Err != nil {
				orc.Distribution["ends:error"]++
			} else {
				orc.Distribution["ends:done"]++
			}
		}
	}
	orc.Distinct = len(distinct)
	orc.Samples = []string{"1 as $x | {a: ((1, $x) | 2)}  (peephole across a join point)", "-1[0]  (constant folding of a literal with suffixes)", "def f: if . < 3 then . + 1 | f else . end; f  (tail call)"}
	scan.Distinct = rewrote
	scan.Samples = []string{"load;const at a comma join point must stay unmerged"}
	stCode.Labels, stTail.Labels = codeLabels, tailLabels
	ctx.RunStream(stCode, codeLines, codeImpl)
	ctx.RunStream(stTail, tailLines, tailImpl)
	// the static hypothesis of the simulation theorem (Props/C04Sim.lean) on every real program:
	// call/callrec/pushpc operands are function entries, the code ends in ret, no jumpifnot targets
	// its successor — decided by the Lean definition the theorem uses (wfCheckView), on the code
	// the pass receives (peephole off) and on the code it produces
	stWf := ctx.NewStream("wf", "Gojq.OptVM.wfCheckView (Model/OptVM.lean), proved equal to the hypothesis wfCheck of optimizeCodeOps_preserves_outputs",
		"every instruction list sent to the codeops stream (before the pass) and every list the real pass produced: the implementation's answer is the constant `wf`; distinct = 1 when all are well-formed")
	var wfLines, wfImpl, wfLabels []string
	for i := range codeLines {
		wfLines = append(wfLines, codeLines[i], codeImpl[i])
		wfImpl = append(wfImpl, "wf", "wf")
		wfLabels = append(wfLabels, codeLabels[i]+"  (before the pass)", codeLabels[i]+"  (after the pass)")
	}
	stWf.Labels = wfLabels
	ctx.RunStream(stWf, wfLines, wfImpl)
	// C08: the static hypothesis of vm_total_wf (Props/C08VM.lean) — the bytecode checker
	// safeCheck (data-stack heights, frames, fork discipline) — on every real program: the code
	// with both whole-code passes off, with the peephole pass off, and fully optimised
	stSafe := ctx.NewStream("safe", "Gojq.SafeVM.safeCheckView (Model/SafeVM.lean + Model/SafeVM2.lean, both layers), proved equal to the hypothesis safeCheck of vm_total_wf (Props/C08VM.lean)",
		"every instruction list of the codeops/tailrec streams (no pass, tail-call pass only, both passes): the implementation's answer is the constant `safe`; distinct = 1 when the checker accepts all of them")
	var safeLines, safeImpl, safeLabels []string
	for i := range codeLines {
		safeLines = append(safeLines, tailLines[i], codeLines[i], codeImpl[i])
		safeImpl = append(safeImpl, "safe", "safe", "safe")
		safeLabels = append(safeLabels, codeLabels[i]+"  (no whole-code pass)", codeLabels[i]+"  (before the peephole pass)", codeLabels[i]+"  (fully optimised)")
	}
	stSafe.Labels = safeLabels
	ctx.RunStream(stSafe, safeLines, safeImpl)
	// the static hypotheses of the tail-call simulation theorem (Props/C04Tail.lean) on every real
	// program: the code the tail-call pass receives must pass the shape scan (the implementation's
	// answer is the constant `shape-ok`), and the two classifications the theorem depends on — the
	// program creates no closure (no pushpc/callpc), the pass produced no callrec — are computed on
	// both sides (a plain opcode scan here, the Lean definitions the theorem uses there)
	stTwf := ctx.NewStream("tailwf", "Gojq.TailVM.tailShapeCheckView / closureFreeView / noCallrecView (Model/TailVM.lean), proved equal to the hypotheses tailWfCheck and noCallrec of optimizeTailRec_preserves_outputs_partial",
		"every instruction list sent to the tailrec stream (before the pass: `shape-ok` + closure-free/closures) and every list the real pass produced (jumps-only/has-callrec); distribution = how many real programs the proved theorem covers (closure-free and jumps-only)")
	var twLines, twImpl, twLabels []string
	for i := range tailLines {
		cf, jo := "closure-free", "jumps-only"
		if hasOp(tailLines[i], "pushpc", "callpc") {
			cf = "closures"
		}
		if hasOp(tailImpl[i], "callrec") {
			jo = "has-callrec"
		}
		twLines = append(twLines, "B "+tailLines[i], "A "+tailImpl[i])
		twImpl = append(twImpl, "shape-ok "+cf, jo)
		twLabels = append(twLabels, tailLabels[i]+"  (before the tail-call pass)", tailLabels[i]+"  (after the tail-call pass)")
		stTwf.Distribution[cf]++
		stTwf.Distribution[jo]++
		if tailLines[i] != tailImpl[i] {
			stTwf.Distribution["pass-rewrote-a-call"]++
			stTwf.Distribution["pass-rewrote-a-call:"+cf+","+jo]++
			if cf == "closure-free" && jo == "jumps-only" {
				stTwf.Distribution["pass-rewrote-a-call:covered-by-theorem"]++
			}
		}
	}
	stTwf.Labels = twLabels
	ctx.RunStream(stTwf, twLines, twImpl)
	// a pass no longer does what its model does: look for an OBSERVABLE difference around the
	// programs on which they differ (a misplaced stack slot only shows in some contexts)
	var suspects []string
	for _, d := range stCode.Dis {
		suspects = append(suspects, codeLabels[d.Idx])
	}
	for _, d := range stTail.Dis {
		suspects = append(suspects, tailLabels[d.Idx])
	}
	if len(suspects) > 0 {
		directedSearch(ctx, suspects, all)
	}
	ctx.Finish()
}

// directedSearch wraps each suspect program in contexts that expose the value stack and the
// fork stack, and compares the fully optimised code with the unoptimised code on every input.
func directedSearch(ctx *common.Ctx, suspects []string, all uint) {
	orc := ctx.NewOracle("directed-differential", "only when an optimisation pass disagrees with its model: each program on which they disagree is wrapped in 16 contexts (operand of a binary operator, array/object member, object key, binding, reduce source, try, limit …) and run on every input with all rewrites on and all off; distinct = wrapped programs run")
	wraps := []string{"%s", "(%s) + 5", "5 + (%s)", "[%s]", "{a: (%s)}", "{(%s | tojson): 1}", "[(%s), 2]", "[2, (%s)]", "(%s) as $q | [$q]", "[.[]? | (%s)]", "(%s) | [.]", "first(%s)", "[limit(2; %s)]", "try (%s) catch .", "reduce (%s) as $q (0; . + 1)", "[(%s) == (%s)]"}
	seen := map[string]bool{}
	found := 0
	for i, p := range suspects {
		if i >= 80 || found >= 10 {
			break
		}
		for _, w := range wraps {
			src := strings.ReplaceAll(w, "%s", p)
			if seen[src] {
				continue
			}
			seen[src] = true
			q, err := gojq.Parse(src)
			if err != nil {
				continue
			}
			on, err1 := compileMask(q, 0)
			off, err2 := compileMask(q, all)
			if err1 != nil || err2 != nil {
				continue
			}
			for _, in := range inputs {
				a := common.RunCode(on, common.DeepCopy(in), budget, maxOuts)
				b := common.RunCode(off, common.DeepCopy(in), budget*4, maxOuts)
				orc.Cases++
				if a.Budget || b.Budget {
					continue
				}
				if a.Panic != "" || common.CanonOutcome(a) != common.CanonOutcome(b) {
					found++
					ctx.Violate("opt-differs:all-off:"+src+":"+common.Canon(in), fmt.Sprintf("with all rewrites off the program %s on %s gives %s, fully optimised it gives %s", src, common.Canon(in), clip(common.CanonOutcome(b)), clip(common.CanonOutcome(a)+a.Panic)),
						map[string]any{"query": src, "input": common.Canon(in), "optimised": common.CanonOutcome(a), "unoptimised": common.CanonOutcome(b), "note": "rebuild with -tags verif and set gojq.VerifOptMask to reproduce"})
					break
				}
			}
		}
	}
	orc.Distinct = len(seen)
}

// isAssignPathText: both end with an error after the same outputs and one message is the other
// wrapped by setpath's func2WrapError.
func isAssignPathText(a, b common.Outcome) bool {
	if a.Err == nil || b.Err == nil || len(a.Outs) != len(b.Outs) {
		return false
	}
	x, y := a.Err.Error(), b.Err.Error()
	wrapped := func(w, raw string) bool {
		return strings.HasPrefix(w, "setpath(") && strings.HasSuffix(w, ": "+raw)
	}
	return wrapped(x, y) || wrapped(y, x)
}

func clip(s string) string {
	if len(s) > 240 {
		return s[:240] + "…"
	}
	return s
}

var inputs = []any{nil, 0, 3, "ab", map[string]any{"a1": 10, "": "EMPTY", "a": 5, "1": 7}, []any{1, 2, 3}, []any{[]any{1, 2}, []any{3}}, map[string]any{"a": 1, "b": []any{1, 2}}, map[string]any{"a": map[string]any{"b": 1}}, []any{}, map[string]any{}, true, 1.5,
	[]any{map[string]any{"a": 1}, map[string]any{"a": 2}}, []any{nil, 1, "x"}}

// templates biased to the preconditions of each rewrite
var templates = []string{
	// constant arrays / objects / unary
	"[(%K, . | %K)]", "[(%K, %A | %K)]", "[(%K, %K | %K)]", "[(%K, %K, . | %K)]", "[(%K, . | %K, %K)]", "[%K, (. | %K)]", "[(%K | %K), %K]", "{a: (%K, . | %K)}", "[(%K, empty | %K)]?", "[(%K, .)| %K]",
	"[%K, %K]", "[%K, %A]", "[%A, %K, %K]", "[%K]", "[(%K, %K)]", "[%K, [%K, {a: %K}]]", "{a: %K, b: %K}", "{a: %K, b: %A}", "{(%K): %K}?", "{a: %K, a: %K}", "{\"a\": %K, \"b\": {c: %K}}", "{a: [%K, %K]}", "-%K?", "+%K?", "-(%K)?", "[-1, -1.5, +2, -0]", "{a: -1}", "[.[-1]?, .[-1:]?]", "-%A?",
	// constant indexing
	".[\"a\\(%K)\"]?", ".[\"\\(%K)\"]?", ".[\"a\\(1)\"] = %K", "path(.[\"a\\(%K)\"])?", ".[\"a\\(1)\":]?", "{\"a\\(1)\": %K}", "{(\"a\\(%K)\"): 1}?", ".a[\"b\\(%K)\"]?", "try (.[\"\\(1)\"] = 1) catch .", "@json \"x\\(%K)\"", "@base64 \"\\(%K)\"?", ".[@text \"a\\(1)\"]?", "\"\\(%K)\\(%A)\"",
	".[%K]?", ".[%K:%K]?", ".[%K:]?", ".[\"a\"]?", ".a[%K]?", ".[%K][%K]?", "%A | .[%K]?", ".[-1[0]]?", ".[1[0]:]?",
	// constant-path assignment
	".a? = %K", ".a.b? = %K", ".a?.b = %K", "(.a?) = %K", ".[0]? = %K", ".a[1:]? = %K", ".a?[0] = %K", "try (.a? = %K) catch \"E\"", ".a?.b? = %A", ".[\"a\"]? = %K", ".a? |= %K", ".a? += 1", "path(.a?)", ".a[]? = %K", ".[]?.a = %K", ".a.b?.c = %K", "..? = %K", ".a?? = %K", "(.a?, .b) = %K", ".a? //= %K",
	".a = %K", ".a.b = %A", ".[%K] = %K?", ".a[%K] = 1?", ".[1:2] = [%K]?", ".a[1:] = %A?", "(.a) = %K", ".a.b.c = %K | .a", "try (.a = %K) catch .", "try (.[%K] = 1) catch .", "try (.a.b = 1) catch .", ".[\"a\"] = %K", "(.a, .b) = %K", ".a = (%K, %K)", ".[%K:%K] = %A?", ".a |= %A", ".a += %K?",
	// argument inlining: identity and one-instruction arguments
	"%A + .", ". + %K?", ". + (. | .)?", "[.[]? | . == %K]", "%K as $x | . + $x?", "1 + (label $l | .)", "[1 + (label $l | 1, break $l, 2)]", ". + (reduce . as $x (0; .))?", "[limit(%K; 1, 2, 3)]?", "[range(%K)]?", "[range(.; %K)]?", "has(%K)?", "has(.)?", "ltrimstr(.)?", "ltrimstr(%K)?",
	"getpath([%K])?", "setpath([%K]; %K)?", "[splits(.)?]", "contains(.)?", "index(%K)?", "[.[]? as $v | $v + $v]?", "$__loc__ | .line", "[$__loc__.line, (1 | $__loc__.file)]", "path(.[%K])?", "[paths(%A)]?", "select(%A)", "map(%A)?", "map(.)?", "[.[]? | (. as $x | $x)]",
	// conditionals with constant branches / identity condition
	"if . then %K else %K end", "if %A then %K else %K end", "if . then %A else %K end", "[if (true, false) then 1 else 2 end]", "if . then . end", "if %A then . else %K end", "if . then 1 elif . then 2 else 3 end", "[.[]? | if . then \"t\" else \"f\" end]", "if %A then 1 else 2 end | . + 1", "[(if . then 1 else 2 end), 3]", "{a: (if . then 1 else [.] end | 2)}",
	// bindings whose source is ONE instruction (a call of a bytecode function without arguments,
	// the second use of a builtin, a constant) inside path expressions
	"def f: .[0]?; [path(f as $x | ., .a?)]", "def f: .a?; try ((f as $x | .b?) |= 1) catch \"E\"", "def f: %A; [path(f as $x | .a?)]?", "def f: .[0]?; del(f as $x | .[1]?)?", "def f: %K; try [path(f as $x | .)] catch \"E\"", "def f: .; [path(f as $x | .a?)]",
	"[first?, (try path(first as $x | .) catch \"E\")]", "[last?, (try path(last as $x | $x | .) catch \"E\")]", "[..] | length, (try [path(.. as $x | .)] catch \"E\")", "def f: .a?; def g: .b?; [paths(f as $x | g as $y | true)]?", "def f: .[0]?; try ((f as $x | .) = 1) catch \"E\"", "def f: .a?; [path(f as [$x] ?// $x | .)]?",
	"def f: .[0]?; [path(f | . as $x | .)]?", "def f: .[0]?; reduce path(f as $x | .) as $p (0; . + 1)?", "def f: 1; try [path(f as $x | .)] catch \"E\"", "def f: .a?; pick(f as $x | .b?)?",
	// bindings (expbegin removal)
	". as $x | %A", ". as $x | $x", "%A as $x | $x", ". as [$a] | $a?", ". as {a: $a} | $a?", ". as $x | . as $y | [$x, $y]", "path(. as $x | .a)?", "path(%A as $x | .a)?", ". as [$a] ?// $a | $a",
	// join points followed by constants / pops (peephole)
	"{a: ((1, [.]) | 2)}", "1 as $x | {a: ((1, $x) | 2)}", "{a: ((%A, [.]) | %K)}", "{a: ((%A, $__loc__) | 1)}", "[(%A, .) | %K]", "{a: ((try error catch [.]) | 1)}", "{a: ((. // [.]) | 1)}", "{a: (if . then 1 else [.] end | %K)}", "%K as $x | {a: ((%A, $x) | %K), b: 2}", "def f: (%A, [.]) | 1; {a: f, b: f}", "{a: ((reduce . as $v (0; .), [.]) | [])}",
	"[(%A, (. as $v | $v)) | empty]", "{a: ((1, [.]) | empty), b: 1}", "[(1, [.]) | (2, 3)]", "{(.|tojson): ((%A, [.]) | 1)}",
	// tail calls
	"def f: if . < 3 then . + 1 | f else . end; %K | f?", "def f: if . < 3 then (. + 1 | f) else . end; 0 | f", "def f: if . > 2 then . else . + 1 | f end; 0 | f", "def f: if . < 3 then ., (. + 1 | f) else . end; [0 | f]", "def f: if . < 3 then (. + 1 | f), . else . end; [0 | f]", "def f: (select(. < 3) | . + 1 | f) // .; 0 | f",
	"def f: . as $x | if $x < 3 then $x + 1 | f else $x end; 0 | f", "def f: if . < 3 then . + 1 | f | . * 2 else . end; 0 | f", "def f: def g: if . < 5 then . + 1 | g else . end; g; 0 | f", "def f: if . < 3 then . + 1 | f elif . < 6 then . + 2 | f else . end; 0 | f", "def f: try (if . < 3 then . + 1 | f else error(\"x\") end) catch .; 0 | f",
	"def f: if . < 2 then . + 1 | f else ., 9 end; [0 | f]", "def f: 1 as $y | if . < 3 then . + $y | f else . end; 0 | f", "def f(g): if . < 3 then g | f(g) else . end; 0 | f(. + 1)", "def f($n): if . < $n then . + 1 | f($n) else . end; 0 | f(3)", "def f: label $l | if . < 3 then . + 1 | f else . end; 0 | f", "[limit(5; def f: ., (. + 1 | f); 0 | f)]", "def f: reduce (1,2) as $x (.; . + $x) | if . < 10 then f else . end; 0 | f",
	// value parameters rebound by a self tail call (parallel assignment: a later argument reads an earlier parameter)
	"def gcd($a; $b): if $b == 0 then $a else gcd($b; $a % $b) end; gcd(48; 18)", "def fib($a; $b; $n): if $n == 0 then $a else fib($b; $a + $b; $n - 1) end; [fib(0; 1; range(8))]", "def rev($acc; $xs): if ($xs | length) == 0 then $acc else rev([$xs[0]] + $acc; $xs[1:]) end; rev([]; [1, 2, 3, %K])",
	"def sw($a; $b; $n): if $n == 0 then [$a, $b] else sw($b; $a; $n - 1) end; sw(1; 2; 3)", "def f($a; $b): if $a > 3 then [$a, $b] else f($a + 1; $a) end; f(0; 0)", "def f($a): if $a > 3 then $a else ., f($a + 1) end; [f(0)]", "def f($a; $b): if . == 0 then [$a, $b] else . - 1 | f($b; $a) end; 3 | f(\"x\"; \"y\")",
	// labels in a self-recursive function: a break run by an OUTER activation after the inner one has produced its outputs
	"def f: label $out | if .a then (.a | f), (.b, break $out, \"unreachable\") else .b end; {a: {a: {b: 3}, b: 2}, b: 1} | [f]", "def f: label $out | if .a then (.a | f), (.b | ., break $out) else .b end; {a: {a: {b: 3}, b: 2}, b: 1} | [f]", "def f: label $l | if .[0] then (.[0] | f), (.[1], break $l) else . end; [[[null, 3], 2], 1] | [f]?",
	"def f: label $l | if . < 3 then (. + 1 | f), (., break $l, 9) else . end; [0 | f]", "def f: label $l | (if . < 2 then . + 1 | f else . end), (., break $l); [0 | f]", "def f: label $a | label $b | if . < 2 then (. + 1 | f), (break $b) else ., break $a end; [0 | f]",
	"def f: [.[]? | . + 1] | if length > 0 and .[0] < 4 then f else . end; f?", "def w: if . < 100 then . * 2 | w else . end; [1, 3 | w]", "last(range(%K))?", "[limit(3; repeat(%A))]", "[recurse(if . < 3 then . + 1 else empty end)]?", "until(. > 5; . + 2)?", "[while(. < 5; . + 2)]?", "def f: if %A then 1 else 2 end | if . > 5 then f else . end; f?",
}

var biased = []string{
	"[(\"b\", . | 5)]", "[(\"b\", . | [1,2])]", "[(1, 2 | 3)]", "[(\"a\", \"b\", . | 5)]",
	"-1[0]", ".[1[0]]", ".[-1[0]]", "[1,2,3] | .[1.5[0]:2]", ".[\"a\"[0]]?", "1 + (label $l | .)", "{a: ((1, [.]) | 2)}", "1 as $x | {a: ((1, $x) | 2)}", "1 as $x | {a: (if . then 1 else $x end | 2)}", "{(.|tostring): ((reduce 0 as $v (0; .), [.]) | [])}",
	".foo = 1", "try (.foo = 1) catch .", "try (.a.b = 1) catch .", "try (.[0] = 1) catch .", "try (.[1:] = 1) catch .", "[1,[2]] | .[1][0] = 9", "{} | .a.b.c = 1", "null | .[2] = 1", "[1] | .[-1] = 2", "try ([] | .[-1] = 2) catch .", "try (null | .[999999999] = 1) catch .",
	"[1,2,3]", "{a:1,b:[2,{c:3}]}", "[1,[2,[3,[4]]]]", "[.,1]", "[1,.]", "{a:.}", "{a:1,b:.}", "{(1|tostring):2}", "{\"a\":1,\"a\":2}", "{a:1,a:2}", "{a:(1,2)}", "[(1,2)]", "[1,2|.+1]", "[empty]", "[]", "{}", "[[]]", "[{}]", "{a:{}}", "{a:[]}", "[null,true,false]", "[-1]", "[- 1]", "[-(1)]", "[+1]", "{a:-1}", "[\"a\",\"b\"]", "[1.5,1e2,100000000000000000000]",
	"def f: f; limit(0; f)", "def f: if . < 100000 then . + 1 | f else . end; 0 | f", "def f: if . < 1000 then ., (. + 1 | f) else empty end; [0 | f] | length", "def f: (. + 1 | select(. < 1000) | f) // .; 0 | f",
}

// enumerate builds all programs of constructor depth ≤ 2 over the atoms (all of them in the thorough
// tier, a deterministic-random half in the quick tier), plus if/bind shapes of depth 1.
func enumerate(thorough bool, r *common.Rand) []string {
	// $v / $w: a variable reference compiles to `pop; load`, so it puts a load at the END of an
	// alternative and a pop at the START of whatever follows (the join point of a comma/if/try)
	atoms := []string{".", "1", "\"a\"", "null", ".a", "empty", "[.]", "$__loc__.line", "[]", "-1", "$v", "$w", "\"a\\(1)\"", ".a?", ".[0]?"}
	un := []string{"[%s]", "{a: %s}", "-(%s)", "(%s)?", ".[%s]?", "[%s, 2]", "{(%s|tostring): 1}", "first(%s)", "(%s) as $x | $x", "[%s] | length", "path(%s)?", "(%s) |= 1", "(%s) = 1", "try (%s) catch 1", "label $l | %s"}
	bin := []string{"%s, %s", "%s | %s", "%s // %s", "%s + %s", "(%s)[%s]?", "[%s, %s]", "{a: %s, b: %s}", "%s == %s", "%s and %s", "if %s then %s else 3 end", "reduce (%s) as $x (0; %s)", "(%s) as $x | %s"}
	l1 := atoms
	var l2 []string
	for _, u := range un {
		for _, a := range l1 {
			l2 = append(l2, fmt.Sprintf(u, "("+a+")"))
		}
	}
	for _, b := range bin {
		for _, a := range l1 {
			for _, c := range l1 {
				l2 = append(l2, fmt.Sprintf(b, "("+a+")", "("+c+")"))
			}
		}
	}
	out := append([]string{}, l2...)
	keep := func() bool { return thorough && r.Chance(3, 4) || r.Chance(1, 8) }
	for _, u := range un {
		for _, a := range l2 {
			if keep() {
				out = append(out, fmt.Sprintf(u, "("+a+")"))
			}
		}
	}
	for _, b := range bin {
		for _, a := range l1 {
			for _, c := range l2 {
				if keep() {
					out = append(out, fmt.Sprintf(b, "("+a+")", "("+c+")"))
				}
				if keep() {
					out = append(out, fmt.Sprintf(b, "("+c+")", "("+a+")"))
				}
			}
		}
	}
	// without the protective parentheses too: precedence puts different shapes next to each other
	for _, b := range []string{"%s, %s | %s", "%s | %s, %s", "[%s, %s | %s]", "{a: %s, %s | %s}"[:0] + "[(%s, %s | %s)]", "[%s | %s, %s]", "%s // %s | %s", "%s, %s // %s", "[%s, %s, %s]", "[(%s, %s), %s]", "[%s, (%s, %s)]"} {
		for _, a := range l1 {
			for _, c := range l1 {
				for _, d := range l1 {
					out = append(out, fmt.Sprintf(b, a, c, d))
				}
			}
		}
	}
	for i, q := range out {
		if strings.Contains(q, "$v") || strings.Contains(q, "$w") {
			out[i] = "1 as $v | [2] as $w | " + q
		}
	}
	return out
}

package main

// Generator "intfns": translates the Go `int` callbacks of the arithmetic operators
// (operator.go: funcOpAdd, funcOpSub, funcOpMul, funcOpDiv, funcOpMod — the first function
// literal handed to binopTypeSwitch — and `negate`) into Lean definitions over the model's
// wrapping arithmetic (wrap64, goDiv, goMod), file Generated/IntFns.lean. The theorems of
// Props/C10Code.lean are then ABOUT THE SHIPPED SIGN TESTS: a change to one of these functions
// changes the generated definition and the kernel re-checks exactness against it.
//
// Fragment handled (anything else is an error: "the source left the fragment"):
//   statements   if [v := e;] cond { … return }   return e   x, y := e1, e2   switch tag { case c: … default: … }
//   int exprs    identifiers, integer literals, math.MinInt/MaxInt, + - * / % (wrapping), unary -, parentheses
//   bool exprs   == != < <= > >= on ints, == != on bools, && || !
//   big exprs    big.NewInt(int64(e)), new(big.Int).Op(a, b), x.Op(x, y) for Op in Add Sub Mul, new(big.Int).Neg(a)
//   results      int expr, big expr, negate(e), &zeroDivisionError{…}, &zeroModuloError{…}, float64(a) / float64(b)

import (
	"fmt"
	"go/ast"
	"go/parser"
	"go/token"
	"path/filepath"
	"strings"
)

func init() { generators["intfns"] = genIntFns }

type ifn struct {
	vars map[string]string // name -> "int" | "big"
	sb   *strings.Builder
}

func (g *ifn) fail(n ast.Node, fset *token.FileSet, what string) error {
	return fmt.Errorf("operator.go:%d: %s — the source left the fragment the intfns translator handles", fset.Position(n.Pos()).Line, what)
}

var fsetIF *token.FileSet

func (g *ifn) intExpr(e ast.Expr) (string, error) {
	switch e := e.(type) {
	case *ast.ParenExpr:
		return g.intExpr(e.X)
	case *ast.Ident:
		if g.vars[e.Name] == "int" {
			return e.Name, nil
		}
	case *ast.BasicLit:
		if e.Kind == token.INT {
			return "(" + e.Value + " : Int)", nil
		}
	case *ast.SelectorExpr:
		if x, ok := e.X.(*ast.Ident); ok && x.Name == "math" {
			switch e.Sel.Name {
			case "MinInt", "MinInt64":
				return "minInt", nil
			case "MaxInt", "MaxInt64":
				return "maxInt", nil
			}
		}
	case *ast.UnaryExpr:
		if e.Op == token.SUB {
			if lit, ok := e.X.(*ast.BasicLit); ok && lit.Kind == token.INT {
				return "(-" + lit.Value + " : Int)", nil
			}
			x, err := g.intExpr(e.X)
			if err != nil {
				return "", err
			}
			return "(wrap64 (-" + x + "))", nil
		}
	case *ast.BinaryExpr:
		x, err := g.intExpr(e.X)
		if err != nil {
			return "", err
		}
		y, err := g.intExpr(e.Y)
		if err != nil {
			return "", err
		}
		switch e.Op {
		case token.ADD:
			return "(wrap64 (" + x + " + " + y + "))", nil
		case token.SUB:
			return "(wrap64 (" + x + " - " + y + "))", nil
		case token.MUL:
			return "(wrap64 (" + x + " * " + y + "))", nil
		case token.QUO:
			return "(goDiv " + x + " " + y + ")", nil
		case token.REM:
			return "(goMod " + x + " " + y + ")", nil
		}
	}
	return "", g.fail(e, fsetIF, "integer expression not handled")
}

func (g *ifn) boolExpr(e ast.Expr) (string, error) {
	switch e := e.(type) {
	case *ast.ParenExpr:
		return g.boolExpr(e.X)
	case *ast.UnaryExpr:
		if e.Op == token.NOT {
			x, err := g.boolExpr(e.X)
			if err != nil {
				return "", err
			}
			return "(!" + x + ")", nil
		}
	case *ast.BinaryExpr:
		switch e.Op {
		case token.LAND, token.LOR:
			x, err := g.boolExpr(e.X)
			if err != nil {
				return "", err
			}
			y, err := g.boolExpr(e.Y)
			if err != nil {
				return "", err
			}
			if e.Op == token.LAND {
				return "(" + x + " && " + y + ")", nil
			}
			return "(" + x + " || " + y + ")", nil
		case token.EQL, token.NEQ, token.LSS, token.LEQ, token.GTR, token.GEQ:
			// ints first, bools for == / !=
			if x, err := g.intExpr(e.X); err == nil {
				y, err := g.intExpr(e.Y)
				if err != nil {
					return "", err
				}
				op := map[token.Token]string{token.EQL: "=", token.NEQ: "≠", token.LSS: "<", token.LEQ: "≤", token.GTR: ">", token.GEQ: "≥"}[e.Op]
				return "(decide (" + x + " " + op + " " + y + "))", nil
			}
			if e.Op == token.EQL || e.Op == token.NEQ {
				x, err := g.boolExpr(e.X)
				if err != nil {
					return "", err
				}
				y, err := g.boolExpr(e.Y)
				if err != nil {
					return "", err
				}
				if e.Op == token.EQL {
					return "(" + x + " == " + y + ")", nil
				}
				return "(" + x + " != " + y + ")", nil
			}
		}
	}
	return "", g.fail(e, fsetIF, "boolean expression not handled")
}

// bigExpr: exact integers.
func (g *ifn) bigExpr(e ast.Expr) (string, error) {
	switch e := e.(type) {
	case *ast.ParenExpr:
		return g.bigExpr(e.X)
	case *ast.Ident:
		if g.vars[e.Name] == "big" {
			return e.Name, nil
		}
	case *ast.CallExpr:
		if sel, ok := e.Fun.(*ast.SelectorExpr); ok {
			// big.NewInt(int64(e))
			if x, ok := sel.X.(*ast.Ident); ok && x.Name == "big" && sel.Sel.Name == "NewInt" && len(e.Args) == 1 {
				if c, ok := e.Args[0].(*ast.CallExpr); ok && len(c.Args) == 1 {
					if f, ok := c.Fun.(*ast.Ident); ok && f.Name == "int64" {
						return g.intExpr(c.Args[0])
					}
				}
			}
			// recv.Op(a, b): recv is new(big.Int) or a big variable (its value is overwritten)
			recvOK := false
			if c, ok := sel.X.(*ast.CallExpr); ok {
				if f, ok := c.Fun.(*ast.Ident); ok && f.Name == "new" {
					recvOK = true
				}
			}
			if id, ok := sel.X.(*ast.Ident); ok && g.vars[id.Name] == "big" {
				recvOK = true
			}
			if recvOK {
				switch sel.Sel.Name {
				case "Add", "Sub", "Mul":
					if len(e.Args) == 2 {
						a, err := g.bigExpr(e.Args[0])
						if err != nil {
							return "", err
						}
						b, err := g.bigExpr(e.Args[1])
						if err != nil {
							return "", err
						}
						return "(" + a + " " + map[string]string{"Add": "+", "Sub": "-", "Mul": "*"}[sel.Sel.Name] + " " + b + ")", nil
					}
				case "Neg":
					if len(e.Args) == 1 {
						a, err := g.bigExpr(e.Args[0])
						if err != nil {
							return "", err
						}
						return "(-" + a + ")", nil
					}
				}
			}
		}
	}
	return "", g.fail(e, fsetIF, "big.Int expression not handled")
}

// result: an expression in return position.
func (g *ifn) result(e ast.Expr) (string, error) {
	if x, err := g.intExpr(e); err == nil {
		return "R.int " + x, nil
	}
	if x, err := g.bigExpr(e); err == nil {
		return "R.big " + x, nil
	}
	switch e := e.(type) {
	case *ast.CallExpr:
		if f, ok := e.Fun.(*ast.Ident); ok && f.Name == "negate" && len(e.Args) == 1 {
			x, err := g.intExpr(e.Args[0])
			if err != nil {
				return "", err
			}
			return "negate " + x, nil
		}
	case *ast.UnaryExpr:
		if cl, ok := e.X.(*ast.CompositeLit); ok && e.Op == token.AND {
			if id, ok := cl.Type.(*ast.Ident); ok {
				switch id.Name {
				case "zeroDivisionError":
					return "R.zeroDiv", nil
				case "zeroModuloError":
					return "R.zeroMod", nil
				}
			}
		}
	case *ast.BinaryExpr:
		if e.Op == token.QUO {
			fa, ok1 := e.X.(*ast.CallExpr)
			fb, ok2 := e.Y.(*ast.CallExpr)
			if ok1 && ok2 && len(fa.Args) == 1 && len(fb.Args) == 1 {
				ia, _ := fa.Fun.(*ast.Ident)
				ib, _ := fb.Fun.(*ast.Ident)
				if ia != nil && ib != nil && ia.Name == "float64" && ib.Name == "float64" {
					a, err := g.intExpr(fa.Args[0])
					if err != nil {
						return "", err
					}
					b, err := g.intExpr(fb.Args[0])
					if err != nil {
						return "", err
					}
					return "R.fdiv " + a + " " + b, nil
				}
			}
		}
	}
	return "", g.fail(e, fsetIF, "result expression not handled")
}

// block translates a statement list that must end by returning on every path.
func (g *ifn) block(stmts []ast.Stmt, indent string) (string, error) {
	if len(stmts) == 0 {
		return "", fmt.Errorf("a path falls off the end of the function — the source left the fragment the intfns translator handles")
	}
	s, rest := stmts[0], stmts[1:]
	switch s := s.(type) {
	case *ast.ReturnStmt:
		if len(s.Results) != 1 {
			return "", g.fail(s, fsetIF, "return with ≠ 1 result")
		}
		r, err := g.result(s.Results[0])
		if err != nil {
			return "", err
		}
		return indent + r, nil
	case *ast.AssignStmt:
		if s.Tok != token.DEFINE || len(s.Lhs) != len(s.Rhs) {
			return "", g.fail(s, fsetIF, "assignment form not handled")
		}
		out := ""
		for i := range s.Lhs {
			id, ok := s.Lhs[i].(*ast.Ident)
			if !ok {
				return "", g.fail(s, fsetIF, "assignment target not handled")
			}
			if x, err := g.intExpr(s.Rhs[i]); err == nil {
				out += indent + "let " + id.Name + " : Int := " + x + "\n"
				g.vars[id.Name] = "int"
			} else if x, err := g.bigExpr(s.Rhs[i]); err == nil {
				out += indent + "let " + id.Name + " : Int := " + x + "\n"
				g.vars[id.Name] = "big"
			} else {
				return "", err
			}
		}
		r, err := g.block(rest, indent)
		return out + r, err
	case *ast.IfStmt:
		if s.Else != nil {
			return "", g.fail(s, fsetIF, "if with else not handled")
		}
		out := ""
		if s.Init != nil {
			as, ok := s.Init.(*ast.AssignStmt)
			if !ok || as.Tok != token.DEFINE || len(as.Lhs) != 1 || len(as.Rhs) != 1 {
				return "", g.fail(s, fsetIF, "if initialiser not handled")
			}
			id := as.Lhs[0].(*ast.Ident)
			x, err := g.intExpr(as.Rhs[0])
			if err != nil {
				return "", err
			}
			out += indent + "let " + id.Name + " : Int := " + x + "\n"
			g.vars[id.Name] = "int"
		}
		c, err := g.boolExpr(s.Cond)
		if err != nil {
			return "", err
		}
		th, err := g.block(s.Body.List, indent+"  ")
		if err != nil {
			return "", err
		}
		el, err := g.block(rest, indent)
		if err != nil {
			return "", err
		}
		return out + indent + "if " + c + " = true then\n" + th + "\n" + indent + "else\n" + el, nil
	case *ast.SwitchStmt:
		if s.Init != nil || s.Tag == nil || len(rest) != 0 {
			return "", g.fail(s, fsetIF, "switch form not handled")
		}
		tag, err := g.intExpr(s.Tag)
		if err != nil {
			return "", err
		}
		var def *ast.CaseClause
		out := ""
		depth := indent
		for _, cc := range s.Body.List {
			c := cc.(*ast.CaseClause)
			if c.List == nil {
				def = c
				continue
			}
			cond := ""
			for i, v := range c.List {
				x, err := g.intExpr(v)
				if err != nil {
					return "", err
				}
				if i > 0 {
					cond += " || "
				}
				cond += "decide (" + tag + " = " + x + ")"
			}
			body, err := g.block(c.Body, depth+"  ")
			if err != nil {
				return "", err
			}
			out += depth + "if (" + cond + ") = true then\n" + body + "\n" + depth + "else\n"
		}
		if def == nil {
			return "", g.fail(s, fsetIF, "switch without default")
		}
		body, err := g.block(def.Body, depth)
		if err != nil {
			return "", err
		}
		return out + body, nil
	}
	return "", g.fail(s, fsetIF, "statement not handled")
}

func genIntFns(repo, out string) error {
	fset := token.NewFileSet()
	fsetIF = fset
	f, err := parser.ParseFile(fset, filepath.Join(repo, "operator.go"), nil, 0)
	if err != nil {
		return err
	}
	var sb strings.Builder
	sb.WriteString("/- GENERATED by harness/cmd/verifgen (intfns) from operator.go — do not edit.\n   The Go `int` callbacks of the arithmetic operators over the model's wrapping arithmetic. -/\nimport Gojq.Model.GoInt\nnamespace Gojq.Generated.IntFns\nopen Gojq Gojq.GoInt\n\n")
	want := map[string]string{"funcOpAdd": "opAddInt", "funcOpSub": "opSubInt", "funcOpMul": "opMulInt", "funcOpDiv": "opDivInt", "funcOpMod": "opModInt"}
	done := map[string]bool{}
	// negate first (the others call it)
	for _, d := range f.Decls {
		fd, ok := d.(*ast.FuncDecl)
		if !ok || fd.Name.Name != "negate" || fd.Recv != nil {
			continue
		}
		if len(fd.Type.Params.List) != 1 || len(fd.Type.Params.List[0].Names) != 1 {
			return fmt.Errorf("negate: unexpected parameters — the source left the fragment the intfns translator handles")
		}
		p := fd.Type.Params.List[0].Names[0].Name
		g := &ifn{vars: map[string]string{p: "int"}}
		body, err := g.block(fd.Body.List, "  ")
		if err != nil {
			return err
		}
		fmt.Fprintf(&sb, "/-- `negate` (operator.go:%d) -/\ndef negate (%s : Int) : R :=\n%s\n\n", fset.Position(fd.Pos()).Line, p, body)
		done["negate"] = true
	}
	if !done["negate"] {
		return fmt.Errorf("func negate not found in operator.go — the source left the fragment the intfns translator handles")
	}
	for _, d := range f.Decls {
		fd, ok := d.(*ast.FuncDecl)
		if !ok || want[fd.Name.Name] == "" || fd.Recv != nil {
			continue
		}
		// return binopTypeSwitch(l, r, func(l, r int) any {…}, …)
		if len(fd.Body.List) != 1 {
			return fmt.Errorf("%s: body is not a single return — the source left the fragment the intfns translator handles", fd.Name.Name)
		}
		ret, ok := fd.Body.List[0].(*ast.ReturnStmt)
		if !ok || len(ret.Results) != 1 {
			return fmt.Errorf("%s: body is not a single return — the source left the fragment the intfns translator handles", fd.Name.Name)
		}
		call, ok := ret.Results[0].(*ast.CallExpr)
		if !ok || len(call.Args) < 3 {
			return fmt.Errorf("%s: not a binopTypeSwitch call — the source left the fragment the intfns translator handles", fd.Name.Name)
		}
		if id, ok := call.Fun.(*ast.Ident); !ok || id.Name != "binopTypeSwitch" {
			return fmt.Errorf("%s: not a binopTypeSwitch call — the source left the fragment the intfns translator handles", fd.Name.Name)
		}
		lit, ok := call.Args[2].(*ast.FuncLit)
		if !ok {
			return fmt.Errorf("%s: the int callback is not a function literal — the source left the fragment the intfns translator handles", fd.Name.Name)
		}
		var ps []string
		for _, fl := range lit.Type.Params.List {
			if t, ok := fl.Type.(*ast.Ident); !ok || t.Name != "int" {
				return fmt.Errorf("%s: the first callback does not take ints — the source left the fragment the intfns translator handles", fd.Name.Name)
			}
			for _, n := range fl.Names {
				ps = append(ps, n.Name)
			}
		}
		if len(ps) != 2 {
			return fmt.Errorf("%s: the int callback does not take two ints", fd.Name.Name)
		}
		g := &ifn{vars: map[string]string{ps[0]: "int", ps[1]: "int"}}
		body, err := g.block(lit.Body.List, "  ")
		if err != nil {
			return fmt.Errorf("%s: %w", fd.Name.Name, err)
		}
		fmt.Fprintf(&sb, "/-- int callback of `%s` (operator.go:%d) -/\ndef %s (%s %s : Int) : R :=\n%s\n\n", fd.Name.Name, fset.Position(lit.Pos()).Line, want[fd.Name.Name], ps[0], ps[1], body)
		done[fd.Name.Name] = true
	}
	for k := range want {
		if !done[k] {
			return fmt.Errorf("%s not found in operator.go — the source left the fragment the intfns translator handles", k)
		}
	}
	sb.WriteString("end Gojq.Generated.IntFns\n")
	return WriteIfChanged(filepath.Join(out, "IntFns.lean"), []byte(sb.String()))
}

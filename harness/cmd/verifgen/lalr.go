// Generator `lalr` (C09): parser.go / parser.go.y / lexer.go -> <out>/Lalr.lean
//
// Extracted with go/parser + go/ast from the WORKING TREE:
//   - the eleven goyacc tables yyExca yyAct yyPact yyPgo yyR1 yyR2 yyChk yyDef yyTok1 yyTok2 yyTok3
//     as literal `List Int` (long tables split in literal chunks of 64 appended with ++),
//   - yyPrivate yyLast yyFlag yyEofCode yyErrCode yyInitialStackSize, the tok* constants, yyToknames,
//   - the reductions whose semantic action assigns `.inString` (parser -> lexer feedback),
//   - lexer.go: the `keywords` map, and every block of Lex that assigns a literal to l.token and
//     returns a tok* constant (the multi-byte operator spellings with their Operator constant),
//     the `eof` constant, the Operator const block of operator.go and the TermType const block,
//   - parser.go.y: the production list (`lhs: rhs…` signatures, in goyacc numbering: rule 0 is the
//     augmented start rule) and the %left/%right/%nonassoc block.  The production list is
//     cross-checked against yyR2 (length of every right-hand side) so that a .y file that was
//     edited without re-running goyacc makes generation fail.
//
// Anything that does not have the expected shape is an error (no partial output).
package main

import (
	"fmt"
	"go/ast"
	"go/parser"
	"go/token"
	"os"
	"path/filepath"
	"sort"
	"strconv"
	"strings"
)

func init() { generators["lalr"] = genLalr }

var lalrTables = []string{"yyExca", "yyAct", "yyPact", "yyPgo", "yyR1", "yyR2", "yyChk", "yyDef", "yyTok1", "yyTok2", "yyTok3"}
var lalrConsts = []string{"yyPrivate", "yyLast", "yyFlag", "yyEofCode", "yyErrCode", "yyInitialStackSize"}

func intOf(e ast.Expr) (int, error) {
	switch e := e.(type) {
	case *ast.BasicLit:
		switch e.Kind {
		case token.INT:
			v, err := strconv.ParseInt(e.Value, 0, 64)
			return int(v), err
		case token.CHAR:
			s, err := strconv.Unquote(e.Value)
			if err != nil || len(s) != 1 {
				return 0, fmt.Errorf("unsupported char literal %s", e.Value)
			}
			return int(s[0]), nil
		}
	case *ast.UnaryExpr:
		if e.Op == token.SUB {
			v, err := intOf(e.X)
			return -v, err
		}
	case *ast.ParenExpr:
		return intOf(e.X)
	}
	return 0, fmt.Errorf("not an integer literal: %T", e)
}

func leanInt(v int) string {
	if v < 0 {
		return "(" + strconv.Itoa(v) + ")"
	}
	return strconv.Itoa(v)
}

func leanStr(s string) string {
	var sb strings.Builder
	sb.WriteByte('"')
	for _, c := range []byte(s) {
		switch {
		case c == '"' || c == '\\':
			sb.WriteByte('\\')
			sb.WriteByte(c)
		case c < ' ' || c > '~':
			fmt.Fprintf(&sb, "\\x%02x", c)
		default:
			sb.WriteByte(c)
		}
	}
	sb.WriteByte('"')
	return sb.String()
}

// leanBytes renders a Go string as a literal `List UInt8` (kernel-friendly: no String operations).
func leanBytes(s string) string {
	var sb strings.Builder
	sb.WriteByte('[')
	for i, c := range []byte(s) {
		if i > 0 {
			sb.WriteString(", ")
		}
		sb.WriteString(strconv.Itoa(int(c)))
	}
	sb.WriteByte(']')
	return sb.String()
}

// leanComment makes a spelling safe inside a Lean block comment.
func leanComment(s string) string {
	s = strings.ReplaceAll(s, "-/", "- /")
	return strings.ReplaceAll(s, "/-", "/ -")
}

// writeIntTable emits `def name : List Int` as literal chunks (kernel-friendly, see DESIGN §4.1).
func writeIntTable(sb *strings.Builder, name string, xs []int) {
	const chunk = 64
	if len(xs) <= chunk {
		fmt.Fprintf(sb, "def %s : List Int := [", name)
		for i, v := range xs {
			if i > 0 {
				sb.WriteString(", ")
			}
			sb.WriteString(leanInt(v))
		}
		sb.WriteString("]\n\n")
		return
	}
	var parts []string
	for i := 0; i < len(xs); i += chunk {
		j := min(i+chunk, len(xs))
		pn := fmt.Sprintf("%s_%d", name, i/chunk)
		parts = append(parts, pn)
		fmt.Fprintf(sb, "def %s : List Int := [", pn)
		for k, v := range xs[i:j] {
			if k > 0 {
				sb.WriteString(", ")
			}
			if k > 0 && k%16 == 0 {
				sb.WriteString("\n  ")
			}
			sb.WriteString(leanInt(v))
		}
		sb.WriteString("]\n")
	}
	fmt.Fprintf(sb, "def %s : List Int :=\n  %s\n\n", name, strings.Join(parts, " ++ "))
}

type lexOp struct{ spelling, tok, op string }

// yRule is one production of parser.go.y
type yRule struct {
	lhs string
	rhs []string
}

func genLalr(repo, out string) error {
	fset := token.NewFileSet()
	pf, err := parser.ParseFile(fset, filepath.Join(repo, "parser.go"), nil, 0)
	if err != nil {
		return err
	}
	tables := map[string][]int{}
	consts := map[string]int{}
	var tokNames []string // yyToknames
	type tokc struct {
		name string
		val  int
	}
	var tokConsts []tokc
	for _, d := range pf.Decls {
		gd, ok := d.(*ast.GenDecl)
		if !ok {
			continue
		}
		for _, sp := range gd.Specs {
			vs, ok := sp.(*ast.ValueSpec)
			if !ok || len(vs.Names) != 1 || len(vs.Values) != 1 {
				continue
			}
			name := vs.Names[0].Name
			switch {
			case gd.Tok == token.VAR && contains(lalrTables, name):
				cl, ok := vs.Values[0].(*ast.CompositeLit)
				if !ok {
					return fmt.Errorf("%s is not a composite literal", name)
				}
				xs := make([]int, 0, len(cl.Elts))
				for _, e := range cl.Elts {
					v, err := intOf(e)
					if err != nil {
						return fmt.Errorf("%s: %v", name, err)
					}
					xs = append(xs, v)
				}
				tables[name] = xs
			case gd.Tok == token.VAR && name == "yyToknames":
				cl, ok := vs.Values[0].(*ast.CompositeLit)
				if !ok {
					return fmt.Errorf("yyToknames is not a composite literal")
				}
				for _, e := range cl.Elts {
					bl, ok := e.(*ast.BasicLit)
					if !ok || bl.Kind != token.STRING {
						return fmt.Errorf("yyToknames: non-string element")
					}
					s, err := strconv.Unquote(bl.Value)
					if err != nil {
						return err
					}
					tokNames = append(tokNames, s)
				}
			case gd.Tok == token.CONST && contains(lalrConsts, name):
				v, err := intOf(vs.Values[0])
				if err != nil {
					return fmt.Errorf("%s: %v", name, err)
				}
				consts[name] = v
			case gd.Tok == token.CONST && strings.HasPrefix(name, "tok"):
				v, err := intOf(vs.Values[0])
				if err != nil {
					return fmt.Errorf("%s: %v", name, err)
				}
				tokConsts = append(tokConsts, tokc{name, v})
			}
		}
	}
	for _, t := range lalrTables {
		if _, ok := tables[t]; !ok {
			return fmt.Errorf("table %s not found in parser.go", t)
		}
	}
	for _, c := range lalrConsts {
		if _, ok := consts[c]; !ok {
			return fmt.Errorf("constant %s not found in parser.go", c)
		}
	}
	if len(tokConsts) == 0 || len(tokNames) == 0 {
		return fmt.Errorf("token constants / yyToknames not found")
	}
	if len(tables["yyAct"]) != consts["yyLast"] {
		return fmt.Errorf("len(yyAct)=%d but yyLast=%d", len(tables["yyAct"]), consts["yyLast"])
	}
	if len(tables["yyR1"]) != len(tables["yyR2"]) {
		return fmt.Errorf("len(yyR1) != len(yyR2)")
	}
	// the stock yyParse: reductions whose action writes lexer.inString
	var inStringRules []int
	foundParse := false
	for _, d := range pf.Decls {
		fd, ok := d.(*ast.FuncDecl)
		if !ok || fd.Name.Name != "Parse" || fd.Recv == nil {
			continue
		}
		foundParse = true
		ast.Inspect(fd.Body, func(n ast.Node) bool {
			sw, ok := n.(*ast.SwitchStmt)
			if !ok {
				return true
			}
			if id, ok := sw.Tag.(*ast.Ident); !ok || id.Name != "yynt" {
				return true
			}
			for _, st := range sw.Body.List {
				cc := st.(*ast.CaseClause)
				writes := false
				for _, b := range cc.Body {
					ast.Inspect(b, func(m ast.Node) bool {
						if as, ok := m.(*ast.AssignStmt); ok {
							for _, l := range as.Lhs {
								if se, ok := l.(*ast.SelectorExpr); ok && se.Sel.Name == "inString" {
									// only `… .inString = true` is understood
									if id, ok := as.Rhs[0].(*ast.Ident); !ok || id.Name != "true" {
										err = fmt.Errorf("semantic action assigns inString a value other than true")
									}
									writes = true
								}
							}
						}
						return true
					})
				}
				if writes {
					for _, e := range cc.List {
						v, e2 := intOf(e)
						if e2 != nil {
							err = e2
						}
						inStringRules = append(inStringRules, v)
					}
				}
			}
			return false
		})
	}
	if err != nil {
		return err
	}
	if !foundParse {
		return fmt.Errorf("yyParserImpl.Parse not found")
	}

	// ---- lexer.go ------------------------------------------------------------------------
	lf, err := parser.ParseFile(fset, filepath.Join(repo, "lexer.go"), nil, 0)
	if err != nil {
		return err
	}
	type kw struct{ word, tok string }
	var keywords []kw
	eofConst, haveEOF := 0, false
	var lexOps []lexOp
	for _, d := range lf.Decls {
		switch d := d.(type) {
		case *ast.GenDecl:
			for _, sp := range d.Specs {
				vs, ok := sp.(*ast.ValueSpec)
				if !ok || len(vs.Names) != 1 || len(vs.Values) != 1 {
					continue
				}
				switch vs.Names[0].Name {
				case "eof":
					v, err := intOf(vs.Values[0])
					if err != nil {
						return err
					}
					eofConst, haveEOF = v, true
				case "keywords":
					cl, ok := vs.Values[0].(*ast.CompositeLit)
					if !ok {
						return fmt.Errorf("keywords is not a composite literal")
					}
					for _, e := range cl.Elts {
						kv, ok := e.(*ast.KeyValueExpr)
						if !ok {
							return fmt.Errorf("keywords: unexpected element")
						}
						k, ok1 := kv.Key.(*ast.BasicLit)
						v, ok2 := kv.Value.(*ast.Ident)
						if !ok1 || !ok2 || k.Kind != token.STRING {
							return fmt.Errorf("keywords: unexpected key/value")
						}
						s, _ := strconv.Unquote(k.Value)
						keywords = append(keywords, kw{s, v.Name})
					}
				}
			}
		case *ast.FuncDecl:
			if d.Name.Name != "Lex" {
				continue
			}
			// every statement list that assigns a string literal to l.token and returns a tok* constant
			ast.Inspect(d.Body, func(n ast.Node) bool {
				var list []ast.Stmt
				switch n := n.(type) {
				case *ast.BlockStmt:
					list = n.List
				case *ast.CaseClause:
					list = n.Body
				default:
					return true
				}
				var cur lexOp
				for _, st := range list {
					switch st := st.(type) {
					case *ast.AssignStmt:
						if len(st.Lhs) != 1 || len(st.Rhs) != 1 {
							continue
						}
						se, ok := st.Lhs[0].(*ast.SelectorExpr)
						if !ok {
							continue
						}
						switch se.Sel.Name {
						case "token":
							if x, ok := se.X.(*ast.Ident); ok && x.Name == "l" {
								if bl, ok := st.Rhs[0].(*ast.BasicLit); ok && bl.Kind == token.STRING {
									cur.spelling, _ = strconv.Unquote(bl.Value)
								}
							}
						case "operator":
							if id, ok := st.Rhs[0].(*ast.Ident); ok {
								cur.op = id.Name
							}
						}
					case *ast.ReturnStmt:
						if len(st.Results) == 1 && cur.spelling != "" {
							if id, ok := st.Results[0].(*ast.Ident); ok && strings.HasPrefix(id.Name, "tok") {
								cur.tok = id.Name
								lexOps = append(lexOps, cur)
							}
						}
						cur = lexOp{}
					}
				}
				return true
			})
		}
	}
	if len(keywords) == 0 || !haveEOF || len(lexOps) == 0 {
		return fmt.Errorf("lexer.go: keywords map / eof constant / operator blocks not found")
	}
	sort.Slice(lexOps, func(i, j int) bool { return lexOps[i].spelling < lexOps[j].spelling })
	for i := 1; i < len(lexOps); i++ {
		if lexOps[i].spelling == lexOps[i-1].spelling {
			return fmt.Errorf("lexer.go: spelling %q assigned in two places", lexOps[i].spelling)
		}
	}

	// ---- operator.go / term_type.go: iota const blocks -----------------------------------
	operators, err := iotaBlock(fset, filepath.Join(repo, "operator.go"), "Operator")
	if err != nil {
		return err
	}
	termTypes, err := iotaBlock(fset, filepath.Join(repo, "term_type.go"), "TermType")
	if err != nil {
		return err
	}

	opStrings, err := stringerCases(fset, filepath.Join(repo, "operator.go"), "Operator", "String")
	if err != nil {
		return err
	}
	if len(opStrings) != len(operators) {
		return fmt.Errorf("operator.go: Operator.String has %d cases for %d operators", len(opStrings), len(operators))
	}

	// ---- parser.go.y ---------------------------------------------------------------------
	ysrc, err := os.ReadFile(filepath.Join(repo, "parser.go.y"))
	if err != nil {
		return err
	}
	rules, prec, err := parseYacc(string(ysrc))
	if err != nil {
		return fmt.Errorf("parser.go.y: %v", err)
	}
	// rule 0 is goyacc's augmented rule `$accept: <start> $end`
	if len(rules)+1 != len(tables["yyR2"]) {
		return fmt.Errorf("parser.go.y has %d productions but parser.go has %d (+1); parser.go is stale?", len(rules), len(tables["yyR2"])-1)
	}
	for i, r := range rules {
		if tables["yyR2"][i+1] != len(r.rhs) {
			return fmt.Errorf("production %d (%s: %s) has %d symbols but yyR2 says %d; parser.go is stale?", i+1, r.lhs, strings.Join(r.rhs, " "), len(r.rhs), tables["yyR2"][i+1])
		}
	}
	// productions of one nonterminal must share yyR1
	lhsCode := map[string]int{}
	for i, r := range rules {
		c := tables["yyR1"][i+1]
		if old, ok := lhsCode[r.lhs]; ok && old != c {
			return fmt.Errorf("nonterminal %s has two yyR1 codes; parser.go is stale?", r.lhs)
		}
		lhsCode[r.lhs] = c
	}

	// ---- emit ----------------------------------------------------------------------------
	var sb strings.Builder
	sb.WriteString("/- GENERATED by verifgen lalr from parser.go, parser.go.y, lexer.go, operator.go, term_type.go.\n   Do not edit; regenerated on every run of bin/check. -/\n")
	sb.WriteString("namespace Gojq.Generated.Lalr\n\n")
	for _, c := range lalrConsts {
		fmt.Fprintf(&sb, "def %s : Int := %s\n", c, leanInt(consts[c]))
	}
	fmt.Fprintf(&sb, "def eof : Int := %s\n\n", leanInt(eofConst))
	for _, t := range tokConsts {
		fmt.Fprintf(&sb, "def %s : Int := %d\n", t.name, t.val)
	}
	sb.WriteString("\n")
	for _, t := range lalrTables {
		writeIntTable(&sb, t, tables[t])
	}
	sb.WriteString("/-- yyToknames: internal token number = index + 1 -/\ndef yyToknames : List String := [")
	for i, s := range tokNames {
		if i > 0 {
			sb.WriteString(", ")
		}
		if i > 0 && i%8 == 0 {
			sb.WriteString("\n  ")
		}
		sb.WriteString(leanStr(s))
	}
	sb.WriteString("]\n\n")
	sb.WriteString("/-- reductions whose semantic action executes `yylex.(*lexer).inString = true` -/\ndef inStringRules : List Nat := [")
	for i, r := range inStringRules {
		if i > 0 {
			sb.WriteString(", ")
		}
		sb.WriteString(strconv.Itoa(r))
	}
	sb.WriteString("]\n\n")
	sb.WriteString("/-- lexer.go `keywords` (sorted by word): word as bytes, token code -/\ndef keywords : List (List UInt8 × Int) := [")
	sort.Slice(keywords, func(i, j int) bool { return keywords[i].word < keywords[j].word })
	for i, k := range keywords {
		if i > 0 {
			sb.WriteString(",")
		}
		fmt.Fprintf(&sb, "\n  (%s, %s) /- %s -/", leanBytes(k.word), k.tok, leanComment(k.word))
	}
	sb.WriteString("]\n\n")
	sb.WriteString("/-- Operator constants of operator.go (iota + 1) -/\n")
	for i, o := range operators {
		fmt.Fprintf(&sb, "def %s : Nat := %d\n", o, i+1)
	}
	sb.WriteString("def operatorNames : List String := [")
	for i, o := range operators {
		if i > 0 {
			sb.WriteString(", ")
		}
		sb.WriteString(leanStr(o))
	}
	sb.WriteString("]\n\n/-- TermType constants of term_type.go (iota + 1) -/\n")
	for i, o := range termTypes {
		fmt.Fprintf(&sb, "def %s : Nat := %d\n", o, i+1)
	}
	sb.WriteString("def termTypeNames : List String := [")
	for i, o := range termTypes {
		if i > 0 {
			sb.WriteString(", ")
		}
		sb.WriteString(leanStr(o))
	}
	sb.WriteString("]\n\n")
	sb.WriteString("/-- lexer.go Lex: literal spellings assigned to l.token (as bytes) with the token returned and the\n    Operator stored in lval.operator (0 = none); sorted by spelling -/\ndef lexOps : List (List UInt8 × Int × Nat) := [")
	for i, o := range lexOps {
		if i > 0 {
			sb.WriteString(",")
		}
		op := "0"
		if o.op != "" {
			if !contains(operators, o.op) {
				return fmt.Errorf("lexer.go assigns unknown operator %s", o.op)
			}
			op = o.op
		}
		fmt.Fprintf(&sb, "\n  (%s, %s, %s) /- %s -/", leanBytes(o.spelling), o.tok, op, leanComment(o.spelling))
	}
	sb.WriteString("]\n\n")
	sb.WriteString("/-- operator.go Operator.String: operator, spelling as bytes -/\ndef operatorSpellings : List (Nat × List UInt8) := [")
	for i, o := range operators {
		sp, ok := opStrings[o]
		if !ok {
			return fmt.Errorf("operator.go: Operator.String has no case for %s", o)
		}
		if i > 0 {
			sb.WriteString(",")
		}
		fmt.Fprintf(&sb, "\n  (%s, %s) /- %s -/", o, leanBytes(sp), leanComment(sp))
	}
	sb.WriteString("]\n\n")
	sb.WriteString("/-- productions of parser.go.y in goyacc numbering (index = rule number; 0 = augmented rule) -/\ndef ruleSigs : List String := [\n  \"$accept: program $end\"")
	for _, r := range rules {
		fmt.Fprintf(&sb, ",\n  %s", leanStr(r.lhs+": "+strings.Join(r.rhs, " ")))
	}
	sb.WriteString("]\n\n")
	sb.WriteString("/-- the precedence block of parser.go.y, weakest first: associativity, symbols -/\ndef precBlock : List (String × List String) := [")
	for i, p := range prec {
		if i > 0 {
			sb.WriteString(",")
		}
		fmt.Fprintf(&sb, "\n  (%s, [", leanStr(p.lhs))
		for j, s := range p.rhs {
			if j > 0 {
				sb.WriteString(", ")
			}
			sb.WriteString(leanStr(s))
		}
		sb.WriteString("])")
	}
	sb.WriteString("]\n\nend Gojq.Generated.Lalr\n")
	return WriteIfChanged(filepath.Join(out, "Lalr.lean"), []byte(sb.String()))
}

func contains(xs []string, s string) bool {
	for _, x := range xs {
		if x == s {
			return true
		}
	}
	return false
}

// iotaBlock returns the names of the first const block of the given type that starts `X T = iota + 1`.
func iotaBlock(fset *token.FileSet, path, typ string) ([]string, error) {
	f, err := parser.ParseFile(fset, path, nil, 0)
	if err != nil {
		return nil, err
	}
	for _, d := range f.Decls {
		gd, ok := d.(*ast.GenDecl)
		if !ok || gd.Tok != token.CONST || len(gd.Specs) == 0 {
			continue
		}
		first := gd.Specs[0].(*ast.ValueSpec)
		id, ok := first.Type.(*ast.Ident)
		if !ok || id.Name != typ || len(first.Values) != 1 {
			continue
		}
		be, ok := first.Values[0].(*ast.BinaryExpr)
		if !ok || be.Op != token.ADD {
			return nil, fmt.Errorf("%s: const block of %s does not start with iota + 1", path, typ)
		}
		if x, ok := be.X.(*ast.Ident); !ok || x.Name != "iota" {
			return nil, fmt.Errorf("%s: const block of %s does not start with iota + 1", path, typ)
		}
		if v, err := intOf(be.Y); err != nil || v != 1 {
			return nil, fmt.Errorf("%s: const block of %s does not start with iota + 1", path, typ)
		}
		var names []string
		for i, sp := range gd.Specs {
			vs := sp.(*ast.ValueSpec)
			if len(vs.Names) != 1 || i > 0 && (len(vs.Values) != 0 || vs.Type != nil) {
				return nil, fmt.Errorf("%s: const block of %s is not a plain iota enumeration", path, typ)
			}
			names = append(names, vs.Names[0].Name)
		}
		return names, nil
	}
	return nil, fmt.Errorf("%s: no const block of type %s", path, typ)
}

// stringerCases reads `func (x T) <method>() string { switch x { case A: return "a" … } }`.
func stringerCases(fset *token.FileSet, path, typ, method string) (map[string]string, error) {
	f, err := parser.ParseFile(fset, path, nil, 0)
	if err != nil {
		return nil, err
	}
	for _, d := range f.Decls {
		fd, ok := d.(*ast.FuncDecl)
		if !ok || fd.Name.Name != method || fd.Recv == nil || len(fd.Recv.List) != 1 {
			continue
		}
		if id, ok := fd.Recv.List[0].Type.(*ast.Ident); !ok || id.Name != typ {
			continue
		}
		if len(fd.Body.List) != 1 {
			return nil, fmt.Errorf("%s: %s.%s is not a single switch", path, typ, method)
		}
		sw, ok := fd.Body.List[0].(*ast.SwitchStmt)
		if !ok {
			return nil, fmt.Errorf("%s: %s.%s is not a single switch", path, typ, method)
		}
		out := map[string]string{}
		for _, st := range sw.Body.List {
			cc := st.(*ast.CaseClause)
			if cc.List == nil {
				continue // default: panic
			}
			if len(cc.Body) != 1 {
				return nil, fmt.Errorf("%s: %s.%s: case with more than one statement", path, typ, method)
			}
			rs, ok := cc.Body[0].(*ast.ReturnStmt)
			if !ok || len(rs.Results) != 1 {
				return nil, fmt.Errorf("%s: %s.%s: case does not return a literal", path, typ, method)
			}
			bl, ok := rs.Results[0].(*ast.BasicLit)
			if !ok || bl.Kind != token.STRING {
				return nil, fmt.Errorf("%s: %s.%s: case does not return a literal", path, typ, method)
			}
			v, _ := strconv.Unquote(bl.Value)
			for _, e := range cc.List {
				id, ok := e.(*ast.Ident)
				if !ok {
					return nil, fmt.Errorf("%s: %s.%s: case label is not an identifier", path, typ, method)
				}
				out[id.Name] = v
			}
		}
		return out, nil
	}
	return nil, fmt.Errorf("%s: method %s.%s not found", path, typ, method)
}

// parseYacc reads the rules section and the precedence declarations of a goyacc grammar.
func parseYacc(src string) (rules []yRule, prec []yRule, err error) {
	parts := strings.SplitN(src, "\n%%", 3)
	if len(parts) < 2 {
		return nil, nil, fmt.Errorf("no %%%% separator")
	}
	for _, line := range strings.Split(parts[0], "\n") {
		f := strings.Fields(line)
		if len(f) >= 2 && (f[0] == "%left" || f[0] == "%right" || f[0] == "%nonassoc") {
			prec = append(prec, yRule{f[0][1:], f[1:]})
		}
	}
	body := parts[1]
	// tokenise: identifiers, ':' '|' , quoted chars, %prec X, { action }
	var toks []string
	for i := 0; i < len(body); {
		c := body[i]
		switch {
		case c == ' ' || c == '\t' || c == '\n' || c == '\r':
			i++
		case c == '/' && i+1 < len(body) && body[i+1] == '/':
			for i < len(body) && body[i] != '\n' {
				i++
			}
		case c == '/' && i+1 < len(body) && body[i+1] == '*':
			j := strings.Index(body[i+2:], "*/")
			if j < 0 {
				return nil, nil, fmt.Errorf("unterminated comment")
			}
			i += j + 4
		case c == '{':
			depth := 0
			for ; i < len(body); i++ {
				switch body[i] {
				case '{':
					depth++
				case '}':
					depth--
				case '"', '`':
					q := body[i]
					for i++; i < len(body) && body[i] != q; i++ {
						if body[i] == '\\' && q == '"' {
							i++
						}
					}
				case '\'':
					for i++; i < len(body) && body[i] != '\''; i++ {
						if body[i] == '\\' {
							i++
						}
					}
				}
				if depth == 0 {
					break
				}
			}
			if depth != 0 {
				return nil, nil, fmt.Errorf("unbalanced action block")
			}
			i++
			toks = append(toks, "{}")
		case c == '\'':
			j := i + 1
			for j < len(body) && body[j] != '\'' {
				if body[j] == '\\' {
					j++
				}
				j++
			}
			toks = append(toks, body[i:j+1])
			i = j + 1
		case c == ':' || c == '|' || c == ';':
			toks = append(toks, string(c))
			i++
		case c == '%' || c == '_' || c >= 'a' && c <= 'z' || c >= 'A' && c <= 'Z':
			j := i + 1
			for j < len(body) && (body[j] == '_' || body[j] >= 'a' && body[j] <= 'z' || body[j] >= 'A' && body[j] <= 'Z' || body[j] >= '0' && body[j] <= '9') {
				j++
			}
			toks = append(toks, body[i:j])
			i = j
		default:
			return nil, nil, fmt.Errorf("unexpected character %q in rules section", c)
		}
	}
	// grammar: (ident ':' alt ('|' alt)* ';'?)*   where a new rule starts at `ident ':'`
	var cur *yRule
	lhs := ""
	flush := func() {
		if cur != nil {
			rules = append(rules, *cur)
			cur = nil
		}
	}
	for i := 0; i < len(toks); i++ {
		t := toks[i]
		switch {
		case i+1 < len(toks) && toks[i+1] == ":" && t != "{}" && t != "|" && t != ":" && !strings.HasPrefix(t, "'"):
			flush()
			lhs = t
			cur = &yRule{lhs: lhs}
			i++
		case t == "|":
			if lhs == "" {
				return nil, nil, fmt.Errorf("'|' before any rule")
			}
			flush()
			cur = &yRule{lhs: lhs}
		case t == ";":
			flush()
		case t == "{}":
			// only trailing actions are understood (a mid-rule action would add a hidden production)
			if i+1 < len(toks) && toks[i+1] != "|" && toks[i+1] != ";" && !(i+2 < len(toks) && toks[i+2] == ":") {
				return nil, nil, fmt.Errorf("mid-rule action in a production of %s", lhs)
			}
		case t == "%prec":
			i++
		default:
			if cur == nil {
				return nil, nil, fmt.Errorf("symbol %s outside a rule", t)
			}
			cur.rhs = append(cur.rhs, t)
		}
	}
	flush()
	if len(rules) == 0 {
		return nil, nil, fmt.Errorf("no productions found")
	}
	return rules, prec, nil
}

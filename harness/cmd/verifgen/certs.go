// Generator `certs` (C20): certificates for the per-program footprint theorems.
//
// The certificate of a program is the finite set of ShVM shapes closed under ShVM.step and,
// per shape, the positions of its successors.  It is computed by the worklist of
// lean/Gojq/Model/ShVM.lean itself (so it always matches the model's `step`), run through
// the driver executable `drv_c20 certs`, which this generator (re)builds first — it needs
// Generated/Programs.lean, so `programs` must be listed before `certs`.  The output is
// untrusted: the kernel re-checks every transition in Gojq/Props/C20*.lean.
//
// Output: <out>/Certs.lean (umbrella) and <out>/Certs/<program>.lean.
// A subject program whose worklist does not close (a frame, fork or block retained per
// turn) gets no certificate module and the generator fails.
package main

import (
	"bytes"
	"fmt"
	"os"
	"os/exec"
	"path/filepath"
	"strings"
	"syscall"
)

func init() { generators["certs"] = genCerts }

func c20LakeRoot(out string) (string, error) {
	d, err := filepath.Abs(out)
	if err != nil {
		return "", err
	}
	for ; d != "/" && d != "."; d = filepath.Dir(d) {
		if _, err := os.Stat(filepath.Join(d, "lakefile.toml")); err == nil {
			return d, nil
		}
	}
	return "", fmt.Errorf("no lakefile.toml above %s", out)
}

func genCerts(repo, out string) error {
	if _, err := os.Stat(filepath.Join(out, "Programs.lean")); err != nil {
		return fmt.Errorf("Programs.lean missing (run generator `programs` first): %v", err)
	}
	root, err := c20LakeRoot(out)
	if err != nil {
		return err
	}
	// same lock as bin/check's lake step
	cache := filepath.Join(filepath.Dir(root), ".cache")
	if err := os.MkdirAll(cache, 0o755); err != nil {
		return err
	}
	lf, err := os.OpenFile(filepath.Join(cache, "lake.lock"), os.O_CREATE|os.O_RDWR, 0o644)
	if err != nil {
		return err
	}
	defer lf.Close()
	if err := syscall.Flock(int(lf.Fd()), syscall.LOCK_EX); err != nil {
		return err
	}
	build := exec.Command("lake", "build", "drv_c20")
	build.Dir = root
	bo, err := build.CombinedOutput()
	syscall.Flock(int(lf.Fd()), syscall.LOCK_UN)
	if err != nil {
		return fmt.Errorf("lake build drv_c20: %v\n%s", err, c20Tail(string(bo), 3000))
	}
	run := exec.Command(filepath.Join(root, ".lake", "build", "bin", "drv_c20"), "certs")
	var stdout, stderr bytes.Buffer
	run.Stdout, run.Stderr = &stdout, &stderr
	runErr := run.Run()
	// split the multi-file stream
	files := map[string][]byte{}
	var cur string
	var buf bytes.Buffer
	flush := func() {
		if cur != "" {
			files[cur] = append([]byte(nil), buf.Bytes()...)
		}
		buf.Reset()
	}
	for _, line := range strings.SplitAfter(stdout.String(), "\n") {
		if strings.HasPrefix(line, "=== FILE ") {
			flush()
			cur = strings.TrimSpace(strings.TrimPrefix(line, "=== FILE "))
			if cur == "" || strings.Contains(cur, "..") || filepath.IsAbs(cur) {
				return fmt.Errorf("bad file name in driver output: %q", cur)
			}
			continue
		}
		buf.WriteString(line)
	}
	flush()
	if _, ok := files["Certs.lean"]; !ok {
		return fmt.Errorf("drv_c20 certs produced no Certs.lean (%v)\n%s", runErr, c20Tail(stderr.String(), 3000))
	}
	// stale per-program modules must not survive
	if old, err := filepath.Glob(filepath.Join(out, "Certs", "*.lean")); err == nil {
		for _, p := range old {
			rel, _ := filepath.Rel(out, p)
			if _, ok := files[rel]; !ok {
				os.Remove(p)
			}
		}
	}
	for rel, content := range files {
		if err := WriteIfChanged(filepath.Join(out, rel), content); err != nil {
			return err
		}
	}
	if runErr != nil {
		return fmt.Errorf("no certificate for every subject program (%v):\n%s", runErr, c20Tail(stderr.String(), 3000))
	}
	return nil
}

func c20Tail(s string, n int) string {
	if len(s) > n {
		return s[len(s)-n:]
	}
	return s
}

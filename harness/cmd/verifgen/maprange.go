package main

// Generator `maprange` (owner: C05, map-order independence) -> <out>/MapRange.lean
// (namespace Gojq.Generated.MapRange).
//
// One entry per place of package gojq (repository root) and package cli (cli/) — default
// build, test files excluded — where the ORDER in which Go enumerates a map can reach the
// program: the order of a map traversal is unspecified and differs from run to run, so
// every such place must either sort what it collected or perform an order-insensitive fold
// (C05: "nothing depends on Go map iteration order").
//
// Sites (found with go/ast + go/types, not by text search):
//
//	range-k / range-kv / range-v / range-none   a `for … := range x` statement with x of map type
//	                                            (any key / element type)
//	range-untyped                               a range statement whose operand could not be typed
//	                                            (conservative: counted as a site of class U)
//	maps.Keys maps.Values maps.All maps.Clone maps.Copy maps.Insert maps.Collect maps.DeleteFunc
//	maps.Equal maps.EqualFunc                   a call of that function of package maps
//	reflect.MapKeys reflect.MapRange            a call of that method on a reflect.Value
//
// `len(m)`, `m[k]`, `delete(m, k)`, `clear(m)` outside a traversal are no sites.
//
// Structural class, computed from the AST only (an analysis, not a proof — the theorems of
// Props/C05Maps.lean are about the hand-written transliterations; this table pins WHICH
// functions traverse a map and of what shape the traversal is):
//
//	S  collect-then-sort: the body of the range statement only stores the key (or a
//	   struct/composite literal built from key and value) into ONE slice — `xs = append(xs, k)`
//	   or `xs[i] = …; i++` — and the first later statement of the enclosing block that mentions
//	   xs is a call sort.Strings(xs) / slices.Sort(xs) / sort.Slice(xs, less) /
//	   sort.SliceStable / slices.SortFunc / slices.SortStableFunc; `sorter` names the call.
//	   Also `slices.Sorted(maps.Keys(m))`.
//	C  order-insensitive fold by shape: the body consists only of stores `d[k] = e` into a map
//	   at exactly the range key, `delete(d, k)`, `n++` / `n += e` / `n -= e`, local `:=`
//	   declarations, assignments to the range statement's own value variable, `continue`,
//	   and if/else over the same; e must not mention a destination
//	   map other than through an index at the range key `d[k]`.  No break, return, goto, no
//	   other assignment, no call statement.  Also maps.Clone, maps.Copy, maps.Insert.
//	U  anything else (early exits, calls with effects, appends that are not sorted, …): needs
//	   an argument on the Lean side (hand table of Props/C05Maps.lean).
//
// The generator fails (no stale pass) when a file does not parse or the standard library
// cannot be loaded for type checking.  Type errors caused by third-party imports (replaced
// by empty stub packages when the module cache does not hold them; listed in `stubbedImports`) are tolerated: an operand whose type
// is unknown for that reason is reported as `range-untyped`.

import (
	"fmt"
	"go/ast"
	"go/build"
	"go/importer"
	"go/parser"
	"go/printer"
	"go/token"
	"go/types"
	"os"
	"os/exec"
	"path/filepath"
	"reflect"
	"runtime"
	"sort"
	"strings"
)

func init() { generators["maprange"] = genMapRange }

type mrSite struct {
	pkg, file, fn string
	ord           int // ordinal of the site within (file, fn), source order
	kind          string
	mapType       string
	cls           string // S, C, U
	sorter        string // for S
	less          string // for S with a comparison function: its printed body
	why           string // for U: first reason the shape checks failed
	line          int
}

type mrImporter struct {
	std     types.Importer
	local   map[string]*types.Package
	stubbed map[string]bool
	stdErr  error
	// third-party packages: module path -> version (go.mod of the repository), module cache
	fset     *token.FileSet
	modules  map[string]string
	modcache string
}

func (im *mrImporter) Import(path string) (*types.Package, error) {
	if p, ok := im.local[path]; ok {
		return p, nil
	}
	if path == "unsafe" {
		return types.Unsafe, nil
	}
	if isStdlib(path) {
		p, err := im.std.Import(path)
		if err != nil && im.stdErr == nil {
			im.stdErr = fmt.Errorf("standard library package %s: %v", path, err)
		}
		return p, err
	}
	if p := im.thirdParty(path); p != nil {
		im.local[path] = p
		return p, nil
	}
	im.stubbed[path] = true
	name := path[strings.LastIndexByte(path, '/')+1:]
	p := types.NewPackage(path, name)
	p.MarkComplete()
	im.local[path] = p
	return p, nil
}

// thirdParty type-checks a package of a module required by the repository's go.mod from the
// module cache (sources only; build constraints by go/build). nil when it cannot be found —
// the caller then substitutes an empty package and lists the path in `stubbedImports`.
func (im *mrImporter) thirdParty(path string) *types.Package {
	best, ver := "", ""
	for m, v := range im.modules {
		if (path == m || strings.HasPrefix(path, m+"/")) && len(m) > len(best) {
			best, ver = m, v
		}
	}
	if best == "" || im.modcache == "" {
		return nil
	}
	esc := func(s string) string {
		var sb strings.Builder
		for _, r := range s {
			if 'A' <= r && r <= 'Z' {
				sb.WriteByte('!')
				r += 'a' - 'A'
			}
			sb.WriteRune(r)
		}
		return sb.String()
	}
	dir := filepath.Join(im.modcache, filepath.FromSlash(esc(best))+"@"+esc(ver), filepath.FromSlash(strings.TrimPrefix(strings.TrimPrefix(path, best), "/")))
	names, _ := filepath.Glob(filepath.Join(dir, "*.go"))
	sort.Strings(names)
	var files []*ast.File
	for _, n := range names {
		if strings.HasSuffix(n, "_test.go") {
			continue
		}
		if ok, err := build.Default.MatchFile(dir, filepath.Base(n)); err != nil || !ok {
			continue
		}
		f, err := parser.ParseFile(im.fset, n, nil, parser.SkipObjectResolution)
		if err != nil {
			return nil
		}
		files = append(files, f)
	}
	if len(files) == 0 {
		return nil
	}
	// break import cycles through a placeholder while the package is being checked
	im.local[path] = types.NewPackage(path, files[0].Name.Name)
	conf := types.Config{Importer: im, Error: func(error) {}}
	p, _ := conf.Check(path, im.fset, files, nil)
	delete(im.local, path)
	return p
}

// mrModules reads the `require` lines of a go.mod (module path -> version).
func mrModules(gomod string) map[string]string {
	out := map[string]string{}
	data, err := os.ReadFile(gomod)
	if err != nil {
		return out
	}
	for _, line := range strings.Split(string(data), "\n") {
		if i := strings.Index(line, "//"); i >= 0 {
			line = line[:i]
		}
		fs := strings.Fields(line)
		if len(fs) >= 1 && fs[0] == "require" {
			fs = fs[1:]
		}
		if len(fs) == 2 && strings.Contains(fs[0], ".") && strings.HasPrefix(fs[1], "v") {
			out[fs[0]] = fs[1]
		}
	}
	return out
}

func mrModCache() string {
	if d := os.Getenv("GOMODCACHE"); d != "" {
		return d
	}
	if out, err := exec.Command("go", "env", "GOMODCACHE").Output(); err == nil {
		if d := strings.TrimSpace(string(out)); d != "" {
			return d
		}
	}
	if d := os.Getenv("GOPATH"); d != "" {
		return filepath.Join(filepath.SplitList(d)[0], "pkg", "mod")
	}
	if h, err := os.UserHomeDir(); err == nil {
		return filepath.Join(h, "go", "pkg", "mod")
	}
	return ""
}

// mrEnsureGoroot makes go/build find the standard library sources when the binary was built
// by a toolchain whose GOROOT is not recorded (e.g. -trimpath).
func mrEnsureGoroot() {
	if g := runtime.GOROOT(); g != "" {
		if _, err := os.Stat(filepath.Join(g, "src", "fmt")); err == nil {
			return
		}
	}
	if out, err := exec.Command("go", "env", "GOROOT").Output(); err == nil {
		if g := strings.TrimSpace(string(out)); g != "" {
			os.Setenv("GOROOT", g)
		}
	}
}

type mrPkg struct {
	name  string // gojq / cli
	files []*ast.File
	names []string
	info  *types.Info
	pkg   *types.Package
}

func mrLoad(fset *token.FileSet, dir, pkgName, importPath string, im *mrImporter) (*mrPkg, error) {
	names, err := filepath.Glob(filepath.Join(dir, "*.go"))
	if err != nil {
		return nil, err
	}
	sort.Strings(names)
	p := &mrPkg{name: pkgName}
	for _, n := range names {
		if strings.HasSuffix(n, "_test.go") {
			continue
		}
		f, err := parser.ParseFile(fset, n, nil, parser.ParseComments|parser.SkipObjectResolution)
		if err != nil {
			return nil, err
		}
		ok, err := defaultBuild(f)
		if err != nil {
			return nil, fmt.Errorf("%s: %v", n, err)
		}
		if !ok {
			continue
		}
		if f.Name.Name != pkgName {
			return nil, fmt.Errorf("%s: package %s, expected %s", n, f.Name.Name, pkgName)
		}
		p.files = append(p.files, f)
		p.names = append(p.names, filepath.Base(n))
	}
	if len(p.files) == 0 {
		return nil, fmt.Errorf("no Go files of package %s under %s", pkgName, dir)
	}
	p.info = &types.Info{
		Types: map[ast.Expr]types.TypeAndValue{},
		Uses:  map[*ast.Ident]types.Object{},
		Defs:  map[*ast.Ident]types.Object{},
	}
	conf := types.Config{Importer: im, Error: func(error) {}, GoVersion: ""}
	p.pkg, _ = conf.Check(importPath, fset, p.files, p.info)
	if im.stdErr != nil {
		return nil, im.stdErr
	}
	if p.pkg == nil {
		return nil, fmt.Errorf("package %s could not be type-checked", pkgName)
	}
	im.local[importPath] = p.pkg
	return p, nil
}

var mrMapsFuncs = map[string]bool{
	"Keys": true, "Values": true, "All": true, "Clone": true, "Copy": true, "Insert": true,
	"Collect": true, "DeleteFunc": true, "Equal": true, "EqualFunc": true,
}

var mrSorters = map[string]bool{
	"sort.Strings": true, "slices.Sort": true, "sort.Slice": true, "sort.SliceStable": true,
	"slices.SortFunc": true, "slices.SortStableFunc": true, "sort.Sort": true, "sort.Stable": true,
}

type mrWalker struct {
	fset  *token.FileSet
	p     *mrPkg
	file  string
	fn    string
	sites *[]mrSite
	ord   map[string]int
	// parents of the nodes on the current path
	stack  []ast.Node
	less   string // comparison function of the last S classification
	curVal string // value variable of the range statement being classified as a fold
}

// pkgCall returns "pkg.Fun" when call is a call of a function selected from an imported package.
func (w *mrWalker) pkgCall(call *ast.CallExpr) string {
	fun := call.Fun
	if ix, ok := fun.(*ast.IndexExpr); ok { // explicit instantiation
		fun = ix.X
	}
	if ix, ok := fun.(*ast.IndexListExpr); ok {
		fun = ix.X
	}
	sel, ok := fun.(*ast.SelectorExpr)
	if !ok {
		return ""
	}
	id, ok := sel.X.(*ast.Ident)
	if !ok {
		return ""
	}
	if pn, ok := w.p.info.Uses[id].(*types.PkgName); ok {
		return pn.Imported().Path() + "." + sel.Sel.Name
	}
	return ""
}

func (w *mrWalker) add(n ast.Node, kind, mapType, cls, sorter, why string) {
	key := w.file + "\x00" + w.fn
	w.ord[key]++
	less := ""
	if cls == "S" {
		less = w.less
	}
	w.less = ""
	*w.sites = append(*w.sites, mrSite{pkg: w.p.name, file: w.file, fn: w.fn, ord: w.ord[key], kind: kind,
		mapType: mapType, cls: cls, sorter: sorter, less: less, why: why, line: w.fset.Position(n.Pos()).Line})
}

func mrIsIdent(e ast.Expr, name string) bool {
	id, ok := e.(*ast.Ident)
	return ok && name != "" && name != "_" && id.Name == name
}

func mrMentions(n ast.Node, name string) bool {
	found := false
	ast.Inspect(n, func(x ast.Node) bool {
		if id, ok := x.(*ast.Ident); ok && id.Name == name {
			found = true
		}
		return !found
	})
	return found
}

// enclosing statement list and index of the statement holding node n (n is on w.stack)
func (w *mrWalker) enclosingList(n ast.Node) ([]ast.Stmt, int) {
	for i := len(w.stack) - 1; i >= 0; i-- {
		var list []ast.Stmt
		switch b := w.stack[i].(type) {
		case *ast.BlockStmt:
			list = b.List
		case *ast.CaseClause:
			list = b.Body
		case *ast.CommClause:
			list = b.Body
		default:
			continue
		}
		for j, s := range list {
			if s.Pos() <= n.Pos() && n.End() <= s.End() {
				return list, j
			}
		}
	}
	return nil, -1
}

// collectTarget: the body stores only into one slice (possibly under if / for / range
// statements whose headers do not mention it); returns its name.
func (w *mrWalker) collectTarget(rs *ast.RangeStmt) (string, string) {
	st := &mrCollect{w: w}
	if why := st.stmts(rs.Body.List); why != "" {
		return "", why
	}
	if st.target == "" {
		return "", "no store"
	}
	return st.target, ""
}

type mrCollect struct {
	w               *mrWalker
	target, counter string
	headers         []ast.Node
}

func (st *mrCollect) stmts(list []ast.Stmt) string {
	for _, s := range list {
		if why := st.stmt(s); why != "" {
			return why
		}
	}
	for _, h := range st.headers {
		if st.target != "" && mrMentions(h, st.target) {
			return "a loop or if header mentions the collected slice"
		}
	}
	return ""
}

func (st *mrCollect) stmt(s ast.Stmt) string {
	w := st.w
	switch s := s.(type) {
	case *ast.AssignStmt:
		if len(s.Lhs) != 1 || len(s.Rhs) != 1 {
			return "assignment with several operands"
		}
		// xs = append(xs, e)
		if id, ok := s.Lhs[0].(*ast.Ident); ok && s.Tok == token.ASSIGN {
			call, ok := s.Rhs[0].(*ast.CallExpr)
			if !ok || !mrIsIdent(call.Fun, "append") || len(call.Args) != 2 || !mrIsIdent(call.Args[0], id.Name) || call.Ellipsis.IsValid() {
				return "assignment that is not xs = append(xs, e)"
			}
			if st.target != "" && st.target != id.Name {
				return "stores into two slices"
			}
			st.target = id.Name
			if mrMentions(call.Args[1], id.Name) {
				return "stored element mentions the slice"
			}
			return ""
		}
		// xs[i] = e
		if ix, ok := s.Lhs[0].(*ast.IndexExpr); ok && s.Tok == token.ASSIGN {
			id, ok := ix.X.(*ast.Ident)
			ci, ok2 := ix.Index.(*ast.Ident)
			if !ok || !ok2 {
				return "indexed store that is not xs[i] = e"
			}
			if t := w.p.info.Types[ix.X].Type; t == nil {
				return "untyped store"
			} else if _, isSlice := t.Underlying().(*types.Slice); !isSlice {
				return "indexed store into a non-slice"
			}
			if st.target != "" && st.target != id.Name || st.counter != "" && st.counter != ci.Name {
				return "stores into two slices"
			}
			st.target, st.counter = id.Name, ci.Name
			if mrMentions(s.Rhs[0], id.Name) {
				return "stored element mentions the slice"
			}
			return ""
		}
		return "other assignment"
	case *ast.IncDecStmt:
		id, ok := s.X.(*ast.Ident)
		if !ok || s.Tok != token.INC || st.counter == "" || id.Name != st.counter {
			return "increment of something other than the store index"
		}
		return ""
	case *ast.IfStmt:
		if s.Init != nil || s.Else != nil {
			return "if with init or else in a collecting body"
		}
		st.headers = append(st.headers, s.Cond)
		return st.stmts(s.Body.List)
	case *ast.ForStmt:
		for _, h := range []ast.Node{s.Init, s.Cond, s.Post} {
			if h != nil && !reflect.ValueOf(h).IsNil() {
				st.headers = append(st.headers, h)
			}
		}
		return st.stmts(s.Body.List)
	case *ast.RangeStmt:
		st.headers = append(st.headers, s.X)
		return st.stmts(s.Body.List)
	}
	return fmt.Sprintf("statement %T in a collecting body", s)
}

// sortedNext: the later statements of the enclosing block that mention xs are further
// collecting statements into xs, up to a sorter call on xs.  Returns the sorter's name and the
// printed comparison function (sort.Slice & co.).
func (w *mrWalker) sortedNext(rs ast.Node, xs string) (string, string, string) {
	list, j := w.enclosingList(rs)
	if list == nil {
		return "", "", "no enclosing block"
	}
	for _, s := range list[j+1:] {
		if !mrMentions(s, xs) {
			continue
		}
		es, ok := s.(*ast.ExprStmt)
		if !ok {
			st := &mrCollect{w: w}
			if why := st.stmt(s); why == "" && st.target == xs {
				continue
			}
			return "", "", "collected slice used before being sorted"
		}
		call, ok := es.X.(*ast.CallExpr)
		if !ok {
			return "", "", "collected slice used before being sorted"
		}
		name := w.pkgCall(call)
		if !mrSorters[name] || len(call.Args) == 0 || !mrIsIdent(call.Args[0], xs) {
			return "", "", "collected slice used before being sorted"
		}
		less := ""
		if len(call.Args) == 2 {
			var sb strings.Builder
			if fl, ok := call.Args[1].(*ast.FuncLit); ok {
				printer.Fprint(&sb, w.fset, fl.Body)
			} else {
				printer.Fprint(&sb, w.fset, call.Args[1])
			}
			less = strings.Join(strings.Fields(sb.String()), " ")
		}
		return name, less, ""
	}
	return "", "", "collected slice never sorted in the enclosing block"
}

// foldBody: statements of an order-insensitive fold at key k (see the header).
func (w *mrWalker) foldBody(list []ast.Stmt, k string, dests map[string]bool) string {
	for _, s := range list {
		if why := w.foldStmt(s, k, dests); why != "" {
			return why
		}
	}
	return ""
}

func (w *mrWalker) isMap(e ast.Expr) bool {
	t := w.p.info.Types[e].Type
	if t == nil {
		return false
	}
	_, ok := t.Underlying().(*types.Map)
	return ok
}

func (w *mrWalker) foldStmt(s ast.Stmt, k string, dests map[string]bool) string {
	switch s := s.(type) {
	case *ast.AssignStmt:
		if s.Tok == token.DEFINE {
			return "" // local declaration; its right-hand side is checked by foldReads
		}
		if len(s.Lhs) != 1 || len(s.Rhs) != 1 {
			return "assignment with several operands"
		}
		switch l := s.Lhs[0].(type) {
		case *ast.IndexExpr:
			d, ok := l.X.(*ast.Ident)
			if !ok || !w.isMap(l.X) {
				return "indexed store into something other than a map variable"
			}
			if !mrIsIdent(l.Index, k) {
				return "store into a map at an index other than the range key"
			}
			if s.Tok != token.ASSIGN {
				return "compound assignment into a map"
			}
			dests[d.Name] = true
			return ""
		case *ast.Ident:
			if s.Tok == token.ADD_ASSIGN || s.Tok == token.SUB_ASSIGN {
				if t := w.p.info.Types[s.Lhs[0]].Type; t != nil {
					if b, ok := t.Underlying().(*types.Basic); ok && b.Info()&types.IsInteger != 0 {
						return ""
					}
				}
			}
			if l.Name == w.curVal && l.Name != "" && l.Name != "_" && s.Tok == token.ASSIGN {
				return "" // the range statement's own value variable: per iteration
			}
			return "assignment to a variable declared outside the body"
		}
		return "other assignment"
	case *ast.IncDecStmt:
		if _, ok := s.X.(*ast.Ident); ok {
			return ""
		}
		return "increment of a non-variable"
	case *ast.ExprStmt:
		if call, ok := s.X.(*ast.CallExpr); ok && mrIsIdent(call.Fun, "delete") && len(call.Args) == 2 {
			d, ok := call.Args[0].(*ast.Ident)
			if ok && mrIsIdent(call.Args[1], k) {
				dests[d.Name] = true
				return ""
			}
			return "delete at an index other than the range key"
		}
		return "call statement"
	case *ast.IfStmt:
		if s.Init != nil {
			if as, ok := s.Init.(*ast.AssignStmt); !ok || as.Tok != token.DEFINE {
				return "if with an init statement that is not a declaration"
			}
		}
		if why := w.foldBody(s.Body.List, k, dests); why != "" {
			return why
		}
		switch e := s.Else.(type) {
		case nil:
		case *ast.BlockStmt:
			return w.foldBody(e.List, k, dests)
		case *ast.IfStmt:
			return w.foldStmt(e, k, dests)
		}
		return ""
	case *ast.BranchStmt:
		if s.Tok == token.CONTINUE && s.Label == nil {
			return ""
		}
		return "break/goto/labelled branch"
	case *ast.BlockStmt:
		return w.foldBody(s.List, k, dests)
	case *ast.ReturnStmt:
		return "return inside the traversal"
	}
	return fmt.Sprintf("statement %T", s)
}

// foldReads: a destination map may be mentioned in the body only as d[k] (or as the
// first argument of delete); the ranged operand itself only if it is not a destination.
func (w *mrWalker) foldReads(body *ast.BlockStmt, k string, dests map[string]bool) string {
	why := ""
	var visit func(n ast.Node) bool
	visit = func(n ast.Node) bool {
		if why != "" {
			return false
		}
		switch x := n.(type) {
		case *ast.IndexExpr:
			if id, ok := x.X.(*ast.Ident); ok && dests[id.Name] && mrIsIdent(x.Index, k) {
				return false
			}
		case *ast.CallExpr:
			if mrIsIdent(x.Fun, "delete") && len(x.Args) == 2 {
				if id, ok := x.Args[0].(*ast.Ident); ok && dests[id.Name] && mrIsIdent(x.Args[1], k) {
					return false
				}
			}
		case *ast.FuncLit:
			why = "function literal in the body"
			return false
		case *ast.Ident:
			if dests[x.Name] {
				why = "destination map " + x.Name + " read other than at the range key"
			}
		}
		return true
	}
	ast.Inspect(body, visit)
	return why
}

func (w *mrWalker) classifyRange(rs *ast.RangeStmt) (cls, sorter, why string) {
	k := ""
	if id, ok := rs.Key.(*ast.Ident); ok {
		k = id.Name
	}
	// S
	xs, whyS := w.collectTarget(rs)
	if xs != "" {
		if name, less, why2 := w.sortedNext(rs, xs); name != "" {
			w.less = less
			return "S", name, ""
		} else {
			whyS = why2
		}
	}
	// C
	if k == "" || k == "_" {
		// no key: only counting bodies are folds
		dests := map[string]bool{}
		if why := w.foldBody(rs.Body.List, "\x00", dests); why == "" && len(dests) == 0 {
			return "C", "", ""
		}
		return "U", "", "no range key; " + whyS
	}
	dests := map[string]bool{}
	w.curVal = ""
	if id, ok := rs.Value.(*ast.Ident); ok && rs.Tok == token.DEFINE {
		w.curVal = id.Name
	}
	whyC := w.foldBody(rs.Body.List, k, dests)
	w.curVal = ""
	if whyC == "" {
		whyC = w.foldReads(rs.Body, k, dests)
	}
	if whyC == "" {
		return "C", "", ""
	}
	if xs != "" {
		return "U", "", whyS
	}
	return "U", "", whyC
}

func (w *mrWalker) walk(n ast.Node) {
	ast.Inspect(n, func(x ast.Node) bool {
		if x == nil {
			w.stack = w.stack[:len(w.stack)-1]
			return true
		}
		w.stack = append(w.stack, x)
		switch x := x.(type) {
		case *ast.RangeStmt:
			tv, ok := w.p.info.Types[x.X]
			if !ok || tv.Type == nil || tv.Type == types.Typ[types.Invalid] {
				w.add(x, "range-untyped", "?", "U", "", "operand could not be typed")
				break
			}
			m, ok := tv.Type.Underlying().(*types.Map)
			if !ok {
				break
			}
			kind := "range-none"
			hasK := x.Key != nil && !mrIsIdent(x.Key, "_") && !isBlank(x.Key)
			hasV := x.Value != nil && !isBlank(x.Value)
			switch {
			case hasK && hasV:
				kind = "range-kv"
			case hasK:
				kind = "range-k"
			case hasV:
				kind = "range-v"
			}
			cls, sorter, why := w.classifyRange(x)
			w.add(x, kind, types.TypeString(m, func(p *types.Package) string { return p.Name() }), cls, sorter, why)
		case *ast.CallExpr:
			if sel, ok := x.Fun.(*ast.SelectorExpr); ok && (sel.Sel.Name == "MapKeys" || sel.Sel.Name == "MapRange") {
				if t := w.p.info.Types[sel.X].Type; t == nil || strings.HasSuffix(t.String(), "reflect.Value") {
					w.add(x, "reflect."+sel.Sel.Name, "?", "U", "", "map traversal through package reflect")
					break
				}
			}
			name := w.pkgCall(x)
			if !strings.HasPrefix(name, "maps.") || !mrMapsFuncs[strings.TrimPrefix(name, "maps.")] {
				break
			}
			mt := "?"
			if len(x.Args) > 0 {
				if t := w.p.info.Types[x.Args[len(x.Args)-1]].Type; t != nil {
					if _, ok := t.Underlying().(*types.Map); ok {
						mt = types.TypeString(t.Underlying(), func(p *types.Package) string { return p.Name() })
					}
				}
				if t := w.p.info.Types[x.Args[0]].Type; t != nil && mt == "?" {
					if _, ok := t.Underlying().(*types.Map); ok {
						mt = types.TypeString(t.Underlying(), func(p *types.Package) string { return p.Name() })
					}
				}
			}
			switch name {
			case "maps.Clone", "maps.Copy", "maps.Insert":
				w.add(x, name, mt, "C", "", "")
			case "maps.Keys", "maps.Values", "maps.All":
				// slices.Sorted(maps.Keys(m))
				if len(w.stack) >= 2 {
					if outer, ok := w.stack[len(w.stack)-2].(*ast.CallExpr); ok && name == "maps.Keys" {
						if on := w.pkgCall(outer); (on == "slices.Sorted") && len(outer.Args) == 1 && outer.Args[0] == ast.Expr(x) {
							w.add(x, name, mt, "S", on, "")
							break
						}
					}
				}
				w.add(x, name, mt, "U", "", "iterator over a map not passed directly to slices.Sorted")
			default:
				w.add(x, name, mt, "U", "", "call of "+name)
			}
		}
		return true
	})
}

func isBlank(e ast.Expr) bool {
	id, ok := e.(*ast.Ident)
	return ok && id.Name == "_"
}

func genMapRange(repo, out string) error {
	mrEnsureGoroot()
	fset := token.NewFileSet()
	im := &mrImporter{std: importer.ForCompiler(fset, "source", nil), local: map[string]*types.Package{}, stubbed: map[string]bool{},
		fset: fset, modules: mrModules(filepath.Join(repo, "go.mod")), modcache: mrModCache()}
	gojqPkg, err := mrLoad(fset, repo, "gojq", "github.com/itchyny/gojq", im)
	if err != nil {
		return err
	}
	cliPkg, err := mrLoad(fset, filepath.Join(repo, "cli"), "cli", "github.com/itchyny/gojq/cli", im)
	if err != nil {
		return err
	}
	var sites []mrSite
	nfuncs := 0
	for _, p := range []*mrPkg{gojqPkg, cliPkg} {
		for i, f := range p.files {
			w := &mrWalker{fset: fset, p: p, file: p.names[i], sites: &sites, ord: map[string]int{}}
			if p.name == "cli" {
				w.file = "cli/" + w.file
			}
			for _, d := range f.Decls {
				w.fn = "<package-level>"
				if fd, ok := d.(*ast.FuncDecl); ok {
					w.fn = funcName(fd)
					nfuncs++
				}
				w.stack = w.stack[:0]
				w.walk(d)
			}
		}
	}
	if nfuncs < 100 {
		return fmt.Errorf("only %d functions seen: the package was not loaded", nfuncs)
	}
	var stubs []string
	for s := range im.stubbed {
		stubs = append(stubs, s)
	}
	sort.Strings(stubs)

	var sb strings.Builder
	sb.WriteString("/- GENERATED by `verifgen maprange` from the repository working tree — do not edit.\n")
	sb.WriteString("   Every place of packages gojq and cli (default build, no test files) where a Go map is\n")
	sb.WriteString("   traversed, with a structural classification of the traversal (see maprange.go). -/\n")
	sb.WriteString("namespace Gojq.Generated.MapRange\n\n")
	sb.WriteString("/-- one traversal of a map: `ord` = ordinal within (file, fn) in source order; `cls` = \"S\" collect-then-sort\n    (`sorter` names the call), \"C\" order-insensitive fold by shape, \"U\" neither (`why`: first failed shape check) -/\n")
	sb.WriteString("structure Site where\n  pkg : String\n  file : String\n  fn : String\n  ord : Nat\n  kind : String\n  mapType : String\n  cls : String\n  sorter : String\n  less : String\n  why : String\n  deriving Repr, DecidableEq\n\n")
	sb.WriteString("def sites : List Site := [")
	for i, s := range sites {
		if i > 0 {
			sb.WriteString(",")
		}
		fmt.Fprintf(&sb, "\n  -- %s:%d\n  { pkg := %s, file := %s, fn := %s, ord := %d, kind := %s, mapType := %s, cls := %s, sorter := %s, less := %s, why := %s }",
			s.file, s.line, factsStr(s.pkg), factsStr(s.file), factsStr(s.fn), s.ord, factsStr(s.kind), factsStr(s.mapType), factsStr(s.cls), factsStr(s.sorter), factsStr(s.less), factsStr(s.why))
	}
	sb.WriteString("]\n\n")
	sb.WriteString("/-- third-party imports replaced by empty packages during type checking -/\ndef stubbedImports : List String := [")
	for i, s := range stubs {
		if i > 0 {
			sb.WriteString(", ")
		}
		sb.WriteString(factsStr(s))
	}
	sb.WriteString("]\n\n")
	fmt.Fprintf(&sb, "/-- number of function declarations walked -/\ndef functionsWalked : Nat := %d\n\n", nfuncs)
	sb.WriteString("end Gojq.Generated.MapRange\n")
	if err := os.MkdirAll(out, 0o755); err != nil {
		return err
	}
	return WriteIfChanged(filepath.Join(out, "MapRange.lean"), []byte(sb.String()))
}

// verifgen — the translator (DESIGN §4.1): regenerates lean/Gojq/Generated/*.lean from
// /repo's working tree on every run.
//
//	verifgen -repo /repo -out <dir> <name>…      (all = every registered generator)
//
// One file per generator; each registers itself in `generators` from an init().
// A generator must fail loudly (return an error) when the source has left the
// fragment it handles, and must write its output through WriteIfChanged so that
// unchanged tables do not trigger Lean rebuilds.
package main

import (
	"bytes"
	"flag"
	"fmt"
	"os"
	"path/filepath"
	"sort"
)

// generators maps a generator name to a function writing one or more files under out.
var generators = map[string]func(repo, out string) error{}

// WriteIfChanged writes content to path unless the file already holds exactly it.
func WriteIfChanged(path string, content []byte) error {
	if old, err := os.ReadFile(path); err == nil && bytes.Equal(old, content) {
		return nil
	}
	if err := os.MkdirAll(filepath.Dir(path), 0o755); err != nil {
		return err
	}
	tmp := path + ".tmp"
	if err := os.WriteFile(tmp, content, 0o644); err != nil {
		return err
	}
	return os.Rename(tmp, path)
}

// order: generators that read another generator's output run after it.
func order(name string) int {
	if name == "certs" {
		return 1
	}
	return 0
}

func main() {
	repo := flag.String("repo", "/repo", "repository working tree")
	out := flag.String("out", "", "output directory (lean/Gojq/Generated)")
	flag.Parse()
	if *out == "" {
		fmt.Fprintln(os.Stderr, "verifgen: -out required")
		os.Exit(2)
	}
	names := flag.Args()
	if len(names) == 1 && names[0] == "all" {
		names = nil
		for n := range generators {
			names = append(names, n)
		}
		sort.Strings(names)
		// dependencies between generators: `certs` reads the file written by `programs`
		sort.SliceStable(names, func(i, j int) bool { return order(names[i]) < order(names[j]) })
	}
	for _, n := range names {
		g, ok := generators[n]
		if !ok {
			fmt.Fprintf(os.Stderr, "verifgen: unknown generator %q\n", n)
			os.Exit(2)
		}
		if err := g(*repo, *out); err != nil {
			fmt.Fprintf(os.Stderr, "verifgen: %s: %v\n", n, err)
			os.Exit(1)
		}
	}
}

package main

// Generator `facts` -> <out>/Facts.lean (namespace Gojq.Generated.Facts).
//
// Whole-package syntactic facts about package gojq (the non-test files of the repository
// root that are part of a default build: build tags `verif` and `gojq_debug` off), used by
// C19: every use of ambient state per enclosing function, the import list of every file,
// every use of packages `unsafe` / `reflect`, every call into third-party code, and who
// refers to the functions that (transitively, within their own file) touch ambient state.
//
// Selector expressions are resolved syntactically: `x.Sel` counts as a use of package p when
// `x` is an identifier the parser could not resolve to a local or package-level declaration
// and the file imports p under that name.  Dot imports and cgo make generation fail.

import (
	"fmt"
	"go/ast"
	"go/build/constraint"
	"go/parser"
	"go/token"
	"os"
	"path"
	"path/filepath"
	"runtime"
	"sort"
	"strconv"
	"strings"
)

func init() { generators["facts"] = genFacts }

var stdlibAmbientAll = map[string]bool{
	"os": true, "os/exec": true, "os/signal": true, "os/user": true, "syscall": true, "io/ioutil": true,
	"plugin": true, "math/rand": true, "math/rand/v2": true, "crypto/rand": true, "log": true, "C": true,
	"runtime/debug": true, "net": true,
}

var stdlibAmbientSome = map[string]map[string]bool{
	"time": {"Now": true, "Local": true, "LoadLocation": true, "Since": true, "Until": true, "Sleep": true,
		"After": true, "AfterFunc": true, "Tick": true, "NewTimer": true, "NewTicker": true},
	"path/filepath": {"Glob": true, "Walk": true, "WalkDir": true, "Abs": true, "EvalSymlinks": true},
	"fmt": {"Print": true, "Printf": true, "Println": true, "Scan": true, "Scanf": true, "Scanln": true},
}

func isAmbient(pkg, sel string) bool {
	if stdlibAmbientAll[pkg] || strings.HasPrefix(pkg, "net/") && pkg != "net/url" && pkg != "net/netip" {
		return true
	}
	return stdlibAmbientSome[pkg][sel]
}

func isStdlib(pkg string) bool {
	first := pkg
	if i := strings.IndexByte(pkg, '/'); i >= 0 {
		first = pkg[:i]
	}
	return !strings.Contains(first, ".")
}

// defaultBuild reports whether a file belongs to a build without the tags verif / gojq_debug.
func defaultBuild(f *ast.File) (bool, error) {
	for _, cg := range f.Comments {
		if cg.Pos() >= f.Package {
			break
		}
		for _, c := range cg.List {
			if !constraint.IsGoBuild(c.Text) {
				continue
			}
			expr, err := constraint.Parse(c.Text)
			if err != nil {
				return false, err
			}
			return expr.Eval(func(tag string) bool {
				return tag == runtime.GOOS || tag == runtime.GOARCH || tag == "unix" || tag == "gc" || strings.HasPrefix(tag, "go1.")
			}), nil
		}
	}
	return true, nil
}

type triple struct{ file, fn, sel string }

func sortTriples(ts []triple) []triple {
	seen := map[triple]bool{}
	var out []triple
	for _, t := range ts {
		if !seen[t] {
			seen[t] = true
			out = append(out, t)
		}
	}
	sort.Slice(out, func(i, j int) bool {
		a, b := out[i], out[j]
		if a.file != b.file {
			return a.file < b.file
		}
		if a.fn != b.fn {
			return a.fn < b.fn
		}
		return a.sel < b.sel
	})
	return out
}

func factsStr(s string) string { return strconv.Quote(s) }

func leanTriples(name string, ts []triple) string {
	var sb strings.Builder
	fmt.Fprintf(&sb, "def %s : List (String × String × String) := [", name)
	for i, t := range ts {
		if i > 0 {
			sb.WriteString(",")
		}
		fmt.Fprintf(&sb, "\n  (%s, %s, %s)", factsStr(t.file), factsStr(t.fn), factsStr(t.sel))
	}
	sb.WriteString("]\n\n")
	return sb.String()
}

func funcName(fd *ast.FuncDecl) string {
	if fd.Recv == nil || len(fd.Recv.List) == 0 {
		return fd.Name.Name
	}
	t := fd.Recv.List[0].Type
	if s, ok := t.(*ast.StarExpr); ok {
		t = s.X
	}
	if ix, ok := t.(*ast.IndexExpr); ok {
		t = ix.X
	}
	if id, ok := t.(*ast.Ident); ok {
		return id.Name + "." + fd.Name.Name
	}
	return "?." + fd.Name.Name
}

type pkgFile struct {
	name    string
	f       *ast.File
	imports map[string]string // local name -> import path
}

func parsePackage(repo string) ([]*pkgFile, *token.FileSet, error) {
	fset := token.NewFileSet()
	names, err := filepath.Glob(filepath.Join(repo, "*.go"))
	if err != nil {
		return nil, nil, err
	}
	sort.Strings(names)
	var files []*pkgFile
	for _, n := range names {
		if strings.HasSuffix(n, "_test.go") {
			continue
		}
		f, err := parser.ParseFile(fset, n, nil, parser.ParseComments)
		if err != nil {
			return nil, nil, err
		}
		if f.Name.Name != "gojq" {
			return nil, nil, fmt.Errorf("%s: package %s, expected gojq", n, f.Name.Name)
		}
		ok, err := defaultBuild(f)
		if err != nil {
			return nil, nil, fmt.Errorf("%s: %v", n, err)
		}
		if !ok {
			continue
		}
		pf := &pkgFile{name: filepath.Base(n), f: f, imports: map[string]string{}}
		for _, im := range f.Imports {
			p, _ := strconv.Unquote(im.Path.Value)
			if p == "C" {
				return nil, nil, fmt.Errorf("%s: cgo is outside the handled fragment", n)
			}
			local := path.Base(p)
			if !isStdlib(p) {
				local = strings.TrimPrefix(strings.TrimSuffix(local, "-go"), "go-")
				if strings.HasPrefix(local, "v") && len(local) <= 3 { // …/v2
					local = path.Base(path.Dir(p))
				}
			}
			if im.Name != nil {
				switch im.Name.Name {
				case ".":
					return nil, nil, fmt.Errorf("%s: dot import of %s is outside the handled fragment", n, p)
				case "_":
					continue
				}
				local = im.Name.Name
			}
			pf.imports[local] = p
		}
		files = append(files, pf)
	}
	if len(files) == 0 {
		return nil, nil, fmt.Errorf("no Go files of package gojq under %s", repo)
	}
	return files, fset, nil
}

func genFacts(repo, out string) error {
	files, _, err := parsePackage(repo)
	if err != nil {
		return err
	}
	var ambient, third, unsafeReflect []triple
	type fnode struct {
		file  string
		refs  map[string]bool // identifiers referred to (resolve to package-level functions)
		mrefs map[string]bool // selected names x.M with x not an imported package (resolve to methods)
		meth  bool
	}
	funcs := map[string]*fnode{} // display name -> node
	bare := map[string][]string{} // bare name -> display names
	var importLines []string
	for _, pf := range files {
		var ps []string
		for _, im := range pf.f.Imports {
			p, _ := strconv.Unquote(im.Path.Value)
			ps = append(ps, p)
		}
		sort.Strings(ps)
		qs := make([]string, len(ps))
		for i, p := range ps {
			qs[i] = factsStr(p)
		}
		importLines = append(importLines, fmt.Sprintf("  (%s, [%s])", factsStr(pf.name), strings.Join(qs, ", ")))
		for _, d := range pf.f.Decls {
			if fd, ok := d.(*ast.FuncDecl); ok {
				n := funcName(fd)
				if n == "init" {
					n = "init@" + pf.name
				}
				funcs[n] = &fnode{file: pf.name, refs: map[string]bool{}, mrefs: map[string]bool{}, meth: fd.Recv != nil}
				bare[fd.Name.Name] = append(bare[fd.Name.Name], n)
			}
		}
	}
	for _, pf := range files {
		for _, d := range pf.f.Decls {
			fn := "<package-level>"
			var node *fnode
			var self *ast.Ident
			if fd, ok := d.(*ast.FuncDecl); ok {
				fn = funcName(fd)
				if fn == "init" {
					fn = "init@" + pf.name
				}
				node = funcs[fn]
				self = fd.Name
			}
			// identifiers that hold a reflect.Value obtained from reflect.ValueOf
			holders := map[string]bool{}
			ast.Inspect(d, func(n ast.Node) bool {
				as, ok := n.(*ast.AssignStmt)
				if !ok || len(as.Lhs) != len(as.Rhs) {
					return true
				}
				for i, r := range as.Rhs {
					if call, ok := r.(*ast.CallExpr); ok {
						if inner, ok := call.Fun.(*ast.SelectorExpr); ok {
							if id, ok := inner.X.(*ast.Ident); ok && id.Obj == nil && pf.imports[id.Name] == "reflect" {
								if l, ok := as.Lhs[i].(*ast.Ident); ok {
									holders[l.Name] = true
								}
							}
						}
					}
				}
				return true
			})
			// method chains on reflect.ValueOf(...): record `reflect.ValueOf(_).M`
			chained := map[*ast.SelectorExpr]bool{}
			ast.Inspect(d, func(n ast.Node) bool {
				switch x := n.(type) {
				case *ast.SelectorExpr:
					if call, ok := x.X.(*ast.CallExpr); ok {
						if inner, ok := call.Fun.(*ast.SelectorExpr); ok {
							if id, ok := inner.X.(*ast.Ident); ok && id.Obj == nil && pf.imports[id.Name] == "reflect" {
								unsafeReflect = append(unsafeReflect, triple{pf.name, fn, "reflect." + inner.Sel.Name + "(_)." + x.Sel.Name})
								chained[inner] = true
							}
						}
					}
					id, ok := x.X.(*ast.Ident)
					if ok && holders[id.Name] {
						unsafeReflect = append(unsafeReflect, triple{pf.name, fn, "reflect.ValueOf(_)." + x.Sel.Name})
					}
					var p string
					if ok && id.Obj == nil {
						p, ok = pf.imports[id.Name]
					} else {
						ok = false
					}
					if !ok {
						if node != nil {
							node.mrefs[x.Sel.Name] = true
						}
						return true
					}
					sel := id.Name + "." + x.Sel.Name
					switch {
					case p == "unsafe" || p == "reflect":
						if !chained[x] {
							unsafeReflect = append(unsafeReflect, triple{pf.name, fn, sel})
						}
					case !isStdlib(p):
						third = append(third, triple{pf.name, fn, sel})
					case isAmbient(p, x.Sel.Name):
						ambient = append(ambient, triple{pf.name, fn, sel})
					}
				case *ast.Ident:
					if node != nil && x != self && (x.Obj == nil || x.Obj.Kind == ast.Fun) {
						node.refs[x.Name] = true
					}
				}
				return true
			})
		}
	}
	ambient, third, unsafeReflect = sortTriples(ambient), sortTriples(third), sortTriples(unsafeReflect)
	// a `reflect.ValueOf` whose result is stored and used later: also report the methods
	// called on identifiers named like the stored values is beyond syntax; the plain
	// `reflect.ValueOf` entries stay in the list and the expected table names them.

	// closure, file-local: functions that touch ambient state directly or through functions
	// of the same file
	inClosure := map[string]bool{}
	for _, t := range ambient {
		if _, ok := funcs[t.fn]; ok {
			inClosure[t.fn] = true
		}
	}
	targets := func(node *fnode) []string {
		var ts []string
		for ref := range node.refs {
			for _, t := range bare[ref] {
				if !funcs[t].meth {
					ts = append(ts, t)
				}
			}
		}
		for ref := range node.mrefs {
			for _, t := range bare[ref] {
				if funcs[t].meth {
					ts = append(ts, t)
				}
			}
		}
		return ts
	}
	for changed := true; changed; {
		changed = false
		for name, node := range funcs {
			if inClosure[name] {
				continue
			}
			for _, target := range targets(node) {
				if inClosure[target] && funcs[target].file == node.file && target != name {
					inClosure[name] = true
					changed = true
				}
			}
		}
	}
	var closure, entries []triple
	for name := range inClosure {
		closure = append(closure, triple{funcs[name].file, name, ""})
	}
	for name, node := range funcs {
		for _, target := range targets(node) {
			if inClosure[target] && funcs[target].file != node.file {
				entries = append(entries, triple{node.file, name, target})
			}
		}
	}
	closure, entries = sortTriples(closure), sortTriples(entries)

	var sb strings.Builder
	sb.WriteString("/- GENERATED by `verifgen facts` from the repository working tree — do not edit.\n")
	sb.WriteString("   Syntactic facts about package gojq (default build: tags verif, gojq_debug off). -/\n")
	sb.WriteString("namespace Gojq.Generated.Facts\n\n")
	sb.WriteString("/-- import list of every file -/\ndef imports : List (String × List String) := [\n" + strings.Join(importLines, ",\n") + "]\n\n")
	sb.WriteString("/-- (file, enclosing function, selector): every use of os.*, os/exec, net, syscall, io/ioutil, math/rand,\n    crypto/rand, log, time.Now/Local/LoadLocation/Since/…, filepath.Glob/Walk/Abs/EvalSymlinks, fmt.Print*/Scan* -/\n")
	sb.WriteString(leanTriples("ambientUses", ambient))
	sb.WriteString("/-- every call into a package outside the standard library -/\n")
	sb.WriteString(leanTriples("thirdPartyUses", third))
	sb.WriteString("/-- every use of package unsafe or reflect (method chains on reflect.ValueOf(_) spelled out) -/\n")
	sb.WriteString(leanTriples("unsafeReflectUses", unsafeReflect))
	sb.WriteString("/-- (file, function, \"\"): functions that touch ambient state directly or through functions of their own file -/\n")
	sb.WriteString(leanTriples("ambientClosure", closure))
	sb.WriteString("/-- (file, referring function, function of the closure): every reference from another file -/\n")
	sb.WriteString(leanTriples("ambientEntryEdges", entries))
	sb.WriteString("end Gojq.Generated.Facts\n")
	if err := os.MkdirAll(out, 0o755); err != nil {
		return err
	}
	return WriteIfChanged(filepath.Join(out, "Facts.lean"), []byte(sb.String()))
}

package main

// Generator `nativetable` (owner: C03): Generated/NativeTable.lean
//
//   table : List Entry   — one entry per key of the `internalFuncs` composite literal in the
//                          `init` of func.go: name, arity bit mask, iter flag, the constructor
//                          used (`argFunc0` … `mathFunc3`, `literal`), the Go identifier of the
//                          callee (`funcLength`, `math.Sin`, "" for `nil` = handled by the
//                          compiler) and, for mathFunc*, the name passed for error messages.
//
// Extracted with go/ast from the working tree's func.go and cross-checked against the table of
// the BUILT package (gojq.VerifNatives(): same names, masks, iter flags) — a disagreement means the extraction no longer understands the source and is an
// error, not a stale pass. Sorted by name. Consumed by Props/C03 (`native_table_covered`), C19.
//
// Handled entry forms (anything else fails generation):
//	"name": argFuncN(f | nil)                 N = 0..3   mask 1<<N
//	"name": mathFunc("name", f)                          mask 1<<0
//	"name": mathFunc2(...) / mathFunc3(...)              mask 1<<2 / 1<<3
//	"name": {mask-expr, bool, f}              mask-expr over argcountK and |

import (
	"fmt"
	"go/ast"
	"go/parser"
	"go/token"
	"path/filepath"
	"sort"
	"strconv"
	"strings"

	"github.com/itchyny/gojq"
)

func init() { generators["nativetable"] = genNativeTable }

type nativeEntry struct {
	name    string
	mask    int
	iter    bool
	ctor    string
	callee  string
	errName string
}

func ntExprString(e ast.Expr) (string, error) {
	switch e := e.(type) {
	case *ast.Ident:
		return e.Name, nil
	case *ast.SelectorExpr:
		x, err := ntExprString(e.X)
		if err != nil {
			return "", err
		}
		return x + "." + e.Sel.Name, nil
	}
	return "", fmt.Errorf("callee is neither an identifier nor a selector: %T", e)
}

func ntMaskExpr(e ast.Expr) (int, error) {
	switch e := e.(type) {
	case *ast.Ident:
		switch e.Name {
		case "argcount0":
			return 1, nil
		case "argcount1":
			return 2, nil
		case "argcount2":
			return 4, nil
		case "argcount3":
			return 8, nil
		}
		return 0, fmt.Errorf("unknown arity constant %s", e.Name)
	case *ast.BinaryExpr:
		if e.Op != token.OR {
			return 0, fmt.Errorf("arity mask uses operator %s", e.Op)
		}
		l, err := ntMaskExpr(e.X)
		if err != nil {
			return 0, err
		}
		r, err := ntMaskExpr(e.Y)
		if err != nil {
			return 0, err
		}
		return l | r, nil
	case *ast.ParenExpr:
		return ntMaskExpr(e.X)
	}
	return 0, fmt.Errorf("arity mask expression %T not understood", e)
}

var ntCtorMask = map[string]int{"argFunc0": 1, "argFunc1": 2, "argFunc2": 4, "argFunc3": 8, "mathFunc": 1, "mathFunc2": 4, "mathFunc3": 8}

func ntCalleeOf(e ast.Expr) (string, error) {
	if id, ok := e.(*ast.Ident); ok && id.Name == "nil" {
		return "", nil
	}
	return ntExprString(e)
}

// ntCheckArgcountConsts verifies `argcount0 = 1 << iota; argcount1; argcount2; argcount3`
// (so that ntMaskExpr's reading of the constants is right).
func ntCheckArgcountConsts(f *ast.File) error {
	for _, d := range f.Decls {
		gd, ok := d.(*ast.GenDecl)
		if !ok || gd.Tok != token.CONST || len(gd.Specs) == 0 {
			continue
		}
		first, ok := gd.Specs[0].(*ast.ValueSpec)
		if !ok || len(first.Names) != 1 || first.Names[0].Name != "argcount0" {
			continue
		}
		if len(gd.Specs) != 4 {
			return fmt.Errorf("the argcount const block has %d entries, expected 4", len(gd.Specs))
		}
		for i, s := range gd.Specs {
			vs := s.(*ast.ValueSpec)
			if len(vs.Names) != 1 || vs.Names[0].Name != fmt.Sprintf("argcount%d", i) {
				return fmt.Errorf("constant #%d of the argcount block is not argcount%d", i, i)
			}
			if i == 0 {
				if len(vs.Values) != 1 {
					return fmt.Errorf("argcount0 is not `1 << iota`")
				}
				be, ok := vs.Values[0].(*ast.BinaryExpr)
				if !ok || be.Op != token.SHL {
					return fmt.Errorf("argcount0 is not `1 << iota`")
				}
				l, ok1 := be.X.(*ast.BasicLit)
				r, ok2 := be.Y.(*ast.Ident)
				if !ok1 || !ok2 || l.Value != "1" || r.Name != "iota" {
					return fmt.Errorf("argcount0 is not `1 << iota`")
				}
			} else if len(vs.Values) != 0 {
				return fmt.Errorf("%s has its own value", vs.Names[0].Name)
			}
		}
		return nil
	}
	return fmt.Errorf("const block argcount0… not found")
}

func extractNativeTable(repo string) ([]nativeEntry, error) {
	fset := token.NewFileSet()
	f, err := parser.ParseFile(fset, filepath.Join(repo, "func.go"), nil, 0)
	if err != nil {
		return nil, err
	}
	if err := ntCheckArgcountConsts(f); err != nil {
		return nil, err
	}
	var lit *ast.CompositeLit
	for _, d := range f.Decls {
		fd, ok := d.(*ast.FuncDecl)
		if !ok || fd.Name.Name != "init" || fd.Recv != nil {
			continue
		}
		for _, st := range fd.Body.List {
			as, ok := st.(*ast.AssignStmt)
			if !ok || len(as.Lhs) != 1 || len(as.Rhs) != 1 {
				continue
			}
			if id, ok := as.Lhs[0].(*ast.Ident); ok && id.Name == "internalFuncs" {
				cl, ok := as.Rhs[0].(*ast.CompositeLit)
				if !ok {
					return nil, fmt.Errorf("internalFuncs is not assigned a composite literal")
				}
				if lit != nil {
					return nil, fmt.Errorf("internalFuncs is assigned twice")
				}
				lit = cl
			}
		}
	}
	if lit == nil {
		return nil, fmt.Errorf("no `internalFuncs = map[string]function{…}` in an init of func.go")
	}
	// any other write to internalFuncs would make the literal incomplete
	writes := 0
	ast.Inspect(f, func(n ast.Node) bool {
		if as, ok := n.(*ast.AssignStmt); ok {
			for _, l := range as.Lhs {
				switch t := l.(type) {
				case *ast.Ident:
					if t.Name == "internalFuncs" {
						writes++
					}
				case *ast.IndexExpr:
					if id, ok := t.X.(*ast.Ident); ok && id.Name == "internalFuncs" {
						writes++
					}
				}
			}
		}
		return true
	})
	if writes != 1 {
		return nil, fmt.Errorf("internalFuncs is written %d times in func.go; only the literal is handled", writes)
	}
	var out []nativeEntry
	seen := map[string]bool{}
	for _, el := range lit.Elts {
		kv, ok := el.(*ast.KeyValueExpr)
		if !ok {
			return nil, fmt.Errorf("internalFuncs element is not key: value")
		}
		kl, ok := kv.Key.(*ast.BasicLit)
		if !ok || kl.Kind != token.STRING {
			return nil, fmt.Errorf("internalFuncs key is not a string literal")
		}
		name, err := strconv.Unquote(kl.Value)
		if err != nil {
			return nil, err
		}
		if seen[name] {
			return nil, fmt.Errorf("duplicate key %q", name)
		}
		seen[name] = true
		e := nativeEntry{name: name}
		switch v := kv.Value.(type) {
		case *ast.CallExpr:
			fn, ok := v.Fun.(*ast.Ident)
			if !ok {
				return nil, fmt.Errorf("%s: constructor is not an identifier", name)
			}
			m, ok := ntCtorMask[fn.Name]
			if !ok {
				return nil, fmt.Errorf("%s: unknown constructor %s", name, fn.Name)
			}
			e.ctor, e.mask = fn.Name, m
			switch {
			case strings.HasPrefix(fn.Name, "argFunc") && len(v.Args) == 1:
				if e.callee, err = ntCalleeOf(v.Args[0]); err != nil {
					return nil, fmt.Errorf("%s: %v", name, err)
				}
			case strings.HasPrefix(fn.Name, "mathFunc") && len(v.Args) == 2:
				nl, ok := v.Args[0].(*ast.BasicLit)
				if !ok || nl.Kind != token.STRING {
					return nil, fmt.Errorf("%s: first argument of %s is not a string literal", name, fn.Name)
				}
				if e.errName, err = strconv.Unquote(nl.Value); err != nil {
					return nil, err
				}
				if e.callee, err = ntCalleeOf(v.Args[1]); err != nil {
					return nil, fmt.Errorf("%s: %v", name, err)
				}
			default:
				return nil, fmt.Errorf("%s: %s called with %d arguments", name, fn.Name, len(v.Args))
			}
		case *ast.CompositeLit:
			if len(v.Elts) != 3 {
				return nil, fmt.Errorf("%s: function literal with %d fields", name, len(v.Elts))
			}
			e.ctor = "literal"
			if e.mask, err = ntMaskExpr(v.Elts[0]); err != nil {
				return nil, fmt.Errorf("%s: %v", name, err)
			}
			id, ok := v.Elts[1].(*ast.Ident)
			if !ok || id.Name != "true" && id.Name != "false" {
				return nil, fmt.Errorf("%s: iter flag is not a boolean literal", name)
			}
			e.iter = id.Name == "true"
			if e.callee, err = ntCalleeOf(v.Elts[2]); err != nil {
				return nil, fmt.Errorf("%s: %v", name, err)
			}
		default:
			return nil, fmt.Errorf("%s: value expression %T not understood", name, kv.Value)
		}
		out = append(out, e)
	}
	sort.Slice(out, func(i, j int) bool { return out[i].name < out[j].name })
	return out, nil
}

func genNativeTable(repo, out string) error {
	es, err := extractNativeTable(repo)
	if err != nil {
		return err
	}
	// cross-check with the table of the built package
	built := gojq.VerifNatives()
	if len(built) != len(es) {
		return fmt.Errorf("func.go lists %d natives, the built package has %d", len(es), len(built))
	}
	for _, e := range es {
		b, ok := built[e.name]
		if !ok {
			return fmt.Errorf("native %q of func.go is not in the built table", e.name)
		}
		// (argFuncN(nil) wraps the nil callee in a non-nil closure, so nil-ness is not comparable)
		if b.Argcount != e.mask || b.Iter != e.iter {
			return fmt.Errorf("native %q: extracted (mask %d, iter %v, callee %q) but built (mask %d, iter %v)",
				e.name, e.mask, e.iter, e.callee, b.Argcount, b.Iter)
		}
	}
	var sb strings.Builder
	sb.WriteString("-- GENERATED by harness/cmd/verifgen (nativetable) from /repo/func.go — do not edit\n")
	sb.WriteString("namespace Gojq.Generated.NativeTable\n\n")
	sb.WriteString("/-- one key of `internalFuncs`: `argcount` is the arity bit mask (bit n = accepts n arguments),\n")
	sb.WriteString("    `callee = \"\"` is a nil callback (the compiler handles the name itself),\n")
	sb.WriteString("    `errName` the name mathFunc* put into their type errors -/\n")
	sb.WriteString("structure Entry where\n  name : String\n  argcount : Nat\n  iter : Bool\n  ctor : String\n  callee : String\n  errName : String\n  deriving Repr, DecidableEq\n\n")
	sb.WriteString("def table : List Entry := [\n")
	for i, e := range es {
		sep := ","
		if i == len(es)-1 {
			sep = ""
		}
		fmt.Fprintf(&sb, "  ⟨%q, %d, %v, %q, %q, %q⟩%s\n", e.name, e.mask, e.iter, e.ctor, e.callee, e.errName, sep)
	}
	sb.WriteString("]\n\n")
	sb.WriteString("/-- (name, arity) pairs the table accepts, in table order -/\n")
	sb.WriteString("def arities : List (String × Nat) :=\n  table.flatMap fun e => ((List.range 4).filter fun n => (e.argcount / 2 ^ n) % 2 == 1).map fun n => (e.name, n)\n\n")
	sb.WriteString("end Gojq.Generated.NativeTable\n")
	return WriteIfChanged(filepath.Join(out, "NativeTable.lean"), []byte(sb.String()))
}

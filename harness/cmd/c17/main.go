// C17 — reported error positions point at the offending byte.
//
// correspondence streams (real cli code, in-process, vs lean/Gojq/Model/Cli/*.lean):
//
//	lineinfo  getLineByOffset on exhaustive small texts × all offsets, and long lines around the 48/64 excerpt rule
//	trim      trimLastInvalidRune on exhaustive short byte strings (valid and invalid UTF-8)
//	fmt       formatLineInfo
//	window    the real jsonInputIter over a reader with scripted chunk sizes (pipe path)
//	seekable  the real jsonInputIter over an io.ReadSeeker (file path: getContents re-read)
//	qerr      queryParseError.Error for the library's ParseError (Offset, Token)
//	yaml      yamlParseError.Error for the index go-yaml reported
//
// oracles (model-free, on the whole command run in-process through cli.run): a byte of a well-formed
// JSON stream / jq query / YAML text is corrupted; the line, excerpt and caret the command prints
// are compared with the position of the offending byte computed directly from the input bytes
// (the offending byte itself is the one encoding/json alone, resp. the library's ParseError, names).
//
// What the oracle deliberately accepts (see util.go):
//   - truncated input (io.ErrUnexpectedEOF): the line the end of input lies on, or — when the text
//     ends with a terminator — the line before it, caret at the line end;
//   - non-seekable input: the excerpt may stop where the reader stood, before the offending rune
//     is complete (the command cannot show bytes it has not read);
//   - a line that is not valid UTF-8: the excerpt may stop up to 3 bytes short and the caret is only
//     bounded (the width of invalid bytes is unspecified).
//
// Stable keys of the defect classes this check found (each is reported once, with its smallest
// replay first). Still open (known-findings.txt): lone-cr-window-linecount, stream-token-offset.
// Fixed in /repo and reported again on regression: window-readahead-reset (D8, 9fbc1d6),
// lineinfo:ufffd-before-fault (0d1dca4), lexer-stale-token-stringstart (d264e09),
// lexer-invalid-utf8-token (bfcffb3), yaml-index-counts-characters and yaml-error-without-index
// (faf5fb2). Any other wrong position gets a key `lineinfo:<kind>:<details>` / `lexer-offset:<details>`.
package main

import (
	"bytes"
	"encoding/json"
	"fmt"
	"io"
	"os"
	"path/filepath"
	"sort"
	"strings"
	"time"
	"unicode/utf8"

	"github.com/itchyny/gojq"
	"github.com/itchyny/gojq/cli"

	"verifharness/common"
)

const winSize = 16 * 1024

var ctx *common.Ctx
var tmpDir string

func main() {
	ctx = common.ParseFlags("C17")
	cli.VerifC17SetEastAsian(false)
	os.Setenv("NO_COLOR", "1")
	var err error
	tmpDir, err = os.MkdirTemp("", "verif-c17-")
	if err != nil {
		panic(err)
	}
	defer os.RemoveAll(tmpDir)

	for _, sec := range []struct {
		name string
		f    func()
	}{{"lineinfo", streamLineinfo}, {"trim+fmt", streamTrimFmt}, {"window+seekable", streamWindowSeekable}, {"qerr", streamQerr},
		{"oracle json", oracleJSON}, {"oracle --stream", oracleStreamMode}, {"oracle query", oracleQuery}, {"yaml", yamlChecks}} {
		t0 := time.Now()
		sec.f()
		ctx.Res.Notes = append(ctx.Res.Notes, fmt.Sprintf("section %s: %.1fs", sec.name, time.Since(t0).Seconds()))
	}

	if len(widthMismatch) > 0 {
		ctx.Errorf("width parameter: runewidth.StringWidth differs from the table Σ w17 on %d strings, e.g. %s", len(widthMismatch), strings.Join(widthMismatch, "; "))
	}
	os.RemoveAll(tmpDir)
	ctx.Finish()
}

// =============================================================================================
// correspondence: lineinfo
// =============================================================================================

func lineinfoAnswer(text string, off int) string {
	linestr, line, col := cli.VerifC17LineInfo(text, off)
	assertWidth(linestr)
	return fmt.Sprintf("%d %s x%x", line, showCol(linestr, col), linestr)
}

func streamLineinfo() {
	st := ctx.NewStream("lineinfo", "Gojq.Cli.getLineByOffset (indexNewline, scanNext, lineLoop, excerpt, trimLastInvalidRune; Model/Cli/LineInfo.lean)",
		"getLineByOffset(text, offset): every text of up to N symbols over {a, é, 漢, U+0301, LF, CR, 😀} × every offset in [-1, len+2]; the same over {a, 0x80, 0xE6, 0xF0 0x9F, U+FFFD, LF, 漢} (invalid UTF-8); random texts with a long line (30–260 bytes, multi-byte symbols) at offsets around the 48/64 excerpt boundaries; distinct = distinct implementation answers")
	r := ctx.R.Fork(1)
	var lines, impl []string
	add := func(text string, off int, tag string) {
		lines = append(lines, fmt.Sprintf("x%x %d", text, off))
		impl = append(impl, lineinfoAnswer(text, off))
		st.Distribution[tag]++
	}
	for _, t := range allTexts(alphabet, ctx.N(5, 6)) {
		for off := -1; off <= len(t)+2; off++ {
			add(t, off, "exhaustive")
		}
	}
	for _, t := range allTexts(badAlphabet, ctx.N(4, 5)) {
		for off := -1; off <= len(t)+2; off++ {
			add(t, off, "exhaustive-invalid-utf8")
		}
	}
	for i := 0; i < ctx.N(2500, 40000); i++ {
		var sb strings.Builder
		eol := common.Pick(r, []string{"\n", "\r\n", "\r"})
		for j, n := 0, r.Intn(3); j < n; j++ {
			sb.WriteString(randLine(r, r.Intn(8), 30) + eol)
		}
		start := sb.Len()
		long := randLine(r, r.Range(20, 130), common.Pick(r, []int{0, 10, 50, 100}))
		sb.WriteString(long)
		if r.Bool() {
			sb.WriteString(eol + randLine(r, r.Intn(80), 30))
		}
		text := sb.String()
		offs := []int{start, start + 1, start + 47, start + 48, start + 49, start + 50, start + 51, start + 52, start + 63, start + 64, start + 65, start + 66,
			start + len(long) - 1, start + len(long), start + len(long) + 1, start + len(long) + 2, len(text), len(text) + 1}
		for j := 0; j < 8; j++ {
			offs = append(offs, start+r.Intn(len(long)+2))
		}
		for _, o := range offs {
			add(text, o, "long-line:"+fmt.Sprint(min(len(long)/32*32, 256)))
		}
	}
	ctx.RunStream(st, lines, impl)
}

func streamTrimFmt() {
	st := ctx.NewStream("trim", "Gojq.Cli.trimLastInvalidRune", "every byte string of length ≤ N over {61 80 a2 bc c3 e6 ef f0 9f bf bd}; distinct = distinct answers")
	var lines, impl []string
	bs := []string{"\x61", "\x80", "\xa2", "\xbc", "\xc3", "\xe6", "\xef", "\xf0", "\x9f", "\xbf", "\xbd"}
	for _, s := range allTexts(bs, ctx.N(4, 5)) {
		lines = append(lines, fmt.Sprintf("x%x", s))
		impl = append(impl, fmt.Sprintf("x%x", cli.VerifC17TrimLastInvalidRune(s)))
	}
	st.Distribution["strings"] = len(lines)
	ctx.RunStream(st, lines, impl)

	sf := ctx.NewStream("fmt", "Gojq.Cli.formatLineInfo", "formatLineInfo(linestr, line, column) for line numbers of 1–7 digits, columns 0–70; distinct = distinct answers")
	lines, impl = nil, nil
	r := ctx.R.Fork(2)
	for i := 0; i < ctx.N(400, 4000); i++ {
		s := randLine(r, r.Intn(20), 30)
		line := common.Pick(r, []int{0, 1, 9, 10, 99, 100, 1451, 99999, 1234567})
		col := r.Intn(71)
		lines = append(lines, fmt.Sprintf("x%x %d %d", s, line, col))
		impl = append(impl, fmt.Sprintf("x%x", cli.VerifC17FormatLineInfo(s, line, col)))
	}
	sf.Distribution["cases"] = len(lines)
	ctx.RunStream(sf, lines, impl)
}

// =============================================================================================
// correspondence: window (pipe path) and seekable (file path)
// =============================================================================================

type event struct {
	read bool
	n    int // read: bytes; decoded: end offset
}

// runWindow drives the real jsonInputIter over a scripted non-seekable reader and records the
// events the model is driven by. Value end offsets come from the reference decoder.
func runWindow(inp []byte, sizes []int, ref refResult) (evs []event, errText string, nvals int, panicked bool) {
	defer func() {
		if x := recover(); x != nil {
			panicked, errText = true, fmt.Sprint(x)
		}
	}()
	k := 0
	rd := &scriptReader{data: inp, sizes: sizes, log: func(n int) { evs = append(evs, event{true, n}) }}
	nvals, errText = cli.VerifC17JSONInput(rd, "<stdin>", false, func(any) {
		e := -1
		if k < len(ref.ends) {
			e = int(ref.ends[k])
		}
		k++
		evs = append(evs, event{false, e})
	})
	return
}

type bound struct{ end, readPos int }

// resets replays the window bookkeeping on an event list: with the code as fixed (advance to the
// end of the decoded value) and as it was (drop everything read). Used to aim faults and to
// classify a wrong report; not part of any expected value.
func resets(evs []event) (fixed, old []bound) {
	bufNew, bufOld, readPos := 0, 0, 0
	for _, e := range evs {
		if e.read {
			bufNew += e.n
			bufOld += e.n
			readPos += e.n
			continue
		}
		if bufNew >= winSize {
			fixed = append(fixed, bound{e.n, readPos})
			bufNew = readPos - e.n
		}
		if bufOld >= winSize {
			old = append(old, bound{e.n, readPos})
			bufOld = 0
		}
	}
	return
}

func finalToken(ref refResult) string {
	if ref.kind == "eof" {
		return "u"
	}
	return fmt.Sprintf("e%d", ref.off)
}

var chunkScripts = [][]int{
	nil,                // as much as the decoder asks for
	{4096},             // pipe-like
	{512},              //
	{64},               //
	{16384},            //
	{1000, 7, 3000, 1}, // irregular
	{65536},            //
}

func targetsAround(bs []bound, n int) []int {
	var ts []int
	for _, b := range bs {
		for d := -2; d <= 2; d++ {
			ts = append(ts, b.end+d, b.readPos+d)
		}
		ts = append(ts, (b.end+b.readPos)/2, b.end+(b.readPos-b.end)/4, b.readPos+64, b.readPos+700)
	}
	for m := winSize; m < n; m += winSize {
		ts = append(ts, m-64, m-1, m, m+1, m+64)
	}
	return ts
}

func relToBounds(f int, bs []bound) string {
	if len(bs) == 0 {
		return "no-reset-before"
	}
	tag := "before-first-reset"
	for _, b := range bs {
		switch {
		case f <= b.end:
		case f <= b.readPos:
			tag = "in-read-ahead-of-a-reset"
		default:
			if tag != "in-read-ahead-of-a-reset" {
				tag = "after-reset"
			}
		}
	}
	return tag
}

func streamWindowSeekable() {
	st := ctx.NewStream("window", "Gojq.Cli.Win.step / Win.report / jsonReport (Model/Cli/Window.lean)",
		"real jsonInputIter over a non-seekable reader returning scripted chunk sizes; valid multi-document streams of 18–70 KB (tiny one-line objects, pretty-printed objects, long strings, arrays over many lines, scalars sharing a line; LF/CRLF) with one corrupted byte placed before/at/after every window reset (end of last decoded value, end of read-ahead) and every multiple of 16384, plus random places; events (read sizes observed, value ends and error offset from encoding/json alone) drive the model; distinct = distinct implementation answers")
	ss := ctx.NewStream("seekable", "Gojq.Cli.getContentsSeek / seekReport (Model/Cli/Window.lean)",
		"real jsonInputIter over a bytes.Reader (seekable: getContents re-reads in chunks) on the same corrupted streams and on single large documents; distinct = distinct implementation answers")
	r := ctx.R.Fork(3)
	var wl, wi, sl, si []string
	nBase := ctx.N(9, 45)
	perBase := ctx.N(30, 120)
	for b := 0; b < nBase; b++ {
		o := streamOpts{total: r.Range(18000, 52000), eol: common.Pick(r, []string{"\n", "\r\n"}), style: b % 4}
		if o.style == 2 {
			o.total = r.Range(40000, 70000)
		}
		if o.style == 0 {
			o.total = r.Range(17000, 36000)
		}
		base := genStream(r, o)
		sizes := chunkScripts[b%len(chunkScripts)]
		switch b % 9 {
		case 7:
			sizes = flushStops(refDecode(base).ends, 1) // a flush after every document
		case 8:
			sizes = flushStops(refDecode(base).ends, common.Pick(r, []int{2, 17, 301})) // after every k-th
		}
		evs, _, _, _ := runWindow(base, sizes, refDecode(base))
		fixed, old := resets(evs)
		ts := targetsAround(append(append([]bound(nil), fixed...), old...), len(base))
		r2 := r.Fork(uint64(b))
		for len(ts) < perBase*2 {
			ts = append(ts, r2.Intn(len(base)))
		}
		// shuffle deterministically, keep perBase
		sort.Slice(ts, func(i, j int) bool { return (ts[i]*2654435761)%1000003 < (ts[j]*2654435761)%1000003 })
		used := 0
		for _, t := range ts {
			if used >= perBase {
				break
			}
			kind := common.Pick(r2, faultKinds)
			inp := corrupt(base, t, kind)
			if inp == nil {
				continue
			}
			ref := refDecode(inp)
			if ref.kind != "syntax" && ref.kind != "eof" {
				continue
			}
			used++
			evs, errText, _, panicked := runWindow(inp, sizes, ref)
			var sb strings.Builder
			fmt.Fprintf(&sb, "x%x", inp)
			for _, e := range evs {
				if e.read {
					fmt.Fprintf(&sb, " r%d", e.n)
				} else {
					fmt.Fprintf(&sb, " d%d", e.n)
				}
			}
			sb.WriteString(" " + finalToken(ref))
			wl = append(wl, sb.String())
			if panicked {
				wi = append(wi, "panic")
			} else {
				wi = append(wi, parseReport(errText, "json", "<stdin>").wire())
			}
			f := int(ref.off)
			if ref.kind == "eof" {
				f = len(inp) + 1
			}
			fx, _ := resets(evs)
			st.Distribution[fmt.Sprintf("style%d:%s:%s", o.style, ref.kind, relToBounds(f, fx))]++
			st.Distribution["fault:"+kind]++
			st.Distribution[fmt.Sprintf("resets:%d", min(len(fx), 4))]++

			// the same input through the seekable path
			_, errText2 := cli.VerifC17JSONInput(bytes.NewReader(inp), "f.json", false, nil)
			sl = append(sl, fmt.Sprintf("x%x %s", inp, finalToken(ref)))
			si = append(si, parseReport(errText2, "json", "f.json").wire())
			ss.Distribution[fmt.Sprintf("offset/4096=%d", f/4096)]++
		}
	}
	// small inputs (no reset at all) through both paths
	for i := 0; i < ctx.N(300, 3000); i++ {
		o := streamOpts{total: r.Range(1, 300), eol: common.Pick(r, []string{"\n", "\r\n", "\r"}), style: 1}
		base := genStream(r, o)
		inp := corrupt(base, r.Intn(len(base)), common.Pick(r, faultKinds))
		if inp == nil {
			continue
		}
		ref := refDecode(inp)
		if ref.kind != "syntax" && ref.kind != "eof" {
			continue
		}
		sizes := common.Pick(r, [][]int{nil, {1}, {3, 1}, {64}})
		evs, errText, _, panicked := runWindow(inp, sizes, ref)
		var sb strings.Builder
		fmt.Fprintf(&sb, "x%x", inp)
		for _, e := range evs {
			if e.read {
				fmt.Fprintf(&sb, " r%d", e.n)
			} else {
				fmt.Fprintf(&sb, " d%d", e.n)
			}
		}
		sb.WriteString(" " + finalToken(ref))
		wl = append(wl, sb.String())
		if panicked {
			wi = append(wi, "panic")
		} else {
			wi = append(wi, parseReport(errText, "json", "<stdin>").wire())
		}
		st.Distribution["small:"+ref.kind]++
		_, errText2 := cli.VerifC17JSONInput(bytes.NewReader(inp), "f.json", false, nil)
		sl = append(sl, fmt.Sprintf("x%x %s", inp, finalToken(ref)))
		si = append(si, parseReport(errText2, "json", "f.json").wire())
		ss.Distribution["small"]++
	}
	// seekable: error offsets swept across the chunk arithmetic of getContents (12288, 16384, 4096 steps)
	{
		o := streamOpts{total: 60000, eol: "\n", style: 0}
		base := genStream(r, o)
		var offs []int
		for m := 4096; m < len(base); m += 4096 {
			for _, d := range []int{-2, -1, 0, 1, 2, 47, 48, 49, 64} {
				offs = append(offs, m+d)
			}
		}
		step := ctx.N(3, 1)
		for k, t := range offs {
			if k%step != 0 {
				continue
			}
			inp := corrupt(base, t, "ctl")
			if inp == nil {
				continue
			}
			ref := refDecode(inp)
			if ref.kind != "syntax" {
				continue
			}
			_, errText2 := cli.VerifC17JSONInput(bytes.NewReader(inp), "f.json", false, nil)
			sl = append(sl, fmt.Sprintf("x%x %s", inp, finalToken(ref)))
			si = append(si, parseReport(errText2, "json", "f.json").wire())
			ss.Distribution["chunk-sweep"]++
		}
	}
	ctx.RunStream(st, wl, wi)
	ctx.RunStream(ss, sl, si)
}

// =============================================================================================
// correspondence: query errors, yaml errors
// =============================================================================================

func runCLI(args []string, stdin io.Reader) (stderr string) {
	defer func() {
		if x := recover(); x != nil {
			stderr = fmt.Sprint("PANIC: ", x)
		}
	}()
	if stdin == nil {
		stdin = strings.NewReader("")
	}
	_, stderr, _ = cli.VerifC17Run(args, stdin)
	return
}

var queryFile string

// queryCLI runs the command on query q, as an argument (-n q) or from a file (-n -f file).
// Returns the parsed report and the text the position refers to (the argument is TrimSpace'd).
func queryCLI(q string, asArg bool) (rep report, contents string, stderr string) {
	if asArg {
		contents = strings.TrimSpace(q)
		stderr = runCLI([]string{"-n", "--", q}, nil)
		name := "<arg>"
		if !strings.ContainsAny(contents, "\r\n") {
			// one-line layout prints the query itself instead of a file name
			rep = parseReport(stderr, "query", contents)
			return
		}
		rep = parseReport(stderr, "query", name)
		return
	}
	if queryFile == "" {
		queryFile = filepath.Join(tmpDir, "q.jq")
	}
	os.WriteFile(queryFile, []byte(q), 0o644)
	contents = q
	stderr = runCLI([]string{"-n", "-f", queryFile}, nil)
	rep = parseReport(stderr, "query", queryFile)
	return
}

func mutateQuery(r *common.Rand, q string) string {
	if len(q) == 0 {
		return q
	}
	i := r.Intn(len(q))
	switch r.Intn(10) {
	case 0:
		return q[:i] + q[i+1:]
	case 1:
		return q[:i]
	case 2:
		return q[:i] + common.Pick(r, []string{"\"", "\\(", "\"\\(", "\\", "\n", "\r\n", " ", "\"a\\(1)\" "}) + q[i:]
	default:
		b := common.Pick(r, []string{"\"", "\\", "(", ")", "@", "$", ".", "1", "x", " ", "\n", "}", "]", "|", ",", "e", ":", ";", "?", "#", "q"})
		return q[:i] + b + q[i+1:]
	}
}

func streamQerr() {
	st := ctx.NewStream("qerr", "Gojq.Cli.queryReport (offset = Offset − |Token| + 1, layout choice)",
		"queryParseError.Error of the real command (query as argument and via -f) for byte-level mutations of 5 multi-line queries; the model is given the library's ParseError (Offset, |Token|); distinct = distinct implementation answers")
	r := ctx.R.Fork(4)
	var lines, impl []string
	for i := 0; i < ctx.N(1500, 20000); i++ {
		q := mutateQuery(r, common.Pick(r, baseQueries))
		if r.Chance(1, 3) {
			q = mutateQuery(r, q)
		}
		asArg := r.Bool()
		rep, contents, _ := queryCLI(q, asArg)
		_, err := gojq.Parse(contents)
		if err == nil {
			continue
		}
		pe, ok := err.(*gojq.ParseError)
		a := "0"
		if asArg {
			a = "1"
		}
		if ok {
			lines = append(lines, fmt.Sprintf("x%x %s %d %d", contents, a, pe.Offset, len(pe.Token)))
		} else {
			lines = append(lines, fmt.Sprintf("x%x %s none", contents, a))
		}
		assertWidth(rep.excerpt)
		impl = append(impl, rep.wire())
		st.Distribution[fmt.Sprintf("arg=%v:multi=%v", asArg, rep.multi)]++
	}
	ctx.RunStream(st, lines, impl)
}

// =============================================================================================
// oracle: JSON inputs through the whole command
// =============================================================================================

type transport struct {
	name  string
	sizes []int
}

// cliJSON feeds inp to `gojq empty` through the given transport; returns stderr and the name the
// command uses for the input.
func cliJSON(inp []byte, tr transport, extra ...string) (stderr, name string) {
	args := append([]string{}, extra...)
	args = append(args, "empty")
	path := filepath.Join(tmpDir, "in.json")
	switch tr.name {
	case "file":
		os.WriteFile(path, inp, 0o644)
		return runCLI(append(args, path), nil), path
	case "stdin-file":
		os.WriteFile(path, inp, 0o644)
		f, err := os.Open(path)
		if err != nil {
			panic(err)
		}
		defer f.Close()
		return runCLI(args, f), "<stdin>"
	case "os-pipe":
		pr, pw, err := os.Pipe()
		if err != nil {
			panic(err)
		}
		go func() { pw.Write(inp); pw.Close() }()
		defer pr.Close()
		return runCLI(args, pr), "<stdin>"
	default: // "script"
		return runCLI(args, &scriptReader{data: inp, sizes: tr.sizes}), "<stdin>"
	}
}

// readAheadClass: on the buffered path, had the faulty byte been read ahead (but not consumed)
// when a window reset (as the code did it before the fix) happened? Computed from the scripted
// read sizes and the value ends.
func readAheadClass(inp []byte, sizes []int, ref refResult, f int) bool {
	evs, _, _, _ := runWindow(inp, sizes, ref)
	_, old := resets(evs)
	for _, b := range old {
		if b.end < f && f <= b.readPos {
			return true
		}
	}
	return false
}

// firstUnconsumed: the 1-based offset whose loss makes the report wrong — the faulty byte, or for
// a truncated input the first byte after the last complete value (the incomplete value's text).
func firstUnconsumed(ref refResult, p int, eof bool) int {
	if !eof {
		return p + 1
	}
	if len(ref.ends) == 0 {
		return 1
	}
	return int(ref.ends[len(ref.ends)-1]) + 1
}

type jsonCase struct {
	inp  []byte
	tr   transport
	eol  string
	tag  string
	kind string
	t    int
}

func shellReplay(inp []byte, tr transport, extra string) string {
	h := fmt.Sprintf("%x", inp)
	if len(h) > 400 {
		return fmt.Sprintf("input of %d bytes: see input_hex; printf/xxd -r -p it into in.json; then: %s", len(inp), map[bool]string{true: "gojq " + extra + "empty in.json", false: "cat in.json | gojq " + extra + "empty"}[tr.name == "file"])
	}
	if tr.name == "file" || tr.name == "stdin-file" {
		return fmt.Sprintf("echo %s | xxd -r -p > in.json; gojq %sempty in.json", h, extra)
	}
	return fmt.Sprintf("echo %s | xxd -r -p | gojq %sempty", h, extra)
}

func checkJSONCase(orc *common.Oracle, c jsonCase, distinct map[string]bool) {
	ref := refDecode(c.inp)
	if c.tr.name == "script-flush" {
		// a producer that flushes after every (k-th) document: each read ends exactly where a
		// document ends, so the decoder has nothing read ahead when the value is returned
		every := []int{1, 1, 2, 17, 301}[(len(c.inp)+c.t)%5]
		c.tr = transport{"script", flushStops(ref.ends, every)}
	}
	if ref.kind != "syntax" && ref.kind != "eof" {
		return
	}
	orc.Cases++
	p := int(ref.off) - 1
	eof := ref.kind == "eof"
	if eof {
		p = len(c.inp)
	}
	stderr, name := cliJSON(c.inp, c.tr)
	rep := parseReport(stderr, "json", name)
	why, lineOnly := checkReport(rep, c.inp, p, eof, c.tr.name == "script" || c.tr.name == "os-pipe")
	big := "small"
	if len(c.inp) >= winSize*3/4 {
		big = "large"
	}
	orc.Distribution[fmt.Sprintf("%s:%s:%s:%s", c.tr.name, eolName(c.eol), big, ref.kind)]++
	distinct[fmt.Sprintf("%s|%s|%s|%d|%d", c.tr.name, c.eol, c.tag, p/64, len(c.inp)/4096)] = true
	if why == "" {
		return
	}
	line, _, _ := locate(c.inp, p)
	stderr = strings.ReplaceAll(stderr, tmpDir, "$TMP")
	why = strings.ReplaceAll(why, tmpDir, "$TMP")
	key := ""
	switch {
	case lineOnly && loneCRsBefore(c.inp, p) > 0 && rep.line < line && rep.line >= line-loneCRsBefore(c.inp, p):
		// only the line number is short, by no more than the lone CRs before the fault: the window /
		// re-read bookkeeping counts '\n' only while getLineByOffset also ends lines at a lone '\r'
		key = "lone-cr-window-linecount"
	case (c.tr.name == "script" || c.tr.name == "os-pipe") && readAheadClass(c.inp, c.tr.sizes, ref, firstUnconsumed(ref, p, eof)):
		// (for an os.Pipe the read sizes are not observable: the writer hands over everything at once,
		// so the reader that returns as much as it is asked for stands in for it)
		key = "window-readahead-reset"
	case bytes.Contains(c.inp[:min(p, len(c.inp))], []byte("\ufffd")) && ufffdClass(rep, c.inp, p):
		key = "lineinfo:ufffd-before-fault"
	default:
		key = fmt.Sprintf("lineinfo:json:%s:%s:%s:%x", c.tr.name, eolName(c.eol), c.tag, common.NewRand(uint64(len(c.inp))*1000003+uint64(p)).U64()&0xffffff)
	}
	rp := map[string]any{"transport": c.tr.name, "chunk_sizes": c.tr.sizes, "fault_byte_index": p, "decoder_message": ref.msg,
		"expected_line": line, "observed": stderr, "why": why, "cmd": shellReplay(c.inp, c.tr, "")}
	if len(c.inp) <= 200000 {
		rp["input_hex"] = fmt.Sprintf("%x", c.inp)
	}
	ctx.Violate(key, fmt.Sprintf("invalid json through %s (%d bytes, fault at byte %d, line %d): %s", c.tr.name, len(c.inp), p, line, why), rp)
}

// ufffdClass: the caret is exactly one rune to the left and that rune is a literal U+FFFD.
func ufffdClass(rep report, text []byte, p int) bool {
	return rep.ok && p >= 3 && string(text[p-3:p]) == "\ufffd"
}

func eolName(e string) string {
	switch e {
	case "\n":
		return "LF"
	case "\r\n":
		return "CRLF"
	case "\r":
		return "CR"
	}
	return "?"
}

func oracleJSON() {
	orc := ctx.NewOracle("json-positions",
		"`gojq empty` on a valid multi-document JSON stream with one corrupted byte (control char, }, ], \", comma, letter, raw LF/CR, truncation), through a regular file argument, a regular file as stdin, an os.Pipe and a non-seekable reader with scripted chunk sizes, with LF, CRLF and lone-CR terminators; expected = position of the byte encoding/json alone names (SyntaxError.Offset / end of input), located directly in the input bytes: line = 1 + terminators before it, excerpt ⊂ that line covering the byte and cut on rune boundaries, caret = display width of the excerpt before the byte's rune; distinct = distinct (transport, terminator, generator, fault position/64, size/4096)")
	r := ctx.R.Fork(5)
	distinct := map[string]bool{}
	transports := []transport{{"file", nil}, {"stdin-file", nil}, {"os-pipe", nil}, {"script", nil}, {"script", []int{4096}}, {"script", []int{1}}, {"script", []int{1000, 7, 3000, 1}}, {"script-flush", nil}}
	// (0) the replays quoted for D8 and for the lone-CR line count
	for _, eol := range []string{"\n", "\r\n", "\r"} {
		var sb strings.Builder
		for k := 0; k < 4000; k++ {
			if k == 1450 {
				sb.WriteString("{\"i\": 1450,}" + eol)
			} else {
				fmt.Fprintf(&sb, "{\"i\": %d}%s", k, eol)
			}
		}
		for _, tr := range transports[:5] {
			checkJSONCase(orc, jsonCase{[]byte(sb.String()), tr, eol, "d8-replay", "insert", 0}, distinct)
		}
	}
	// (1) small streams: every position × every kind
	nSmall := ctx.N(3, 12)
	for i := 0; i < nSmall; i++ {
		for _, eol := range []string{"\n", "\r\n", "\r"} {
			base := genStream(r, streamOpts{total: r.Range(60, 160), eol: eol, style: 1})
			for t := 0; t <= len(base); t++ {
				for ki, kind := range faultKinds {
					inp := corrupt(base, t, kind)
					if inp == nil {
						continue
					}
					tr := transports[(t+ki+i)%len(transports)]
					if tr.name == "os-pipe" && (t+ki)%5 != 0 {
						tr = transports[3]
					}
					checkJSONCase(orc, jsonCase{inp, tr, eol, "small-every-position", kind, t}, distinct)
				}
			}
		}
	}
	// a literal U+FFFD right before a raw control character inside a string
	for _, s := range []string{"[\"\ufffd\t\"]\n", "[1,\n \"ab\ufffd\x01\"]\n", "\"\ufffd\ufffd\n\"\n"} {
		for _, tr := range transports[:4] {
			checkJSONCase(orc, jsonCase{[]byte(s), tr, "\n", "ufffd", "ctl", 0}, distinct)
		}
	}
	// (2) large streams: around every multiple of 16384 ± 64, around the resets, random others
	nBase := ctx.N(8, 30)
	for b := 0; b < nBase; b++ {
		eol := []string{"\n", "\r\n", "\n", "\r\n", "\n", "\r\n", "\n", "\r"}[b%8]
		o := streamOpts{total: r.Range(18000, 60000), eol: eol, style: b % 4}
		if b%4 == 0 {
			o.total = r.Range(34000, 50000) // the D8 shape: thousands of one-line documents
		}
		base := genStream(r, o)
		for ti, tr := range transports {
			if tr.name == "script" && len(tr.sizes) == 1 && tr.sizes[0] == 1 {
				continue // one byte per read: small inputs only
			}
			var ts []int
			stride := ctx.N(32, 4)
			for m := winSize; m < len(base)+winSize; m += winSize {
				for d := -64; d <= 64; d += stride {
					ts = append(ts, m+d+ti%stride)
				}
				ts = append(ts, m-1, m, m+1, m*3/4, m*3/4+1, m-4096, m-4095)
			}
			if tr.name == "script" {
				evs, _, _, _ := runWindow(base, tr.sizes, refDecode(base))
				fx, old := resets(evs)
				ts = append(ts, targetsAround(append(fx, old...), len(base))...)
			}
			for j := 0; j < ctx.N(12, 60); j++ {
				ts = append(ts, r.Intn(len(base)))
			}
			ts = append(ts, len(base)-1, len(base)-2)
			for k, t := range ts {
				kind := faultKinds[(k+b)%len(faultKinds)]
				if k%3 == 0 {
					kind = "ctl"
				}
				inp := corrupt(base, t, kind)
				if inp == nil {
					continue
				}
				checkJSONCase(orc, jsonCase{inp, tr, eol, fmt.Sprintf("large-style%d", o.style), kind, t}, distinct)
			}
		}
	}
	orc.Distinct = len(distinct)
	orc.Samples = []string{"4000 lines {\"i\": k} with {\"i\": 1450,} at line 1451 through file / stdin file / os.Pipe / scripted reader",
		"pretty-printed CRLF objects, byte 16383 replaced by 0x01, read in 4096-byte chunks"}
}

// oracleStreamMode: the same property with --stream (the Token API of encoding/json).
func oracleStreamMode() {
	orc := ctx.NewOracle("json-positions-stream-mode",
		"`gojq --stream empty` on small corrupted streams; expected position as in json-positions; a wrong report counts as the --stream defect class only if the same input without --stream is reported correctly; distinct = distinct inputs")
	r := ctx.R.Fork(6)
	distinct := map[string]bool{}
	fixedCases := []string{"[1,,2]\n", "{\"a\":1,\n \"b\" 2}\n", "{\"a\":1,\n \"b\": tru}\n"}
	var cases [][]byte
	for _, s := range fixedCases {
		cases = append(cases, []byte(s))
	}
	for i := 0; i < ctx.N(60, 600); i++ {
		base := genStream(r, streamOpts{total: r.Range(20, 120), eol: "\n", style: 1})
		inp := corrupt(base, r.Intn(len(base)), common.Pick(r, []string{"ctl", "brace", "comma", "letter", "bracket"}))
		if inp != nil {
			cases = append(cases, inp)
		}
	}
	for _, inp := range cases {
		ref := refDecode(inp)
		if ref.kind != "syntax" {
			continue
		}
		orc.Cases++
		distinct[string(inp)] = true
		p := int(ref.off) - 1
		tr := transport{"script", nil}
		stderr, name := cliJSON(inp, tr, "--stream")
		rep := parseReport(stderr, "json", name)
		if !rep.ok {
			// --stream may fail differently (e.g. truncated top-level): only position reports are judged
			orc.Distribution["no-position-report"]++
			continue
		}
		why, _ := checkReport(rep, inp, p, false, true)
		if why == "" {
			orc.Distribution["correct"]++
			continue
		}
		orc.Distribution["wrong"]++
		stderr2, name2 := cliJSON(inp, tr)
		why2, _ := checkReport(parseReport(stderr2, "json", name2), inp, p, false, true)
		key := "stream-token-offset"
		if why2 != "" {
			key = fmt.Sprintf("lineinfo:json-stream:%x", common.NewRand(uint64(len(inp))*7919+uint64(p)).U64()&0xffffff)
		}
		ctx.Violate(key, fmt.Sprintf("--stream: %s (input %q, offending byte %d)", why, clip(string(inp), 60), p),
			map[string]any{"input": string(inp), "fault_byte_index": p, "observed": stderr, "observed_without_stream": stderr2, "why": why,
				"cmd": fmt.Sprintf("printf %%s %q | gojq --stream empty", string(inp)), "decoder_message": ref.msg})
	}
	orc.Distinct = len(distinct)
	orc.Samples = []string{"[1,,2] with --stream", "{\"a\":1,\\n \"b\": tru} with --stream"}
}

// =============================================================================================
// oracle: queries
// =============================================================================================

func corpusQueries() []string {
	repo := common.Getenv("VERIF_REPO", "/repo")
	out, stderr, code := cli.VerifC17Run([]string{"--yaml-input", "-c", ".[] | .args[]? | strings", filepath.Join(repo, "cli", "test.yaml")}, strings.NewReader(""))
	if code != 0 {
		ctx.Errorf("cannot read cli/test.yaml queries: %s", stderr)
		return nil
	}
	seen := map[string]bool{}
	var qs []string
	for _, l := range strings.Split(out, "\n") {
		var s string
		if json.Unmarshal([]byte(l), &s) != nil || s == "" || strings.HasPrefix(s, "-") || seen[s] {
			continue
		}
		if _, err := gojq.Parse(s); err != nil {
			continue
		}
		seen[s] = true
		qs = append(qs, s)
	}
	return qs
}

// opensInterpolation: does the '"' at index i open a string literal containing \( ?
func opensInterpolation(src string, i int) bool {
	if i < 0 || i >= len(src) || src[i] != '"' {
		return false
	}
	for j := i + 1; j < len(src); j++ {
		switch src[j] {
		case '\\':
			if j+1 < len(src) && src[j+1] == '(' {
				return true
			}
			j++
		case '"':
			return false
		}
	}
	return false
}

func oracleQuery() {
	lib := ctx.NewOracle("parse-error-offsets",
		"gojq.Parse on byte-level corruptions (replace/delete/truncate/insert, incl. quotes, backslashes, `\\(`, newlines) of every query of cli/test.yaml that parses and of 5 multi-line queries: source[Offset-len(Token):Offset] == Token for every *ParseError; distinct = distinct (error message shape, token length)")
	cmd := ctx.NewOracle("query-positions",
		"the command on the same corrupted queries (as argument and via -f, LF and CRLF): line, excerpt and caret against the first byte of the offending token (end of the text for EOF / unterminated string) located directly in the query bytes; distinct = distinct (layout, message shape, line, column/8)")
	r := ctx.R.Fork(7)
	qs := append(corpusQueries(), baseQueries...)
	lib.Distribution["base-queries"] = len(qs)
	dl, dc := map[string]bool{}, map[string]bool{}
	// fixed cases first (they are the replays quoted for the known defect classes)
	muts := []string{"12345 \"\\(2)\"", "1 \"a\\(2)\"", ".[]\"\\([]", ". | \xff", "\"abc \\(1", "\"abc \\(1 +", "\"abc", ". |\n \"abc \\(1) def\n  ghi", "\"a\\(1)\" \"b\"", "\"a\\(1 2)\"", "\"a\\(1)\\q\"",
		".a |\r\n .b \"x\\(1)\"", "[.[] |\n  \"\u6f22\u00e9\\(.x)\u6f22\" \"y\\(2)\"]"}
	// every position of the hand-written multi-line queries with a few bytes; random for the corpus
	for _, q := range baseQueries {
		for i := 0; i <= len(q); i++ {
			for _, b := range []string{"\"", "\\", "@", ")", "\n", "x"} {
				if i < len(q) {
					muts = append(muts, q[:i]+b+q[i+1:])
				}
			}
			muts = append(muts, q[:i])
			if i < len(q) {
				muts = append(muts, q[:i]+q[i+1:], q[:i]+"\"a\\(1)\" "+q[i:], q[:i]+"\"\\("+q[i:])
			}
		}
	}
	perQ := ctx.N(40, 600)
	for _, q := range qs {
		for j := 0; j < perQ; j++ {
			m := mutateQuery(r, q)
			if r.Chance(1, 4) {
				m = mutateQuery(r, m)
			}
			muts = append(muts, m)
		}
	}
	for mi, m := range muts {
		src := m
		asArg := mi%2 == 0
		if asArg {
			src = strings.TrimSpace(m)
		}
		_, err := gojq.Parse(src)
		if err == nil {
			continue
		}
		pe, ok := err.(*gojq.ParseError)
		if !ok {
			continue
		}
		lib.Cases++
		shape := msgShape(pe.Error())
		dl[fmt.Sprintf("%s|%d", shape, min(len(pe.Token), 12))] = true
		lib.Distribution[shape]++
		start := pe.Offset - len(pe.Token)
		identity := start >= 0 && pe.Offset <= len(src) && src[start:pe.Offset] == pe.Token
		atEnd := shape == "unexpected EOF" || shape == "unterminated string literal"
		if pe.Token == "" && !atEnd {
			identity = false // a token is blamed but not named
		}
		if !identity {
			key := ""
			switch {
			case pe.Offset >= 1 && pe.Offset <= len(src) && opensInterpolation(src, pe.Offset-1) && shape == "unexpected token" && pe.Token != "\"":
				key = "lexer-stale-token-stringstart"
			case pe.Token == "\ufffd" && pe.Offset >= 1 && pe.Offset <= len(src) && src[pe.Offset-1] >= 0x80 && !utf8.ValidString(src):
				key = "lexer-invalid-utf8-token"
			default:
				key = fmt.Sprintf("lexer-offset:%s:%x", shape, common.NewRand(uint64(len(src))*31+uint64(pe.Offset)).U64()&0xffffff)
			}
			ctx.Violate(key, fmt.Sprintf("ParseError{Offset: %d, Token: %q} (%s) for query %q: source[Offset-len(Token):Offset] is %q", pe.Offset, pe.Token, pe.Error(), clip(src, 80), safeSlice(src, start, pe.Offset)),
				map[string]any{"query": src, "offset": pe.Offset, "token": pe.Token, "message": pe.Error(), "cmd": fmt.Sprintf("gojq -n %q", src)})
			continue
		}
		// the command's report
		if mi%3 == 2 && !ctx.Thorough {
			continue
		}
		cmd.Cases++
		rep, contents, stderr := queryCLI(m, asArg)
		p := start
		eof := false
		if atEnd {
			p, eof = len(contents), true
		}
		why, _ := checkReport(rep, []byte(contents), p, eof, false)
		line, _, _ := locate([]byte(contents), p)
		dc[fmt.Sprintf("%v|%s|%d|%d", rep.multi, shape, min(line, 6), rep.col/8)] = true
		cmd.Distribution[fmt.Sprintf("arg=%v:multi=%v:%s", asArg, rep.multi, shape)]++
		if why == "" {
			continue
		}
		stderr = strings.ReplaceAll(stderr, tmpDir, "$TMP")
		key := fmt.Sprintf("lineinfo:query:%s:%x", shape, common.NewRand(uint64(len(contents))*131+uint64(p)).U64()&0xffffff)
		if p >= 3 && contents[p-3:p] == "\ufffd" {
			key = "lineinfo:ufffd-before-fault"
		}
		if !utf8.ValidString(contents) && rep.ok {
			// invalid UTF-8 in the query line: only line number and containment are required
			l2, ls, le := locate([]byte(contents), p)
			if rep.line == l2 && strings.Contains(contents[ls:le], rep.excerpt) {
				continue
			}
		}
		ctx.Violate(key, fmt.Sprintf("invalid query %q (offending byte %d, line %d): %s", clip(contents, 80), p, line, why),
			map[string]any{"query": contents, "as_argument": asArg, "offset": pe.Offset, "token": pe.Token, "observed": stderr, "why": why, "cmd": fmt.Sprintf("gojq -n %q", contents)})
	}
	// whole tokens: a token that cannot start a term, placed where a term must start, is THE
	// offending token — every operator and keyword spelling of the grammar, in four contexts
	whole := ctx.NewOracle("offending-token-whole", "every operator/keyword spelling that cannot begin a term (| , // //= |= = += -= *= /= %= == != < <= > >= and or ?// ) ] } as then elif else end catch ; : __loc__-free) placed where a term is expected (start of the query, after `(`, after `1 |`, after `[1,`), with and without white space around it: the ParseError must name exactly that spelling and Offset must be the position right after it; through the command the caret must stand under its first byte; distinct = (spelling, context)")
	dw := map[string]bool{}
	for _, tok := range []string{"|", ",", "//", "//=", "|=", "=", "+=", "-=", "*=", "/=", "%=", "==", "!=", "<", "<=", ">", ">=", "and", "or", "?//", ")", "]", "}", "as", "then", "elif", "else", "end", "catch", ";", ":", "*", "/", "%", "+"} {
		for ci, prefix := range []string{"", "(", "1 | ", "[1,", " \n ", "def f: 1; f | "} {
			for _, gap := range []string{" ", ""} {
				src := prefix + tok + gap + "1"
				if gap == "" && (tok[len(tok)-1] >= 'a' && tok[len(tok)-1] <= 'z') {
					continue // `and1` is an identifier
				}
				_, err := gojq.Parse(src)
				pe, ok := err.(*gojq.ParseError)
				if !ok {
					continue // accepted in this context (e.g. `]` never is, `+1`… is not either; but be safe)
				}
				whole.Cases++
				dw[fmt.Sprint(tok, "|", ci)] = true
				wantOff := len(prefix) + len(tok)
				if msgShape(pe.Error()) != "unexpected token" || pe.Offset > wantOff+len(gap)+1 {
					whole.Distribution["other-error-first"]++
					continue
				}
				if pe.Token != tok || pe.Offset != wantOff {
					ctx.Violate("offending-token-whole:"+tok+":"+fmt.Sprint(ci), fmt.Sprintf("query %q: the offending token is %q ending at byte %d, the ParseError says Token %q, Offset %d", src, tok, wantOff, pe.Token, pe.Offset),
						map[string]any{"query": src, "offset": pe.Offset, "token": pe.Token, "expected_token": tok, "expected_offset": wantOff, "message": pe.Error(), "cmd": fmt.Sprintf("gojq -n %q", src)})
					continue
				}
				rep, contents, stderr := queryCLI(src, true)
				if why, _ := checkReport(rep, []byte(contents), len(prefix), false, false); why != "" && strings.TrimSpace(src) == src {
					ctx.Violate("offending-token-whole-caret:"+tok+":"+fmt.Sprint(ci), fmt.Sprintf("query %q (offending token %q at byte %d): %s", src, tok, len(prefix), why),
						map[string]any{"query": src, "observed": strings.ReplaceAll(stderr, tmpDir, "$TMP"), "why": why, "cmd": fmt.Sprintf("gojq -n %q", src)})
				}
			}
		}
	}
	whole.Distinct = len(dw)
	lib.Distinct, cmd.Distinct = len(dl), len(dc)
	lib.Samples = []string{`12345 "\(2)"`, `"abc \(1 +`, `"a\(1)\q"`}
	cmd.Samples = []string{". |\\n \"abc \\(1) def\\n  ghi  (unterminated, multi-line)", `"a\(1 2)"`}
}

func safeSlice(s string, i, j int) string {
	if i < 0 || j > len(s) || i > j {
		return fmt.Sprintf("<out of range %d:%d>", i, j)
	}
	return s[i:j]
}

func msgShape(m string) string {
	for _, p := range []string{"unexpected EOF", "invalid token", "invalid escape sequence", "unterminated string literal", "unexpected token"} {
		if strings.HasPrefix(m, p) {
			return p
		}
	}
	return "other"
}

package main

import (
	"fmt"
	"strings"

	"github.com/itchyny/gojq/cli"

	"verifharness/common"
)

// YAML: the byte index of the fault is go-yaml's decision (ParserError.Index / UnmarshalError.Index);
//   - stream `yaml`: the conversion index -> (line, excerpt, caret) of yamlParseError.Error vs the model;
//   - oracle: for fault kinds whose reported place is the faulty line on the unchanged tree, the
//     LINE printed by the command against the line the fault was injected on.
var yamlFaults = []string{"  @bad: 1", "k: 1: 2", "k: [1, 2", "k: {a: 1"}

// faults go-yaml reports without any index (plain errors): since faf5fb2 the command prints the library's
// message without a position (before, line 1 and an empty message: key yaml-error-without-index)
var yamlFaultsNoIndex = []string{"k: *unknown", "k: !!int abc"}

func yamlDoc(r *common.Rand, nLines int) []string {
	var ls []string
	for k := 0; len(ls) < nLines; k++ {
		switch r.Intn(6) {
		case 0:
			ls = append(ls, fmt.Sprintf("key%d: [%d, \"v\"]", k, k))
		case 1:
			ls = append(ls, fmt.Sprintf("s%d: \"漢é %d\"", k, k))
		case 2:
			ls = append(ls, fmt.Sprintf("m%d:", k), fmt.Sprintf("  a: %d", k), "  b: [x, y]")
		case 3:
			ls = append(ls, fmt.Sprintf("l%d:", k), "  - 1", "  - two")
		case 4:
			if k > 0 && r.Chance(1, 4) {
				ls = append(ls, "---")
			}
			ls = append(ls, fmt.Sprintf("n%d: %d.5", k, k))
		default:
			ls = append(ls, fmt.Sprintf("k%d: plain text %d", k, k))
		}
	}
	return ls
}

type yamlRun struct {
	st          *common.Stream
	orc         *common.Oracle
	distinct    map[string]bool
	lines, impl []string
}

// one text = lines ls joined by eol, with the fault on line at+1
func (y *yamlRun) run(ls []string, eol string, at int, fault string, seek, noIndex bool) {
	text := strings.Join(ls, eol) + eol
	// correspondence: index -> position
	var idx int
	var errText string
	var ok bool
	if seek {
		idx, errText, ok = cli.VerifC17YAMLError(strings.NewReader(text), "f.yaml")
	} else {
		idx, errText, ok = cli.VerifC17YAMLError(&scriptReader{data: []byte(text), sizes: []int{4096}}, "f.yaml")
	}
	if !ok || idx < -1 {
		y.orc.Distribution["accepted-or-other-error"]++
		return
	}
	rep := parseReport(errText, "yaml", "f.yaml")
	assertWidth(rep.excerpt)
	if len(text) <= 1<<18 { // larger texts go through the oracle only
		y.lines = append(y.lines, fmt.Sprintf("x%x %d", text, idx))
		if msg, plain := plainYAMLMessage(errText, "f.yaml"); plain && msg != "" && !rep.ok {
			y.impl = append(y.impl, "noindex")
		} else {
			y.impl = append(y.impl, rep.wire())
		}
		y.st.Distribution[fmt.Sprintf("fault=%q", fault)]++
	}

	// oracle through the command
	tr := transport{"script", []int{4096}}
	if seek {
		tr = transport{"file", nil}
	}
	stderr, name := cliJSON([]byte(text), tr, "--yaml-input")
	rep2 := parseReport(stderr, "yaml", name)
	y.orc.Cases++
	y.distinct[fmt.Sprintf("%s|%s|%s|%d", fault, tr.name, eolName(eol), at/100)] = true
	y.orc.Distribution[fmt.Sprintf("%s:%s:lines<%d", tr.name, eolName(eol), sizeClass(len(ls)))]++
	want := at + 1
	if rep2.ok && rep2.line == want && strings.Contains(fault, rep2.excerpt) {
		return
	}
	if msg, plain := plainYAMLMessage(stderr, name); noIndex && plain && !rep2.ok && strings.TrimSpace(msg) != "" {
		// go-yaml gave no index: the command prints the library's message and claims no position
		y.orc.Distribution["index-free message form"]++
		return
	}
	key := fmt.Sprintf("lineinfo:yaml:%q:%s", fault, tr.name)
	if noIndex {
		key = "yaml-error-without-index"
	} else if asc := asciiOnly(text); asc != text {
		// go-yaml's Index counts characters, the command uses it as a byte offset: the report is this
		// class iff the same text with every multi-byte character replaced by one byte is reported correctly
		stderr3, name3 := cliJSON([]byte(asc), tr, "--yaml-input")
		if rep3 := parseReport(stderr3, "yaml", name3); rep3.ok && rep3.line == want && strings.Contains(fault, rep3.excerpt) {
			key = "yaml-index-counts-characters"
		}
	}
	stderr = strings.ReplaceAll(stderr, tmpDir, "$TMP")
	rp := map[string]any{"fault_line": fault, "line": want, "total_lines": len(ls), "terminator": eolName(eol), "transport": tr.name, "observed": stderr}
	if len(text) <= 300 {
		rp["input"] = text
		rp["cmd"] = fmt.Sprintf("printf %%s %q | gojq --yaml-input .", text)
	} else {
		rp["input_hex"] = fmt.Sprintf("%x", clipBytes(text, 100000))
		rp["cmd"] = "xxd -r -p <<< $input_hex > in.yaml; gojq --yaml-input empty in.yaml"
	}
	ctx.Violate(key, fmt.Sprintf("--yaml-input: fault %q on line %d of %d reported as %s", fault, want, len(ls), clip(strings.ReplaceAll(stderr, "\n", "\\n"), 160)), rp)
}

// plainYAMLMessage recognises `[gojq: ]invalid yaml: <name>: <message>` (one line, no caret).
func plainYAMLMessage(text, name string) (msg string, ok bool) {
	text = strings.TrimSuffix(strings.TrimPrefix(text, "gojq: "), "\n")
	pre := "invalid yaml: " + name + ": "
	if !strings.HasPrefix(text, pre) || strings.Contains(text, "^") {
		return "", false
	}
	return text[len(pre):], true
}

func sizeClass(n int) int {
	for _, c := range []int{10, 100, 1000} {
		if n < c {
			return c
		}
	}
	return 10000
}

func yamlChecks() {
	y := &yamlRun{distinct: map[string]bool{}}
	y.st = ctx.NewStream("yaml", "Gojq.Cli.yamlReport (getLineByOffset(contents, index+1))",
		"yamlParseError.Error of the real yamlInputIter for YAML texts (3–3000 lines, LF/CRLF, seekable and not) with one faulty line; the model is given the index go-yaml reported; distinct = distinct implementation answers")
	y.orc = ctx.NewOracle("yaml-line",
		"`gojq --yaml-input empty` (file and non-seekable stdin, LF/CRLF, 3–3000 lines and 12 000–130 000 lines (0.4–4 MiB), some multi-document, multi-byte characters in values) with one top-level line replaced by a fault whose place go-yaml reports on that line ("+strings.Join(quoteAll(yamlFaults), ", ")+"): the printed line number must be the faulty line and the excerpt part of it; faults go-yaml reports without an index ("+strings.Join(quoteAll(yamlFaultsNoIndex), ", ")+") must either be located the same way or be printed as `invalid yaml: <name>: <non-empty message>` without any position; distinct = distinct (fault, transport, terminator, line/100)")
	r := ctx.R.Fork(8)
	// fixed cases first (the replays quoted for the known defect classes)
	y.run([]string{"a: \"漢漢漢漢\"", "b: 1", "c: 1: 2", "d: 3"}, "\n", 2, "c: 1: 2", false, false)
	y.run([]string{"a: 1", "b: *unknown", "c: 3"}, "\n", 1, "b: *unknown", false, true)
	y.run([]string{"a: 1", "b: !!int abc", "c: 3"}, "\n", 1, "b: !!int abc", true, true)
	n := ctx.N(150, 1500)
	for i := 0; y.orc.Cases < n && i < 30*n; i++ {
		eol := common.Pick(r, []string{"\n", "\r\n"})
		nl := common.Pick(r, []int{20, 60, 400, 1500, 3000})
		if !ctx.Thorough && nl > 400 && i%4 != 0 {
			nl = 60
		}
		ls := yamlDoc(r, nl)
		noIndex := i%10 == 9
		fault := common.Pick(r, yamlFaults)
		if noIndex {
			fault = common.Pick(r, yamlFaultsNoIndex)
		}
		at := r.Intn(len(ls))
		simple := func(l string) bool { return l != "---" && !strings.HasPrefix(l, "  ") && !strings.HasSuffix(l, ":") }
		// keep the fault between plain top-level `key: value` lines so that its place is unambiguous
		if at == 0 || at+1 >= len(ls) || !simple(ls[at-1]) || !simple(ls[at]) || !simple(ls[at+1]) {
			continue
		}
		ls[at] = fault
		y.run(ls, eol, at, fault, r.Bool(), noIndex)
	}
	// inputs larger than any buffer or re-read limit (256 KiB … 3 MiB), the fault in the last part
	for bi, nl := range []int{12000, 45000, 60000, 130000} {
		if !ctx.Thorough && bi == 3 {
			continue
		}
		for _, seek := range []bool{true, false} {
			ls := make([]string, nl)
			for i := range ls {
				ls[i] = fmt.Sprintf("key%07d: value-%07d-xxxxxxxx", i, i)
			}
			at := nl - 1 - r.Intn(nl/20)
			fault := common.Pick(r, yamlFaults)
			ls[at] = fault
			y.orc.Distribution[fmt.Sprintf("large:%dKiB:seek=%v", len(ls)*32/1024, seek)]++
			y.run(ls, "\n", at, fault, seek, false)
		}
	}
	y.orc.Distinct = len(y.distinct)
	y.orc.Samples = []string{"3000-line mapping, line 1501 replaced by `k: 1: 2`, through a pipe", "`k: *unknown` (go-yaml error without index)"}
	ctx.RunStream(y.st, y.lines, y.impl)
}

func asciiOnly(s string) string {
	var sb strings.Builder
	for _, r := range s {
		if r >= 0x80 {
			sb.WriteByte('x')
		} else {
			sb.WriteRune(r)
		}
	}
	return sb.String()
}

func quoteAll(xs []string) []string {
	var out []string
	for _, x := range xs {
		out = append(out, fmt.Sprintf("%q", x))
	}
	return out
}

func clipBytes(s string, n int) string {
	if len(s) > n {
		return s[:n]
	}
	return s
}

package main

import (
	"bytes"
	"encoding/json"
	"fmt"
	"io"
	"strconv"
	"strings"
	"unicode/utf8"

	"github.com/itchyny/gojq/cli"
)

// ---------- display width -------------------------------------------------------------------

// w17 is the width table shared with lean/Driver/C17.lean (go-runewidth, non-East-Asian).
func w17(r rune) int {
	switch {
	case 0x20 <= r && r < 0x7F:
		return 1
	case r == 0xE9:
		return 1
	case r == 0x6F22:
		return 2
	case r == 0x301:
		return 0
	case r == 0x1F600:
		return 2
	case r == 0xFFFD:
		return 1
	}
	return 1000
}

// sumW is Σ w17 over the runes of s (an invalid byte decodes to U+FFFD); ok=false if a rune is not in the table.
func sumW(s string) (w int, ok bool) {
	ok = true
	for _, r := range s {
		x := w17(r)
		if x >= 1000 {
			ok = false
		}
		w += x
	}
	return
}

// width: the table where it applies, else the library the command uses.
func width(s string) int {
	if w, ok := sumW(s); ok {
		return w
	}
	return cli.VerifC17StringWidth(s)
}

var widthChecked = map[string]bool{}
var widthMismatch []string

// assertWidth checks, once per distinct string, that runewidth.StringWidth agrees with Σ w17 on
// every rune-boundary prefix of s (the parameter assumption of the model).
func assertWidth(s string) {
	if widthChecked[s] || !utf8.ValidString(s) {
		return
	}
	widthChecked[s] = true
	for i := 0; i <= len(s); i++ {
		if i < len(s) && !utf8.RuneStart(s[i]) {
			continue
		}
		w, ok := sumW(s[:i])
		if !ok {
			continue
		}
		if g := cli.VerifC17StringWidth(s[:i]); g != w && len(widthMismatch) < 5 {
			widthMismatch = append(widthMismatch, fmt.Sprintf("%q: runewidth %d, table %d", s[:i], g, w))
		}
	}
}

// ---------- parsing what the command printed ----------------------------------------------------

type report struct {
	ok      bool
	multi   bool
	line    int
	col     int
	excerpt string
	msg     string
	raw     string
}

func (r report) wire() string {
	if !r.ok {
		return "unparsed " + strconv.Quote(clip(r.raw, 200))
	}
	f := "s"
	if r.multi {
		f = "m"
	}
	return fmt.Sprintf("%s %d %s x%x", f, r.line, showCol(r.excerpt, r.col), r.excerpt)
}

// showCol: the column, or "?" when the excerpt is not valid UTF-8 or holds a rune outside the
// width table (same rule as lean/Driver/C17.lean).
func showCol(excerpt string, col int) string {
	if _, ok := sumW(excerpt); !ok || !utf8.ValidString(excerpt) {
		return "?"
	}
	return strconv.Itoa(col)
}

func clip(s string, n int) string {
	if len(s) > n {
		return s[:n] + "…"
	}
	return s
}

// parseReport parses `[gojq: ]invalid <kind>: <name>[:LINE]\n    [LINE | ]<excerpt>\n<spaces>^  <msg>`.
// name is the file name (or, for the one-line query layout, the query text) the caller passed.
func parseReport(text, kind, name string) (r report) {
	r.raw = text
	text = strings.TrimPrefix(text, "gojq: ")
	text = strings.TrimPrefix(text, "compile error: ")
	pre := "invalid " + kind + ": "
	if !strings.HasPrefix(text, pre) {
		return
	}
	text = text[len(pre):]
	if !strings.HasPrefix(text, name) {
		return
	}
	text = text[len(name):]
	var second string
	switch {
	case strings.HasPrefix(text, "\n"):
		r.multi, r.line = false, 1
		second = text[1:]
	case strings.HasPrefix(text, ":"):
		i := strings.IndexByte(text, '\n')
		if i < 0 {
			return
		}
		n, err := strconv.Atoi(text[1:i])
		if err != nil {
			return
		}
		r.multi, r.line = true, n
		second = text[i+1:]
	default:
		return
	}
	i := strings.IndexByte(second, '\n')
	if i < 0 {
		return
	}
	exLine, third := second[:i], second[i+1:]
	indent := 4
	if r.multi {
		p := "    " + strconv.Itoa(r.line) + " | "
		if !strings.HasPrefix(exLine, p) {
			return
		}
		r.excerpt = exLine[len(p):]
		indent = len(p)
	} else {
		if !strings.HasPrefix(exLine, "    ") {
			return
		}
		r.excerpt = exLine[4:]
	}
	j := strings.IndexByte(third, '^')
	if j < 0 || strings.Trim(third[:j], " ") != "" || j < indent {
		return
	}
	r.col = j - indent
	r.msg = strings.TrimSuffix(strings.TrimPrefix(third[j+1:], "  "), "\n")
	r.ok = true
	return
}

// ---------- positions computed directly from the input bytes ---------------------------------

// locate returns, for byte index p of text (p may equal len(text)): the 1-based line number
// counting every terminator (LF, CRLF, lone CR) that ends at or before p, and the bounds
// [ls, le) of that line without its terminator.
func locate(text []byte, p int) (line, ls, le int) {
	line = 1
	for i := 0; i < len(text); {
		end := -1
		switch text[i] {
		case '\n':
			end = i + 1
		case '\r':
			end = i + 1
			if i+1 < len(text) && text[i+1] == '\n' {
				end = i + 2
			}
		}
		if end < 0 {
			i++
			continue
		}
		if end > p {
			break
		}
		line++
		ls = end
		i = end
	}
	le = ls
	for le < len(text) && text[le] != '\n' && text[le] != '\r' {
		le++
	}
	return
}

func loneCRsBefore(text []byte, p int) (n int) {
	for i := 0; i < p && i < len(text); i++ {
		if text[i] == '\r' && !(i+1 < len(text) && text[i+1] == '\n') {
			n++
		}
	}
	return
}

// checkReport compares a parsed report with the position of byte p in text. eof: the fault is the
// end of input (p = len(text)); the command may then show either the line the end lies in or the
// last line that has content before it. Returns "" or what is wrong; lineOnly is set when only the
// line number is wrong (excerpt and caret fit the true line).
func checkReport(r report, text []byte, p int, eof bool, partialOK bool) (why string, lineOnly bool) {
	if !r.ok {
		return "unparsable report", false
	}
	line, ls, le := locate(text, p)
	cands := [][3]int{{line, ls, le}}
	if eof && ls == len(text) && ls > 0 {
		// text ends with a terminator: accept the previous line, caret at its end
		q := ls - 1
		if q > 0 && text[q] == '\n' && text[q-1] == '\r' {
			q--
		}
		l2, ls2, le2 := locate(text, q)
		cands = append(cands, [3]int{l2, ls2, le2})
	}
	var whys []string
	for _, c := range cands {
		line, ls, le := c[0], c[1], c[2]
		trueLine := string(text[ls:le])
		q := min(max(p-ls, 0), len(trueLine))
		if eof {
			q = len(trueLine)
		}
		w := fitExcerpt(r, trueLine, q, partialOK)
		if w == "" && r.line == line {
			return "", false
		}
		if w == "" {
			lineOnly = true
			w = fmt.Sprintf("line %d reported, the fault is on line %d", r.line, line)
		}
		whys = append(whys, w)
	}
	return strings.Join(whys, " / "), lineOnly && len(cands) == 1
}

// fitExcerpt: the excerpt must occur in the true line at a place that covers position q (the
// offending rune entirely, or the line end), start and end on rune boundaries when the line is
// valid UTF-8, and the caret column must be the display width of the excerpt before that rune.
func fitExcerpt(r report, trueLine string, q int, partialOK bool) string {
	valid := utf8.ValidString(trueLine)
	qs := q
	if valid {
		for qs > 0 && qs < len(trueLine) && !utf8.RuneStart(trueLine[qs]) {
			qs--
		}
	}
	qe := qs
	if qs < len(trueLine) {
		_, sz := utf8.DecodeRuneInString(trueLine[qs:])
		qe = qs + sz
	}
	if valid && !utf8.ValidString(r.excerpt) {
		return fmt.Sprintf("excerpt %q is not cut on rune boundaries", r.excerpt)
	}
	found := false
	for a := 0; a+len(r.excerpt) <= len(trueLine); a++ {
		if trueLine[a:a+len(r.excerpt)] != r.excerpt {
			continue
		}
		found = true
		if !valid {
			// invalid UTF-8 on the line: the excerpt may stop up to 3 bytes short; widths of invalid bytes are unspecified
			if a <= q && q-(a+len(r.excerpt)) <= 3 && r.col <= min(q, a+len(r.excerpt))-a {
				return ""
			}
			continue
		}
		// partialOK (non-seekable input): the text may end where the reader stood, before the offending rune is complete
		if a > qs || a+len(r.excerpt) < qs || (!partialOK && a+len(r.excerpt) < qe) {
			continue
		}
		if r.col == width(trueLine[a:qs]) {
			return ""
		}
	}
	if !found {
		return fmt.Sprintf("excerpt %q is not part of the line %q", clip(r.excerpt, 80), clip(trueLine, 120))
	}
	return fmt.Sprintf("caret column %d with excerpt %q does not stand under byte %d of the line %q", r.col, clip(r.excerpt, 80), q, clip(trueLine, 120))
}

// ---------- reference decoder ---------------------------------------------------------------------

type refResult struct {
	ends []int64 // dec.InputOffset() after every value
	kind string  // "", "syntax", "eof", "other"
	off  int64   // SyntaxError.Offset (1-based, absolute)
	msg  string
}

// refDecode runs encoding/json alone (no gojq code) over the whole input.
func refDecode(inp []byte) (res refResult) {
	dec := json.NewDecoder(bytes.NewReader(inp))
	dec.UseNumber()
	for {
		var v any
		err := dec.Decode(&v)
		if err == io.EOF {
			return
		}
		if err != nil {
			res.msg = err.Error()
			if e, ok := err.(*json.SyntaxError); ok {
				res.kind, res.off = "syntax", e.Offset
			} else if err == io.ErrUnexpectedEOF {
				res.kind = "eof"
			} else {
				res.kind = "other"
			}
			return
		}
		res.ends = append(res.ends, dec.InputOffset())
	}
}

// ---------- scripted reader (never an io.Seeker) --------------------------------------------

type scriptReader struct {
	data  []byte
	pos   int
	sizes []int
	k     int
	log   func(n int)
}

func (r *scriptReader) Read(p []byte) (int, error) {
	if r.pos >= len(r.data) {
		return 0, io.EOF
	}
	if len(p) == 0 {
		return 0, nil
	}
	n := 1 << 30
	if len(r.sizes) > 0 && r.sizes[0] < 0 {
		// absolute stops (-sizes[i] are positions where a read must end: a producer that flushes
		// there), whatever buffer sizes the consumer offers
		for _, s := range r.sizes {
			if -s > r.pos {
				n = -s - r.pos
				break
			}
		}
	} else if len(r.sizes) > 0 {
		n = r.sizes[r.k%len(r.sizes)]
		r.k++
	}
	n = max(1, min(n, len(p), len(r.data)-r.pos))
	copy(p, r.data[r.pos:r.pos+n])
	r.pos += n
	if r.log != nil {
		r.log(n)
	}
	return n, nil
}

// flushStops: a chunk schedule in which every read ends exactly at the end of a document (every
// `every`-th one): the producer flushes after a document and sends the separating newline with
// the next one. Encoded as negative absolute positions for scriptReader.
func flushStops(ends []int64, every int) []int {
	var out []int
	for i, e := range ends {
		if e > 0 && i%every == every-1 {
			out = append(out, -int(e))
		}
	}
	if len(out) == 0 {
		return nil
	}
	return out
}

package main

import (
	"fmt"
	"strings"

	"verifharness/common"
)

// symbols of the lineinfo alphabet: a, é, 漢, combining acute, LF, CR, 😀
var alphabet = []string{"a", "\u00e9", "\u6f22", "\u0301", "\n", "\r", "\U0001F600"}

// bytes used for the invalid-UTF-8 variants
var badAlphabet = []string{"a", "\x80", "\xe6", "\xf0\x9f", "\ufffd", "\n", "\u6f22"}

func allTexts(alpha []string, maxLen int) []string {
	out := []string{""}
	prev := []string{""}
	for l := 1; l <= maxLen; l++ {
		var cur []string
		for _, p := range prev {
			for _, a := range alpha {
				cur = append(cur, p+a)
			}
		}
		out = append(out, cur...)
		prev = cur
	}
	return out
}

// randLine: n symbols without line terminators, mostly ASCII with multi-byte symbols mixed in.
func randLine(r *common.Rand, n int, wide int) string {
	var sb strings.Builder
	for i := 0; i < n; i++ {
		if r.Intn(100) < wide {
			sb.WriteString(common.Pick(r, []string{"\u00e9", "\u6f22", "\u0301", "\U0001F600"}))
		} else {
			sb.WriteByte(byte('a' + r.Intn(26)))
		}
	}
	return sb.String()
}

// ---------- JSON document streams -------------------------------------------------------------

type streamOpts struct {
	total int    // approximate size in bytes
	eol   string // "\n", "\r\n" or "\r"
	style int    // 0 tiny one-line objects, 1 mixed, 2 large documents, 3 numbers on shared lines
}

func jsonString(r *common.Rand, n int) string {
	var sb strings.Builder
	sb.WriteByte('"')
	for sb.Len() < n {
		switch r.Intn(13) {
		case 12:
			// grapheme clusters of several code points (the caret column is the display width of
			// clusters, not the sum over code points): skin tone, ZWJ family, flag, keycap,
			// variation selector, combining marks
			sb.WriteString(common.Pick(r, []string{"\U0001F44D\U0001F3FD", "\U0001F468\u200D\U0001F469\u200D\U0001F467", "\U0001F1EF\U0001F1F5", "1\uFE0F\u20E3", "\u2764\uFE0F", "e\u0301\u0323", "\U0001F469\U0001F3FB\u200D\U0001F4BB"}))
		case 0:
			sb.WriteString("\u00e9")
		case 1:
			sb.WriteString("\u6f22")
		case 2:
			sb.WriteString("\U0001F600")
		case 3:
			sb.WriteString(`\n`)
		case 4:
			sb.WriteString(`\u00e9`)
		case 5:
			sb.WriteByte(' ')
		default:
			sb.WriteByte(byte('a' + r.Intn(26)))
		}
	}
	sb.WriteByte('"')
	return sb.String()
}

func genDoc(r *common.Rand, k int, o streamOpts) string {
	kind := 0
	switch o.style {
	case 1:
		kind = r.Intn(6)
	case 2:
		kind = 1 + r.Intn(3)
	case 3:
		kind = 5
	}
	switch kind {
	case 0:
		return fmt.Sprintf(`{"i": %d}`, k)
	case 1: // pretty-printed object over several lines
		var sb strings.Builder
		sb.WriteString("{" + o.eol)
		n := r.Range(1, 6)
		for j := 0; j < n; j++ {
			fmt.Fprintf(&sb, `  "k%d": `, j)
			switch r.Intn(3) {
			case 0:
				fmt.Fprintf(&sb, "[%d, %d, null]", k, j)
			case 1:
				sb.WriteString(jsonString(r, r.Range(4, 90)))
			default:
				fmt.Fprintf(&sb, `{"n": %d.5e3, "t": true}`, k)
			}
			if j < n-1 {
				sb.WriteByte(',')
			}
			sb.WriteString(o.eol)
		}
		sb.WriteString("}")
		return sb.String()
	case 2: // a long string (one line)
		n := r.Range(10, 3000)
		if o.style == 2 && r.Chance(1, 4) {
			n = r.Range(15000, 40000)
		}
		return jsonString(r, n)
	case 3: // array over several lines
		var sb strings.Builder
		sb.WriteString("[")
		n := r.Range(1, 40)
		if o.style == 2 {
			n = r.Range(100, 1500)
		}
		for j := 0; j < n; j++ {
			if j > 0 {
				sb.WriteByte(',')
			}
			if r.Chance(1, 3) {
				sb.WriteString(o.eol)
			}
			fmt.Fprintf(&sb, " %d", k*j)
		}
		sb.WriteString("]")
		return sb.String()
	case 4:
		return jsonString(r, r.Range(2, 70))
	default:
		return common.Pick(r, []string{"0", "12345", "-1.5e10", "true", "null", "false", `"s"`, "[]", "{}"})
	}
}

// genStream: valid documents, each followed by a separator; returns the text.
func genStream(r *common.Rand, o streamOpts) []byte {
	var sb strings.Builder
	for k := 0; sb.Len() < o.total; k++ {
		sb.WriteString(genDoc(r, k, o))
		switch {
		case o.style == 3 && r.Chance(3, 4):
			sb.WriteByte(' ')
		case o.style == 1 && r.Chance(1, 8):
			sb.WriteString(" ")
		case o.style == 1 && r.Chance(1, 8):
			sb.WriteString(o.eol + o.eol)
		default:
			sb.WriteString(o.eol)
		}
	}
	return []byte(sb.String())
}

// corruption kinds; each returns a modified copy (nil if not applicable)
var faultKinds = []string{"ctl", "brace", "quote", "comma", "letter", "lf", "cr", "trunc", "bracket"}

func corrupt(data []byte, t int, kind string) []byte {
	if t < 0 || t >= len(data) {
		return nil
	}
	out := append([]byte(nil), data...)
	var b byte
	switch kind {
	case "ctl":
		b = 0x01
	case "brace":
		b = '}'
	case "bracket":
		b = ']'
	case "quote":
		b = '"'
	case "comma":
		b = ','
	case "letter":
		b = 'x'
	case "lf":
		b = '\n'
	case "cr":
		b = '\r'
	case "trunc":
		return out[:t]
	}
	if out[t] == b {
		return nil
	}
	out[t] = b
	return out
}

// ---------- jq queries -----------------------------------------------------------------------------

var baseQueries = []string{
	"def f(x): x | . + 1;\n  .[] as [$a, {b: $c}]\n  | if $a > 1 then \"a\\($a) b\\(\"x\" + $c)\" else null end\n  | f(.)",
	".foo.bar[1:2] |= (. // \"d\u00e9f\u6f22\") |\n reduce .[] as $x (0; . + $x) ,\n try error(\"x\") catch .,\n @base64 \"v=\\(.a)\", ..,\n {a: 1, \"b\": 2, $__loc__, (\"c\"): 3e10} | . as [$a] ?// $a | $a",
	"\"unterminated \\(1 + 2) tail\" | label $out | foreach .[] as $i (0; .+$i; if . > 3 then ., break $out else empty end)",
	"import \"m\" as m; include \"n\";\r\nm::f | $m::v | .a += 1 | .b -= 1.5e-3 | .c *= 2 | .d /= 2 | .e %= 2 | .f //= 0 | . == 1 | . != 2 | . <= 3 | . >= 4 and true or false",
	"# comment \u6f22\n.a | \"\\u00e9\\n\\t\" # trailing\n| .[\"k\"]? | -(1) | ..",
}

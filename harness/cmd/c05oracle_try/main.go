// Standalone driver of the C05 search oracle (package verifharness/c05oracle):
//
//	go build -tags verif -o /tmp/c05orc/try ./cmd/c05oracle_try && /tmp/c05orc/try -tier quick -seed 1
package main

import (
	"verifharness/c05oracle"
	"verifharness/common"
)

func main() {
	ctx := common.ParseFlags("C05")
	c05oracle.Run(ctx)
	ctx.Finish()
}

package main

// An independent tokenizer written from jq's lexical grammar (jq manual + the token list of the
// property): it is used by the ORACLES (re-spacing, mutants, shrinking), never by the real code.
// It splits a source into alternating gaps (white space / comments, possibly empty) and tokens such
// that the concatenation of all pieces is the source.  String literals are split at interpolation
// boundaries: `"a\(` 1 `)b"` — white space may be inserted inside `\( … )` but not in the text.

type piece struct {
	text string
	gap  bool
}

func isIdentStart(c byte) bool { return c == '_' || 'a' <= c && c <= 'z' || 'A' <= c && c <= 'Z' }
func isDigit(c byte) bool      { return '0' <= c && c <= '9' }
func isIdentPart(c byte) bool  { return isIdentStart(c) || isDigit(c) }

var multiOps = []string{"?//", "//=", "|=", "+=", "-=", "*=", "/=", "%=", "==", "!=", "<=", ">=", "//", ".."}

type tokenizer struct {
	src string
	pos int
	out []piece
	ok  bool
}

// tokenize returns the pieces, or ok=false when the source is lexically malformed
// (unterminated string / interpolation, stray byte).
func tokenize(src string) ([]piece, bool) {
	t := &tokenizer{src: src, ok: true}
	t.run(0)
	if t.pos != len(src) {
		return nil, false
	}
	return t.out, t.ok
}

func (t *tokenizer) gap() {
	start := t.pos
	for t.pos < len(t.src) {
		c := t.src[t.pos]
		if c == ' ' || c == '\t' || c == '\n' || c == '\r' {
			t.pos++
		} else if c == '#' {
			// comment: to the end of the line; a backslash takes the next byte with it
			// (so an odd number of backslashes before the newline continues the comment)
			for t.pos < len(t.src) && t.src[t.pos] != '\n' && t.src[t.pos] != '\r' {
				if t.src[t.pos] == 0 {
					t.ok = false // a NUL inside a comment: not re-spaced (see oracle `nul-comment`)
				}
				if t.src[t.pos] == '\\' && t.pos+1 < len(t.src) {
					if t.src[t.pos+1] == '\r' && t.pos+2 < len(t.src) && t.src[t.pos+2] == '\n' {
						t.pos++
					}
					t.pos++
				}
				t.pos++
			}
		} else {
			break
		}
	}
	if t.pos > len(t.src) {
		t.pos = len(t.src)
	}
	t.out = append(t.out, piece{t.src[start:t.pos], true})
}

// run tokenizes until the end (depth 0) or until the `)` closing an interpolation (depth > 0),
// which it leaves unread.
func (t *tokenizer) run(depth int) {
	parens := 0
	for t.ok {
		t.gap()
		if t.pos >= len(t.src) {
			if depth > 0 {
				t.ok = false
			}
			return
		}
		c := t.src[t.pos]
		start := t.pos
		switch {
		case c == ')' && depth > 0 && parens == 0:
			return
		case c == '"':
			t.str(start)
			continue
		case isIdentStart(c):
			t.ident()
		case c == '$' && t.pos+1 < len(t.src) && isIdentStart(t.src[t.pos+1]):
			t.pos++
			t.ident()
		case c == '@' && t.pos+1 < len(t.src) && isIdentPart(t.src[t.pos+1]):
			t.pos++
			for t.pos < len(t.src) && isIdentPart(t.src[t.pos]) {
				t.pos++
			}
		case c == '.' && t.pos+1 < len(t.src) && isIdentStart(t.src[t.pos+1]):
			t.pos++
			for t.pos < len(t.src) && isIdentPart(t.src[t.pos]) {
				t.pos++
			}
		case isDigit(c), c == '.' && t.pos+1 < len(t.src) && isDigit(t.src[t.pos+1]):
			t.number()
		default:
			matched := false
			for _, op := range multiOps {
				if len(t.src)-t.pos >= len(op) && t.src[t.pos:t.pos+len(op)] == op {
					t.pos += len(op)
					matched = true
					break
				}
			}
			if !matched {
				if c < ' ' || c >= 0x7f {
					t.ok = false
					return
				}
				if c == '(' {
					parens++
				} else if c == ')' {
					parens--
				}
				t.pos++
			}
		}
		t.out = append(t.out, piece{t.src[start:t.pos], false})
	}
}

func (t *tokenizer) ident() {
	for {
		for t.pos < len(t.src) && isIdentPart(t.src[t.pos]) {
			t.pos++
		}
		if t.pos+2 < len(t.src) && t.src[t.pos] == ':' && t.src[t.pos+1] == ':' && isIdentStart(t.src[t.pos+2]) {
			t.pos += 2
			continue
		}
		return
	}
}

func (t *tokenizer) number() {
	for t.pos < len(t.src) && isDigit(t.src[t.pos]) {
		t.pos++
	}
	if t.pos < len(t.src) && t.src[t.pos] == '.' {
		t.pos++
		for t.pos < len(t.src) && isDigit(t.src[t.pos]) {
			t.pos++
		}
	}
	if t.pos < len(t.src) && (t.src[t.pos] == 'e' || t.src[t.pos] == 'E') {
		p := t.pos + 1
		if p < len(t.src) && (t.src[p] == '+' || t.src[p] == '-') {
			p++
		}
		if p < len(t.src) && isDigit(t.src[p]) {
			for p < len(t.src) && isDigit(t.src[p]) {
				p++
			}
			t.pos = p
		}
	}
	// gojq's lexical rule (lexer.go scanNumber, documented by cli/test.yaml "invalid token"): a number
	// directly followed by `.` or a letter is one invalid token, not two tokens
	if t.pos < len(t.src) && (t.src[t.pos] == '.' || isIdentStart(t.src[t.pos])) {
		t.ok = false
	}
}

// str scans a string literal starting at the opening quote (or, when resuming after an
// interpolation, at the closing parenthesis): emits `"text\(` , the inner pieces, `)text"` …
func (t *tokenizer) str(start int) {
	t.pos++ // opening quote or ')'
	for t.pos < len(t.src) {
		c := t.src[t.pos]
		switch {
		case c == '\\' && t.pos+1 < len(t.src) && t.src[t.pos+1] == '(':
			t.pos += 2
			t.out = append(t.out, piece{t.src[start:t.pos], false})
			t.run(1)
			if !t.ok || t.pos >= len(t.src) || t.src[t.pos] != ')' {
				t.ok = false
				return
			}
			start = t.pos
			t.pos++
		case c == '\\':
			t.pos += 2
		case c == '"':
			t.pos++
			t.out = append(t.out, piece{t.src[start:t.pos], false})
			return
		default:
			t.pos++
		}
	}
	t.ok = false
}

// tokensOf returns only the token texts.
func tokensOf(ps []piece) []string {
	var out []string
	for _, p := range ps {
		if !p.gap {
			out = append(out, p.text)
		}
	}
	return out
}

// glueSafe reports whether two adjacent tokens can be written without white space between them
// under maximal munch, judged conservatively: one side is a bracket, comma or semicolon (no
// multi-byte token of jq contains one of these).  Fragments of one string literal never glue.
func glueSafe(a, b string) bool {
	if a == "" || b == "" {
		return false
	}
	if len(a) >= 3 && (a[0] == '"' || a[0] == ')') && a[len(a)-2:] == "\\(" {
		return true // `"text\(` then the first token of the interpolated query
	}
	if len(b) >= 2 && b[0] == ')' {
		return true // last token of the interpolated query then `)text"` / `)text\(`
	}
	x, y := a[len(a)-1], b[0]
	const solo = "()[]{},;"
	for i := 0; i < len(solo); i++ {
		if len(a) == 1 && x == solo[i] || len(b) == 1 && y == solo[i] {
			return true
		}
	}
	return false
}

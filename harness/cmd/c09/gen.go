package main

// Generator of the full surface grammar, as token lists (so that the token boundaries are known
// exactly for the re-spacing oracle).  Written from the jq manual's syntax, biased towards the
// forms the printer treats specially.

import (
	"strings"

	"verifharness/common"
)

type gen struct {
	r     *common.Rand
	forms map[string]int // which constructs were produced (evidence)
}

func (g *gen) note(s string) { g.forms[s]++ }

var identPool = []string{"a", "f", "foo", "_x", "a1", "map", "select", "empty", "error", "not", "length", "m::f", "lib::g2", "input", "nan"}
var varPool = []string{"$x", "$y", "$__loc__", "$ENV", "$m::v", "$_", "$a1", "$__prog_args"}
var fieldPool = []string{".a", ".foo", "._", ".a1", ".and", ".if", ".or", ".end", ".reduce", ".def", ".e3", ".E", ".null", ".true"}
var numberPool = []string{"0", "1", "2", "10", "12.5", ".5", "1.", "1e3", "1E-2", "1.5e+10", "0.0", "00", "1e1000", "100000000000000000000", "0.10", "1.e2", ".0e0", "9007199254740993"}
var formatPool = []string{"@base64", "@json", "@text", "@csv", "@sh", "@uri", "@html", "@1x", "@_", "@base32d"}
var keywordPool = []string{"or", "and", "module", "import", "include", "def", "as", "label", "break", "null", "true", "false", "if", "then", "elif", "else", "end", "try", "catch", "reduce", "foreach"}
var textPool = []string{"a", "abc", " ", "x y", `\n`, `\t`, `\"`, `\\`, `\/`, `\b`, `\f`, `\r`, `é`, `😀`, `\ud800`, `\udc00x`, `\u0000`, `\u001f`,
	"é", "日本", "\t", "\x01", "\x7f", "\xff", "\xc3", "#", "(", ")", "'", "$x", ".a", "//", "\\\\\\\"", "{}", "[", "?//", "😀", "\xed\xa0\x80", "\xef\xbf\xbd"}
var binOpPool = []string{"//", "=", "|=", "+=", "-=", "*=", "/=", "%=", "//=", "or", "and", "==", "!=", "<", "<=", ">", ">=", "+", "-", "*", "/", "%"}

func (g *gen) pick(xs []string) string { return common.Pick(g.r, xs) }

func cat(parts ...[]string) []string {
	var out []string
	for _, p := range parts {
		out = append(out, p...)
	}
	return out
}

func one(s ...string) []string { return s }

// program := [module header] imports (funcdefs | pipe)
func (g *gen) program(d int) []string {
	var out []string
	if g.r.Chance(1, 8) {
		g.note("module-header")
		out = cat(out, one("module"), g.constObject(2), one(";"))
	}
	for g.r.Chance(1, 6) {
		if g.r.Bool() {
			g.note("import")
			out = cat(out, one("import", g.simpleString(), "as", g.pick([]string{"x", "$x", "lib", "$data"})))
		} else {
			g.note("include")
			out = cat(out, one("include", g.simpleString()))
		}
		if g.r.Chance(1, 3) {
			out = cat(out, g.constObject(2))
		}
		out = append(out, ";")
	}
	if g.r.Chance(1, 12) {
		g.note("funcdefs-only")
		for i := g.r.Range(0, 3); i > 0; i-- {
			out = cat(out, g.funcdef(d))
		}
		return out
	}
	return cat(out, g.pipe(d))
}

func (g *gen) simpleString() string {
	return `"` + g.pick([]string{"a", "lib/x", "", "a b", `a\"b`, "é", `é`, ".", "a/../b"}) + `"`
}

func (g *gen) constTerm(d int) []string {
	switch k := g.r.Intn(8); {
	case d <= 0 || k < 3:
		return one(g.pick([]string{"1", "0.5", `"s"`, `""`, "null", "true", "false", `"a\nb"`, "1e2", `"é"`}))
	case k < 5:
		return g.constObject(d - 1)
	default:
		out := one("[")
		for i, n := 0, g.r.Range(0, 3); i < n; i++ {
			if i > 0 {
				out = append(out, ",")
			}
			out = cat(out, g.constTerm(d-1))
		}
		return append(out, "]")
	}
}

func (g *gen) constObject(d int) []string {
	out := one("{")
	n := g.r.Range(0, 3)
	for i := 0; i < n; i++ {
		if i > 0 {
			out = append(out, ",")
		}
		switch g.r.Intn(3) {
		case 0:
			out = append(out, g.pick([]string{"a", "name", "_k"}))
		case 1:
			out = append(out, g.pick(keywordPool))
		default:
			out = append(out, g.pick([]string{`"k"`, `""`, `"a b"`, `"é"`}))
		}
		out = append(out, ":")
		out = cat(out, g.constTerm(d-1))
	}
	if n > 0 && g.r.Chance(1, 5) {
		out = append(out, ",")
	}
	return append(out, "}")
}

func (g *gen) funcdef(d int) []string {
	g.note("def")
	out := one("def", g.pick([]string{"f", "g", "foo", "_h", "f1"}))
	if g.r.Chance(1, 2) {
		out = append(out, "(")
		for i, n := 0, g.r.Range(1, 3); i < n; i++ {
			if i > 0 {
				out = append(out, ";")
			}
			out = append(out, g.pick([]string{"a", "$a", "f", "$x", "g"}))
		}
		out = append(out, ")")
	}
	out = append(out, ":")
	out = cat(out, g.pipe(d-1))
	return append(out, ";")
}

func (g *gen) pipe(d int) []string {
	out := g.comma(d)
	if d > 0 && g.r.Chance(1, 4) {
		g.note("pipe")
		out = cat(out, one("|"), g.pipe(d-1))
	}
	return out
}

func (g *gen) comma(d int) []string {
	out := g.item(d)
	for d > 0 && g.r.Chance(1, 6) {
		g.note("comma")
		out = cat(out, one(","), g.item(d-1))
	}
	return out
}

func (g *gen) item(d int) []string {
	if d > 0 {
		switch g.r.Intn(14) {
		case 0:
			return cat(g.funcdef(d), g.pipe(d-1))
		case 1:
			g.note("label")
			return cat(one("label", g.pick([]string{"$out", "$l", "$x"}), "|"), g.pipe(d-1))
		case 2, 3:
			g.note("as")
			out := cat(g.expr(d-1), one("as"), g.pattern(2))
			for g.r.Chance(1, 4) {
				g.note("?//")
				out = cat(out, one("?//"), g.pattern(2))
			}
			return cat(out, one("|"), g.pipe(d-1))
		}
	}
	return g.expr(d)
}

func (g *gen) expr(d int) []string {
	out := g.unary(d)
	for d > 0 && g.r.Chance(1, 3) {
		g.note("binop")
		out = cat(out, one(g.pick(binOpPool)), g.unary(d-1))
	}
	return out
}

func (g *gen) unary(d int) []string {
	if g.r.Chance(1, 8) {
		g.note("unary")
		return cat(one(g.pick([]string{"-", "-", "+"})), g.unary(d))
	}
	return g.postfix(d)
}

func (g *gen) postfix(d int) []string {
	out := g.primary(d)
	for g.r.Chance(1, 3) {
		switch g.r.Intn(9) {
		case 0:
			g.note("suffix.field")
			out = append(out, g.pick(fieldPool))
		case 1:
			g.note("suffix?")
			out = append(out, "?")
		case 2:
			g.note("suffix[]")
			out = append(out, "[", "]")
		case 3:
			g.note("suffix[e]")
			out = cat(out, one("["), g.pipe(d-1), one("]"))
		case 4:
			g.note("suffix[slice]")
			switch g.r.Intn(3) {
			case 0:
				out = cat(out, one("["), g.pipe(d-1), one(":", "]"))
			case 1:
				out = cat(out, one("[", ":"), g.pipe(d-1), one("]"))
			default:
				out = cat(out, one("["), g.pipe(d-1), one(":"), g.pipe(d-1), one("]"))
			}
		case 5:
			g.note("suffix.string")
			out = cat(out, one("."), g.str(d-1))
		case 6:
			g.note("suffix.[e]")
			out = cat(out, one(".", "["), g.pipe(d-1), one("]"))
		case 7:
			g.note("suffix.[]")
			out = append(out, ".", "[", "]")
		default:
			g.note("suffix.[slice]")
			out = cat(out, one(".", "["), g.pipe(d-1), one(":"), g.pipe(d-1), one("]"))
		}
	}
	return out
}

// str: a string literal as fragments `"txt\(` … `)txt"`
func (g *gen) str(d int) []string {
	g.note("string")
	text := func() string {
		var sb strings.Builder
		for i := g.r.Range(0, 3); i > 0; i-- {
			sb.WriteString(g.pick(textPool))
		}
		return sb.String()
	}
	cur := `"` + text()
	var out []string
	for d > 0 && g.r.Chance(1, 3) {
		g.note("interpolation")
		out = append(out, cur+`\(`)
		out = cat(out, g.pipe(d-1))
		cur = ")" + text()
	}
	return append(out, cur+`"`)
}

func (g *gen) primary(d int) []string {
	k := g.r.Intn(40)
	if d <= 0 && k >= 12 {
		k = g.r.Intn(12)
	}
	switch {
	case k < 2:
		return one(".")
	case k < 3:
		g.note("..")
		return one("..")
	case k < 5:
		g.note("field")
		return one(g.pick(fieldPool))
	case k < 7:
		g.note("number")
		return one(g.pick(numberPool))
	case k < 8:
		return one(g.pick([]string{"null", "true", "false"}))
	case k < 10:
		g.note("func0")
		return one(g.pick(identPool))
	case k < 12:
		g.note("variable")
		return one(g.pick(varPool))
	case k < 15:
		return g.str(d)
	case k < 16:
		g.note("format")
		if g.r.Bool() {
			return cat(one(g.pick(formatPool)), g.str(d))
		}
		return one(g.pick(formatPool))
	case k < 18:
		g.note(".string")
		return cat(one("."), g.str(d-1))
	case k < 20:
		g.note(".[e]")
		switch g.r.Intn(4) {
		case 0:
			return one(".", "[", "]")
		case 1:
			return cat(one(".", "["), g.pipe(d-1), one("]"))
		case 2:
			return cat(one(".", "["), g.pipe(d-1), one(":", "]"))
		default:
			return cat(one(".", "[", ":"), g.pipe(d-1), one("]"))
		}
	case k < 22:
		g.note("call")
		out := one(g.pick(identPool), "(")
		for i, n := 0, g.r.Range(1, 3); i < n; i++ {
			if i > 0 {
				out = append(out, ";")
			}
			out = cat(out, g.pipe(d-1))
		}
		return append(out, ")")
	case k < 25:
		g.note("paren")
		return cat(one("("), g.pipe(d-1), one(")"))
	case k < 27:
		g.note("array")
		if g.r.Chance(1, 4) {
			return one("[", "]")
		}
		return cat(one("["), g.pipe(d-1), one("]"))
	case k < 30:
		return g.object(d)
	case k < 32:
		g.note("if")
		out := cat(one("if"), g.pipe(d-1), one("then"), g.pipe(d-1))
		for g.r.Chance(1, 3) {
			g.note("elif")
			out = cat(out, one("elif"), g.pipe(d-1), one("then"), g.pipe(d-1))
		}
		if g.r.Chance(2, 3) {
			out = cat(out, one("else"), g.pipe(d-1))
		}
		return append(out, "end")
	case k < 34:
		g.note("try")
		out := cat(one("try"), g.unary(d-1))
		if g.r.Bool() {
			g.note("catch")
			out = cat(out, one("catch"), g.unary(d-1))
		}
		return out
	case k < 36:
		g.note("reduce")
		return cat(one("reduce"), g.expr(d-1), one("as"), g.pattern(2), one("("), g.pipe(d-1), one(";"), g.pipe(d-1), one(")"))
	case k < 38:
		g.note("foreach")
		out := cat(one("foreach"), g.expr(d-1), one("as"), g.pattern(2), one("("), g.pipe(d-1), one(";"), g.pipe(d-1))
		if g.r.Bool() {
			out = cat(out, one(";"), g.pipe(d-1))
		}
		return append(out, ")")
	case k < 39:
		g.note("break")
		return one("break", g.pick([]string{"$out", "$l", "$x"}))
	default:
		g.note("..")
		return one("..")
	}
}

func (g *gen) object(d int) []string {
	g.note("object")
	out := one("{")
	n := g.r.Range(0, 3)
	for i := 0; i < n; i++ {
		if i > 0 {
			out = append(out, ",")
		}
		hasVal := true
		switch g.r.Intn(7) {
		case 0:
			out = append(out, g.pick([]string{"a", "foo", "_k", "a1"}))
			hasVal = g.r.Chance(2, 3)
		case 1:
			g.note("keyword-key")
			out = append(out, g.pick(keywordPool))
			hasVal = g.r.Chance(2, 3)
		case 2:
			g.note("variable-key")
			out = append(out, g.pick([]string{"$x", "$__loc__", "$y"}))
			hasVal = g.r.Chance(1, 4)
		case 3, 4:
			g.note("string-key")
			out = cat(out, g.str(d-1))
			hasVal = g.r.Chance(2, 3)
		default:
			g.note("query-key")
			out = cat(out, one("("), g.pipe(d-1), one(")"))
		}
		if hasVal {
			out = append(out, ":")
			out = cat(out, g.expr(d-1))
			for g.r.Chance(1, 5) {
				g.note("objectval-pipe")
				out = cat(out, one("|"), g.expr(d-1))
			}
		}
	}
	if n > 0 && g.r.Chance(1, 6) {
		out = append(out, ",")
	}
	return append(out, "}")
}

func (g *gen) pattern(d int) []string {
	k := g.r.Intn(5)
	if d <= 0 {
		k = 0
	}
	switch {
	case k < 2:
		return one(g.pick([]string{"$x", "$y", "$a", "$__loc__", "$_"}))
	case k < 3:
		g.note("array-pattern")
		out := one("[")
		for i, n := 0, g.r.Range(1, 3); i < n; i++ {
			if i > 0 {
				out = append(out, ",")
			}
			out = cat(out, g.pattern(d-1))
		}
		return append(out, "]")
	default:
		g.note("object-pattern")
		out := one("{")
		for i, n := 0, g.r.Range(1, 3); i < n; i++ {
			if i > 0 {
				out = append(out, ",")
			}
			switch g.r.Intn(6) {
			case 0:
				out = append(out, g.pick([]string{"$x", "$k"}))
				if g.r.Bool() {
					out = cat(out, one(":"), g.pattern(d-1))
				}
			case 1:
				out = cat(out, one(g.pick([]string{"a", "foo"}), ":"), g.pattern(d-1))
			case 2:
				out = cat(out, one(g.pick(keywordPool), ":"), g.pattern(d-1))
			case 3, 4:
				out = cat(out, g.str(1), one(":"), g.pattern(d-1))
			default:
				out = cat(out, one("("), g.pipe(1), one(")", ":"), g.pattern(d-1))
			}
		}
		return append(out, "}")
	}
}

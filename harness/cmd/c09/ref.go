package main

// RefParser — an independent recursive-descent / precedence-climbing parser written from the
// property text (and the jq manual), NOT from parser.go.y:
//
//	`|` weakest, right-associative; then `,` left; `//` right; the update operators
//	(= |= += -= *= /= %= //=) non-associative; `or`; `and`; the comparisons (== != < <= > >=)
//	non-associative; `+ -` left; `* / %` left; unary sign applies to the following term together
//	with its suffixes; `def …;` and `label $x |` scope over everything to their right; the body
//	of `… as $x |` extends to the right as far as possible and its source is the operator
//	expression to its left (so it binds tighter than `,`); `reduce/foreach SOURCE as PATTERN
//	(…; …)`, `if … then … elif … else … end`, `try BODY catch HANDLER` (BODY/HANDLER are single
//	terms) delimit themselves.
//
// It produces a fully parenthesised canonical text; renderQuery produces the same text from the
// AST of the real parser, so precedence/associativity/delimiting are compared model-free.

import (
	"encoding/json"
	"errors"
	"strings"

	"github.com/itchyny/gojq"
)

var errRefSyntax = errors.New("syntax error")
var errRefUnsupported = errors.New("unsupported")

type refParser struct {
	toks []string
	pos  int
}

var keywordSet = map[string]bool{"or": true, "and": true, "module": true, "import": true, "include": true, "def": true, "as": true,
	"label": true, "break": true, "null": true, "true": true, "false": true, "if": true, "then": true, "elif": true, "else": true,
	"end": true, "try": true, "catch": true, "reduce": true, "foreach": true}

type opInfo struct {
	level int
	assoc byte // 'l' 'r' 'n'
}

var binOps = map[string]opInfo{
	"//": {3, 'r'},
	"=":  {4, 'n'}, "|=": {4, 'n'}, "+=": {4, 'n'}, "-=": {4, 'n'}, "*=": {4, 'n'}, "/=": {4, 'n'}, "%=": {4, 'n'}, "//=": {4, 'n'},
	"or": {5, 'l'}, "and": {6, 'l'},
	"==": {7, 'n'}, "!=": {7, 'n'}, "<": {7, 'n'}, "<=": {7, 'n'}, ">": {7, 'n'}, ">=": {7, 'n'},
	"+": {8, 'l'}, "-": {8, 'l'}, "*": {9, 'l'}, "/": {9, 'l'}, "%": {9, 'l'},
}

func refParse(toks []string) (s string, err error) {
	defer func() {
		if r := recover(); r != nil {
			if e, ok := r.(error); ok && (e == errRefSyntax || e == errRefUnsupported) {
				s, err = "", e
				return
			}
			panic(r)
		}
	}()
	// module / import / include directives are not part of the operator grammar: skip them
	// (each ends at its first `;`; their constant objects contain none)
	for len(toks) > 0 && (toks[0] == "module" || toks[0] == "import" || toks[0] == "include") {
		i := 0
		for i < len(toks) && toks[i] != ";" {
			i++
		}
		if i == len(toks) {
			panic(errRefUnsupported)
		}
		toks = toks[i+1:]
	}
	p := &refParser{toks: toks}
	if len(toks) == 0 {
		panic(errRefUnsupported)
	}
	s = p.program()
	if p.pos != len(p.toks) {
		panic(errRefSyntax)
	}
	return s, nil
}

func (p *refParser) peek() string {
	if p.pos < len(p.toks) {
		return p.toks[p.pos]
	}
	return ""
}
func (p *refParser) next() string { t := p.peek(); p.pos++; return t }
func (p *refParser) expect(t string) {
	if p.next() != t {
		panic(errRefSyntax)
	}
}
func isIdentTok(t string) bool {
	return t != "" && isIdentStart(t[0]) && !keywordSet[t]
}
func isVarTok(t string) bool { return len(t) >= 2 && t[0] == '$' }
func isFieldTok(t string) bool {
	return len(t) >= 2 && t[0] == '.' && isIdentStart(t[1])
}
func isNumberTok(t string) bool {
	return t != "" && (isDigit(t[0]) || len(t) >= 2 && t[0] == '.' && isDigit(t[1]))
}
func isStringStart(t string) bool { return t != "" && t[0] == '"' }

// program := funcdef* (pipe | <nothing>)   — a program may consist of definitions only
func (p *refParser) program() string {
	if p.peek() == "def" {
		fd := p.funcdef()
		if p.pos == len(p.toks) {
			return "(" + fd + " <empty>)"
		}
		return "(" + fd + " " + p.program() + ")"
	}
	return p.pipe()
}

// pipe := comma [ '|' pipe ]
func (p *refParser) pipe() string {
	l := p.comma()
	if p.peek() == "|" {
		p.next()
		return "(" + l + " | " + p.pipe() + ")"
	}
	return l
}

// comma := item (',' item)*   — an item that scopes to the right (def / label / as) has already
// consumed every following comma and pipe.
func (p *refParser) comma() string {
	l := p.item()
	for p.peek() == "," {
		p.next()
		l = "(" + l + " , " + p.item() + ")"
	}
	return l
}

func (p *refParser) item() string {
	switch p.peek() {
	case "def":
		fd := p.funcdef()
		return "(" + fd + " " + p.pipe() + ")"
	case "label":
		p.next()
		v := p.next()
		if !isVarTok(v) {
			panic(errRefSyntax)
		}
		p.expect("|")
		return "(label " + v + " | " + p.pipe() + ")"
	}
	e := p.expr(0)
	if p.peek() == "as" {
		p.next()
		pats := p.pattern()
		for p.peek() == "?//" {
			p.next()
			pats += " ?// " + p.pattern()
		}
		p.expect("|")
		return "(" + e + " as " + pats + " | " + p.pipe() + ")"
	}
	return e
}

func (p *refParser) funcdef() string {
	p.expect("def")
	name := p.next()
	if !isIdentTok(name) || strings.Contains(name, "::") {
		panic(errRefSyntax)
	}
	s := "def " + name
	if p.peek() == "(" {
		p.next()
		s += "("
		for i := 0; ; i++ {
			a := p.next()
			if !(isIdentTok(a) && !strings.Contains(a, "::")) && !(isVarTok(a) && !strings.Contains(a, "::")) {
				panic(errRefSyntax)
			}
			if i > 0 {
				s += ";"
			}
			s += a
			if p.peek() != ";" {
				break
			}
			p.next()
		}
		p.expect(")")
		s += ")"
	}
	p.expect(":")
	s += ": " + p.pipe()
	p.expect(";")
	return s + ";"
}

// expr: precedence climbing over the binary operators
func (p *refParser) expr(min int) string {
	l := p.unary()
	for {
		op, ok := binOps[p.peek()]
		if !ok || op.level < min {
			return l
		}
		sp := p.next()
		nextMin := op.level + 1
		if op.assoc == 'r' {
			nextMin = op.level
		}
		r := p.expr(nextMin)
		l = "(" + l + " " + sp + " " + r + ")"
		if op.assoc == 'n' {
			if op2, ok := binOps[p.peek()]; ok && op2.level == op.level {
				panic(errRefSyntax)
			}
		}
	}
}

func (p *refParser) unary() string {
	if t := p.peek(); t == "-" || t == "+" {
		p.next()
		return "(" + t + p.unary() + ")"
	}
	return p.postfix()
}

func (p *refParser) postfix() string {
	s := p.primary()
	for {
		t := p.peek()
		switch {
		case isFieldTok(t):
			s += p.next()
		case t == "?":
			p.next()
			s += "?"
		case t == "[":
			s += p.bracket()
		case t == ".":
			// `.` followed by a string or a bracket is a suffix
			if p.pos+1 < len(p.toks) && isStringStart(p.toks[p.pos+1]) {
				p.next()
				s += "." + p.str()
			} else if p.pos+1 < len(p.toks) && p.toks[p.pos+1] == "[" {
				p.next()
				s += p.bracket()
			} else {
				return s
			}
		default:
			return s
		}
	}
}

// bracket := '[' ']' | '[' pipe ']' | '[' pipe ':' ']' | '[' ':' pipe ']' | '[' pipe ':' pipe ']'
func (p *refParser) bracket() string {
	p.expect("[")
	if p.peek() == "]" {
		p.next()
		return "[]"
	}
	s := "["
	if p.peek() == ":" {
		p.next()
		s += ":" + p.pipe()
	} else {
		s += p.pipe()
		if p.peek() == ":" {
			p.next()
			s += ":"
			if p.peek() != "]" {
				s += p.pipe()
			}
		}
	}
	p.expect("]")
	return s + "]"
}

func normString(raw string) string {
	// raw = text between the quotes / interpolation boundaries: decode, re-encode canonically
	var sb strings.Builder
	for i := 0; i < len(raw); i++ {
		if raw[i] < ' ' {
			sb.WriteString(`\u00`)
			sb.WriteByte("0123456789abcdef"[raw[i]>>4])
			sb.WriteByte("0123456789abcdef"[raw[i]&15])
		} else {
			sb.WriteByte(raw[i])
		}
	}
	var v string
	if err := json.Unmarshal([]byte(`"`+sb.String()+`"`), &v); err != nil {
		panic(errRefUnsupported)
	}
	return canonString(v)
}

func canonString(v string) string {
	b, _ := json.Marshal(v)
	return string(b[1 : len(b)-1])
}

// str parses a string literal given as fragments `"a\(` … `)b\(` … `)c"`
func (p *refParser) str() string {
	t := p.next()
	if !isStringStart(t) {
		panic(errRefSyntax)
	}
	var sb strings.Builder
	sb.WriteByte('"')
	frag := t[1:]
	for {
		if strings.HasSuffix(frag, `\(`) { // the tokenizer ends a fragment with `\(` only at an interpolation
			sb.WriteString(normString(frag[:len(frag)-2]))
			sb.WriteString(`\(` + p.pipe() + `)`)
			t = p.next()
			if t == "" || t[0] != ')' || len(t) < 2 {
				panic(errRefSyntax)
			}
			frag = t[1:]
			continue
		}
		if !strings.HasSuffix(frag, `"`) {
			panic(errRefSyntax)
		}
		sb.WriteString(normString(frag[:len(frag)-1]))
		break
	}
	sb.WriteByte('"')
	return sb.String()
}

func (p *refParser) primary() string {
	t := p.peek()
	switch {
	case t == "":
		panic(errRefSyntax)
	case t == ".":
		p.next()
		if isStringStart(p.peek()) {
			return "." + p.str()
		}
		if p.peek() == "[" {
			return "." + p.bracket()
		}
		return "."
	case t == "..":
		p.next()
		return ".."
	case isFieldTok(t):
		return p.next()
	case isNumberTok(t):
		return p.next()
	case isStringStart(t):
		return p.str()
	case t[0] == '@':
		p.next()
		if isStringStart(p.peek()) {
			return t + " " + p.str()
		}
		return t
	case isVarTok(t):
		return p.next()
	case t == "null" || t == "true" || t == "false":
		return p.next()
	case t == "(":
		p.next()
		s := p.pipe()
		p.expect(")")
		return "<" + s + ">"
	case t == "[":
		p.next()
		if p.peek() == "]" {
			p.next()
			return "[]"
		}
		s := p.pipe()
		p.expect("]")
		return "[" + s + "]"
	case t == "{":
		return p.object()
	case t == "if":
		p.next()
		s := "if " + p.pipe()
		p.expect("then")
		s += " then " + p.pipe()
		for p.peek() == "elif" {
			p.next()
			s += " elif " + p.pipe()
			p.expect("then")
			s += " then " + p.pipe()
		}
		if p.peek() == "else" {
			p.next()
			s += " else " + p.pipe()
		}
		p.expect("end")
		return s + " end"
	case t == "try":
		p.next()
		s := "(try " + p.unary()
		if p.peek() == "catch" {
			p.next()
			s += " catch " + p.unary()
		}
		return s + ")"
	case t == "reduce" || t == "foreach":
		p.next()
		s := t + " " + p.expr(0)
		p.expect("as")
		s += " as " + p.pattern()
		p.expect("(")
		s += " (" + p.pipe()
		p.expect(";")
		s += "; " + p.pipe()
		if t == "foreach" && p.peek() == ";" {
			p.next()
			s += "; " + p.pipe()
		}
		p.expect(")")
		return s + ")"
	case t == "break":
		p.next()
		v := p.next()
		if !isVarTok(v) || strings.Contains(v, "::") {
			panic(errRefSyntax)
		}
		return "break " + v
	case isIdentTok(t):
		p.next()
		if p.peek() == "(" {
			p.next()
			s := t + "(" + p.pipe()
			for p.peek() == ";" {
				p.next()
				s += "; " + p.pipe()
			}
			p.expect(")")
			return s + ")"
		}
		return t
	}
	panic(errRefSyntax)
}

// objval := expr ('|' objval)?   (no comma, no `as`, no `def`)
func (p *refParser) objval() string {
	l := p.expr(0)
	if p.peek() == "|" {
		p.next()
		return "(" + l + " | " + p.objval() + ")"
	}
	return l
}

func (p *refParser) object() string {
	p.expect("{")
	s := "{"
	for i := 0; p.peek() != "}"; i++ {
		if i > 0 {
			s += ", "
		}
		t := p.peek()
		switch {
		case isStringStart(t):
			s += p.str()
		case t == "(":
			p.next()
			s += "<" + p.pipe() + ">"
			p.expect(")")
			if p.peek() != ":" {
				panic(errRefSyntax)
			}
		case isVarTok(t) && !strings.Contains(t, "::"), isIdentTok(t) && !strings.Contains(t, "::"), keywordSet[t]:
			s += p.next()
		default:
			panic(errRefSyntax)
		}
		if p.peek() == ":" {
			p.next()
			s += ": " + p.objval()
		}
		if p.peek() == "," {
			p.next()
		} else if p.peek() != "}" {
			panic(errRefSyntax)
		}
	}
	p.expect("}")
	return s + "}"
}

func (p *refParser) pattern() string {
	t := p.peek()
	switch {
	case isVarTok(t) && !strings.Contains(t, "::"):
		return p.next()
	case t == "[":
		p.next()
		s := "[" + p.pattern()
		for p.peek() == "," {
			p.next()
			s += ", " + p.pattern()
		}
		p.expect("]")
		return s + "]"
	case t == "{":
		p.next()
		s := "{"
		for i := 0; ; i++ {
			if i > 0 {
				s += ", "
			}
			k := p.peek()
			switch {
			case isVarTok(k) && !strings.Contains(k, "::"):
				s += p.next()
				if p.peek() == ":" {
					p.next()
					s += ": " + p.pattern()
				}
			case isStringStart(k):
				s += p.str()
				p.expect(":")
				s += ": " + p.pattern()
			case k == "(":
				p.next()
				s += "<" + p.pipe() + ">"
				p.expect(")")
				p.expect(":")
				s += ": " + p.pattern()
			case isIdentTok(k) && !strings.Contains(k, "::"), keywordSet[k]:
				s += p.next()
				p.expect(":")
				s += ": " + p.pattern()
			default:
				panic(errRefSyntax)
			}
			if p.peek() != "," {
				break
			}
			p.next()
		}
		p.expect("}")
		return s + "}"
	}
	panic(errRefSyntax)
}

// ---- the same canonical text from the AST of the real parser -----------------------------------

func renderQuery(q *gojq.Query) string {
	if q == nil {
		return "<nil>"
	}
	s := renderBody(q)
	for i := len(q.FuncDefs) - 1; i >= 0; i-- {
		fd := q.FuncDefs[i]
		d := "def " + fd.Name
		if len(fd.Args) > 0 {
			d += "(" + strings.Join(fd.Args, ";") + ")"
		}
		s = "(" + d + ": " + renderQuery(fd.Body) + "; " + s + ")"
	}
	return s
}

func renderBody(q *gojq.Query) string {
	switch {
	case q.Term != nil:
		if q.Term.Type == gojq.TermTypeLabel && len(q.Term.SuffixList) == 0 {
			return "(label " + q.Term.Label.Ident + " | " + renderQuery(q.Term.Label.Body) + ")"
		}
		return renderTerm(q.Term)
	case q.Right != nil:
		if len(q.Patterns) > 0 {
			ps := make([]string, len(q.Patterns))
			for i, p := range q.Patterns {
				ps[i] = renderPattern(p)
			}
			return "(" + renderQuery(q.Left) + " as " + strings.Join(ps, " ?// ") + " | " + renderQuery(q.Right) + ")"
		}
		return "(" + renderQuery(q.Left) + " " + q.Op.String() + " " + renderQuery(q.Right) + ")"
	}
	return "<empty>"
}

func renderPattern(p *gojq.Pattern) string {
	switch {
	case p.Name != "":
		return p.Name
	case len(p.Array) > 0:
		xs := make([]string, len(p.Array))
		for i, e := range p.Array {
			xs[i] = renderPattern(e)
		}
		return "[" + strings.Join(xs, ", ") + "]"
	default:
		xs := make([]string, len(p.Object))
		for i, e := range p.Object {
			k := e.Key
			if e.KeyString != nil {
				k = renderString(e.KeyString)
			} else if e.KeyQuery != nil {
				k = "<" + renderQuery(e.KeyQuery) + ">"
			}
			if e.Val != nil {
				k += ": " + renderPattern(e.Val)
			}
			xs[i] = k
		}
		return "{" + strings.Join(xs, ", ") + "}"
	}
}

func renderString(s *gojq.String) string {
	if s.Queries == nil {
		return `"` + canonString(s.Str) + `"`
	}
	var sb strings.Builder
	sb.WriteByte('"')
	for _, q := range s.Queries {
		if q.Term.Str != nil {
			sb.WriteString(canonString(q.Term.Str.Str))
		} else {
			sb.WriteString(`\(` + renderQuery(q.Term.Query) + `)`)
		}
	}
	sb.WriteByte('"')
	return sb.String()
}

func renderIndex(ix *gojq.Index, dot bool) string {
	switch {
	case ix.Name != "":
		return "." + ix.Name
	case ix.Str != nil:
		return "." + renderString(ix.Str)
	}
	s := "["
	if dot {
		s = ".["
	}
	if ix.IsSlice {
		if ix.Start != nil {
			s += renderQuery(ix.Start)
		}
		s += ":"
		if ix.End != nil {
			s += renderQuery(ix.End)
		}
	} else {
		s += renderQuery(ix.Start)
	}
	return s + "]"
}

func renderTerm(t *gojq.Term) string {
	var s string
	switch t.Type {
	case gojq.TermTypeIdentity:
		s = "."
	case gojq.TermTypeRecurse:
		s = ".."
	case gojq.TermTypeNull:
		s = "null"
	case gojq.TermTypeTrue:
		s = "true"
	case gojq.TermTypeFalse:
		s = "false"
	case gojq.TermTypeIndex:
		s = renderIndex(t.Index, true)
	case gojq.TermTypeFunc:
		s = t.Func.Name
		if len(t.Func.Args) > 0 {
			xs := make([]string, len(t.Func.Args))
			for i, a := range t.Func.Args {
				xs[i] = renderQuery(a)
			}
			s += "(" + strings.Join(xs, "; ") + ")"
		}
	case gojq.TermTypeObject:
		xs := make([]string, len(t.Object.KeyVals))
		for i, kv := range t.Object.KeyVals {
			k := kv.Key
			if kv.KeyString != nil {
				k = renderString(kv.KeyString)
			} else if kv.KeyQuery != nil {
				k = "<" + renderQuery(kv.KeyQuery) + ">"
			}
			if kv.Val != nil {
				k += ": " + renderQuery(kv.Val)
			}
			xs[i] = k
		}
		s = "{" + strings.Join(xs, ", ") + "}"
	case gojq.TermTypeArray:
		s = "[]"
		if t.Array.Query != nil {
			s = "[" + renderQuery(t.Array.Query) + "]"
		}
	case gojq.TermTypeNumber:
		s = t.Number
	case gojq.TermTypeUnary:
		s = "(" + t.Unary.Op.String() + renderTerm(t.Unary.Term) + ")"
	case gojq.TermTypeFormat:
		s = t.Format
		if t.Str != nil {
			s += " " + renderString(t.Str)
		}
	case gojq.TermTypeString:
		s = renderString(t.Str)
	case gojq.TermTypeIf:
		s = "if " + renderQuery(t.If.Cond) + " then " + renderQuery(t.If.Then)
		for _, e := range t.If.Elif {
			s += " elif " + renderQuery(e.Cond) + " then " + renderQuery(e.Then)
		}
		if t.If.Else != nil {
			s += " else " + renderQuery(t.If.Else)
		}
		s += " end"
	case gojq.TermTypeTry:
		s = "(try " + renderQuery(t.Try.Body)
		if t.Try.Catch != nil {
			s += " catch " + renderQuery(t.Try.Catch)
		}
		s += ")"
	case gojq.TermTypeReduce:
		s = "reduce " + renderQuery(t.Reduce.Query) + " as " + renderPattern(t.Reduce.Pattern) + " (" + renderQuery(t.Reduce.Start) + "; " + renderQuery(t.Reduce.Update) + ")"
	case gojq.TermTypeForeach:
		s = "foreach " + renderQuery(t.Foreach.Query) + " as " + renderPattern(t.Foreach.Pattern) + " (" + renderQuery(t.Foreach.Start) + "; " + renderQuery(t.Foreach.Update)
		if t.Foreach.Extract != nil {
			s += "; " + renderQuery(t.Foreach.Extract)
		}
		s += ")"
	case gojq.TermTypeLabel:
		s = "(label " + t.Label.Ident + " | " + renderQuery(t.Label.Body) + ")"
	case gojq.TermTypeBreak:
		s = "break " + t.Break
	case gojq.TermTypeQuery:
		s = "<" + renderQuery(t.Query) + ">"
	}
	for _, sf := range t.SuffixList {
		switch {
		case sf.Index != nil:
			s += renderIndex(sf.Index, false)
		case sf.Iter:
			s += "[]"
		case sf.Optional:
			s += "?"
		}
	}
	return s
}

package main

import (
	"encoding/hex"
	"reflect"
	"sort"
	"strconv"
	"strings"

	"github.com/itchyny/gojq"
)

// dumpAST renders a parsed query canonically by reflection (same format as Gojq.Parse.dump):
//
//	pointer to struct -> (TypeName field=value …)   fields sorted by name, zero values omitted
//	slice             -> [v v …]                     (a nil slice is a zero value: omitted)
//	string            -> s:<hex>      int kinds -> decimal      true -> T
func dumpAST(q *gojq.Query) string {
	var sb strings.Builder
	dumpValue(&sb, reflect.ValueOf(q))
	return sb.String()
}

func dumpValue(sb *strings.Builder, v reflect.Value) {
	switch v.Kind() {
	case reflect.Ptr:
		if v.IsNil() {
			sb.WriteString("_")
			return
		}
		e := v.Elem()
		sb.WriteString("(" + e.Type().Name())
		t := e.Type()
		names := make([]string, 0, t.NumField())
		for i := 0; i < t.NumField(); i++ {
			names = append(names, t.Field(i).Name)
		}
		sort.Strings(names)
		for _, n := range names {
			f := e.FieldByName(n)
			if f.IsZero() {
				continue
			}
			sb.WriteString(" " + n + "=")
			dumpValue(sb, f)
		}
		sb.WriteString(")")
	case reflect.Slice:
		if v.IsNil() {
			sb.WriteString("_")
			return
		}
		sb.WriteString("[")
		for i := 0; i < v.Len(); i++ {
			if i > 0 {
				sb.WriteString(" ")
			}
			dumpValue(sb, v.Index(i))
		}
		sb.WriteString("]")
	case reflect.String:
		sb.WriteString("s:" + hex.EncodeToString([]byte(v.String())))
	case reflect.Bool:
		if v.Bool() {
			sb.WriteString("T")
		} else {
			sb.WriteString("F")
		}
	case reflect.Int, reflect.Int8, reflect.Int16, reflect.Int32, reflect.Int64:
		sb.WriteString(strconv.FormatInt(v.Int(), 10))
	default:
		sb.WriteString("<" + v.Kind().String() + ">")
	}
}

// errAnswer renders a parse error for the `lex` stream.
func errAnswer(err error) string {
	pe, ok := err.(*gojq.ParseError)
	if !ok {
		return "err-other " + err.Error()
	}
	msg := pe.Error()
	kind := "unexpected"
	switch {
	case msg == "unexpected EOF":
		kind = "eof"
	case strings.HasPrefix(msg, "invalid token"):
		kind = "invalid"
	case strings.HasPrefix(msg, "invalid escape sequence"):
		kind = "escape"
	case msg == "unterminated string literal":
		kind = "unterminated"
	}
	return "err " + strconv.Itoa(pe.Offset) + " tok=" + hex.EncodeToString([]byte(pe.Token)) + " " + kind
}

// C09 — parsing follows jq's grammar and String() round-trips.
//
// correspondence streams (real gojq.Parse / (*Query).String() vs the Lean model):
//
//	lex    source -> ok | err <offset> tok=<hex> <kind>   (the *ParseError: lexer offset/token at the first yylex.Error)
//	parse  source -> ok <canonical AST dump> | err        (reflection dump of *gojq.Query vs actions ∘ LALR ∘ lexer)
//	print  source -> ok <hex of String()> | err           (writeTo methods vs Model/Printer.lean)
//
// model-free oracles on the real code:
//
//	roundtrip   reflect.DeepEqual(Parse(q.String()), q) for every accepted query of the corpus, mutants, generated programs
//	respace     a deeply equal AST (or the same rejection) after replacing every token gap by other white space / comments
//	precedence  all ordered pairs and triples of the 24 operator spellings around atoms, generated programs and the corpus
//	            against RefParser (ref.go), an independent precedence-climbing parser written from the property text
//	adjacency   every term form × suffix form × suffix form (and sign / comma contexts): print and re-parse
package main

import (
	"fmt"
	"os"
	"path/filepath"
	"reflect"
	"sort"
	"strings"

	"github.com/itchyny/go-yaml"
	"github.com/itchyny/gojq"

	"verifharness/common"
)

func safeParse(src string) (q *gojq.Query, err error, panicked any) {
	defer func() {
		if r := recover(); r != nil {
			panicked = r
		}
	}()
	q, err = gojq.Parse(src)
	return
}

func safeString(q *gojq.Query) (s string, panicked any) {
	defer func() {
		if r := recover(); r != nil {
			panicked = r
		}
	}()
	return q.String(), nil
}

// ---- corpus ------------------------------------------------------------------------------------

func collectStrings(v any, out *[]string) {
	switch v := v.(type) {
	case string:
		*out = append(*out, v)
	case []any:
		for _, x := range v {
			collectStrings(x, out)
		}
	case map[string]any:
		keys := make([]string, 0, len(v))
		for k := range v {
			keys = append(keys, k)
		}
		sort.Strings(keys)
		for _, k := range keys {
			if k == "name" {
				continue
			}
			collectStrings(v[k], out)
		}
	}
}

func loadCorpus(ctx *common.Ctx) (queries []string, builtinDefs []string) {
	repo := common.Getenv("VERIF_REPO", "/repo")
	b, err := os.ReadFile(filepath.Join(repo, "cli", "test.yaml"))
	if err != nil {
		ctx.Errorf("corpus: %v", err)
		return
	}
	var doc any
	if err := yaml.Unmarshal(b, &doc); err != nil {
		ctx.Errorf("corpus: cli/test.yaml: %v", err)
		return
	}
	var all []string
	collectStrings(doc, &all)
	seen := map[string]bool{}
	for _, s := range all {
		if len(s) > 3000 || seen[s] {
			continue
		}
		seen[s] = true
		queries = append(queries, s)
	}
	bj, err := os.ReadFile(filepath.Join(repo, "builtin.jq"))
	if err != nil {
		ctx.Errorf("corpus: %v", err)
		return
	}
	builtinDefs = append(builtinDefs, string(bj))
	// one definition per chunk: split at lines starting with `def `
	var cur strings.Builder
	for _, line := range strings.SplitAfter(string(bj), "\n") {
		if strings.HasPrefix(line, "def ") && cur.Len() > 0 {
			builtinDefs = append(builtinDefs, cur.String())
			cur.Reset()
		}
		cur.WriteString(line)
	}
	if cur.Len() > 0 {
		builtinDefs = append(builtinDefs, cur.String())
	}
	return
}

// ---- token-level mutants -----------------------------------------------------------------------

var mutantPool = []string{".", "..", ".a", "1", "-", "+", "|", ",", "//", "=", "|=", "==", "<", "and", "or", "as", "$x", "(", ")", "[", "]", "{", "}",
	":", ";", "?", "?//", "def", "if", "then", "elif", "else", "end", "try", "catch", "reduce", "foreach", "label", "break", "f", `"s"`, `"a\(`, `)b"`, "@base64",
	"::", "import", "include", "module", "null", "$__loc__", "1.", ".5", "not", "%", "*", "/", "!=", "//=", "#c\n", "\x00", "é", "!", "&", "'", "\\", "$", "@", "^", "~", "`"}

func mutate(r *common.Rand, toks []string) []string {
	out := append([]string(nil), toks...)
	n := r.Range(1, 2)
	for ; n > 0; n-- {
		if len(out) == 0 {
			out = append(out, common.Pick(r, mutantPool))
			continue
		}
		i := r.Intn(len(out))
		switch r.Intn(5) {
		case 0: // delete
			out = append(out[:i], out[i+1:]...)
		case 1: // duplicate
			out = append(out[:i+1], out[i:]...)
		case 2: // swap with neighbour
			if i+1 < len(out) {
				out[i], out[i+1] = out[i+1], out[i]
			}
		case 3: // replace
			out[i] = common.Pick(r, mutantPool)
		default: // insert
			out = append(out[:i], append([]string{common.Pick(r, mutantPool)}, out[i:]...)...)
		}
	}
	return out
}

// ---- shrinking (token-level delta debugging + atom canonicalisation) ----------------------------

var canonAtoms = []string{".", "0", "a", "$a", `""`}

func shrink(toks []string, fails func([]string) bool) []string {
	cur := append([]string(nil), toks...)
	budget := 150000
	try := func(c []string) bool {
		if budget <= 0 {
			return false
		}
		budget--
		return fails(c)
	}
	for changed := true; changed; {
		changed = false
		// 1. the shortest failing infix (a sub-term that fails on its own)
		if len(cur) <= 300 {
		infix:
			for n := 1; n < len(cur); n++ {
				for i := 0; i+n <= len(cur); i++ {
					if try(cur[i : i+n]) {
						cur, changed = append([]string(nil), cur[i:i+n]...), true
						break infix
					}
				}
			}
		}
		// 2. delete chunks
		for size := len(cur) / 2; size >= 1; size = nextSize(size) {
			for i := 0; i+size <= len(cur); {
				c := append(append([]string(nil), cur[:i]...), cur[i+size:]...)
				if try(c) {
					cur, changed = c, true
				} else {
					i++
				}
			}
		}
		// 3. replace a range of tokens by the simplest atom
		for size := len(cur) - 1; size >= 2; size-- {
			for i := 0; i+size <= len(cur); i++ {
				c := append(append(append([]string(nil), cur[:i]...), "."), cur[i+size:]...)
				if try(c) {
					cur, changed = c, true
				}
			}
		}
		// 4. canonical atoms
		for i := range cur {
			for _, a := range canonAtoms {
				if cur[i] == a {
					break
				}
				c := append([]string(nil), cur...)
				c[i] = a
				if try(c) {
					cur, changed = c, true
					break
				}
			}
		}
	}
	return cur
}

// keyOf: a stable, space-free identity of a (shrunk) token list for known-findings.txt
func keyOf(toks []string) string { return keyText(strings.Join(toks, "_")) }

func keyText(s string) string {
	var sb strings.Builder
	for i := 0; i < len(s); i++ {
		if c := s[i]; c <= ' ' || c >= 0x7f || c == '%' {
			fmt.Fprintf(&sb, "%%%02X", c)
		} else {
			sb.WriteByte(c)
		}
	}
	return sb.String()
}

// nextSize: halve while large, then every size down to 1
func nextSize(size int) int {
	if size > 8 {
		return max(size/2, 8)
	}
	return size - 1
}

// ---- oracles -----------------------------------------------------------------------------------

type checker struct {
	ctx *common.Ctx
}

// roundTripFails: Parse accepts src but q.String() is rejected or parses to a different AST.
func roundTripFails(src string) (bool, string) {
	q, err, pn := safeParse(src)
	if pn != nil || err != nil || q == nil {
		return false, ""
	}
	s, pn := safeString(q)
	if pn != nil {
		return true, fmt.Sprintf("String() panicked: %v", pn)
	}
	q2, err, pn := safeParse(s)
	if pn != nil {
		return true, fmt.Sprintf("Parse(String()) panicked: %v", pn)
	}
	if err != nil {
		return true, fmt.Sprintf("String() = %q is rejected: %v", s, err)
	}
	if !reflect.DeepEqual(q, q2) {
		return true, fmt.Sprintf("String() = %q parses to a different AST (%s  vs  %s)", s, clipS(dumpAST(q2)), clipS(dumpAST(q)))
	}
	return false, ""
}

func clipS(s string) string {
	if len(s) > 300 {
		return s[:300] + "…"
	}
	return s
}

func (c *checker) roundTrip(o *common.Oracle, src string, toks []string, origin string) {
	o.Cases++
	bad, what := roundTripFails(src)
	if !bad {
		return
	}
	key, min := "roundtrip:src:"+keyText(src), src
	if toks != nil {
		if f, _ := roundTripFails(strings.Join(toks, " ")); f {
			m := shrink(toks, func(t []string) bool { f, _ := roundTripFails(strings.Join(t, " ")); return f })
			min = strings.Join(m, " ")
			key = "roundtrip:" + keyOf(m)
			_, what = roundTripFails(min)
		}
	}
	c.ctx.Violate(key, "Parse(q.String()) is not deeply equal to q for `"+min+"`: "+what,
		map[string]any{"query": min, "found_in": clipS(src), "origin": origin, "observed": what, "expected": "reflect.DeepEqual(Parse(q.String()), q)",
			"cmd": "go run (harness) : q,_ := gojq.Parse(" + fmt.Sprintf("%q", min) + "); q2,_ := gojq.Parse(q.String()); reflect.DeepEqual(q,q2)"})
}

// spacing schemes: gap text between tokens i-1 and i (i = 0: before the first token; i = n: after the last)
type scheme struct {
	name string
	gap  func(r *common.Rand, a, b string) string
}

func commentText(r *common.Rand) string {
	n := r.Intn(6)
	b := make([]byte, 0, n+1)
	for i := 0; i < n; i++ {
		c := byte(r.Range(1, 255))
		if c == '\n' || c == '\r' {
			c = ' '
		}
		b = append(b, c)
	}
	if len(b) > 0 && b[len(b)-1] == '\\' {
		b = append(b, '.')
	}
	return string(b)
}

var schemes = []scheme{
	{"newline", func(*common.Rand, string, string) string { return "\n" }},
	{"tab", func(*common.Rand, string, string) string { return "\t" }},
	{"crlf", func(*common.Rand, string, string) string { return "\r\n" }},
	{"cr", func(*common.Rand, string, string) string { return "\r" }},
	{"comment", func(*common.Rand, string, string) string { return " # c\n" }},
	{"comment-cr", func(*common.Rand, string, string) string { return "#x\r" }},
	{"comment-continued", func(*common.Rand, string, string) string { return "# a \\\n still comment \\\\\n " }},
	{"comment-continued-crlf", func(*common.Rand, string, string) string { return "# a \\\r\n still comment\r\n" }},
	{"glue", func(_ *common.Rand, a, b string) string {
		if glueSafe(a, b) || a == "" || b == "" {
			return ""
		}
		return " "
	}},
	{"random", func(r *common.Rand, a, b string) string {
		var sb strings.Builder
		for i := r.Range(1, 3); i > 0; i-- {
			switch r.Intn(6) {
			case 0:
				sb.WriteString(" ")
			case 1:
				sb.WriteString("\n")
			case 2:
				sb.WriteString("\t")
			case 3:
				sb.WriteString("\r\n")
			case 4:
				sb.WriteString("#" + commentText(r) + "\n")
			default:
				sb.WriteString("#" + commentText(r) + "\\\n" + commentText(r) + "\r")
			}
		}
		return sb.String()
	}},
}

func respaced(r *common.Rand, toks []string, sc scheme) string {
	var sb strings.Builder
	for i := 0; i <= len(toks); i++ {
		a, b := "", ""
		if i > 0 {
			a = toks[i-1]
		}
		if i < len(toks) {
			b = toks[i]
		}
		if i > 0 && i < len(toks) || sc.name != "glue" && r.Chance(1, 2) {
			sb.WriteString(sc.gap(r, a, b))
		}
		sb.WriteString(b)
	}
	return sb.String()
}

func sameParse(a, b string) (bool, string) {
	qa, ea, pa := safeParse(a)
	qb, eb, pb := safeParse(b)
	if pa != nil || pb != nil {
		return false, fmt.Sprintf("panic: %v / %v", pa, pb)
	}
	if (ea != nil) != (eb != nil) {
		return false, fmt.Sprintf("one is rejected, the other accepted (%v / %v)", ea, eb)
	}
	if ea != nil {
		return true, ""
	}
	if !reflect.DeepEqual(qa, qb) {
		return false, "ASTs differ: " + clipS(dumpAST(qa)) + "  vs  " + clipS(dumpAST(qb))
	}
	return true, ""
}

// consistent: the token list joined by single spaces tokenizes back to itself, i.e. every
// boundary of the list is a real token boundary (a mutant or a shrinking step can put a
// boundary inside the text of a string literal, where white space is content, not a gap)
func consistent(toks []string) bool {
	ps, ok := tokenize(strings.Join(toks, " "))
	if !ok {
		return false
	}
	back := tokensOf(ps)
	if len(back) != len(toks) {
		return false
	}
	for i := range back {
		if back[i] != toks[i] {
			return false
		}
	}
	return true
}

func (c *checker) respace(o *common.Oracle, toks []string, orig string, origin string) {
	if !consistent(toks) {
		ps, ok := tokenize(strings.Join(toks, " "))
		if !ok {
			o.Distribution["skipped:not-tokenizable"]++
			return
		}
		toks = tokensOf(ps)
		if !consistent(toks) {
			o.Distribution["skipped:not-tokenizable"]++
			return
		}
	}
	base := strings.Join(toks, " ")
	if orig != "" {
		o.Cases++
		if ok, what := sameParse(base, orig); !ok {
			c.ctx.Violate("respace:orig:"+keyText(orig), "the query and its single-space re-spacing parse differently: "+what,
				map[string]any{"query": orig, "respaced": base, "observed": what, "origin": origin})
		}
	}
	for _, sc := range schemes {
		o.Cases++
		o.Distribution[sc.name]++
		seed := c.ctx.R.U64()
		variant := respaced(common.NewRand(seed), toks, sc)
		ok, what := sameParse(base, variant)
		if ok {
			continue
		}
		m := shrink(toks, func(t []string) bool {
			if !consistent(t) {
				return false
			}
			ok, _ := sameParse(strings.Join(t, " "), respaced(common.NewRand(seed), t, sc))
			return !ok
		})
		mv := respaced(common.NewRand(seed), m, sc)
		_, what = sameParse(strings.Join(m, " "), mv)
		key := "respace:" + sc.name + ":" + keyOf(m)
		c.ctx.Violate(key, fmt.Sprintf("re-spacing (%s) changes the parse of `%s`: %s", sc.name, strings.Join(m, " "), what),
			map[string]any{"tokens": m, "respaced": mv, "respaced_hex": common.Hex(mv), "scheme": sc.name, "observed": what, "origin": origin, "found_in": clipS(base),
				"expected": "same AST (or same rejection) as the tokens joined by single spaces"})
	}
}

// precedence: the real parser against RefParser
func (c *checker) precedence(o *common.Oracle, toks []string, family string, strict bool) {
	src := strings.Join(toks, " ")
	o.Cases++
	q, err, pn := safeParse(src)
	if pn != nil {
		return
	}
	ref, rerr := refParse(toks)
	if rerr == errRefUnsupported {
		o.Distribution[family+":ref-unsupported"]++
		return
	}
	check := func(t []string) (bool, string) {
		s := strings.Join(t, " ")
		q, err, pn := safeParse(s)
		if pn != nil {
			return false, ""
		}
		ref, rerr := refParse(t)
		if rerr == errRefUnsupported {
			return false, ""
		}
		if (err != nil) != (rerr != nil) {
			if !strict {
				return false, ""
			}
			return true, fmt.Sprintf("real parser: %v; reference (documented grammar): %v", errOrOK(err), errOrOK(rerr))
		}
		if err != nil {
			return false, ""
		}
		if got := renderQuery(q); got != ref {
			return true, "parsed as " + got + " ; documented precedence gives " + ref
		}
		return false, ""
	}
	_ = q
	_ = ref
	if (err != nil) != (rerr != nil) && !strict {
		o.Distribution[family+":acceptance-differs(not judged)"]++
		return
	}
	if err != nil && rerr != nil {
		o.Distribution[family+":both-reject"]++
	} else {
		o.Distribution[family+":both-accept"]++
	}
	bad, what := check(toks)
	if !bad {
		return
	}
	m := shrink(toks, func(t []string) bool { b, _ := check(t); return b })
	_, what = check(m)
	ms := strings.Join(m, " ")
	c.ctx.Violate("precedence:"+keyOf(m), "`"+ms+"` "+what, map[string]any{"query": ms, "found_in": clipS(src), "observed": what, "family": family,
		"cmd": "gojq -n '" + ms + "'"})
}

func errOrOK(err error) string {
	if err == nil {
		return "accepted"
	}
	return "rejected (" + err.Error() + ")"
}

func hashSeed(x uint64) uint64 {
	x ^= x >> 33
	x *= 0xFF51AFD7ED558CCD
	x ^= x >> 33
	x *= 0xC4CEB9FE1A85EC53
	x ^= x >> 33
	return x | 1<<40
}

// ---- main --------------------------------------------------------------------------------------

func main() {
	ctx := common.ParseFlags("C09")
	// common.NewRand(seed) makes the stream of seed k a one-draw shift of the stream of seed 1
	// (state = seed*γ + c, step γ): decorrelate the seeds by hashing first
	ctx.R = common.NewRand(hashSeed(ctx.Seed))
	r := ctx.R
	c := &checker{ctx}
	corpus, builtins := loadCorpus(ctx)

	type tsrc struct {
		src    string
		toks   []string // nil when the independent tokenizer rejects the text
		origin string
	}
	var progs []tsrc
	addSrc := func(src, origin string) {
		ps, ok := tokenize(src)
		var toks []string
		if ok {
			toks = tokensOf(ps)
		}
		progs = append(progs, tsrc{src, toks, origin})
	}
	for _, q := range corpus {
		addSrc(q, "cli/test.yaml")
	}
	for _, q := range builtins {
		addSrc(q, "builtin.jq")
	}
	nCorpus := len(progs)

	// mutants of the corpus
	for i := 0; i < nCorpus; i++ {
		p := progs[i]
		if p.toks == nil || len(p.toks) > 400 {
			continue
		}
		for k := ctx.N(2, 12); k > 0; k-- {
			m := mutate(r, p.toks)
			progs = append(progs, tsrc{strings.Join(m, " "), m, "mutant"})
		}
	}
	nMut := len(progs) - nCorpus

	// generated surface-grammar programs
	g := &gen{r: r.Fork(9), forms: map[string]int{}}
	nGen := ctx.N(6000, 120000)
	for i := 0; i < nGen; i++ {
		t := g.program(r.Range(1, 4))
		progs = append(progs, tsrc{strings.Join(t, " "), t, "generated"})
	}

	// ---------- oracle (a): round trip ---------------------------------------------------------
	rt := ctx.NewOracle("roundtrip", "reflect.DeepEqual(Parse(q.String()), q) for every source Parse accepts: corpus (cli/test.yaml strings, builtin.jq whole and per definition), token-level mutants, generated surface-grammar programs; distinct = distinct accepted sources")
	accepted := map[string]bool{}
	var acceptedList []tsrc
	for _, p := range progs {
		q, err, pn := safeParse(p.src)
		if pn != nil {
			rt.Distribution["parse-panic(C08)"]++
			continue
		}
		if err != nil || q == nil {
			rt.Distribution[p.origin+":rejected"]++
			continue
		}
		rt.Distribution[p.origin+":accepted"]++
		if !accepted[p.src] {
			accepted[p.src] = true
			acceptedList = append(acceptedList, p)
		}
		c.roundTrip(rt, p.src, p.toks, p.origin)
	}
	rt.Distinct = len(accepted)
	for k, v := range g.forms {
		rt.Distribution["gen:"+k] = v
	}
	rt.Samples = []string{`"a\("b\(1)c")d" | . as {if: $x, "k": [$y]} ?// $z | -.a."b"[1:]?`, `module {a: 1}; import "m" as $d {}; def f($a; g): g; f(1; .)`}

	// ---------- oracle (d): adjacency ----------------------------------------------------------
	adj := ctx.NewOracle("adjacency", "every term form × suffix form × suffix form, alone, after a sign, and around `,` / `|` / `as`: print and re-parse (the printer's spacing rule per adjacent token pair); distinct = distinct accepted sources")
	terms := [][]string{{"."}, {".."}, {".a"}, {".a1"}, {".and"}, {".", `"s"`}, {".", `"a\(`, "1", `)b"`}, {".", "[", "0", "]"}, {".", "[", "]"}, {".", "[", "1", ":", "2", "]"},
		{"1"}, {"1."}, {".5"}, {"1e3"}, {"10"}, {"1.5"}, {"null"}, {"true"}, {"f"}, {"f1"}, {"f", "(", "1", ")"}, {"m::f"}, {"$x"}, {"$__loc__"}, {"$m::v"},
		{`"s"`}, {`"a\(`, "1", `)b"`}, {`""`}, {"@base64"}, {"@base64", `"s"`}, {"@json", `"a\(`, ".", `)"`}, {"[", "]"}, {"[", "1", "]"}, {"{", "}"}, {"{", "a", ":", "1", "}"}, {"(", "1", ")"}, {"(", ".", ")"},
		{"-", "1"}, {"-", ".a"}, {"+", "."}, {"-", "-", "1"}, {"if", "1", "then", "2", "end"}, {"try", "1"}, {"try", ".", "catch", "2"}, {"reduce", "1", "as", "$x", "(", "2", ";", "3", ")"},
		{"foreach", ".", "as", "[", "$x", "]", "(", "2", ";", "3", ";", "4", ")"}, {"break", "$x"}, {"..", "?"}, {"label", "$x", "|", "."}}
	suffixes := [][]string{{}, {".a"}, {".a1"}, {".and"}, {".", `"s"`}, {".", `"a\(`, "1", `)"`}, {".", "[", "0", "]"}, {"[", "0", "]"}, {"[", "]"}, {".", "[", "]"}, {"?"}, {"[", "1", ":", "2", "]"}, {"[", ":", "2", "]"},
		{"[", "1", ":", "]"}, {".", "[", "1", ":", "]"}, {"[", `"a"`, "]"}, {"[", ".a", "]"}, {"[", "-", "1", "]"}}
	contexts := []func([]string) []string{
		func(t []string) []string { return t },
		func(t []string) []string { return cat(one("-"), t) },
		func(t []string) []string { return cat(t, one(","), t) },
		func(t []string) []string { return cat(t, one("as", "$v", "|"), t) },
		func(t []string) []string { return cat(one("["), t, one("]", "|"), t) },
		func(t []string) []string { return cat(one("1", "-"), t, one("*"), t) },
		func(t []string) []string { return cat(one("{", "a", ":"), t, one("}")) },
		func(t []string) []string { return cat(one(`"x\(`), t, one(`)y"`)) },
	}
	adjSeen := map[string]bool{}
	for _, t := range terms {
		for _, s1 := range suffixes {
			for _, s2 := range suffixes {
				if len(s1) == 0 && len(s2) > 0 {
					continue
				}
				for ci, cx := range contexts {
					if ci >= 2 && !ctx.Thorough && (len(s2) > 0) && r.Intn(4) != 0 {
						continue
					}
					toks := cx(cat(t, s1, s2))
					src := strings.Join(toks, " ")
					if _, err, _ := safeParse(src); err == nil && !adjSeen[src] {
						adjSeen[src] = true
						adj.Distribution[fmt.Sprintf("context%d", ci)]++
					}
					c.roundTrip(adj, src, toks, "adjacency")
				}
			}
		}
	}
	adj.Distinct = len(adjSeen)
	adj.Samples = []string{". .a", "1 .a", "1. .a", ".. .a", `. ."s"`, "- 1 .a [0]"}

	// ---------- oracle (b): re-spacing ---------------------------------------------------------
	rs := ctx.NewOracle("respace", "tokens (independent tokenizer for corpus text, exact boundaries for generated programs) re-joined by newline / tab / CRLF / CR / comments (LF- and CR-terminated, backslash-continued, arbitrary bytes) / nothing where a bracket, comma or semicolon delimits: the AST must be deeply equal to the single-space joining, rejected sources stay rejected; distinct = distinct token lists")
	rsSeen := map[string]bool{}
	nRs := 0
	for i, p := range progs {
		if p.toks == nil || len(p.toks) == 0 || len(p.toks) > 600 {
			continue
		}
		if p.origin == "generated" && !ctx.Thorough && i%3 != 0 || p.origin == "mutant" && i%2 != 0 {
			continue
		}
		orig := ""
		if p.origin != "generated" && p.origin != "mutant" {
			orig = p.src
		}
		c.respace(rs, p.toks, orig, p.origin)
		rsSeen[strings.Join(p.toks, " ")] = true
		nRs++
	}
	// a NUL byte inside a comment (kept apart: it makes the lexer report the end of the input)
	for _, probe := range []struct{ a, b string }{{"1 | 2", "1 #\x00\n| 2"}, {"[ 1 , 2 ]", "[ 1 # \x00 c\n, 2 ]"}} {
		rs.Cases++
		if ok, what := sameParse(probe.a, probe.b); !ok {
			ctx.Violate("respace:nul-in-comment", fmt.Sprintf("a comment containing a NUL byte changes the parse of `%s`: %s", probe.a, what),
				map[string]any{"query": probe.a, "respaced": probe.b, "respaced_hex": common.Hex(probe.b), "observed": what,
					"expected": "comments are irrelevant: same AST", "cmd": `gojq -n "$(printf '1 #\000\n| 2')"   # prints 1, not 2 (bash drops NUL: use a file with -f)`})
		}
	}
	rs.Distinct = len(rsSeen)
	rs.Samples = []string{"1 ,\\n# c\\n2", `"a\( . )b"  vs  "a\(.)b"`, ".a#x\\r.b"}

	// ---------- oracle (c): precedence against the reference parser ----------------------------
	pr := ctx.NewOracle("precedence", "real parser vs RefParser (independent precedence-climbing parser from the property text): ALL ordered pairs and triples of the 24 operator spellings around atoms (exhaustive; rejection of non-associative chains included), sign/suffix/as/def/label/reduce/foreach/if/try shape families, generated programs and corpus queries inside RefParser's fragment; distinct = distinct sources judged")
	ops24 := []string{"|", ",", "//", "=", "|=", "+=", "-=", "*=", "/=", "%=", "//=", "or", "and", "==", "!=", "<", "<=", ">", ">=", "+", "-", "*", "/", "%"}
	atomSets := [][]string{{".", ".", ".", "."}, {"1", ".a", "$x", "f"}, {"-1", `"s"`, ".[0]", "null"}}
	prSeen := map[string]bool{}
	judge := func(toks []string, family string, strict bool) {
		s := strings.Join(toks, " ")
		if prSeen[s] {
			return
		}
		prSeen[s] = true
		// atoms like `-1` and `.[0]` are several tokens
		ps, ok := tokenize(s)
		if !ok {
			return
		}
		c.precedence(pr, tokensOf(ps), family, strict)
	}
	for _, o1 := range ops24 {
		for _, o2 := range ops24 {
			for _, at := range atomSets {
				judge([]string{at[0], o1, at[1], o2, at[2]}, "pairs", true)
			}
			for _, o3 := range ops24 {
				judge([]string{".", o1, ".", o2, ".", o3, "."}, "triples", true)
				if ctx.Thorough {
					judge([]string{"1", o1, ".a", o2, "$x", o3, "f"}, "triples", true)
				}
			}
		}
	}
	// shape families: every operator next to sign / suffix / as / def / label / try / reduce / if
	for _, o := range ops24 {
		for _, fam := range [][]string{
			{"-", ".a", ".b", o, "-", "1", "[", "0", "]"},
			{"-", "-", "1", o, "+", ".", "?"},
			{".", o, ".", "as", "$x", "|", ".", o, "."},
			{".", "as", "$x", "|", ".", o, ".", "as", "$y", "|", ".", o, "."},
			{".", "as", "[", "$x", "]", "?//", "$x", "|", ".", o, "."},
			{"def", "f", ":", ".", o, ".", ";", ".", o, "."},
			{".", o, "def", "f", ":", ".", ";", "f", o, "."},
			{"label", "$l", "|", ".", o, "."},
			{".", o, "label", "$l", "|", ".", o, "."},
			{"try", ".", o, "."},
			{"try", ".", "catch", ".", o, "."},
			{"try", "-", ".a", "?", "catch", "-", "1", o, "."},
			{"reduce", ".", o, ".", "as", "$x", "(", ".", o, ".", ";", ".", o, ".", ")", o, "."},
			{"foreach", ".", "as", "$x", "(", ".", ";", ".", ";", ".", o, ".", ")", ".a", o, "."},
			{"if", ".", o, ".", "then", ".", o, ".", "elif", ".", o, ".", "then", ".", "else", ".", o, ".", "end", o, "."},
			{"[", ".", o, ".", "]", o, "{", "a", ":", ".", o, ".", "}"},
			{"f", "(", ".", o, ".", ";", ".", ")", o, ".", "[", ".", o, ".", "]"},
			{".", "[", ".", o, ".", ":", ".", o, ".", "]", o, "."},
			{`"a\(`, ".", o, ".", `)b"`, o, "."},
		} {
			judge(fam, "shapes", true)
		}
	}
	// generated programs and corpus: judged when both accept (RefParser covers a fragment)
	for i, p := range progs {
		if p.toks == nil || len(p.toks) > 20000 {
			continue
		}
		if p.origin == "mutant" && i%4 != 0 {
			continue
		}
		judge(p.toks, p.origin, false)
	}
	pr.Distinct = len(prSeen)
	pr.Exhaustive = false
	pr.Samples = []string{". |= . |= .  (both reject)", ". - . as $x | . * .", "- .a .b + - 1 [ 0 ]"}

	// ---------- correspondence streams ---------------------------------------------------------
	var lexSrc []string
	seenLex := map[string]bool{}
	addLex := func(s string) {
		if len(s) <= 12000 && !seenLex[s] {
			seenLex[s] = true
			lexSrc = append(lexSrc, s)
		}
	}
	lexDist := map[string]int{}
	for i, p := range progs {
		if p.origin == "generated" && i%2 != 0 && !ctx.Thorough {
			continue
		}
		addLex(p.src)
		lexDist[p.origin]++
	}
	for i := 0; i < nCorpus; i++ {
		s := progs[i].src
		if len(s) > 400 {
			continue
		}
		step := 1
		if len(s) > 60 && !ctx.Thorough {
			step = len(s)/40 + 1
		}
		for k := 0; k < len(s); k += step {
			addLex(s[:k]) // truncation: the error must be reported at the right offset
			lexDist["prefix"]++
			if len(s) <= 120 || ctx.Thorough {
				addLex("def " + s[k:]) // the parser rejects the first token after `def` unless it is an identifier …
				addLex("label " + s[k:])
				lexDist["first-token-probe"] += 2
			}
		}
	}
	alphabet := []string{".", "..", "a", "_", "1", "0", "e", "E", "+", "-", "::", ":", "$", "@", "\"", "\\", "\\(", "(", ")", "u", "00e9", "\\u", "#", "\n", "\r", " ", "\t", "\x00", "é", "\xff", "\xe3\x81",
		"|", "=", "/", "//", "?", "?//", "!", "<", ">", "%", "*", ",", ";", "[", "]", "{", "}", "if", "as", "and", "x", "9", "\\\\", "\\n", "\\t", "\\x", "'", "&", "~", "\x7f", "\x1f"}
	for i := 0; i < ctx.N(12000, 200000); i++ {
		var sb strings.Builder
		for k := r.Range(1, 8); k > 0; k-- {
			sb.WriteString(common.Pick(r, alphabet))
		}
		addLex(sb.String())
		lexDist["random-lexemes"]++
	}
	for i := 0; i < ctx.N(1500, 20000); i++ {
		// string literals: text pool pieces, sometimes truncated
		var sb strings.Builder
		sb.WriteByte('"')
		for k := r.Range(0, 4); k > 0; k-- {
			sb.WriteString(common.Pick(r, textPool))
			if r.Chance(1, 6) {
				sb.WriteString(`\(` + common.Pick(r, []string{"1", ".a", `"x"`, `"\(2)"`, "1 +", ")", ""}) + common.Pick(r, []string{")", ")", ""}))
			}
		}
		if r.Chance(4, 5) {
			sb.WriteByte('"')
		}
		s := sb.String()
		if r.Chance(1, 5) && len(s) > 1 {
			s = s[:r.Intn(len(s))]
		}
		addLex(s)
		lexDist["string-literals"]++
	}

	// every number spelling glued to every token that may follow a term (maximal munch decides
	// where the number ends), and the same with one space between them
	for _, num := range []string{"0", "1", "12", "1.", "1.5", ".5", "1e3", "1E3", "1e+3", "1e-3", "1.5e3", "1.e3", ".5e3", "1e", "1e+", "0x1", "1_0", "00", "1.5.5", "1e3e3"} {
		for _, fol := range []string{".a", ".\"k\"", ".[0]", "..", ".", "?", "[0]", " as $x | $x", "|.", ",1", "+1", "-1", "e", "a", ".a.b", ".[]", "?//1", ":", ";", ")", "]", "}", "and 1", "//1", "*2", "%2", "==1", "<1"} {
			addLex(num + fol)
			addLex(num + " " + fol)
			addLex("[" + num + fol + "]")
			lexDist["number-followers"] += 3
		}
	}
	stLex := ctx.NewStream("lex", "Gojq.Lexer.lex + Gojq.LALR.run (Model/Lexer.lean, Model/LALR.lean over Generated/Lalr.lean): acceptance and the reported *ParseError",
		"sources: corpus, token mutants, generated programs, every truncation of corpus queries, `def `/`label ` + every suffix (the parser then rejects the FIRST token of the suffix, exposing the lexer's token text and end offset at every byte position), random lexeme soups over the lexer's alphabet, string literals with escapes / interpolation / truncation; answer = ok | err offset token kind; distinct = distinct implementation answers")
	stLex.Distribution = lexDist
	lines := make([]string, len(lexSrc))
	impl := make([]string, len(lexSrc))
	for i, s := range lexSrc {
		lines[i] = common.Hex(s)
		_, err, pn := safeParse(s)
		switch {
		case pn != nil:
			impl[i] = fmt.Sprint("panic ", pn)
		case err != nil:
			impl[i] = errAnswer(err)
		default:
			impl[i] = "ok"
		}
	}
	ctx.RunStream(stLex, lines, impl)
	// search for a failing input when model and implementation disagree on ACCEPTANCE: jq 1.6 is
	// asked whether the text is valid syntax; if it sides with the model the text is reported
	// (extensions of gojq over jq 1.6 make jq reject what both accept — never reported)
	{
		orc := ctx.NewOracle("lex-referee", "for each text on which the model lexer/parser and gojq.Parse disagree about acceptance, jq 1.6 compiles the text as the body of an unused definition; a text on which jq agrees with the model is a failing input; 0 cases on a tree where the `lex` stream agrees")
		for _, d := range stLex.Dis {
			if d.Idx < 0 || d.Idx >= len(lexSrc) {
				continue
			}
			text := lexSrc[d.Idx]
			implAcc, modelAcc := d.Impl == "ok", d.Model == "ok"
			if implAcc == modelAcc {
				continue
			}
			jqAcc, ok := common.JqSyntax(text)
			orc.Cases++
			if !ok || jqAcc != modelAcc {
				orc.Distribution["undecided"]++
				continue
			}
			verb := map[bool]string{true: "accepts", false: "rejects"}
			ctx.Violate("lex-differs-from-jq:"+common.Hex(text)[:min(60, 2*len(text))], fmt.Sprintf("gojq.Parse %s %q (%s); jq's grammar (the model and jq 1.6) %s it", verb[implAcc], text, d.Impl, verb[modelAcc]),
				map[string]any{"query": text, "observed": d.Impl, "model": d.Model, "jq_1_6_accepts": jqAcc, "cmd": fmt.Sprintf("gojq -n %q", text)})
		}
		orc.Distinct = orc.Cases
	}

	stParse := ctx.NewStream("parse", "Gojq.Parse.parse / sem / act / dump (Model/Parse.lean): the AST the semantic actions build",
		"sources: corpus, mutants, generated programs, operator pairs, adjacency forms; answer = canonical dump of the *gojq.Query by reflection (zero fields omitted, nil vs empty slice kept) | err; distinct = distinct implementation answers")
	stPrint := ctx.NewStream("print", "Gojq.Printer.print (Model/Printer.lean): the writeTo methods, Operator.String, jsonEncodeString",
		"the accepted sources of stream parse; answer = q.String(); distinct = distinct implementation answers")
	var pl, pi, ql, qi []string
	seenP := map[string]bool{}
	addParse := func(s, origin string) {
		if seenP[s] || len(s) > 12000 {
			return
		}
		seenP[s] = true
		q, err, pn := safeParse(s)
		h := common.Hex(s)
		pl = append(pl, h)
		stParse.Distribution[origin]++
		switch {
		case pn != nil:
			pi = append(pi, fmt.Sprint("panic ", pn))
		case err != nil:
			pi = append(pi, "err")
			stParse.Distribution["rejected"]++
		default:
			pi = append(pi, "ok "+dumpAST(q))
			str, pn := safeString(q)
			ql = append(ql, h)
			if pn != nil {
				qi = append(qi, fmt.Sprint("panic ", pn))
			} else {
				qi = append(qi, "ok "+common.Hex(str))
			}
		}
	}
	for i, p := range progs {
		if p.origin == "generated" && i%2 != 0 && !ctx.Thorough {
			continue
		}
		addParse(p.src, p.origin)
	}
	adjKeys := make([]string, 0, len(adjSeen))
	for s := range adjSeen {
		adjKeys = append(adjKeys, s)
	}
	sort.Strings(adjKeys)
	for _, s := range adjKeys {
		if r.Chance(1, ctx.N(6, 1)) {
			addParse(s, "adjacency")
		}
	}
	for _, o1 := range ops24 {
		for _, o2 := range ops24 {
			addParse(". "+o1+" 1 "+o2+" .a", "operator-pairs")
		}
	}
	ctx.RunStream(stParse, pl, pi)
	ctx.RunStream(stPrint, ql, qi)
	// the hand-written reference parser of the round-trip theorems (Props/C09/PrintParse.lean) against the real parser:
	// same lines and same expected answers as stream `parse`
	stRef := ctx.NewStream("refparse", "Gojq.RefTerm.refParse (Model/RefTermParser.lean): tokenize (lexer model + parenthesis-depth feedback for string interpolation) and the hand-written precedence-climbing reference parser for the full grammar — the hypothesis `RefAgreesWithTables` of the round-trip theorems",
		"the sources of stream parse (accepted and rejected); answer = canonical dump of the *gojq.Query | err; distinct = distinct implementation answers")
	for k, v := range stParse.Distribution {
		stRef.Distribution[k] = v
	}
	ctx.RunStream(stRef, pl, pi)
	// the token-level printer of the round-trip theorems (items + render) against the real String(): same lines and
	// expected answers as stream `print`
	stRefPrint := ctx.NewStream("refprint", "Gojq.RefTerm.printProgram (Model/RefTermParser.lean): the writeTo methods as a token sequence with separators (`itemsQ` …) rendered to bytes, on the AST of the reference parser — the printer the round-trip theorems are about",
		"the accepted sources of stream parse; answer = q.String(); distinct = distinct implementation answers")
	ctx.RunStream(stRefPrint, ql, qi)

	ctx.Res.Notes = append(ctx.Res.Notes,
		fmt.Sprintf("corpus: %d strings of cli/test.yaml + %d builtin.jq chunks; %d mutants; %d generated programs; %d accepted distinct sources", len(corpus), len(builtins), nMut, nGen, len(accepted)),
		"`as` binds its SOURCE as the whole operator expression to its left (`1 + 2 as $x | $x * 10` is 30 in gojq, 21 in jq 1.6/1.7 where the source is a postfix term); CHANGELOG v0.12.18 documents this as intended, RefParser follows it and it is not judged",
	)
	ctx.Finish()
}

// C08 — no query text or input can crash the library or the command.
//
// The harness is the failing-input SEARCH for the component panic-freedom theorems collected
// in Props/C08.lean: three entrances, every case under recover(), and in child processes so that
// crashes recover() cannot catch (fatal errors, stack overflow) are attributed to one case.
//
//	library : Parse / Compile / Run / Marshal / Preview / Error() on byte-level mutations of the
//	          corpus queries, grammar-generated queries over every builtin with wrong-typed and
//	          boundary arguments, inputs over all Go carriers incl. NaN/±Inf/invalid UTF-8
//	iterator: extra Next() calls after exhaustion and after errors
//	command : random flag / argument / stdin combinations through the real cli.run
package main

import (
	"bufio"
	"encoding/hex"
	"encoding/json"
	"fmt"
	"math"
	"math/big"
	"os"
	"os/exec"
	"sort"
	"strings"
	"time"
	"unicode/utf8"

	"github.com/itchyny/gojq"
	"github.com/itchyny/gojq/cli"

	"verifharness/common"
	"verifharness/jqgen"
)

const budget = 30000
const maxOuts = 120

type caseT struct {
	Kind  string   `json:"k"` // lib | cli
	Src   string   `json:"q,omitempty"`
	Input string   `json:"i,omitempty"` // wire form, or raw Go-literal tag for special carriers
	Args  []string `json:"a,omitempty"`
	Stdin string   `json:"s,omitempty"`
	// texts that are not valid UTF-8 travel to the child as hex (encoding/json would replace the
	// invalid bytes by U+FFFD)
	SrcHex   string   `json:"qh,omitempty"`
	StdinHex string   `json:"sh,omitempty"`
	ArgsHex  []string `json:"ah,omitempty"`
}

func (c caseT) pack() caseT {
	if !utf8.ValidString(c.Src) {
		c.SrcHex, c.Src = "x"+hex.EncodeToString([]byte(c.Src)), ""
	}
	if !utf8.ValidString(c.Stdin) {
		c.StdinHex, c.Stdin = "x"+hex.EncodeToString([]byte(c.Stdin)), ""
	}
	for _, a := range c.Args {
		if !utf8.ValidString(a) {
			c.ArgsHex = make([]string, len(c.Args))
			for i, b := range c.Args {
				c.ArgsHex[i] = hex.EncodeToString([]byte(b))
			}
			c.Args = nil
			break
		}
	}
	return c
}

func (c caseT) unpack() caseT {
	if c.SrcHex != "" {
		b, _ := hex.DecodeString(c.SrcHex[1:])
		c.Src = string(b)
	}
	if c.StdinHex != "" {
		b, _ := hex.DecodeString(c.StdinHex[1:])
		c.Stdin = string(b)
	}
	if c.ArgsHex != nil {
		c.Args = make([]string, len(c.ArgsHex))
		for i, h := range c.ArgsHex {
			b, _ := hex.DecodeString(h)
			c.Args[i] = string(b)
		}
	}
	return c
}

type findingT struct {
	Key  string `json:"key"`
	What string `json:"what"`
	Case caseT  `json:"case"`
}

func specialInputs() []any {
	return []any{nil, true, 0, -1, math.MaxInt64, math.MinInt64, 1.5, math.NaN(), math.Inf(1), math.Inf(-1), math.Copysign(0, -1), new(big.Int).Lsh(big.NewInt(1), 70),
		json.Number("1e1000"), json.Number("-0"), json.Number("100000000000000000000000"), json.Number("1.000000000000000000001"), "", "a", "\xff\xfe", "\xed\xa0\x80", strings.Repeat("é", 40),
		[]any{}, []any{nil, math.NaN(), "\xff"}, map[string]any{}, map[string]any{"\xff": 1, "a": []any{json.Number("1e400")}}, []any{[]any{[]any{[]any{}}}},
		map[string]any{"a": map[string]any{"b": map[string]any{"c": nil}}}, []any{1, 2, 3}, map[string]any{"a": 1, "b": []any{1, 2}}}
}

// runLib exercises the library entrance on one (query, input).
func runLib(src string, in any) (finding string) {
	defer func() {
		if r := recover(); r != nil {
			finding = fmt.Sprintf("panic: %v", r)
		}
	}()
	q, err := gojq.Parse(src)
	if err != nil {
		_ = err.Error()
		if pe, ok := err.(*gojq.ParseError); ok {
			if pe.Offset < 0 || pe.Offset > len(src) {
				return fmt.Sprintf("ParseError.Offset %d outside the source (length %d)", pe.Offset, len(src))
			}
			if pe.Offset-len(pe.Token) < 0 {
				return fmt.Sprintf("ParseError.Offset %d smaller than the token length %d", pe.Offset, len(pe.Token))
			}
		}
		return ""
	}
	_ = q.String()
	code, err := gojq.Compile(q)
	if err != nil {
		_ = err.Error()
		return ""
	}
	ctx := common.NewCountCtx(budget)
	it := code.RunWithContext(ctx, in)
	n := 0
	for {
		v, ok := it.Next()
		if !ok {
			break
		}
		if e, ok := v.(error); ok {
			_ = e.Error()
			if e == common.ErrBudget {
				return ""
			}
			break
		}
		if b, err := gojq.Marshal(v); err == nil {
			_ = b
		}
		_ = gojq.Preview(v)
		_ = gojq.TypeOf(v)
		if n++; n > maxOuts {
			return ""
		}
	}
	// the iterator protocol: further calls must not panic
	for i := 0; i < 6; i++ {
		if v, ok := it.Next(); ok {
			if e, ok := v.(error); ok {
				_ = e.Error()
				if e == common.ErrBudget {
					return ""
				}
			}
		}
	}
	return ""
}

func runCli(args []string, stdin string) (finding string) {
	defer func() {
		if r := recover(); r != nil {
			finding = fmt.Sprintf("panic: %v", r)
		}
	}()
	done := make(chan struct{})
	var stdout, stderr []byte
	var code int
	go func() {
		defer func() {
			if r := recover(); r != nil {
				finding = fmt.Sprintf("panic: %v", r)
			}
			close(done)
		}()
		stdout, stderr, code = cli.VerifRun(args, []byte(stdin))
	}()
	select {
	case <-done:
	case <-time.After(20 * time.Second):
		return "" // legitimately unbounded (e.g. repeat): outside the claim
	}
	if finding != "" {
		return finding
	}
	_ = stdout
	if code == cli.VerifRunawayCode {
		return ""
	}
	ok := code >= 0 && code <= 5
	for _, a := range args {
		if strings.Contains(a, "halt") {
			ok = true
		}
	}
	if !ok {
		return fmt.Sprintf("undocumented exit status %d", code)
	}
	s := string(stderr)
	if strings.Contains(s, "goroutine ") || strings.Contains(s, "panic:") || strings.Contains(s, "fatal error:") || strings.Contains(s, "runtime error") {
		return "Go runtime trace on stderr: " + clip(s)
	}
	return ""
}

func clip(s string) string {
	if len(s) > 300 {
		return s[:300] + "…"
	}
	return s
}

func decodeInput(tag string) any {
	if strings.HasPrefix(tag, "#") {
		var i int
		fmt.Sscanf(tag, "#%d", &i)
		sp := specialInputs()
		return sp[i%len(sp)]
	}
	v, err := common.ParseWire(tag)
	if err != nil {
		return nil
	}
	return v
}

// child mode: read cases (JSON lines) from stdin, print one JSON finding line per finding, then "DONE n".
func child() {
	sc := bufio.NewScanner(os.Stdin)
	sc.Buffer(make([]byte, 1<<20), 1<<26)
	w := bufio.NewWriter(os.Stdout)
	defer w.Flush()
	n := 0
	for sc.Scan() {
		var c caseT
		if json.Unmarshal(sc.Bytes(), &c) != nil {
			continue
		}
		c = c.unpack()
		fmt.Fprintf(w, "START %d\n", n)
		w.Flush()
		var f string
		if c.Kind == "lib" {
			f = runLib(c.Src, decodeInput(c.Input))
		} else {
			f = runCli(c.Args, c.Stdin)
		}
		if f != "" {
			b, _ := json.Marshal(map[string]any{"i": n, "f": f})
			fmt.Fprintf(w, "FINDING %s\n", b)
		}
		n++
	}
	fmt.Fprintf(w, "DONE %d\n", n)
}

// runBatch runs cases in a child; returns findings and the index of a case that killed the child (-1 if none).
func runBatch(cases []caseT) (fs map[int]string, crashed int, crashText string) {
	fs = map[int]string{}
	crashed = -1
	cmd := exec.Command(os.Args[0], "-child")
	cmd.Env = append(os.Environ(), "GOMEMLIMIT=3GiB", "GOMAXPROCS=2")
	var in strings.Builder
	for _, c := range cases {
		b, _ := json.Marshal(c.pack())
		in.Write(b)
		in.WriteByte('\n')
	}
	cmd.Stdin = strings.NewReader(in.String())
	var errb strings.Builder
	cmd.Stderr = &errb
	out, _ := cmd.Output()
	last, done := -1, false
	for _, l := range strings.Split(string(out), "\n") {
		switch {
		case strings.HasPrefix(l, "START "):
			fmt.Sscanf(l, "START %d", &last)
		case strings.HasPrefix(l, "FINDING "):
			var m struct {
				I int    `json:"i"`
				F string `json:"f"`
			}
			if json.Unmarshal([]byte(l[8:]), &m) == nil {
				fs[m.I] = m.F
			}
		case strings.HasPrefix(l, "DONE "):
			done = true
		}
	}
	if !done && last >= 0 {
		crashed = last
		crashText = clip(errb.String())
	}
	return
}

func main() {
	if len(os.Args) > 1 && os.Args[1] == "-child" {
		child()
		return
	}
	ctx := common.ParseFlags("C08")
	r := ctx.R
	var cases []caseT
	corpus := common.Corpus()
	nLib := ctx.N(30000, 600000)
	sp := specialInputs()
	inTag := func() string {
		if r.Chance(1, 3) {
			return fmt.Sprintf("#%d", r.Intn(len(sp)))
		}
		return common.Canon(common.RandValue(r, common.GenOpts{NonFinite: true, Floats: true, BigInts: true, BadUTF8: true, MaxDepth: 3, MaxWidth: 3, SmallKeys: true}, 0))
	}
	dist := map[string]int{}
	for i := 0; i < nLib; i++ {
		var src string
		switch r.Intn(10) {
		case 0, 1, 2, 3:
			src = mutate(r, common.Pick(r, corpus).Query)
			dist["lib:corpus-mutant"]++
		case 4:
			src = common.Pick(r, corpus).Query
			dist["lib:corpus"]++
		case 5, 6:
			src = jqgen.New(r, r.Range(1, 4)).Query()
			dist["lib:generated-naive"]++
		case 7:
			src, _ = jqgen.NewTyped(r, r.Range(1, 4)).Gen(jqgen.TypeOf(common.RandValue(r, common.DefaultGen, 0)))
			dist["lib:generated-typed"]++
		case 8:
			src = builtinCall(r)
			dist["lib:builtin-boundary"]++
		default:
			b := make([]byte, r.Range(0, 24))
			alphabet := []byte(".[]{}()|,:;\"\\$@?/+-*%<>=!#0123456789abcdefghijklmnopqrstuvwxyz_ \n\t\x00\xff\xc3\xa9'")
			for j := range b {
				b[j] = alphabet[r.Intn(len(alphabet))]
			}
			src = string(b)
			dist["lib:random-bytes"]++
		}
		cases = append(cases, caseT{Kind: "lib", Src: src, Input: inTag()})
	}
	// every prefix of the corpus queries and of generated programs (a lexer/parser that looks
	// ahead must cope with the text ending at ANY byte), and lexical fragments at the very end
	{
		var srcs []string
		for i, c := range corpus {
			if ctx.Thorough || i%4 == int(ctx.Seed%4) {
				srcs = append(srcs, c.Query)
			}
		}
		for i := 0; i < ctx.N(60, 1500); i++ {
			srcs = append(srcs, jqgen.New(r, r.Range(1, 3)).Query())
		}
		seenP := map[string]bool{}
		for _, q := range srcs {
			for cut := 0; cut < len(q); cut++ {
				if p := q[:cut]; !seenP[p] && len(p) < 200 {
					seenP[p] = true
					cases = append(cases, caseT{Kind: "lib", Src: p, Input: "n"})
					dist["lib:prefix"]++
				}
			}
		}
		frags := []string{"1e", "1E", "2e-", "2E+", ".5e", ".5e+", "1.", "1.e", "0x", "1e1e", "\"", "\"\\", "\"\\u", "\"\\u12", "\"\\(", "\"\\(1", "\"a\\(\"", "@", "@x", "$", "$_", "$__", "#", "#\\", "# \\\r", ".", "..", ".[", ".a.", ".\"", "?//", "//", "|=", "as", "as $", "def", "def f", "def f:", "reduce", "label $", "import \"", "-", "1 as [", "{", "{a", "{a:", "{(", "[", "(", "if", "if 1 then", "try", "1?", "@base64 \"", "\x00", "\xff", "\xe3\x80", "é", "1 e", "e", "nan1e"}
		heads := []string{"", "1 | ", "[1, ", "{a: ", "\"\\(", "def f: ", ". as $x | ", "1 + ", ".a", "1", "\n", "# c\n"}
		for _, h := range heads {
			for _, f := range frags {
				for _, t := range []string{"", " ", "\n"} {
					cases = append(cases, caseT{Kind: "lib", Src: h + f + t, Input: "n"})
					dist["lib:fragment-at-end"]++
				}
			}
		}
	}
	// indices and sizes at the limits of the machine integer, in every construct that takes one
	{
		xs := []string{"infinite", "-infinite", "nan", "1e300", "-1e300", "1e1000", "9223372036854775807", "9223372036854775806", "-9223372036854775808", "-9223372036854775807", "9223372036854775808", "1e19", "18446744073709551616", "4294967296", "2147483648", "2147483647", "-2147483649", "536870913", "100000000000000000000", "-1", "-2", "0.5", "1.5e18"}
		forms := []string{".[%X] = 1", ".[%X] |= 1", ".a[%X] += 1", ".[%X] //= 1", "setpath([%X]; 1)", "setpath([\"a\", %X]; 1)", "getpath([%X])", "delpaths([[%X]])", "del(.[%X])", ".[%X]", ".[%X:]", ".[:%X]", ".[%X:%Y]", ".[%X:%Y] = [1]", "del(.[%X:%Y])", ".[%X:%Y] |= map(.)", "has(%X)", "[limit(%X; 1, 2)]", "[range(%X; %Y)] | length", "[range(0; 3; %X)] | length",
			"\"ab\" * %X | length", "[1, 2] | .[%X]", "\"abc\" | .[%X:%Y]", "[splits(\"a\")] | .[%X]", "nth(%X; 1, 2)", "[.[]?] | .[%X] = 0", "to_entries | .[%X]", "flatten(%X)", "ltrimstr(%X)", "tojson | .[%X:%Y]", "[paths] | .[%X]", "implode? // ([%X] | implode)", "[%X] | implode", "%X | tostring | tonumber", "pow(2; %X)", "ldexp(1; %X)", "[%X, %Y] | sort", "{} | .[\"a\"][%X] = 1", "getpath([\"a\", %X, \"b\"])", "path(.[%X])", "try (.[%X] = 1) catch .", "[.[%X]?, .[%Y]?]", "%X as $i | .[$i] = 1", "%X as $i | [1, 2, 3] | .[$i:] = []", "input_line_number + %X", "[1, 2, 3] | del(.[%X, %Y])", "@base64d? // (\"x\" * %X)", "splits(\"a\"; null) | .[%X:]", "%X % %Y", "%X / %Y", "[%X] | .[0] %= 3?", "gmtime? // (%X | gmtime)", "%X | todate?", "%X | floor | tostring", "[range(%X)] | length"}
		n := 0
		for _, f := range forms {
			for _, x := range xs {
				if strings.Contains(f, "range(%X)") && (x == "infinite" || strings.HasPrefix(x, "1e") || len(x) > 6 && x[0] != '-') {
					continue // an unbounded collection is a resource question, not a crash
				}
				if strings.Contains(f, "* %X") && x != "-1" && x != "0.5" && x != "nan" && x != "-infinite" && x[0] != '-' {
					continue
				}
				ys := []string{common.Pick(r, xs)}
				if ctx.Thorough {
					ys = xs
				}
				if !strings.Contains(f, "%Y") {
					ys = ys[:1]
				}
				for _, y := range ys {
					if strings.Contains(f, "range(%X; %Y)") {
						continue
					}
					src := strings.ReplaceAll(strings.ReplaceAll(f, "%X", x), "%Y", y)
					for _, in := range []string{"n", "[ i1 i2 i3 ]", "{ s61 [ i1 ] }"} {
						cases = append(cases, caseT{Kind: "lib", Src: src, Input: in})
						n++
					}
				}
			}
		}
		dist["lib:index-limits"] = n
	}
	// import / include directives with metadata of every shape (the module loader reads `search`
	// and the compiler the rest), through the command with and without -L, and modulemeta
	{
		metas := []string{"{}", "{search: 1}", "{search: null}", "{search: [1]}", "{search: [null]}", "{search: [\"a\", {}]}", "{search: []}", "{search: [[]]}", "{search: {}}", "{search: \"\"}", "{search: [\"\"]}", "{search: \"~/x\"}", "{search: [\"~\", \"$ORIGIN/x\"]}", "{search: true}", "{\"search\": [1.5]}", "{search: \"./\", a: [1, {b: null}]}", "{a: 1, search: [\"x\", \"y\"]}", "{search: \"\\u0000\"}", "{raw: true}", "{optional: true}", "{search: [\"a\"], search: 1}"}
		n := 0
		for _, m := range metas {
			for _, form := range []string{"import \"m\" as m %M; .", "include \"m\" %M; .", "import \"d\" as $d %M; $d", "import \"m\" as m %M; import \"d\" as $d %M; [$d, m::f?]", "\"m\" | modulemeta"} {
				src := strings.ReplaceAll(form, "%M", m)
				cases = append(cases, caseT{Kind: "cli", Args: []string{"-n", src}}, caseT{Kind: "cli", Args: []string{"-n", "-L", ".", src}}, caseT{Kind: "cli", Args: []string{"-n", "-L", "", "-L", "/nonexistent", src}})
				n += 3
			}
		}
		dist["cli:import-metadata"] = n
	}
	// code points at every boundary of Unicode and UTF-16 (surrogates high/low, in and out of order,
	// first and last of each range), in every position of the array given to implode, and the
	// strings they make through the string natives
	{
		cps := []string{"-1", "0", "127", "128", "2047", "2048", "55295", "55296", "55357", "56319", "56320", "56832", "57343", "57344", "65533", "65535", "65536", "1114111", "1114112", "55357.9", "5.5357e4", "nan", "null", "\"a\""}
		n := 0
		for _, x := range cps {
			for _, f := range []string{"[%X] | implode", "[97, %X] | implode", "[%X, 97] | implode", "[97, 98, %X] | implode | explode", "[range(%X - 4; %X + 4)] | implode | length", "[%X] | implode | @json, @uri, ascii_downcase, length, utf8bytelength"} {
				cases = append(cases, caseT{Kind: "lib", Src: strings.ReplaceAll(f, "%X", x), Input: "n"})
				n++
			}
			for _, y := range cps {
				cases = append(cases, caseT{Kind: "lib", Src: "[" + x + ", " + y + "] | implode", Input: "n"})
				n++
			}
		}
		dist["lib:code-point-boundaries"] = n
	}
	// path LISTS given to delpaths / setpath chains: every ordered pair and triple of a pool of
	// overlapping and ill-typed paths (an earlier path changes the container a later one fails
	// on; intermediate values of the natives must never reach an error message unrendered)
	{
		pool := []string{`["a",0]`, `["a","b"]`, `["a"]`, `[0]`, `["a",0,0]`, `["a",1]`, `[0,"x"]`, `["a",{"start":0,"end":1}]`, `[]`, `["b"]`, `[1,0]`, `"a"`, `[null]`, `["a",-1]`, `[[0]]`}
		ins := []string{`{ s61 [ [ i1 i2 ] i2 ] }`, `[ [ i1 i2 ] i2 ]`, `{ s61 { s62 i1 } s62 [ i1 ] }`, `n`}
		n := 0
		for i, a := range pool {
			for j, b := range pool {
				lists := []string{"[" + a + "," + b + "]"}
				if ctx.Thorough || (i+j)%4 == 0 {
					for _, c := range pool {
						lists = append(lists, "["+a+","+b+","+c+"]")
					}
				}
				for _, l := range lists {
					for qi, q := range []string{"delpaths(%L)", "try delpaths(%L) catch .", "reduce %L[] as $p (.; setpath($p; 1))", "try (reduce %L[] as $p (.; setpath($p; [0]))) catch .", "[getpath(%L[])?]", "try ([paths] - %L | length) catch .", "try (delpaths(%L) | tojson) catch (. | tostring)"} {
						if !ctx.Thorough && len(l) > 40 && qi > 1 {
							continue
						}
						for _, in := range ins {
							cases = append(cases, caseT{Kind: "lib", Src: strings.ReplaceAll(q, "%L", l), Input: in})
							n++
						}
					}
				}
			}
		}
		dist["lib:path-lists"] = n
	}
	// command entrance: every subset of the OUTPUT-mode flags with an --indent count at and beyond
	// its limits
	{
		flags := []string{"-c", "--tab", "--yaml-output", "-r", "-j", "--raw-output0", "-a", "-C", "-S", "-e", "--seq"}
		indents := [][]string{nil, {"--indent", "-1"}, {"--indent", "0"}, {"--indent", "9"}, {"--indent", "10"}, {"--indent", "-100"}, {"--indent", "x"}, {"--indent", "100000000000"}}
		docs := []string{"{\"a\":[1,{\"b\":\"x\\ny\"}]}\n", "\"s\\u0000\" 1 null\n"}
		n := 0
		for m := 0; m < 1<<len(flags); m++ {
			var fs []string
			for i, f := range flags {
				if m&(1<<i) != 0 {
					fs = append(fs, f)
				}
			}
			for ii, ind := range indents {
				if !ctx.Thorough && (m+ii)%5 != 0 {
					continue
				}
				cases = append(cases, caseT{Kind: "cli", Args: append(append(append([]string{}, fs...), ind...), "."), Stdin: docs[(m+ii)%len(docs)]})
				n++
			}
		}
		dist["cli:output-mode-subsets"] = n
	}
	// every native function of the table (internal `_names` included: they are reachable from any
	// query text) on argument tuples from an adversarial literal set — arrays of unequal lengths,
	// boundary numbers, odd strings — exhaustively for small arities
	for _, c := range nativeSweep(r, ctx.Thorough) {
		cases = append(cases, c)
		dist["lib:native-sweep"]++
	}
	// command entrance: EVERY subset of the input-mode flags × documents of every kind × queries
	// that read input (the readers are selected by a chain of switches over these flags)
	{
		flags := []string{"--yaml-input", "--raw-input", "--slurp", "--stream", "--null-input", "--seq"}
		docs := []string{"a: 1\nb: [1, 2]\n", "- 1\n- x\n", "42\n", "plain string\n", "[1,{\"a\":2}]\n", "{\"a\":1} 2 \"s\"\n", "{\"a\":", "", "---\n- a\n---\nb: c\n", "\x1e[1]\n\x1e2\n", "\"x\"\n\"y\"\n", "null\n", "? [1]\n: 2\n", "a: &x 1\nb: *x\n", "\xff\n"}
		queries := []string{".", "[inputs]", "input", "[., input]", "[limit(2; inputs)]", ".[0]?", "tojson", "length", "input_line_number"}
		for m := 0; m < 1<<len(flags); m++ {
			var fs []string
			for i, f := range flags {
				if m&(1<<i) != 0 {
					fs = append(fs, f)
				}
			}
			for di, d := range docs {
				for qi, q := range queries {
					if !ctx.Thorough && (m+di*3+qi*5)%4 != 0 {
						continue
					}
					cases = append(cases, caseT{Kind: "cli", Args: append(append([]string{"-c"}, fs...), q), Stdin: d})
					dist["cli:input-mode-subsets"]++
				}
			}
		}
	}
	nCli := ctx.N(6000, 120000)
	for i := 0; i < nCli; i++ {
		cases = append(cases, genCli(r, corpus))
		dist["cli"]++
	}
	orc := ctx.NewOracle("crash-search", "library entrance: Parse/Compile/Run/Marshal/Preview/Error() + 6 extra Next() calls, each case under recover() in a child process (a crashed child is attributed to its last started case); ParseError.Offset within the source; command entrance: the real cli.run on random flag/argument/stdin combinations, status in the documented set, no Go runtime trace on stderr; distinct = distinct case texts")
	orc.Distribution = dist
	distinct := map[string]bool{}
	const batch = 1500
	for i := 0; i < len(cases); i += batch {
		j := min(i+batch, len(cases))
		sub := cases[i:j]
		for len(sub) > 0 {
			fs, crashed, text := runBatch(sub)
			for k, f := range fs {
				report(ctx, sub[k], f)
			}
			if crashed < 0 {
				break
			}
			report(ctx, sub[crashed], "the process died (fatal error not recoverable): "+text)
			sub = sub[crashed+1:]
		}
		for _, c := range cases[i:j] {
			distinct[c.Src+"\x00"+c.Input+strings.Join(c.Args, "\x00")+c.Stdin] = true
		}
		orc.Cases += j - i
	}
	orc.Distinct = len(distinct)
	orc.Samples = []string{"lib: `1 + (label $l | .)` on null", "lib: `.[] ` then 6 extra Next()", "cli: [--stream -n --arg] stdin `[1,,2]`"}
	ctx.Finish()
}

func report(ctx *common.Ctx, c caseT, f string) {
	if c.Kind == "lib" {
		ctx.Violate("crash:lib:"+c.Src+":"+c.Input, "library: "+f+" on query "+fmt.Sprintf("%q", c.Src)+" input "+c.Input, map[string]any{"query": c.Src, "input": c.Input, "finding": f})
	} else {
		ctx.Violate("crash:cli:"+strings.Join(c.Args, " ")+":"+c.Stdin, "command: "+f+" with args "+fmt.Sprintf("%q", c.Args), map[string]any{"args": c.Args, "stdin": c.Stdin, "finding": f})
	}
}

func mutate(r *common.Rand, s string) string {
	b := []byte(s)
	for k, n := 0, r.Range(1, 3); k < n; k++ {
		switch r.Intn(6) {
		case 0:
			if len(b) > 0 {
				i := r.Intn(len(b))
				b = append(b[:i], b[i+1:]...)
			}
		case 1:
			i := r.Intn(len(b) + 1)
			c := []byte(".[]{}()|,:;\"\\$@?/+-*%<>=!#0a_ \n\x00\xff")[r.Intn(32)]
			b = append(b[:i], append([]byte{c}, b[i:]...)...)
		case 2:
			if len(b) > 0 {
				b[r.Intn(len(b))] = byte(r.Intn(256))
			}
		case 3:
			if len(b) > 1 {
				i, j := r.Intn(len(b)), r.Intn(len(b))
				b[i], b[j] = b[j], b[i]
			}
		case 4:
			if len(b) > 2 {
				i := r.Intn(len(b) - 1)
				j := i + 1 + r.Intn(len(b)-i-1)
				b = append(b[:i], b[j:]...)
			}
		default:
			toks := []string{"label $l | ", "reduce ", " as $x ", "foreach ", "try ", "?//", "def f: f; ", "[.[]?]", "..", "|=", "//=", "@base64d", "$__loc__", "limit(1; ", "path(", "getpath(", "input", "ltrimstr(", "@sh ", "\"\\(", "error", "break $l", "-1[0]", ".[1e1000]", ".[-1:]", "implode", "tojson", "fromjson", "splits(\"\")", "test(\"(\")", "gsub(\"\";\"x\")", "strftime(\"%Y\")", "mktime", "todate", "ascii", "@uri", "tonumber", "1e1000", "-0", "nan", "infinite", "halt_error", "$ENV", "env", "builtins", "input_line_number", "getpath([\"a\",0,{}])", "setpath([-1]; 1)", "delpaths([[0],[0,0]])", "to_entries", "from_entries", "with_entries(.)", "walk(.)", "transpose", "flatten(-1)", "range(1e10; 1e10+3)", "range(0; 10; 0)", ".[999999999] = 1", "repeat(.)|limit(2;.)", "\"a\" * 1e10", "splits(\"a\";\"gx\")", "ltrimstr(1)", "@json \"\\(.)\""}
			i := r.Intn(len(b) + 1)
			t := common.Pick(r, toks)
			b = append(b[:i], append([]byte(t), b[i:]...)...)
		}
	}
	return string(b)
}

var builtinNames []string

var sweepLits = []string{"null", "true", "0", "-1", "1.5", "nan", "infinite", "-infinite", "1e1000", "\"\"", "\"a\"", "\"\\u00ff\"", "[]", "[0]", "[1,2]", "[3,2,1]", "[[1],[2],[3]]", "{}", "{\"a\":1}",
	"9223372036854775807", "-9223372036854775808", "100000000000000000000", "2147483648", "[\"a\",0]", "{\"start\":0,\"end\":-1}", "\"%Z\"", "\"(\"", "[null,null,null,null]", "[[0,1],[1]]", "\"abc\"",
	// number arrays of EVERY length up to one past the longest a native destructures (broken-down
	// times have 8 fields, optional ones from the 4th on): a guard that is off by one is only met
	// by the one length it forgets
	"[2024,1,2,3]", "[2024,1,2,3,4]", "[2024,1,2,3,4,5.5]", "[2024,1,2,3,4,5,6]", "[2024,1,2,3,4,5,6,7]", "[2024,1,2,3,4,5,6,7,8]"}
var sweepCore = []string{"null", "0", "-1", "nan", "\"a\"", "[]", "[1]", "[3,2,1]", "{\"a\":1}", "1e1000", "100000000000000000000", "[[1],[2]]"}

var inCore = func() map[string]bool {
	m := map[string]bool{"true": true, "1.5": true, "{}": true, "[0]": true}
	for _, x := range sweepCore {
		m[x] = true
	}
	return m
}()

// nativeSweep enumerates `v | name(a1; …)` over the native table.
func nativeSweep(r *common.Rand, thorough bool) []caseT {
	var out []caseT
	skip := map[string]bool{"input": true, "debug": true, "stderr": true, "halt": true, "halt_error": true, "input_line_number": true, "$__prog_args": true, "$__loc__": true, "now": true, "input_filename": true, "env": true, "builtins": true}
	var names []string
	nat := gojq.VerifNatives()
	for k := range nat {
		names = append(names, k)
	}
	sort.Strings(names)
	pathWraps := []string{"path(%s)", "(%s) |= .", "del(%s)", "[paths(%s)]", "(%s) = 1", "path(.a? | %s)", "pick(%s)"}
	emit := func(name string, v string, args []string) {
		call := name
		if len(args) > 0 {
			call += "(" + strings.Join(args, "; ") + ")"
		}
		out = append(out, caseT{Kind: "lib", Src: v + " | try (" + call + ") catch .", Input: "n"})
		// the same call under path tracking (the interpreter post-processes the answers of
		// path-aware natives there), for the small literals
		if len(args) <= 1 && inCore[v] && (len(args) == 0 || inCore[args[0]]) && (thorough || r.Chance(1, 3)) {
			w := pathWraps[r.Intn(len(pathWraps))]
			out = append(out, caseT{Kind: "lib", Src: v + " | try (" + strings.ReplaceAll(w, "%s", call) + ") catch .", Input: "n"})
			if name == "getpath" || name == "_index" || name == "_slice" || name == "paths" || name == "setpath" || name == "delpaths" || name == "has" {
				for _, w := range pathWraps {
					out = append(out, caseT{Kind: "lib", Src: v + " | " + strings.ReplaceAll(w, "%s", call), Input: "n"})
				}
			}
		}
	}
	for _, name := range names {
		if skip[name] || strings.HasPrefix(name, "$") {
			continue
		}
		for ar := 0; ar <= 4; ar++ {
			if nat[name].Argcount&(1<<ar) == 0 {
				continue
			}
			switch {
			case ar == 0:
				for _, v := range sweepLits {
					emit(name, v, nil)
				}
			case ar == 1:
				for _, v := range sweepLits {
					for _, a := range sweepLits {
						emit(name, v, []string{a})
					}
				}
			case ar == 2 && thorough:
				for _, v := range sweepCore {
					for _, a := range sweepCore {
						for _, b := range sweepCore {
							emit(name, v, []string{a, b})
						}
					}
				}
			default:
				n := 400
				if thorough {
					n = 6000
				}
				for i := 0; i < n; i++ {
					args := make([]string, ar)
					for j := range args {
						args[j] = common.Pick(r, sweepLits)
					}
					emit(name, common.Pick(r, sweepLits), args)
				}
			}
		}
	}
	return out
}

func builtinCall(r *common.Rand) string {
	if builtinNames == nil {
		q, _ := gojq.Parse("builtins")
		it := q.Run(nil)
		v, _ := it.Next()
		for _, x := range v.([]any) {
			builtinNames = append(builtinNames, x.(string))
		}
	}
	na := common.Pick(r, builtinNames)
	name, ar, _ := strings.Cut(na, "/")
	n := 0
	fmt.Sscanf(ar, "%d", &n)
	if name == "input" || name == "inputs" || name == "debug" || name == "stderr" || name == "halt" || name == "halt_error" || name == "input_line_number" || name == "$__prog_args" {
		name = "length"
		n = 0
	}
	args := []string{"null", "0", "-1", "1.5", "1e1000", "-0", "nan", "infinite", "\"\"", "\"a\"", "\"\\u00ff\"", "[]", "[0]", "[-1]", "[1e10]", "{}", "{\"a\":1}", ".", ".[]", "empty", "(1,2)", "[.]", "{a:.}", "-9223372036854775808", "9223372036854775807", "100000000000000000000", "[null]", "[[0]]", "\"(\"", "\"g\"", "\"%Z\"", "[\"a\",0]", "{\"start\":0,\"end\":-1}", "true", "false", "\"x\" * 5", "[range(5)]", "0.5", "-0.5", "2147483648", "536870912"}
	var as []string
	for i := 0; i < n; i++ {
		as = append(as, common.Pick(r, args))
	}
	call := name
	if n > 0 {
		call += "(" + strings.Join(as, "; ") + ")"
	}
	return common.Pick(r, []string{"%s", "[%s]", "try (%s) catch .", ".[]? | %s", "[limit(3; %s)]", "path(%s)?", "(%s) as $x | $x", "%s | tojson", "[.[]? | %s]?", "first(%s)", "%s |= .", "del(%s)?"})[0:0] + fmt.Sprintf(common.Pick(r, []string{"%s", "[%s]", "try (%s) catch .", ".[]? | %s", "[limit(3; %s)]", "path(%s)?", "(%s) as $x | $x", "%s | tojson", "[.[]? | %s]?", "first(%s)", "(%s) |= .", "del(%s)?"}), call)
}

func genCli(r *common.Rand, corpus []common.CorpusCase) caseT {
	flags := []string{"-n", "-r", "-j", "-c", "-s", "-R", "-e", "-a", "-C", "-M", "-S", "--tab", "--indent", "--stream", "--yaml-input", "--yaml-output", "--raw-output0", "--arg", "--argjson", "--args", "--jsonargs", "--slurpfile", "--rawfile", "-f", "-L", "--seq", "--exit-status", "-h", "-v", "--", "--indent=3", "--arg=x", "-nr", "-sR", "-rj", "--unknown", "-x", "--stream-errors", "--null-input", "--compact-output", "-e=1", "--indent=-1", "--indent=99", "--tab=1"}
	vals := []string{"x", "1", "{", "[1,2]", "\"s\"", "", "-", "/nonexistent", "a b", "\x00", "0", "7", "-1", "null", "{\"a\":1}", "$x", "."}
	var args []string
	for i, n := 0, r.Intn(5); i < n; i++ {
		args = append(args, common.Pick(r, flags))
		if r.Chance(1, 2) {
			args = append(args, common.Pick(r, vals))
		}
		if r.Chance(1, 6) {
			args = append(args, common.Pick(r, vals))
		}
	}
	switch r.Intn(6) {
	case 0:
		args = append(args, mutate(r, common.Pick(r, corpus).Query))
	case 1, 2:
		args = append(args, common.Pick(r, corpus).Query)
	case 3:
		args = append(args, common.Pick(r, []string{".", ".[]", "input", "[inputs]", "$x", "$ARGS", "$ENV|length", "halt", "halt_error", "\"a\"|halt_error(1)", "{}|halt_error(257)", "error", "error(null)", ".. ", "tostream", "fromstream(inputs)", "input_filename", "$__prog_args", "limit(3;repeat(1))", "@sh", "ltrimstr(1)", "input_line_number", "$__loc__", "getpath([\"a\"])", "first(inputs)", "1 + (label $l | .)", "-1[0]", "reduce inputs as $x (0; .+1)", "now|type", "env|type", "splits(\"a\")", "\"\\(1;2)\"", "import \"a\" as a; .", "include \"x\"; .", "modulemeta", "\"x\"|modulemeta"}))
	}
	if r.Chance(1, 4) {
		args = append(args, common.Pick(r, vals))
	}
	stdin := common.Pick(r, []string{"", "null", "1 2 3", "[1,2,3]", "{\"a\":1}", "{\"a\":", "[1,,2]", "\"\\ud800\"", "1e1000", "{\"a\":1} {\"a\":2}\n[", "\xff\xfe", "a: 1\nb: [1, 2]\n", "a: *x\n", "- 1\n- {", "nul", "tru", "\"abc", "[[[[[[[[[[[[[[[[[[[[", strings.Repeat("[", 12000), strings.Repeat("{\"a\":", 6000), "1\r2\r3", "\x00", "{\"a\":1,\"a\":2}", "123456789012345678901234567890", "-0", "\"\\u0000\"", "[1.5e300,1e-400]", "\t\n 7 \n", "1 // comment"})
	if r.Chance(1, 5) {
		stdin = mutate(r, stdin)
	}
	return caseT{Kind: "cli", Args: args, Stdin: stdin}
}

package main

// Random module worlds for C18: a temp directory with search directories, module files in
// `name.jq` / `name/name.jq` layouts, data files, `~/.jq`, `search` metadata — plus the
// harness's own reference semantics (independent of the Lean model and of gojq's compiler):
// reference file lookup, the module tree, and its flattening by textual inclusion with
// renaming (`a::f` -> `a__f`), which is what the inlined program text is built from.

import (
	"encoding/json"
	"fmt"
	"os"
	"path/filepath"
	"sort"
	"strings"

	"verifharness/common"
)

type call struct {
	name  string // function name (maybe a::f) or variable name without `$` (maybe d::d)
	arity int
	isVar bool
}

type def struct {
	name  string
	arity int
	calls []call
	tag   string
}

type metaKV struct {
	key   string
	isStr bool
	str   string // string value as written in the file
	other string // jq constant text of a non-string value
}

type imp struct {
	path    string
	alias   string // "" include, "a" import, "$d" data import
	isData  bool
	hasMeta bool
	meta    []metaKV
}

type module struct {
	imports   []*imp
	defs      []*def
	directive map[string]any // `module {...};` (nil: none)
}

type fnode struct {
	kind  byte // 'D' dir, 'B' bad content, 'J' json, 'M' module
	mod   *module
	id    string
	nvals int
}

type world struct {
	root     string
	files    map[string]*fnode // path relative to root
	rawPaths []string          // arguments of NewModuleLoader, as given
	homeSet  bool
	globals  []string
	main     *module
	exeDir   string
}

var builtinClash = []call{{name: "length"}, {name: "not"}}

func isBuiltinClash(name string, arity int) bool {
	return arity == 0 && (name == "length" || name == "not")
}

// ---------------------------------------------------------------- text rendering

func jstr(s string) string { b, _ := json.Marshal(s); return string(b) }

func (i *imp) text() string {
	var sb strings.Builder
	if i.alias == "" {
		sb.WriteString("include " + jstr(i.path))
	} else {
		sb.WriteString("import " + jstr(i.path) + " as " + i.alias)
	}
	if i.hasMeta {
		sb.WriteString(" {")
		for k, kv := range i.meta {
			if k > 0 {
				sb.WriteString(", ")
			}
			sb.WriteString(jstr(kv.key) + ": ")
			if kv.isStr {
				sb.WriteString(jstr(kv.str))
			} else {
				sb.WriteString(kv.other)
			}
		}
		sb.WriteString("}")
	}
	sb.WriteString(";")
	return sb.String()
}

func params(n int) string {
	if n == 0 {
		return ""
	}
	ps := make([]string, n)
	for i := range ps {
		ps[i] = fmt.Sprintf("p%d_", i+1)
	}
	return "(" + strings.Join(ps, "; ") + ")"
}

func callText(c call) string {
	if c.isVar {
		return "$" + c.name
	}
	if c.arity == 0 {
		return c.name
	}
	as := make([]string, c.arity)
	for i := range as {
		as[i] = "0"
	}
	return c.name + "(" + strings.Join(as, "; ") + ")"
}

func (d *def) text() string {
	cs := make([]string, len(d.calls))
	for i, c := range d.calls {
		cs[i] = callText(c)
	}
	return "def " + d.name + params(d.arity) + ": {t: " + jstr(d.tag) + ", c: [" + strings.Join(cs, ", ") + "]};"
}

func (m *module) text() string {
	var sb strings.Builder
	if m.directive != nil {
		b, _ := json.Marshal(m.directive)
		sb.WriteString("module " + string(b) + ";\n")
	}
	for _, i := range m.imports {
		sb.WriteString(i.text() + "\n")
	}
	for _, d := range m.defs {
		sb.WriteString(d.text() + "\n")
	}
	return sb.String()
}

func dataText(id string, n int) string {
	var sb strings.Builder
	for i := 0; i < n; i++ {
		fmt.Fprintf(&sb, "{\"d\": %s, \"i\": %d}\n", jstr(id), i)
	}
	return sb.String()
}

func dataArray(id string, n int) string {
	xs := make([]string, n)
	for i := range xs {
		xs[i] = fmt.Sprintf("{\"d\": %s, \"i\": %d}", jstr(id), i)
	}
	return "[" + strings.Join(xs, ", ") + "]"
}

// ---------------------------------------------------------------- materialisation

func (w *world) abs(rel string) string { return filepath.Join(w.root, rel) }

// mapPath rewrites a real path under the temp root to the model's `/R/...`.
func (w *world) mapPath(p string) string {
	if p == w.root {
		return "/R"
	}
	if strings.HasPrefix(p, w.root+"/") {
		return "/R" + p[len(w.root):]
	}
	if w.exeDir != "" && (p == w.exeDir || strings.HasPrefix(p, w.exeDir+"/")) {
		return "/O" + p[len(w.exeDir):]
	}
	return p
}

func (w *world) mkdir(rel string) {
	for d := rel; d != "." && d != "" && d != "/"; d = filepath.Dir(d) {
		if _, ok := w.files[d]; !ok {
			w.files[d] = &fnode{kind: 'D'}
		}
	}
	if err := os.MkdirAll(w.abs(rel), 0o755); err != nil {
		panic(err)
	}
}

func (w *world) write(rel string, n *fnode) {
	w.mkdir(filepath.Dir(rel))
	w.files[rel] = n
	var content string
	switch n.kind {
	case 'M':
		content = n.mod.text()
	case 'J':
		content = dataText(n.id, n.nvals)
	case 'B':
		if strings.HasSuffix(rel, ".json") {
			content = "{\"d\": 1} [1, oops\n"
		} else {
			content = "def broken: 1 +\n"
		}
	case 'D':
		w.mkdir(rel)
		return
	}
	if err := os.WriteFile(w.abs(rel), []byte(content), 0o644); err != nil {
		panic(err)
	}
}

// ---------------------------------------------------------------- reference lookup

func (w *world) cwd() string { return w.abs("cwd") }

func (w *world) refResolve(p, dir string) string {
	switch {
	case filepath.IsAbs(p):
		return p
	case strings.HasPrefix(p, "~/"):
		if !w.homeSet {
			return ""
		}
		return filepath.Join(w.abs("home"), p[2:])
	case strings.HasPrefix(p, "$ORIGIN/"):
		return filepath.Join(w.exeDir, p[8:])
	default:
		return filepath.Join(dir, p)
	}
}

func (w *world) absolute(p string) string {
	if filepath.IsAbs(p) {
		return filepath.Clean(p)
	}
	return filepath.Join(w.cwd(), p)
}

func (w *world) loaderDirs() []string {
	var ds []string
	for _, p := range w.rawPaths {
		if q := w.refResolve(p, ""); q != "" {
			ds = append(ds, q)
		}
	}
	return ds
}

// searchString: the effective `search` entry of an import (the last one wins, strings only).
func (i *imp) searchString() (string, bool) {
	if !i.hasMeta {
		return "", false
	}
	for k := len(i.meta) - 1; k >= 0; k-- {
		if i.meta[k].key == "search" {
			if i.meta[k].isStr {
				return i.meta[k].str, true
			}
			return "", false
		}
	}
	return "", false
}

// refLookup: for each search directory in order `name.ext` then `name/<basename>.ext`; a
// relative `search` entry is resolved against the importing file's directory (the working
// directory for the main query).  Returns the absolute real path.
func (w *world) refLookup(i *imp, ext string, importerDir string) (string, bool) {
	var dirs []string
	if s, ok := i.searchString(); ok {
		base := importerDir
		if base == "" {
			base = w.cwd()
		}
		if p := w.refResolve(s, base); p != "" {
			dirs = append(dirs, p)
		}
	}
	dirs = append(dirs, w.loaderDirs()...)
	for _, d := range dirs {
		d = w.absolute(d)
		c1 := filepath.Join(d, i.path+ext)
		if _, err := os.Stat(c1); err == nil {
			return c1, true
		}
		c2 := filepath.Join(d, i.path, filepath.Base(i.path)+ext)
		if _, err := os.Stat(c2); err == nil {
			return c2, true
		}
	}
	return "", false
}

// ---------------------------------------------------------------- module trees

type mtree struct {
	file string // real absolute path, "" for the main query
	mod  *module
	imps []*itree
}

type itree struct {
	imp   *imp
	kind  int // 0 module, 1 data, 2 load failure
	t     *mtree
	id    string
	nvals int
}

func (w *world) nodeAt(absPath string) *fnode {
	rel, err := filepath.Rel(w.root, absPath)
	if err != nil {
		return nil
	}
	return w.files[rel]
}

func (w *world) build(m *module, file string, depth int) *mtree {
	t := &mtree{file: file, mod: m}
	dir := ""
	if file != "" {
		dir = filepath.Dir(file)
	}
	for _, i := range m.imports {
		it := &itree{imp: i, kind: 2}
		if depth <= 0 {
			t.imps = append(t.imps, it)
			continue
		}
		if i.isData {
			if p, ok := w.refLookup(i, ".json", dir); ok {
				if n := w.nodeAt(p); n != nil && n.kind == 'J' {
					it.kind, it.id, it.nvals = 1, n.id, n.nvals
				}
			}
		} else if p, ok := w.refLookup(i, ".jq", dir); ok {
			if n := w.nodeAt(p); n != nil && n.kind == 'M' {
				it.kind, it.t = 0, w.build(n.mod, p, depth-1)
			}
		}
		t.imps = append(t.imps, it)
	}
	return t
}

func (t *mtree) failed() bool {
	for _, i := range t.imps {
		if i.kind == 2 || i.kind == 0 && i.t.failed() {
			return true
		}
	}
	return false
}

// ---------------------------------------------------------------- flattening (reference)

type varB struct {
	name  string // without `$`
	id    string
	nvals int
}

type fcall struct {
	call
	bound  *varB // data binding for a variable call (nil: global or unresolved)
	global bool
	unres  bool
	free   bool // not defined inside the aliased block it was written in: never renamed
}

type fdef struct {
	name  string
	arity int
	calls []fcall
	tag   string
	file  string
}

func lookupVarB(env []varB, name string) *varB {
	for k := len(env) - 1; k >= 0; k-- {
		if env[k].name == name {
			return &env[k]
		}
	}
	return nil
}

func (w *world) isGlobal(name string) bool {
	for _, g := range w.globals {
		if g == "$"+name {
			return true
		}
	}
	return false
}

// flattenImports returns the definitions an import header contributes, in order, and the
// data bindings it adds for the rest of the importing file.
func (w *world) flattenImports(imps []*itree, env []varB) ([]*fdef, []varB) {
	var out []*fdef
	env = append([]varB(nil), env...)
	for _, it := range imps {
		switch it.kind {
		case 1:
			a := it.imp.alias[1:]
			env = append(env, varB{a, it.id, it.nvals}, varB{a + "::" + a, it.id, it.nvals})
		case 0:
			if it.imp.alias == "" {
				// include: the text is spliced; it sees what precedes it; its own data
				// imports stay local to it
				out = append(out, w.flattenMod(it.t, env)...)
			} else {
				sub := w.flattenMod(it.t, nil)
				out = append(out, renameBlock(sub, it.imp.alias)...)
			}
		}
	}
	return out, env
}

// flattenMod: the module's own imports inlined, then its definitions.
func (w *world) flattenMod(t *mtree, env []varB) []*fdef {
	out, env2 := w.flattenImports(t.imps, env)
	for _, d := range t.mod.defs {
		fd := &fdef{name: d.name, arity: d.arity, tag: d.tag, file: t.file}
		for _, c := range d.calls {
			fc := fcall{call: c}
			if c.isVar {
				if b := lookupVarB(env2, c.name); b != nil {
					bb := *b
					fc.bound = &bb
				} else if w.isGlobal(c.name) {
					fc.global = true
				} else {
					fc.unres = true
				}
			}
			fd.calls = append(fd.calls, fc)
		}
		out = append(out, fd)
	}
	return out
}

// renameBlock prefixes every name the block defines, in definitions and in the calls that
// refer to a definition of the block made earlier or being made (textual renaming).
func renameBlock(block []*fdef, alias string) []*fdef {
	out := make([]*fdef, len(block))
	for k, d := range block {
		nd := *d
		nd.name = alias + "::" + d.name
		nd.calls = make([]fcall, len(d.calls))
		for j, c := range d.calls {
			nd.calls[j] = c
			if c.isVar || c.free {
				continue
			}
			if definedIn(block[:k+1], c.name, c.arity) {
				nd.calls[j].name = alias + "::" + c.name
			} else {
				nd.calls[j].free = true
			}
		}
		out[k] = &nd
	}
	return out
}

func definedIn(block []*fdef, name string, arity int) bool {
	for _, d := range block {
		if d.name == name && d.arity == arity {
			return true
		}
	}
	return false
}

func flatName(s string) string { return strings.ReplaceAll(s, "::", "__") }

func inlineDefText(d *fdef) string {
	var binds []string
	seen := map[string]bool{}
	cs := make([]string, len(d.calls))
	for i, c := range d.calls {
		cc := c.call
		cc.name = flatName(c.name)
		if c.isVar && c.bound != nil {
			// a name that cannot clash with a global of the same spelling
			cc.name = "B_" + flatName(c.name)
			if !seen[cc.name] {
				seen[cc.name] = true
				binds = append(binds, dataArray(c.bound.id, c.bound.nvals)+" as $"+cc.name+" | ")
			}
		}
		cs[i] = callText(cc)
	}
	return "def " + flatName(d.name) + params(d.arity) + ": " + strings.Join(binds, "") + "{t: " + jstr(d.tag) + ", c: [" + strings.Join(cs, ", ") + "]};"
}

// hygienic: no free function name of an aliased block is captured by an earlier definition
// of the flat program (then plain textual inlining means what the modular program means).
func hygienic(flat []*fdef) bool {
	for k, d := range flat {
		for _, c := range d.calls {
			if !c.isVar && c.free && definedIn(flat[:k+1], c.name, c.arity) {
				return false
			}
		}
	}
	return true
}

// ---------------------------------------------------------------- protocol encoding

func stok(s string) string {
	if strings.ContainsAny(s, " \t\n\r") {
		panic("blank in protocol string: " + s)
	}
	return "s" + s
}

func (w *world) encMeta(sb *strings.Builder, i *imp) {
	if !i.hasMeta {
		sb.WriteString(" -")
		return
	}
	fmt.Fprintf(sb, " %d", len(i.meta))
	for _, kv := range i.meta {
		sb.WriteString(" " + stok(kv.key))
		if kv.isStr {
			sb.WriteString(" S " + stok(w.mapPath(kv.str)))
		} else {
			sb.WriteString(" O")
		}
	}
}

func encCall(sb *strings.Builder, c call) {
	if c.isVar {
		sb.WriteString(" V " + stok(c.name))
	} else {
		fmt.Fprintf(sb, " F %s %d", stok(c.name), c.arity)
	}
}

func (w *world) encModule(sb *strings.Builder, m *module) {
	fmt.Fprintf(sb, " %d", len(m.imports))
	for _, i := range m.imports {
		d := 0
		if i.isData {
			d = 1
		}
		fmt.Fprintf(sb, " %s %s %d", stok(i.path), stok(i.alias), d)
		w.encMeta(sb, i)
	}
	fmt.Fprintf(sb, " %d", len(m.defs))
	for _, d := range m.defs {
		fmt.Fprintf(sb, " %s %d %s %d", stok(d.name), d.arity, stok(d.tag), len(d.calls))
		for _, c := range d.calls {
			encCall(sb, c)
		}
	}
}

func (w *world) encEnvPathsFS(sb *strings.Builder) {
	sb.WriteString(stok("/R/cwd"))
	if w.homeSet {
		sb.WriteString(" " + stok("/R/home"))
	} else {
		sb.WriteString(" -")
	}
	sb.WriteString(" " + stok("/O"))
	fmt.Fprintf(sb, " %d", len(w.rawPaths))
	for _, p := range w.rawPaths {
		sb.WriteString(" " + stok(w.mapPath(p)))
	}
}

func (w *world) encFS(sb *strings.Builder) {
	keys := make([]string, 0, len(w.files))
	for k := range w.files {
		keys = append(keys, k)
	}
	sort.Strings(keys)
	fmt.Fprintf(sb, " %d", len(keys))
	for _, k := range keys {
		n := w.files[k]
		sb.WriteString(" " + stok("/R/"+k))
		switch n.kind {
		case 'D':
			sb.WriteString(" D")
		case 'B':
			sb.WriteString(" B")
		case 'J':
			if n.nvals == 0 {
				sb.WriteString(" J " + stok("*")) // all empty files yield the same []
			} else {
				sb.WriteString(" J " + stok(n.id))
			}
		case 'M':
			sb.WriteString(" M")
			w.encModule(sb, n.mod)
		}
	}
}

func (w *world) line(probe call) string {
	var sb strings.Builder
	w.encEnvPathsFS(&sb)
	fmt.Fprintf(&sb, " %d", len(w.globals))
	for _, g := range w.globals {
		sb.WriteString(" " + stok(g))
	}
	fmt.Fprintf(&sb, " %d", len(builtinClash))
	for _, b := range builtinClash {
		fmt.Fprintf(&sb, " %s %d", stok(b.name), b.arity)
	}
	w.encFS(&sb)
	w.encModule(&sb, w.main)
	encCall(&sb, probe)
	return sb.String()
}

// ---------------------------------------------------------------- generation

type gen struct {
	r *common.Rand
	w *world
}

var defNames = []string{"f", "g", "h", "k", "f", "g", "length", "not", "_u"}
var aliasNames = []string{"a", "b", "c", "m", "a", "b"}
var dataAliases = []string{"d", "e", "v", "d"}

func newWorld(r *common.Rand, exeDir string) *world {
	root, err := os.MkdirTemp("", "verif-c18-")
	if err != nil {
		panic(err)
	}
	root, _ = filepath.EvalSymlinks(root)
	w := &world{root: root, files: map[string]*fnode{}, exeDir: exeDir}
	w.mkdir("cwd")
	w.mkdir("home")
	return w
}

func (w *world) remove() { os.RemoveAll(w.root) }

type modSpec struct {
	name   string   // import name, e.g. m3 or sub/m3
	places []string // relative file paths holding a variant
	depth  int
	hidden string // directory (relative to root) reachable only through `search`, "" if on the search path
}

// generate fills the world with a random module tree.
func (g *gen) generate() {
	r, w := g.r, g.w
	w.homeSet = !r.Chance(1, 8)
	// search directories
	all := []string{"lib1", "lib2", "lib3", "home/.jq", "cwd", "home/lib"}
	var sdirs []string
	for _, d := range all {
		if r.Chance(1, 2) {
			sdirs = append(sdirs, d)
		}
	}
	if len(sdirs) == 0 {
		sdirs = []string{"lib1"}
	}
	// ~/.jq: file, directory or absent
	jqMode := r.Intn(3) // 0 absent, 1 file (init module), 2 directory
	hasHomeJq := false
	for _, d := range sdirs {
		if d == "home/.jq" {
			hasHomeJq = true
		}
	}
	if !hasHomeJq && jqMode != 0 && r.Bool() {
		sdirs = append(sdirs, "home/.jq")
		hasHomeJq = true
	}
	for k := len(sdirs) - 1; k > 0; k-- {
		j := r.Intn(k + 1)
		sdirs[k], sdirs[j] = sdirs[j], sdirs[k]
	}
	for _, d := range sdirs {
		if d == "home/.jq" {
			if jqMode == 2 {
				w.mkdir(d)
			}
			continue
		}
		w.mkdir(d)
	}
	for _, d := range sdirs {
		var raw string
		switch {
		case strings.HasPrefix(d, "home/") && r.Chance(2, 3):
			raw = "~/" + d[5:]
		case r.Chance(1, 3):
			raw = "../" + d // relative to cwd
			if d == "cwd" {
				raw = "."
			}
		default:
			raw = w.abs(d)
		}
		w.rawPaths = append(w.rawPaths, raw)
		if r.Chance(1, 10) {
			w.rawPaths = append(w.rawPaths, common.Pick(r, []string{"", "$ORIGIN/../verif-c18-none", w.abs("nonexistent"), "~/nonexistent", "../lib1//"}))
		}
	}
	usable := func() []string { // directories that can hold module files
		var ds []string
		for _, d := range sdirs {
			if d == "home/.jq" && jqMode != 2 {
				continue
			}
			ds = append(ds, d)
		}
		if len(ds) == 0 {
			w.mkdir("lib1")
			sdirs = append(sdirs, "lib1")
			w.rawPaths = append(w.rawPaths, w.abs("lib1"))
			ds = []string{"lib1"}
		}
		return ds
	}()
	// globals
	for _, gname := range []string{"$v", "$d", "$gg"} {
		if r.Chance(1, 3) {
			w.globals = append(w.globals, gname)
		}
	}
	// data files
	type dataSpec struct {
		name   string
		hidden string
	}
	var datas []dataSpec
	for k := 1; k <= r.Range(1, 3); k++ {
		name := fmt.Sprintf("d%d", k)
		if r.Chance(1, 5) {
			name = "sub/" + name
		}
		ds := dataSpec{name: name}
		places := 1 + r.Intn(2)
		for p := 0; p < places; p++ {
			dir := common.Pick(r, usable)
			if p == 0 && r.Chance(1, 6) {
				dir = "extra"
				ds.hidden = "extra"
			}
			rel := filepath.Join(dir, name+".json")
			if r.Chance(1, 4) {
				rel = filepath.Join(dir, name, filepath.Base(name)+".json")
			}
			if _, ok := w.files[rel]; ok {
				continue
			}
			n := &fnode{kind: 'J', id: "/R/" + rel, nvals: r.Range(0, 3)}
			if r.Chance(1, 25) {
				n.kind = 'B'
			}
			w.write(rel, n)
		}
		datas = append(datas, ds)
	}
	// modules, from the leaves up
	nmod := r.Range(2, 7)
	specs := make([]*modSpec, nmod+1)
	for k := nmod; k >= 1; k-- {
		sp := &modSpec{name: fmt.Sprintf("m%d", k), depth: 1}
		if r.Chance(1, 6) {
			sp.name = "sub/" + sp.name
		}
		specs[k] = sp
		nplaces := 1
		if r.Chance(1, 3) {
			nplaces = 2
		}
		for p := 0; p < nplaces; p++ {
			dir := common.Pick(r, usable)
			if p == 0 && r.Chance(1, 7) {
				dir = common.Pick(r, []string{"extra", "lib1/extra", "cwd/extra"})
				sp.hidden = dir
			}
			rel := filepath.Join(dir, sp.name+".jq")
			if r.Chance(1, 4) {
				rel = filepath.Join(dir, sp.name, filepath.Base(sp.name)+".jq")
			}
			if _, ok := w.files[rel]; ok {
				continue
			}
			if r.Chance(1, 40) {
				w.write(rel, &fnode{kind: common.Pick(r, []byte{'B', 'D'})})
				sp.places = append(sp.places, rel)
				continue
			}
			m := &module{}
			if r.Chance(1, 4) {
				m.directive = map[string]any{"name": sp.name, "version": k}
			}
			// imports of deeper modules
			var candidates []int
			for j := k + 1; j <= nmod; j++ {
				if specs[j].depth <= 2 {
					candidates = append(candidates, j)
				}
			}
			nimp := 0
			if len(candidates) > 0 {
				nimp = r.Intn(4)
			}
			for x := 0; x < nimp; x++ {
				j := common.Pick(r, candidates)
				i := g.importOf(specs[j], filepath.Dir(rel), false)
				m.imports = append(m.imports, i)
				if specs[j].depth+1 > sp.depth {
					sp.depth = specs[j].depth + 1
				}
			}
			if r.Chance(1, 3) {
				ds := common.Pick(r, datas)
				m.imports = append(m.imports, g.dataImportOf(ds.name, ds.hidden, filepath.Dir(rel), false))
			}
			for k2 := len(m.imports) - 1; k2 > 0; k2-- {
				j := r.Intn(k2 + 1)
				m.imports[k2], m.imports[j] = m.imports[j], m.imports[k2]
			}
			w.files[rel] = &fnode{kind: 'M', mod: m} // registered so that build() can see it
			w.mkdir(filepath.Dir(rel))
			g.fillDefs(m, w.abs(rel), "/R/"+rel, r.Range(1, 4))
			w.write(rel, &fnode{kind: 'M', mod: m})
			sp.places = append(sp.places, rel)
		}
	}
	// ~/.jq as an init file
	if hasHomeJq && jqMode == 1 {
		m := &module{}
		if r.Bool() && nmod >= 1 {
			j := r.Range(1, nmod)
			if specs[j].depth <= 2 {
				m.imports = append(m.imports, g.importOf(specs[j], "home", false))
			}
		}
		w.files["home/.jq"] = &fnode{kind: 'M', mod: m}
		g.fillDefs(m, w.abs("home/.jq"), "/R/home/.jq", r.Range(1, 2))
		if r.Chance(1, 12) {
			w.write("home/.jq", &fnode{kind: 'B'})
		} else {
			w.write("home/.jq", &fnode{kind: 'M', mod: m})
		}
	}
	// main query
	w.main = &module{}
	nimp := r.Range(1, 4)
	for x := 0; x < nimp; x++ {
		j := r.Range(1, nmod)
		w.main.imports = append(w.main.imports, g.importOf(specs[j], "", true))
	}
	for x := 0; x < r.Intn(3); x++ {
		ds := common.Pick(r, datas)
		w.main.imports = append(w.main.imports, g.dataImportOf(ds.name, ds.hidden, "", true))
	}
	if r.Chance(1, 30) {
		w.main.imports = append(w.main.imports, &imp{path: "missing", alias: common.Pick(r, []string{"", "z", "$z"})})
		if last := w.main.imports[len(w.main.imports)-1]; strings.HasPrefix(last.alias, "$") {
			last.isData = true
		}
	}
	for k2 := len(w.main.imports) - 1; k2 > 0; k2-- {
		j := r.Intn(k2 + 1)
		w.main.imports[k2], w.main.imports[j] = w.main.imports[j], w.main.imports[k2]
	}
	g.fillDefs(w.main, "", "<main>", r.Intn(3))
}

// importOf builds an import of module sp from a file in directory fromDir (relative to root;
// "" = the main query, whose relative search paths resolve against cwd).
func (g *gen) importOf(sp *modSpec, fromDir string, isMain bool) *imp {
	r, w := g.r, g.w
	i := &imp{path: sp.name}
	switch r.Intn(5) {
	case 0, 1:
		i.alias = ""
	default:
		i.alias = common.Pick(r, aliasNames)
	}
	g.addSearch(i, sp.hidden, fromDir, isMain)
	_ = w
	return i
}

func (g *gen) dataImportOf(name, hidden, fromDir string, isMain bool) *imp {
	i := &imp{path: name, alias: "$" + common.Pick(g.r, dataAliases), isData: true}
	g.addSearch(i, hidden, fromDir, isMain)
	return i
}

func (g *gen) addSearch(i *imp, hidden, fromDir string, isMain bool) {
	r, w := g.r, g.w
	if hidden == "" {
		if r.Chance(1, 8) {
			i.hasMeta = true
			i.meta = append(i.meta, metaKV{key: common.Pick(r, []string{"note", "search"}), other: common.Pick(r, []string{"null", "1", "[\"lib2\"]", "{}", "true"})})
			if r.Bool() {
				// a search entry that leads nowhere or to another search directory
				i.meta = append(i.meta, metaKV{key: "search", isStr: true, str: common.Pick(r, []string{"./nowhere", "../lib2", "../lib3", w.abs("lib1"), "~/lib", "$ORIGIN/../verif-c18-none"})})
			}
		}
		return
	}
	i.hasMeta = true
	base := w.abs(fromDir)
	if isMain {
		base = w.cwd()
	}
	target := w.abs(hidden)
	var s string
	switch r.Intn(3) {
	case 0:
		s = target
	default:
		rel, err := filepath.Rel(base, target)
		if err != nil {
			s = target
		} else {
			s = rel
			if r.Bool() && !strings.HasPrefix(s, "..") {
				s = "./" + s
			}
		}
	}
	if r.Chance(1, 6) {
		// an earlier `search` key that the later one overrides
		i.meta = append(i.meta, metaKV{key: "search", isStr: true, str: "./nowhere"})
	}
	i.meta = append(i.meta, metaKV{key: "search", isStr: true, str: s})
	if r.Chance(1, 6) {
		i.meta = append(i.meta, metaKV{key: "note", isStr: true, str: "x"})
	}
}

// fillDefs adds n definitions to m whose bodies call names that are visible at that point
// under the reference semantics (so that most programs compile).
func (g *gen) fillDefs(m *module, file, tagPrefix string, n int) {
	r, w := g.r, g.w
	t := w.build(m, file, 8)
	flat, env := w.flattenImports(t.imps, nil)
	type na struct {
		name  string
		arity int
	}
	var visible []na
	for _, d := range flat {
		if strings.Count(d.name, "::") <= 1 {
			visible = append(visible, na{d.name, d.arity})
		}
	}
	for k := 0; k < n; k++ {
		d := &def{name: common.Pick(r, defNames), arity: common.Pick(r, []int{0, 0, 0, 1, 2})}
		if isBuiltinClash(d.name, 0) {
			d.arity = 0
		}
		d.tag = fmt.Sprintf("%s#%d:%s/%d", tagPrefix, k, d.name, d.arity)
		for c, nc := 0, r.Intn(3); c < nc; c++ {
			switch x := r.Intn(10); {
			case x < 6 && len(visible) > 0:
				v := common.Pick(r, visible)
				if v.name == d.name && v.arity == d.arity {
					continue // would be a recursive call
				}
				d.calls = append(d.calls, call{name: v.name, arity: v.arity})
			case x < 7:
				b := common.Pick(r, builtinClash)
				if b.name == d.name && d.arity == 0 {
					continue
				}
				d.calls = append(d.calls, b)
			case x < 9 && len(env) > 0:
				d.calls = append(d.calls, call{name: common.Pick(r, env).name, isVar: true})
			case len(w.globals) > 0:
				d.calls = append(d.calls, call{name: common.Pick(r, w.globals)[1:], isVar: true})
			}
		}
		m.defs = append(m.defs, d)
		visible = append(visible, na{d.name, d.arity})
	}
}

package main

// defaultPathsOracle: the command's DEFAULT module search path (no -L): ~/.jq, $ORIGIN/../lib/gojq,
// $ORIGIN/../lib — in this order ($ORIGIN = the directory of the executable). The in-process
// command resolves $ORIGIN to the directory of this harness binary, so the two library
// directories are created next to it (unique module names per process, removed afterwards).

import (
	"fmt"
	"os"
	"path/filepath"
	"strings"

	"github.com/itchyny/gojq/cli"

	"verifharness/common"
)

func defaultPathsOracle(ctx *common.Ctx) {
	orc := ctx.NewOracle("default-search-path", "no -L: a module / data file present in several default directories is taken from the first of ~/.jq, $ORIGIN/../lib/gojq, $ORIGIN/../lib that has it (flat name.jq and name/name.jq layouts, modules and data), names present in one directory only resolve there; real cli.run in-process with HOME and the two $ORIGIN directories materialised; distinct = probes")
	exe, err := os.Executable()
	if err != nil {
		ctx.Res.Notes = append(ctx.Res.Notes, "default-search-path: os.Executable failed: "+err.Error())
		return
	}
	origin := filepath.Dir(exe)
	libGojq := filepath.Join(origin, "..", "lib", "gojq")
	lib := filepath.Join(origin, "..", "lib")
	home, err := os.MkdirTemp("", "c18home")
	if err != nil {
		return
	}
	defer os.RemoveAll(home)
	tag := fmt.Sprintf("zz%d", os.Getpid())
	var created []string
	write := func(dir, rel, content string) {
		p := filepath.Join(dir, rel)
		os.MkdirAll(filepath.Dir(p), 0o755)
		if os.WriteFile(p, []byte(content), 0o644) == nil {
			created = append(created, p)
		}
	}
	defer func() {
		for _, p := range created {
			os.Remove(p)
			os.Remove(filepath.Dir(p)) // name/name.jq directories (fails silently when not empty)
		}
	}()
	dirs := map[string]string{"home": filepath.Join(home, ".jq"), "gojq": libGojq, "lib": lib}
	order := []string{"home", "gojq", "lib"}
	// every non-empty subset of the three directories holds the module; expected = first in order
	n := 0
	for mask := 1; mask < 8; mask++ {
		for _, layout := range []string{"flat", "dir", "data"} {
			name := fmt.Sprintf("%s_%d_%s", tag, mask, layout)
			want := ""
			for i, d := range order {
				if mask&(1<<i) == 0 {
					continue
				}
				if want == "" {
					want = d
				}
				switch layout {
				case "flat":
					write(dirs[d], name+".jq", fmt.Sprintf("def f: %q;", d))
				case "dir":
					write(dirs[d], filepath.Join(name, name+".jq"), fmt.Sprintf("def f: %q;", d))
				default:
					write(dirs[d], name+".json", fmt.Sprintf("%q", d))
				}
			}
			q := fmt.Sprintf("import %q as m; m::f", name)
			if layout == "data" {
				q = fmt.Sprintf("import %q as $m; $m[0]", name)
			}
			old, had := os.LookupEnv("HOME")
			os.Setenv("HOME", home)
			out, errOut, code := cli.VerifRun([]string{"-n", "-r", q}, nil)
			if had {
				os.Setenv("HOME", old)
			} else {
				os.Unsetenv("HOME")
			}
			orc.Cases++
			n++
			got := strings.TrimSpace(string(out))
			if code != 0 || got != want {
				ctx.Violate(fmt.Sprintf("default-search-path:%s:%d", layout, mask), fmt.Sprintf("no -L: %s present in %v (layout %s) is taken from %q (status %d, stderr %q), the documented order ~/.jq, $ORIGIN/../lib/gojq, $ORIGIN/../lib demands %q", name, present(order, mask), layout, got, code, clipS(string(errOut)), want),
					map[string]any{"layout": layout, "present_in": present(order, mask), "observed": got, "expected": want, "status": code,
						"cmd": "install gojq as BIN/gojq, put the module into HOME/.jq/, BIN/../lib/gojq/ and BIN/../lib/ as listed, run without -L: gojq -n -r '" + q + "'"})
			}
		}
	}
	orc.Distinct = n
}

func present(order []string, mask int) []string {
	var out []string
	for i, d := range order {
		if mask&(1<<i) != 0 {
			out = append(out, d)
		}
	}
	return out
}

func clipS(s string) string {
	if len(s) > 200 {
		return s[:200] + "…"
	}
	return s
}

package main

import "fmt"

// Hand-written worlds: the shapes behind D9 and its relatives, and the resolution-order
// corner cases, so that every run contains them whatever the seed.

type scenario struct {
	name  string
	build func(w *world)
}

func fn(name string, arity int, calls ...call) *def { return &def{name: name, arity: arity, calls: calls} }
func cf(name string, arity int) call                { return call{name: name, arity: arity} }
func cv(name string) call                           { return call{name: name, isVar: true} }

func include(path string) *imp        { return &imp{path: path} }
func importAs(path, alias string) *imp { return &imp{path: path, alias: alias} }
func importData(path, alias string) *imp {
	return &imp{path: path, alias: "$" + alias, isData: true}
}
func (i *imp) search(s string) *imp {
	i.hasMeta = true
	i.meta = append(i.meta, metaKV{key: "search", isStr: true, str: s})
	return i
}

func mod(imports []*imp, defs ...*def) *module { return &module{imports: imports, defs: defs} }

func (w *world) put(rel string, m *module) {
	for k, d := range m.defs {
		d.tag = fmt.Sprintf("/R/%s#%d:%s/%d", rel, k, d.name, d.arity)
	}
	w.write(rel, &fnode{kind: 'M', mod: m})
}

func (w *world) putData(rel string, n int) { w.write(rel, &fnode{kind: 'J', id: "/R/" + rel, nvals: n}) }

func (w *world) setMain(m *module) {
	for k, d := range m.defs {
		d.tag = fmt.Sprintf("<main>#%d:%s/%d", k, d.name, d.arity)
	}
	w.main = m
}

func basic(w *world) {
	w.homeSet = true
	w.mkdir("lib1")
	w.rawPaths = []string{w.abs("lib1")}
}

func scenarios() []scenario {
	return []scenario{
		{"d9-import", func(w *world) {
			basic(w)
			w.put("lib1/m1.jq", mod(nil, fn("f", 0)))
			w.put("lib1/m2.jq", mod(nil, fn("g", 0)))
			w.setMain(mod([]*imp{importAs("m1", "a"), importAs("m2", "b")}))
		}},
		{"d9-include-then-import", func(w *world) {
			basic(w)
			w.put("lib1/m1.jq", mod(nil, fn("f", 0), fn("f", 1)))
			w.put("lib1/m4.jq", mod(nil, fn("h", 0)))
			w.setMain(mod([]*imp{include("m1"), importAs("m4", "d")}))
		}},
		{"importer-data-not-visible-in-module", func(w *world) {
			basic(w)
			w.putData("lib1/d1.json", 2)
			w.put("lib1/m5.jq", mod(nil, fn("k", 0)))
			w.setMain(mod([]*imp{importData("d1", "d"), importAs("m5", "x")}))
		}},
		{"later-data-import-does-not-overwrite-global-seen-by-module", func(w *world) {
			basic(w)
			w.globals = []string{"$v"}
			w.putData("lib1/d2.json", 1)
			w.put("lib1/mv.jq", mod(nil, fn("fv", 0, cv("v"))))
			w.setMain(mod([]*imp{importAs("mv", "a"), importData("d2", "v")}))
		}},
		{"later-data-import-does-not-overwrite-earlier-one-seen-by-include", func(w *world) {
			basic(w)
			w.putData("lib1/d1.json", 1)
			w.putData("lib1/d2.json", 2)
			w.put("lib1/mf.jq", mod(nil, fn("f", 0, cv("d"), cv("d::d"))))
			w.setMain(mod([]*imp{importData("d1", "d"), include("mf"), importData("d2", "d")}))
		}},
		{"include-is-textual", func(w *world) {
			basic(w)
			w.put("lib1/m1.jq", mod(nil, fn("f", 0)))
			w.put("lib1/m4.jq", mod(nil, fn("h", 0, cf("f", 0))))
			w.setMain(mod([]*imp{include("m1"), include("m4")}, fn("top", 0, cf("h", 0))))
		}},
		{"include-splices-the-imports-of-the-included-file", func(w *world) {
			basic(w)
			w.put("lib1/m1.jq", mod(nil, fn("f", 0)))
			w.put("lib1/m9.jq", mod([]*imp{importAs("m1", "y")}, fn("g", 0, cf("y::f", 0))))
			w.setMain(mod([]*imp{include("m9")}))
		}},
		{"nested-alias-chain", func(w *world) {
			basic(w)
			w.put("lib1/x.jq", mod(nil, fn("f", 0), fn("f", 2)))
			w.putData("lib1/dd.json", 3)
			w.put("lib1/m.jq", mod([]*imp{importAs("x", "y"), importData("dd", "d")}, fn("g", 0, cf("y::f", 0), cf("y::f", 2), cv("d"))))
			w.setMain(mod([]*imp{importAs("m", "a")}, fn("f", 0, cf("a::g", 0))))
		}},
		{"same-alias-twice", func(w *world) {
			basic(w)
			w.put("lib1/m1.jq", mod(nil, fn("f", 0), fn("g", 0)))
			w.put("lib1/m2.jq", mod(nil, fn("f", 0), fn("h", 0, cf("f", 0))))
			w.setMain(mod([]*imp{importAs("m1", "a"), importAs("m2", "a")}))
		}},
		{"diamond", func(w *world) {
			basic(w)
			w.put("lib1/m3.jq", mod(nil, fn("f", 0), fn("length", 0)))
			w.put("lib1/m1.jq", mod([]*imp{importAs("m3", "c")}, fn("g", 0, cf("c::f", 0), cf("length", 0))))
			w.put("lib1/m2.jq", mod([]*imp{include("m3")}, fn("g", 0, cf("f", 0), cf("length", 0))))
			w.setMain(mod([]*imp{importAs("m1", "a"), importAs("m2", "b")}, fn("length", 0, cf("not", 0))))
		}},
		{"relative-search-against-the-importing-file", func(w *world) {
			basic(w)
			w.put("lib1/priv/x.jq", mod(nil, fn("f", 0)))
			w.put("cwd/priv/x.jq", mod(nil, fn("f", 0)))
			w.put("lib1/m1.jq", mod([]*imp{importAs("x", "y").search("./priv")}, fn("g", 0, cf("y::f", 0))))
			w.setMain(mod([]*imp{importAs("m1", "a"), importAs("x", "z").search("priv")}))
		}},
		{"name-jq-before-name-name-jq-and-directory-order", func(w *world) {
			basic(w)
			w.mkdir("lib2")
			w.rawPaths = []string{w.abs("lib1"), "../lib2"}
			w.put("lib1/m.jq", mod(nil, fn("f", 0)))
			w.put("lib1/m/m.jq", mod(nil, fn("f", 0)))
			w.put("lib1/n/n.jq", mod(nil, fn("f", 0)))
			w.put("lib2/n.jq", mod(nil, fn("f", 0)))
			w.put("lib2/sub/o/o.jq", mod(nil, fn("f", 0)))
			w.setMain(mod([]*imp{importAs("m", "a"), importAs("n", "b"), importAs("sub/o", "c")}))
		}},
		{"home-jq-file-is-auto-included-into-main-only", func(w *world) {
			basic(w)
			w.rawPaths = []string{"~/.jq", w.abs("lib1")}
			w.put("home/.jq", mod(nil, fn("initf", 0)))
			w.put("lib1/m1.jq", mod(nil, fn("g", 0)))
			w.setMain(mod([]*imp{importAs("m1", "a")}, fn("top", 0, cf("initf", 0))))
		}},
		{"home-jq-file-imports-with-relative-search", func(w *world) {
			// relative `search` entries of the init file's own imports are resolved against the
			// directory that contains ~/.jq (not its parent, not the working directory)
			basic(w)
			w.rawPaths = []string{"~/.jq", w.abs("lib1")}
			w.put("home/jqlib/x.jq", mod(nil, fn("f", 0)))
			w.put("jqlib/x.jq", mod(nil, fn("f", 0), fn("wrong", 0)))
			w.put("cwd/jqlib/x.jq", mod(nil, fn("f", 0), fn("wrongcwd", 0)))
			w.putData("home/jqlib/d.json", 2)
			w.put("home/.jq", mod([]*imp{importAs("x", "x").search("./jqlib"), importData("d", "hd").search("jqlib")}, fn("initf", 0, cf("x::f", 0), cv("hd"))))
			w.put("lib1/m1.jq", mod(nil, fn("g", 0)))
			w.setMain(mod([]*imp{importAs("m1", "a")}, fn("top", 0, cf("initf", 0))))
		}},
		{"home-jq-file-includes-with-relative-search", func(w *world) {
			basic(w)
			w.rawPaths = []string{"~/.jq"}
			w.put("home/sub/inc.jq", mod(nil, fn("incf", 0)))
			w.put("sub/inc.jq", mod(nil, fn("incf", 0), fn("wrong", 0)))
			w.put("home/.jq", mod([]*imp{include("inc").search("./sub")}, fn("initf", 0, cf("incf", 0))))
			w.setMain(mod(nil, fn("top", 0, cf("initf", 0), cf("incf", 0))))
		}},
		{"home-jq-directory-is-a-search-directory", func(w *world) {
			basic(w)
			w.rawPaths = []string{"~/.jq"}
			w.put("home/.jq/m1.jq", mod(nil, fn("g", 0)))
			w.setMain(mod([]*imp{importAs("m1", "a")}))
		}},
	}
}

// C18 — modules behave as textual inclusion with namespacing.
//
// correspondence streams (real gojq.NewModuleLoader + gojq.Compile + Run vs Model/Modules.lean):
//
//	modules    — abstract FS + search paths + main header + probe -> what the probe resolves to
//	lookup     — LoadModuleWithMeta / LoadJSONWithMeta called directly -> file found
//	modulemeta — module text -> sorted defs, deps in order
//
// oracles (model-free; the reference is the harness's own textual flattening in world.go and
// gojq's single-file compiler run on the inlined program text):
//
//	inline     — every visible name: modular program vs inlined-and-renamed program
//	nonleak    — a probe per invisible name must fail to compile, in the main query and inside
//	             module bodies (key `module-sees-importer-names` for the latter)
//	data       — `$d` and `$d::d` are the array of the file's values
//	modulemeta — metadata + deps in order + sorted defs
package main

import (
	"encoding/json"
	"fmt"
	"os"
	"path/filepath"
	"reflect"
	"regexp"
	"sort"
	"strings"

	"github.com/itchyny/gojq"

	"verifharness/common"
)

// ---------------------------------------------------------------- running the real code

func (w *world) options() []gojq.CompilerOption {
	return []gojq.CompilerOption{
		gojq.WithModuleLoader(gojq.NewModuleLoader(w.rawPaths)),
		gojq.WithVariables(w.globals),
	}
}

func (w *world) globalValues() []any {
	vs := make([]any, len(w.globals))
	for i, g := range w.globals {
		vs[i] = map[string]any{"g": g}
	}
	return vs
}

// realRun compiles and runs a main query text in world w: (class, value, error text).
func (w *world) realRun(src string, useLoader bool) (class string, val any, detail string) {
	defer func() {
		if r := recover(); r != nil {
			class, detail = "PANIC", fmt.Sprint(r)
		}
	}()
	q, err := gojq.Parse(src)
	if err != nil {
		return "PARSEERR", nil, err.Error()
	}
	opts := []gojq.CompilerOption{gojq.WithVariables(w.globals)}
	if useLoader {
		opts = w.options()
	}
	code, err := gojq.Compile(q, opts...)
	if err != nil {
		m := err.Error()
		if strings.Contains(m, "function not defined") || strings.Contains(m, "variable not defined") {
			return "undefined", nil, m
		}
		return "loaderr", nil, m
	}
	o := common.RunCode(code, nil, 3000000, 4, w.globalValues()...)
	switch {
	case o.Panic != "":
		return "PANIC", nil, o.Panic
	case o.Err != nil:
		return "RUNERR", nil, o.Err.Error()
	case o.Budget:
		return "BUDGET", nil, ""
	case len(o.Outs) != 1:
		return "RUNERR", nil, fmt.Sprintf("%d outputs, budget=%v", len(o.Outs), o.Budget)
	}
	return "ok", o.Outs[0], ""
}

// renderVal turns the value a probe yields into the model's rendering.
func renderVal(v any) string {
	switch v := v.(type) {
	case map[string]any:
		if g, ok := v["g"].(string); ok {
			return "G:" + g
		}
		tag, _ := v["t"].(string)
		cs, _ := v["c"].([]any)
		subs := make([]string, len(cs))
		for i, c := range cs {
			subs[i] = renderVal(c)
		}
		return tag + "(" + strings.Join(subs, ",") + ")"
	case []any:
		id := "?"
		for i, x := range v {
			m, _ := x.(map[string]any)
			if m == nil || fmt.Sprint(m["i"]) != fmt.Sprint(i) {
				return "BADDATA"
			}
			id, _ = m["d"].(string)
		}
		if len(v) == 0 {
			return "D:*" // identity not observable for an empty file
		}
		return "D:" + id
	case int:
		if v == 0 {
			return "B:length/0"
		}
	case bool:
		if v {
			return "B:not/0"
		}
	}
	return "UNEXPECTED:" + fmt.Sprint(v)
}

// ---------------------------------------------------------------- per-world checks

type na struct {
	name  string
	arity int
}

type instance struct {
	file          string // real path of the aliased module file
	importerFuncs []na
	importerVars  []string
}

func namesOf(flat []*fdef) []na {
	var out []na
	for _, d := range flat {
		if strings.Count(d.name, "::") <= 1 {
			out = append(out, na{d.name, d.arity})
		}
	}
	return out
}

// walk collects, for every `import … as a` instance reachable from t, the names visible in
// the importing file at that import, and the set of files that are included somewhere.
func (w *world) walk(t *mtree, cur []na, vars []string, insts *[]instance, included map[string]bool) {
	cur = append([]na(nil), cur...)
	vars = append([]string(nil), vars...)
	for _, it := range t.imps {
		switch it.kind {
		case 1:
			a := it.imp.alias[1:]
			vars = append(vars, a, a+"::"+a)
		case 0:
			if it.imp.alias == "" {
				included[it.t.file] = true
				w.walk(it.t, cur, vars, insts, included)
				cur = append(cur, namesOf(w.flattenMod(it.t, nil))...)
			} else {
				*insts = append(*insts, instance{it.t.file, append([]na(nil), cur...), append([]string(nil), vars...)})
				w.walk(it.t, nil, nil, insts, included)
				cur = append(cur, namesOf(renameBlock(w.flattenMod(it.t, nil), it.imp.alias))...)
			}
		}
	}
}

func (w *world) initModules() (mods []*itree, failed bool) {
	for _, p := range w.loaderDirs() {
		if filepath.Base(p) != ".jq" {
			continue
		}
		ap := w.absolute(p)
		fi, err := os.Stat(ap)
		if err != nil || fi.IsDir() {
			continue
		}
		n := w.nodeAt(ap)
		if n == nil || n.kind != 'M' {
			return nil, true
		}
		mods = append(mods, &itree{imp: &imp{path: ap}, kind: 0, t: w.build(n.mod, ap, 8)})
	}
	return mods, false
}

func headerText(m *module) string {
	var sb strings.Builder
	for _, i := range m.imports {
		sb.WriteString(i.text() + " ")
	}
	for _, d := range m.defs {
		sb.WriteString(d.text() + " ")
	}
	return sb.String()
}

type checker struct {
	ctx                                    *common.Ctx
	st, stLookup, stMeta                   *common.Stream
	oInline, oLeak, oData, oMeta           *common.Oracle
	lines, impl                            []string
	lookLines, lookImpl, metaLines, metaIm []string
	distinctInline, distinctLeak           map[string]bool
	seenLine                               map[string]bool
}

func (c *checker) addLine(line, ans string) {
	if ans == "BUDGET" {
		c.st.Distribution["skipped:step-budget"]++
		return
	}
	if c.seenLine[line] {
		return
	}
	c.seenLine[line] = true
	c.lines = append(c.lines, line)
	c.impl = append(c.impl, ans)
}

func (c *checker) replay(w *world, src string, extra map[string]any) map[string]any {
	files := map[string]string{}
	for rel, n := range w.files {
		if n.kind == 'D' {
			continue
		}
		b, _ := os.ReadFile(w.abs(rel))
		files[rel] = string(b)
	}
	m := map[string]any{"query": src, "files_relative_to_root": files, "loader_paths": w.rawPaths, "cwd": "root/cwd",
		"home_set": w.homeSet, "variables": w.globals,
		"cmd": "materialise the files under a directory ROOT, cd ROOT/cwd, HOME=ROOT/home gojq -n " + strings.Join(lArgs(w), " ") + " '" + src + "'"}
	for k, v := range extra {
		m[k] = v
	}
	return m
}

func lArgs(w *world) []string {
	var xs []string
	for _, p := range w.rawPaths {
		xs = append(xs, "-L", "'"+w.mapPath(p)+"'")
	}
	return xs
}

// classify a modular answer line for the correspondence stream
func answer(class string, v any) string {
	if class == "ok" {
		return "ok " + renderVal(v)
	}
	return class
}

func (c *checker) checkWorld(w *world, scenario string) {
	ctx := c.ctx
	if err := os.Chdir(w.cwd()); err != nil {
		panic(err)
	}
	if w.homeSet {
		os.Setenv("HOME", w.abs("home"))
	} else {
		os.Unsetenv("HOME")
	}
	inits, initFailed := w.initModules()
	mainTree := w.build(w.main, "", 8)
	full := &mtree{file: "", mod: w.main, imps: append(append([]*itree(nil), inits...), mainTree.imps...)}
	treeFailed := initFailed || full.failed()
	flat := w.flattenMod(full, nil)
	_, env := w.flattenImports(full.imps, nil)
	unresolved := false
	for _, d := range flat {
		for _, cl := range d.calls {
			if cl.unres {
				unresolved = true
			}
		}
	}
	hyg := hygienic(flat)
	header := headerText(w.main)
	var inlineDefs strings.Builder
	for _, d := range flat {
		inlineDefs.WriteString(inlineDefText(d) + " ")
	}
	kind := "ok-tree"
	if treeFailed {
		kind = "load-failure"
	} else if unresolved {
		kind = "unresolved-var"
	} else if !hyg {
		kind = "unhygienic"
	}
	c.st.Distribution["world:"+kind]++
	if scenario != "" {
		c.st.Distribution["scenario"]++
	}

	visible := map[na]bool{}
	for _, n := range namesOf(flat) {
		visible[n] = true
	}
	// ---- probes of visible function names ------------------------------------------------
	var vis []na
	for n := range visible {
		vis = append(vis, n)
	}
	sort.Slice(vis, func(i, j int) bool { return vis[i].name < vis[j].name || vis[i].name == vis[j].name && vis[i].arity < vis[j].arity })
	if len(vis) == 0 {
		vis = append(vis, na{"length", 0})
	}
	for _, n := range vis {
		pc := call{name: n.name, arity: n.arity}
		src := header + callText(pc)
		class, v, detail := w.realRun(src, true)
		c.addLine(w.line(pc), answer(class, v))
		if class == "PANIC" {
			ctx.Violate("modules:panic:"+detail, "compiling a query with modules panics: "+detail, c.replay(w, src, nil))
			continue
		}
		c.oInline.Cases++
		if treeFailed {
			c.oInline.Distribution["load-failure"]++
			if class == "ok" {
				ctx.Violate("modules:load-failure-ignored", "a module that cannot be loaded is ignored: "+src, c.replay(w, src, map[string]any{"observed": renderVal(v), "expected": "compile error"}))
			}
			continue
		}
		if unresolved || !hyg {
			c.oInline.Distribution["skipped:"+kind]++
			continue
		}
		isrc := inlineDefs.String() + callText(call{name: flatName(n.name), arity: n.arity})
		iclass, iv, idetail := w.realRun(isrc, false)
		c.oInline.Distribution["compared"]++
		if class == "BUDGET" || iclass == "BUDGET" {
			continue
		}
		if class != iclass || class == "ok" && !sameJSON(v, iv) {
			got, want := class+" "+detail, iclass+" "+idetail
			if class == "ok" {
				got = renderVal(v)
			}
			if iclass == "ok" {
				want = renderVal(iv)
			}
			key := "modules:inline-mismatch"
			if class == "ok" && iclass == "ok" && fileOf(renderVal(v)) != fileOf(renderVal(iv)) {
				key = "modules:resolution-order"
			}
			if class == "ok" && iclass == "ok" && varLeaf.ReplaceAllString(renderVal(v), "V") == varLeaf.ReplaceAllString(renderVal(iv), "V") {
				// same definitions, a variable shows another binding: a later import of the same
				// variable name overwrote the slot an earlier-compiled body refers to
				key = "modules:variable-rebound-by-later-import"
			}
			ctx.Violate(key, fmt.Sprintf("`%s` with modules gives %s, with the module text inlined and renamed %s", callText(pc), got, want),
				c.replay(w, src, map[string]any{"inlined_query": isrc, "observed": got, "expected": want}))
		}
		if class == "ok" {
			c.distinctInline[renderVal(v)] = true
		}
	}
	// ---- probes of visible variables (data imports of the main header, globals) ----------
	var pv []string
	seenV := map[string]bool{}
	for k := len(env) - 1; k >= 0; k-- {
		if !seenV[env[k].name] {
			seenV[env[k].name] = true
			pv = append(pv, env[k].name)
		}
	}
	for _, g := range w.globals {
		if !seenV[g[1:]] {
			seenV[g[1:]] = true
			pv = append(pv, g[1:])
		}
	}
	for _, name := range pv {
		pc := call{name: name, isVar: true}
		src := header + callText(pc)
		class, v, detail := w.realRun(src, true)
		c.addLine(w.line(pc), answer(class, v))
		c.oData.Cases++
		if treeFailed || unresolved {
			continue
		}
		var want string
		if b := lookupVarB(env, name); b != nil {
			want = dataArray(b.id, b.nvals)
			c.oData.Distribution["data"]++
		} else {
			want = `{"g": "$` + name + `"}`
			c.oData.Distribution["global"]++
		}
		var wv any
		json.Unmarshal([]byte(want), &wv)
		gotb, _ := gojq.Marshal(v)
		wantb, _ := json.Marshal(wv)
		var gv any
		json.Unmarshal(gotb, &gv)
		if class != "ok" || !reflect.DeepEqual(gv, wv) {
			ctx.Violate("modules:data-binding", fmt.Sprintf("$%s is %s %s%s, expected %s", name, class, detail, gotb, wantb),
				c.replay(w, src, map[string]any{"observed": class + " " + string(gotb), "expected": string(wantb)}))
		}
	}
	// ---- invisible names in the main query -----------------------------------------------
	cands := map[call]bool{}
	for _, n := range w.files {
		if n.kind != 'M' {
			continue
		}
		for _, d := range n.mod.defs {
			cands[call{name: d.name, arity: d.arity}] = true
			cands[call{name: common.Pick(ctx.R, aliasNames) + "::" + d.name, arity: d.arity}] = true
		}
		for _, i := range n.mod.imports {
			if i.isData {
				cands[call{name: i.alias[1:], isVar: true}] = true
				cands[call{name: i.alias[1:] + "::" + i.alias[1:], isVar: true}] = true
			}
		}
	}
	var cl []call
	for cc := range cands {
		if cc.isVar && (seenV[cc.name]) || !cc.isVar && (visible[na{cc.name, cc.arity}] || isBuiltinClash(cc.name, cc.arity)) {
			continue
		}
		cl = append(cl, cc)
	}
	sort.Slice(cl, func(i, j int) bool { return fmt.Sprint(cl[i]) < fmt.Sprint(cl[j]) })
	for k := len(cl) - 1; k > 0; k-- {
		j := ctx.R.Intn(k + 1)
		cl[k], cl[j] = cl[j], cl[k]
	}
	if len(cl) > 6 {
		cl = cl[:6]
	}
	for _, pc := range cl {
		src := header + callText(pc)
		class, v, _ := w.realRun(src, true)
		c.addLine(w.line(pc), answer(class, v))
		c.oLeak.Cases++
		c.oLeak.Distribution["main-invisible"]++
		if treeFailed {
			continue
		}
		if class == "ok" {
			what := "a name that the main query did not import is callable"
			ctx.Violate("modules:leak-into-importer:"+kindOfName(pc), fmt.Sprintf("%s: `%s` yields %s", what, callText(pc), renderVal(v)),
				c.replay(w, src, map[string]any{"observed": renderVal(v), "expected": "compile error: not defined"}))
		}
		c.distinctLeak["main:"+callText(pc)] = true
	}
	// ---- importer names must not be visible inside imported modules ------------------------
	if !treeFailed && !unresolved {
		var insts []instance
		included := map[string]bool{}
		w.walk(full, nil, nil, &insts, included)
		done := map[string]bool{}
		for _, in := range insts {
			if included[in.file] {
				continue
			}
			node := w.nodeAt(in.file)
			own := map[call]bool{}
			mt := w.build(node.mod, in.file, 8)
			for _, n := range namesOf(w.flattenMod(mt, nil)) {
				own[call{name: n.name, arity: n.arity}] = true
			}
			_, oenv := w.flattenImports(mt.imps, nil)
			for _, b := range oenv {
				own[call{name: b.name, isVar: true}] = true
			}
			var ps []call
			for _, n := range in.importerFuncs {
				ps = append(ps, call{name: n.name, arity: n.arity})
			}
			for _, v := range in.importerVars {
				ps = append(ps, call{name: v, isVar: true})
			}
			cnt := 0
			for _, pc := range ps {
				key := in.file + "|" + fmt.Sprint(pc)
				if own[pc] || done[key] || !pc.isVar && isBuiltinClash(pc.name, pc.arity) || pc.isVar && w.isGlobal(pc.name) {
					continue
				}
				done[key] = true
				if cnt++; cnt > 4 {
					break
				}
				c.leakProbe(w, in.file, node, pc, header)
			}
		}
	}
	// ---- direct lookups and modulemeta -----------------------------------------------------
	c.lookups(w)
	c.modulemeta(w)
}

var varLeaf = regexp.MustCompile(`[DG]:[^,()]*`)

func sameJSON(a, b any) bool {
	x, err1 := gojq.Marshal(a)
	y, err2 := gojq.Marshal(b)
	return err1 == nil && err2 == nil && string(x) == string(y)
}

func kindOfName(c call) string {
	switch {
	case c.isVar:
		return "variable"
	case strings.Contains(c.name, "::"):
		return "qualified"
	}
	return "plain"
}

func fileOf(res string) string {
	if i := strings.Index(res, "#"); i >= 0 {
		return res[:i]
	}
	return res
}

// leakProbe appends `def zz_leak: <name>;` to the module file and expects a compile error.
func (c *checker) leakProbe(w *world, file string, node *fnode, pc call, header string) {
	ctx := c.ctx
	rel, _ := filepath.Rel(w.root, file)
	orig := node.mod
	mod := *orig
	mod.defs = append(append([]*def(nil), orig.defs...), &def{name: "zz_leak", tag: "/R/" + rel + "#leak", calls: []call{pc}})
	w.write(rel, &fnode{kind: 'M', mod: &mod})
	defer w.write(rel, &fnode{kind: 'M', mod: orig})
	probe := call{name: "length"}
	src := header + callText(probe)
	class, v, detail := w.realRun(src, true)
	c.addLine(w.line(probe), answer(class, v))
	c.oLeak.Cases++
	c.oLeak.Distribution["module-body:"+kindOfName(pc)]++
	c.distinctLeak[w.mapPath(file)+":"+callText(pc)] = true
	if class == "ok" {
		ctx.Violate("module-sees-importer-names",
			fmt.Sprintf("inside module %s the name `%s`, which belongs to its importer, resolves (the program compiles)", w.mapPath(file), callText(pc)),
			c.replay(w, src, map[string]any{"observed": "compiles", "expected": "compile error: " + callText(pc) + " not defined", "module_with_probe": "/R/" + rel}))
	} else if class != "undefined" {
		ctx.Violate("modules:leak-probe-"+class, fmt.Sprintf("probe `%s` in %s: %s %s", callText(pc), w.mapPath(file), class, detail), c.replay(w, src, nil))
	}
}

// ---------------------------------------------------------------- lookup stream

type metaLoader interface {
	LoadModuleWithMeta(string, map[string]any) (*gojq.Query, error)
	LoadJSONWithMeta(string, map[string]any) (any, error)
}

func (c *checker) lookups(w *world) {
	r := c.ctx.R
	loader := gojq.NewModuleLoader(w.rawPaths).(metaLoader)
	names := map[string]bool{}
	for rel, n := range w.files {
		if n.kind == 'D' {
			continue
		}
		b := strings.TrimSuffix(strings.TrimSuffix(filepath.Base(rel), ".jq"), ".json")
		names[b] = true
		names["sub/"+b] = true
	}
	var ns []string
	for n := range names {
		if n != "" && !strings.HasPrefix(n, ".") {
			ns = append(ns, n)
		}
	}
	sort.Strings(ns)
	for _, name := range ns {
		if !r.Chance(2, 3) {
			continue
		}
		for _, ext := range []string{".jq", ".json"} {
			var meta map[string]any
			i := &imp{path: name}
			if r.Chance(1, 3) {
				s := common.Pick(r, []string{w.abs("extra"), "../extra", "extra", "./../lib2", w.abs("lib3"), "~/lib", "~/.jq", "../lib1/extra"})
				meta = map[string]any{"search": s}
				i.hasMeta, i.meta = true, []metaKV{{key: "search", isStr: true, str: s}}
			} else if r.Chance(1, 6) {
				meta = map[string]any{"search": []any{"../extra"}}
				i.hasMeta, i.meta = true, []metaKV{{key: "search", other: "[]"}}
			}
			var found string
			if ext == ".jq" {
				q, err := loader.LoadModuleWithMeta(name, meta)
				switch {
				case err == nil && len(q.FuncDefs) > 0:
					found = tagFile(q.FuncDefs[0])
				case err != nil && strings.HasPrefix(err.Error(), "module not found"):
					found = "-"
				}
			} else {
				v, err := loader.LoadJSONWithMeta(name, meta)
				switch {
				case err == nil:
					if xs, _ := v.([]any); len(xs) > 0 {
						if m, _ := xs[0].(map[string]any); m != nil {
							found, _ = m["d"].(string)
						}
					}
				case strings.HasPrefix(err.Error(), "module not found"):
					found = "-"
				}
			}
			if found == "" {
				continue // found something whose identity cannot be read back (directory, broken or empty file)
			}
			var sb strings.Builder
			w.encEnvPathsFS(&sb)
			w.encFS(&sb)
			sb.WriteString(" " + stok(name) + " " + stok(ext))
			w.encMeta(&sb, i)
			c.lookLines = append(c.lookLines, sb.String())
			if found == "-" {
				c.lookImpl = append(c.lookImpl, "notfound")
			} else {
				c.lookImpl = append(c.lookImpl, "found "+found)
			}
			// oracle (d): the reference candidate walk
			want, ok := w.refLookup(i, ext, "")
			wantS := "notfound"
			if ok {
				wantS = "found " + w.mapPath(want)
			}
			c.oInline.Distribution["lookup-checked"]++
			if got := c.lookImpl[len(c.lookImpl)-1]; got != wantS {
				c.ctx.Violate("modules:resolution-order", fmt.Sprintf("module %q%s resolves to %s, the first existing candidate is %s", name, ext, got, wantS),
					c.replay(w, "import "+jstr(name)+" …", map[string]any{"meta": meta, "observed": got, "expected": wantS}))
			}
			c.stLookup.Distribution[strings.Fields(lastOf(c.lookImpl))[0]+ext]++
		}
	}
}

func lastOf(xs []string) string { return xs[len(xs)-1] }

func tagFile(fd *gojq.FuncDef) string {
	s := fd.Body.String()
	if i := strings.Index(s, `"/R/`); i >= 0 {
		s = s[i+1:]
		if j := strings.Index(s, "#"); j >= 0 {
			return s[:j]
		}
	}
	return ""
}

// ---------------------------------------------------------------- modulemeta

func (c *checker) modulemeta(w *world) {
	ctx := c.ctx
	seen := map[string]bool{}
	for rel, n := range w.files {
		if n.kind != 'M' || rel == "home/.jq" {
			continue
		}
		name := strings.TrimSuffix(filepath.Base(rel), ".jq")
		if strings.Contains(rel, "/sub/") {
			name = "sub/" + name
		}
		if seen[name] {
			continue
		}
		seen[name] = true
		p, ok := w.refLookup(&imp{path: name}, ".jq", "")
		if !ok {
			continue
		}
		node := w.nodeAt(p)
		if node == nil || node.kind != 'M' {
			continue
		}
		src := jstr(name) + " | modulemeta"
		q, _ := gojq.Parse(src)
		code, err := gojq.Compile(q, w.options()...)
		if err != nil {
			continue // ~/.jq broken
		}
		o := common.RunCode(code, nil, 100000, 2, w.globalValues()...)
		c.oMeta.Cases++
		if o.Err != nil || len(o.Outs) != 1 {
			ctx.Violate("modules:modulemeta-error", fmt.Sprintf("%s fails: %v", src, o.Err), c.replay(w, src, nil))
			continue
		}
		b, _ := gojq.Marshal(o.Outs[0])
		var gotv map[string]any
		json.Unmarshal(b, &gotv)
		m := node.mod
		// expected
		want := map[string]any{}
		for k, v := range m.directive {
			want[k] = v
		}
		type nar struct {
			n string
			a int
		}
		var ds []nar
		for _, d := range m.defs {
			if d.name[0] != '_' {
				ds = append(ds, nar{d.name, d.arity})
			}
		}
		sort.SliceStable(ds, func(i, j int) bool { return ds[i].n < ds[j].n || ds[i].n == ds[j].n && ds[i].a < ds[j].a })
		defs := []any{}
		for _, d := range ds {
			defs = append(defs, fmt.Sprintf("%s/%d", d.n, d.a))
		}
		want["defs"] = defs
		deps := []any{}
		okSearch := true
		gdeps, _ := gotv["deps"].([]any)
		for k, i := range m.imports {
			d := map[string]any{"relpath": i.path, "is_data": i.isData}
			if i.alias != "" {
				d["as"] = strings.TrimPrefix(i.alias, "$")
			}
			for _, kv := range i.meta {
				if kv.isStr {
					d[kv.key] = kv.str
				} else {
					var x any
					json.Unmarshal([]byte(kv.other), &x)
					d[kv.key] = x
				}
			}
			// `search` is reported either as written or resolved against the module's directory
			if s, ok := d["search"].(string); ok && k < len(gdeps) {
				if gd, _ := gdeps[k].(map[string]any); gd != nil {
					if gs, isS := gd["search"].(string); isS && (gs == s || w.absolute(gs) == w.absolute(w.refResolve(s, filepath.Dir(p)))) {
						d["search"] = gs
					} else if gd["search"] == nil && w.refResolve(s, filepath.Dir(p)) == "" {
						d["search"] = nil
					} else {
						okSearch = false
					}
				}
			}
			deps = append(deps, d)
		}
		want["deps"] = deps
		wb, _ := json.Marshal(want)
		var wantv map[string]any
		json.Unmarshal(wb, &wantv)
		if !okSearch || !reflect.DeepEqual(gotv, wantv) {
			ctx.Violate("modules:modulemeta", fmt.Sprintf("%s = %s, expected %s", src, b, wb), c.replay(w, src, map[string]any{"observed": string(b), "expected": string(wb)}))
		}
		c.oMeta.Distribution[fmt.Sprintf("defs=%d,deps=%d", len(defs), len(deps))]++
		// correspondence line
		var sb strings.Builder
		w.encModule(&sb, m)
		c.metaLines = append(c.metaLines, strings.TrimSpace(sb.String()))
		var gdefs, gd2 []string
		for _, x := range gotv["defs"].([]any) {
			gdefs = append(gdefs, fmt.Sprint(x))
		}
		for _, x := range gdeps {
			d, _ := x.(map[string]any)
			as := "-"
			if a, ok := d["as"].(string); ok {
				as = "as=" + a
			}
			kind := "code"
			if d["is_data"] == true {
				kind = "data"
			}
			gd2 = append(gd2, fmt.Sprint(d["relpath"])+":"+as+":"+kind)
		}
		c.metaIm = append(c.metaIm, "defs "+strings.Join(gdefs, ",")+" deps "+strings.Join(gd2, ","))
	}
}

// ---------------------------------------------------------------- main

func main() {
	ctx := common.ParseFlags("C18")
	exe, _ := os.Executable()
	exe, _ = filepath.EvalSymlinks(exe)
	exeDir := filepath.Dir(exe)
	origWD, _ := os.Getwd()
	origHome, hadHome := os.LookupEnv("HOME")
	restore := func() {
		os.Chdir(origWD)
		if hadHome {
			os.Setenv("HOME", origHome)
		}
	}
	c := &checker{ctx: ctx, distinctInline: map[string]bool{}, distinctLeak: map[string]bool{}, seenLine: map[string]bool{}}
	c.st = ctx.NewStream("modules", "Gojq.Modules.compileFromFS (lookupModule, resolvePath, parseModule search rewriting, LoadInitModules, compileImport/compileModule scope bookkeeping, name resolution) — Model/Modules.lean",
		"random module worlds (2–7 modules, import depth ≤ 3, diamonds, include/import/data imports, name and alias clashes, same name at several arities, builtin-named definitions, ~/.jq as file/directory/absent, name.jq and name/name.jq layouts, duplicates in several search directories, relative/absolute/~//$ORIGIN search paths and `search` metadata, broken and missing files) and hand-written scenarios; one line per probe (visible names, variables, invisible names, leak probes inside module files); distinct = distinct implementation answers")
	c.stLookup = ctx.NewStream("lookup", "Gojq.Modules.lookupModule / newModuleLoader / resolvePath", "LoadModuleWithMeta and LoadJSONWithMeta called directly for module names × extensions × `search` metadata; the file found is read back from its content")
	c.stMeta = ctx.NewStream("modulemeta", "Gojq.Modules.listModuleDefs / listModuleDeps", "`\"name\" | modulemeta` for every generated module: sorted name/arity list and the dependency list in order")
	c.oInline = ctx.NewOracle("inline", "for every name visible in the main query: output of the modular program vs the program with all module text inlined and renamed (a::f -> a__f), compiled without a module loader; plus the reference candidate walk for direct lookups; distinct = distinct resolution renderings observed")
	c.oLeak = ctx.NewOracle("nonleak", "a probe per invisible name must fail to compile: names of unimported/nested modules in the main query, and importer names inside `import … as a` module bodies (probe definition appended to the module file); distinct = distinct (module, name) probes")
	c.oData = ctx.NewOracle("data", "`$d` / `$d::d` of every data import of the main header equal the array of the file's values; WithVariables names keep their values")
	c.oMeta = ctx.NewOracle("modulemeta", "modulemeta = module directive + deps in order (relpath, as, is_data, metadata) + defs sorted by name then arity without `_` names")

	run := func(w *world, scenario string) {
		defer w.remove()
		defer restore()
		c.checkWorld(w, scenario)
	}
	for _, sc := range scenarios() {
		w := newWorld(ctx.R, exeDir)
		sc.build(w)
		run(w, sc.name)
	}
	n := ctx.N(220, 4000)
	for k := 0; k < n; k++ {
		w := newWorld(ctx.R, exeDir)
		g := &gen{r: ctx.R, w: w}
		g.generate()
		run(w, "")
	}
	restore()
	c.oInline.Distinct = len(c.distinctInline)
	c.oLeak.Distinct = len(c.distinctLeak)
	c.oData.Distinct = c.oData.Cases
	c.oMeta.Distinct = len(c.oMeta.Distribution)
	c.oInline.Samples = []string{"import \"m1\" as a; include \"m2\"; a::f  vs  def a__f: …; def g: …; a__f"}
	c.oLeak.Samples = []string{"m2.jq += `def zz_leak: a::f;` under `import \"m1\" as a; import \"m2\" as b;` must not compile (D9)"}
	ctx.RunStream(c.st, c.lines, c.impl)
	ctx.RunStream(c.stLookup, c.lookLines, c.lookImpl)
	ctx.RunStream(c.stMeta, c.metaLines, c.metaIm)
	restore()
	defaultPathsOracle(ctx)
	ctx.Finish()
}

// c06race — the child of the C06 search (cmd/c06 builds it with `-race -tags verif`
// and runs one process per batch of programs).
//
// For every program of the batch: parse once, compile once, compute the sequential
// baseline (canonical output sequence per input, under a step budget), then for
// G in {2, 8, 32} start G goroutines behind a barrier, each running the SAME
// *gojq.Code (or the same parsed *gojq.Query) R times, on private deep copies of the
// inputs and on ONE shared input value, and compare every run with the baseline.
// The race detector (GORACE=halt_on_error=1 exitcode=66), a runtime fatal error, the
// internal watchdog (exit 67) or an output difference (result JSON) is the finding.
//
// Before every phase a line `CURRENT {json}` goes to stderr so that the parent can
// attribute a report to the program in flight (only one program runs at a time).
//
// Manual reproduction of one program:
//
//	cd /verif/harness && GORACE=halt_on_error=1 go run -race -tags verif ./cmd/c06race \
//	    -program '{"a":{"b":1},"c":{"d":2}} | del(.a.q)' -inputs '[null]' -G 8 -R 300
package main

import (
	"encoding/json"
	"flag"
	"fmt"
	"hash/fnv"
	"os"
	"runtime"
	"runtime/debug"
	"strconv"
	"strings"
	"sync"
	"sync/atomic"
	"time"

	"github.com/itchyny/gojq"

	"verifharness/common"
)

const (
	stepBudget = 200000 // polls of ctx.Done() = VM instructions per run
	maxOuts    = 200
)

var gs = []int{2, 8, 32}

// program is one racing subject.
type program struct {
	Src    string
	Kind   string
	Inputs []any
}

type diffRec struct {
	Program  string `json:"program"`
	Kind     string `json:"kind"`
	Input    string `json:"input"`
	Inputs   string `json:"inputs"`
	G        int    `json:"G"`
	R        int    `json:"R"`
	Shared   bool   `json:"shared"`
	Query    bool   `json:"query"`
	Observed string `json:"observed"`
	Expected string `json:"expected"`
}

type result struct {
	Batch          string           `json:"batch"`
	Planned        int              `json:"planned"`
	Programs       int              `json:"programs"` // programs actually raced
	Runs           int64            `json:"runs"`     // goroutine-runs executed
	ByKind         map[string]int64 `json:"by_kind"`
	ProgramsByKind map[string]int   `json:"programs_by_kind"`
	ByG            map[string]int64 `json:"by_G"`
	SharedRuns     int64            `json:"shared_runs"`
	DistinctRuns   int64            `json:"distinct_runs"`
	CodeRuns       int64            `json:"code_runs"`
	QueryRuns      int64            `json:"query_runs"`
	Nontrivial     int              `json:"nontrivial"`
	NontrivialIDs  []string         `json:"nontrivial_ids"`
	Skipped        map[string]int   `json:"skipped"`
	Samples        []string         `json:"samples"`
	Diffs          []diffRec        `json:"diffs"`
	Seconds        float64          `json:"seconds"`
	NextIndex      int              `json:"next_index"` // first program index not yet completed
	Done           bool             `json:"done"`
}

var (
	res     = &result{Diffs: []diffRec{}, ByKind: map[string]int64{}, ProgramsByKind: map[string]int{}, ByG: map[string]int64{}, Skipped: map[string]int{}}
	outPath string
	t0      = time.Now()
)

func writeResult() {
	if outPath == "" {
		return
	}
	res.Seconds = time.Since(t0).Seconds()
	b, _ := json.Marshal(res)
	tmp := outPath + ".tmp"
	if err := os.WriteFile(tmp, b, 0o644); err == nil {
		os.Rename(tmp, outPath)
	}
}

// ---------------------------------------------------------------------------------------------
// one run

type runner struct {
	code  *gojq.Code
	query *gojq.Query // when non-nil the run goes through (*Query).RunWithContext
}

// runOnce runs the subject on v under the step budget and renders the outcome canonically.
func (rn runner) runOnce(v any) (s string, budget bool) {
	var sb strings.Builder
	defer func() {
		if r := recover(); r != nil {
			s = sb.String() + "PANIC " + fmt.Sprint(r) + " @ " + firstFrames(string(debug.Stack()))
		}
	}()
	ctx := common.NewCountCtx(stepBudget)
	var iter gojq.Iter
	if rn.query != nil {
		iter = rn.query.RunWithContext(ctx, v)
	} else {
		iter = rn.code.RunWithContext(ctx, v)
	}
	n := 0
	for {
		x, ok := iter.Next()
		if !ok {
			// a consumer may ask an exhausted iterator again (it is documented to keep
			// returning false); other runs are alive while this one does
			for k := 0; k < 2; k++ {
				if y, again := iter.Next(); again {
					sb.WriteString("REVIVED " + fmt.Sprint(y) + " ; ")
				}
			}
			sb.WriteString("END")
			return sb.String(), false
		}
		if e, ok := x.(error); ok {
			if e == common.ErrBudget {
				return sb.String() + "BUDGET", true
			}
			sb.WriteString("ERR " + common.ErrClass(e))
			return sb.String(), false
		}
		sb.WriteString(common.Canon(x))
		sb.WriteString(" ; ")
		n++
		if n >= maxOuts {
			return sb.String() + "BUDGET", true
		}
	}
}

func firstFrames(st string) string {
	lines := strings.Split(st, "\n")
	var keep []string
	for _, l := range lines {
		if strings.Contains(l, "gojq") && !strings.Contains(l, "c06race") {
			keep = append(keep, strings.TrimSpace(l))
			if len(keep) >= 4 {
				break
			}
		}
	}
	return strings.Join(keep, " | ")
}

// ---------------------------------------------------------------------------------------------
// JSON text of inputs (for CURRENT lines, diffs and -inputs)

func jsonText(v any) string {
	var sb strings.Builder
	writeJSON(&sb, v)
	return sb.String()
}

func writeJSON(sb *strings.Builder, v any) {
	switch v := v.(type) {
	case nil:
		sb.WriteString("null")
	case bool:
		sb.WriteString(strconv.FormatBool(v))
	case int:
		sb.WriteString(strconv.Itoa(v))
	case float64:
		b, err := json.Marshal(v)
		if err != nil {
			sb.WriteString("null")
		} else {
			sb.Write(b)
		}
	case string:
		sb.WriteString(jqStr(v))
	case []any:
		sb.WriteByte('[')
		for i, x := range v {
			if i > 0 {
				sb.WriteByte(',')
			}
			writeJSON(sb, x)
		}
		sb.WriteByte(']')
	case map[string]any:
		sb.WriteByte('{')
		for i, k := range sortedKeys(v) {
			if i > 0 {
				sb.WriteByte(',')
			}
			sb.WriteString(jqStr(k))
			sb.WriteByte(':')
			writeJSON(sb, v[k])
		}
		sb.WriteByte('}')
	default:
		if s, ok := v.(fmt.Stringer); ok { // *big.Int
			sb.WriteString(s.String())
		} else {
			sb.WriteString("null")
		}
	}
}

func parseInputs(txt string) ([]any, error) {
	dec := json.NewDecoder(strings.NewReader(txt))
	dec.UseNumber()
	var v any
	if err := dec.Decode(&v); err != nil {
		return nil, err
	}
	xs, ok := normalize(v).([]any)
	if !ok {
		return nil, fmt.Errorf("-inputs must be a JSON array of inputs")
	}
	if len(xs) == 0 {
		xs = []any{nil}
	}
	return xs, nil
}

func normalize(v any) any {
	switch v := v.(type) {
	case json.Number:
		return common.NormalizeNumber(v)
	case []any:
		for i, x := range v {
			v[i] = normalize(x)
		}
	case map[string]any:
		for k, x := range v {
			v[k] = normalize(x)
		}
	}
	return v
}

// ---------------------------------------------------------------------------------------------
// racing one program

type current struct {
	Program string `json:"program"`
	Kind    string `json:"kind"`
	Index   int    `json:"index"`
	Phase   string `json:"phase"` // baseline | race
	G       int    `json:"G"`
	R       int    `json:"R"`
	Shared  bool   `json:"shared"`
	Query   bool   `json:"query"`
	Inputs  string `json:"inputs"` // JSON text of the array of inputs
}

func announce(c current) {
	b, _ := json.Marshal(c)
	os.Stderr.WriteString("CURRENT " + string(b) + "\n")
}

type config struct {
	G      int
	Shared bool
	Query  bool
	R      int // 0: choose from the time slice
}

type raceOpts struct {
	rmin, rmax int
	slice      time.Duration // wall time aimed at per configuration
}

func clip(s string, n int) string {
	if len(s) > n {
		return s[:n] + "…"
	}
	return s
}

// raceProgram returns false when the program was skipped (reason counted in res.Skipped).
func raceProgram(p program, idx int, cfgs []config, o raceOpts) bool {
	inputsTxt := jsonText(p.Inputs)
	announce(current{Program: p.Src, Kind: p.Kind, Index: idx, Phase: "baseline", Inputs: inputsTxt})
	q, err := gojq.Parse(p.Src)
	if err != nil {
		res.Skipped["parse-error"]++
		return false
	}
	code, err := gojq.Compile(q)
	if err != nil {
		res.Skipped["compile-error"]++
		return false
	}
	n := len(p.Inputs)
	base := make([]string, n)
	// sequential baseline through the Code, then through the Query (must agree; a
	// program that is not deterministic when run alone cannot be judged here)
	// the baseline of input i is a run through a FRESH Code (nothing an earlier run left in the
	// Code — the regexp cache, a constant written to — can reach it) …
	for i, in := range p.Inputs {
		fresh, err := gojq.Compile(q)
		if err != nil {
			res.Skipped["compile-error"]++
			return false
		}
		s, budget := runner{code: fresh}.runOnce(common.DeepCopy(in))
		if budget {
			res.Skipped["baseline-hits-budget"]++
			return false
		}
		base[i] = s
	}
	// … and the runs through ONE Code, one after the other, must give the same: a difference
	// that a second fresh Code does not show is a run that depends on the runs before it
	tc := time.Now()
	for i, in := range p.Inputs {
		s, _ := runner{code: code}.runOnce(common.DeepCopy(in))
		if s != base[i] {
			fresh, _ := gojq.Compile(q)
			if s2, _ := (runner{code: fresh}).runOnce(common.DeepCopy(in)); s2 != base[i] {
				res.Skipped["sequentially-nondeterministic"]++
				fmt.Fprintf(os.Stderr, "NONDET %s\n  fresh : %s\n  fresh2: %s\n", p.Src, clip(base[i], 300), clip(s2, 300))
				return false
			}
			if len(res.Diffs) < 40 {
				res.Diffs = append(res.Diffs, diffRec{Program: p.Src, Kind: p.Kind, Input: clip(jsonText(p.Inputs[i]), 2000), Inputs: clip(inputsTxt, 20000),
					G: 0, R: i, Observed: clip(s, 2000), Expected: clip(base[i], 2000)})
			}
			return true
		}
	}
	tCode := time.Since(tc) / time.Duration(n)
	tq := time.Now()
	for i, in := range p.Inputs {
		s, _ := runner{query: q}.runOnce(common.DeepCopy(in))
		if s != base[i] {
			res.Skipped["sequentially-nondeterministic"]++
			fmt.Fprintf(os.Stderr, "NONDET %s\n  code : %s\n  query: %s\n", p.Src, clip(base[i], 300), clip(s, 300))
			return false
		}
	}
	tQuery := time.Since(tq) / time.Duration(n)
	nontrivial := false
	for _, b := range base {
		if b != "END" {
			nontrivial = true
		}
	}

	var diffMu sync.Mutex
	ndiff := 0
	procs := runtime.GOMAXPROCS(0)
	for _, cf := range cfgs {
		t1 := tCode
		if cf.Query {
			t1 = tQuery
		}
		if t1 < time.Microsecond {
			t1 = time.Microsecond
		}
		R := cf.R
		if R <= 0 {
			par := min(cf.G, procs)
			R = int(o.slice.Seconds() * float64(par) / (float64(cf.G) * t1.Seconds() * 2))
			R = max(o.rmin, min(o.rmax, R))
		}
		announce(current{Program: p.Src, Kind: p.Kind, Index: idx, Phase: "race", G: cf.G, R: R, Shared: cf.Shared, Query: cf.Query, Inputs: inputsTxt})
		// a fresh Code per configuration: its constants are untouched and its regexp
		// cache is cold, so the goroutines below are the first to reach them
		rn := runner{}
		if cf.Query {
			// a freshly parsed Query too: whatever compiling memoises in the AST is written by
			// the racing goroutines first
			q2, err := gojq.Parse(p.Src)
			if err != nil {
				res.Skipped["parse-error"]++
				return false
			}
			rn.query = q2
		} else {
			c2, err := gojq.Compile(q)
			if err != nil {
				res.Skipped["compile-error"]++
				return false
			}
			rn.code = c2
		}
		soft := time.Now().Add(o.slice + 10*time.Millisecond) // after it a goroutine stops once it has done 4 runs
		wd := time.AfterFunc(20*time.Second+4*o.slice, func() {
			fmt.Fprintf(os.Stderr, "WATCHDOG %s\n", p.Src)
			buf := make([]byte, 1<<20)
			buf = buf[:runtime.Stack(buf, true)]
			os.Stderr.Write(buf)
			os.Exit(67)
		})
		start := make(chan struct{})
		var wg sync.WaitGroup
		var runs atomic.Int64
		for g := 0; g < cf.G; g++ {
			wg.Add(1)
			go func(g int) {
				defer wg.Done()
				<-start
				for r := 0; r < R; r++ {
					i := (g + r) % n
					var in any
					if cf.Shared {
						in = p.Inputs[i] // the very same Go value for every goroutine
					} else {
						in = common.DeepCopy(p.Inputs[i])
					}
					s, _ := rn.runOnce(in)
					runs.Add(1)
					if s != base[i] {
						diffMu.Lock()
						ndiff++
						if ndiff <= 2 && len(res.Diffs) < 40 {
							res.Diffs = append(res.Diffs, diffRec{Program: p.Src, Kind: p.Kind, Input: clip(jsonText(p.Inputs[i]), 2000), Inputs: clip(inputsTxt, 20000),
								G: cf.G, R: R, Shared: cf.Shared, Query: cf.Query, Observed: clip(s, 2000), Expected: clip(base[i], 2000)})
						}
						diffMu.Unlock()
						return
					}
					if r >= 3 && time.Now().After(soft) {
						return
					}
				}
			}(g)
		}
		close(start)
		wg.Wait()
		wd.Stop()
		k := runs.Load()
		res.Runs += k
		res.ByKind[p.Kind] += k
		res.ByG[fmt.Sprint("G=", cf.G)] += k
		if cf.Shared {
			res.SharedRuns += k
		} else {
			res.DistinctRuns += k
		}
		if cf.Query {
			res.QueryRuns += k
		} else {
			res.CodeRuns += k
		}
	}
	res.Programs++
	res.ProgramsByKind[p.Kind]++
	if nontrivial {
		res.Nontrivial++
		h := fnv.New64a()
		h.Write([]byte(p.Src))
		res.NontrivialIDs = append(res.NontrivialIDs, strconv.FormatUint(h.Sum64(), 36))
	}
	if len(res.Samples) < 3 && (idx%17 == 0) {
		res.Samples = append(res.Samples, fmt.Sprintf("%s  on %s  => %s", clip(p.Src, 200), clip(inputsTxt, 120), clip(base[0], 160)))
	}
	return true
}

// allConfigs: G x {distinct, shared}; half of the configurations go through the parsed
// Query (compiled inside every run), alternating with the program index so that every
// (G, shared) cell sees both forms over the batch.
func allConfigs(idx int) []config {
	var cs []config
	ci := 0
	for _, g := range gs {
		for _, sh := range []bool{false, true} {
			// (idx + position) parity: each program gets 3 Code and 3 Query configurations
			cs = append(cs, config{G: g, Shared: sh, Query: (idx+ci+ci/2)%2 == 1})
			ci++
		}
	}
	return cs
}

func main() {
	seed := flag.Uint64("seed", 1, "seed")
	tier := flag.String("tier", "quick", "quick|thorough")
	batch := flag.String("batch", "", "kind:index[:of] with kind in literal|update|regex|corpus")
	seconds := flag.Float64("seconds", 20, "time budget")
	flag.StringVar(&outPath, "out", "", "result JSON path")
	startAt := flag.Int("start", 0, "skip the programs before this index")
	list := flag.Bool("list", false, "print the programs of the batch (and whether they compile) and exit")
	prog := flag.String("program", "", "race exactly this program")
	inputs := flag.String("inputs", "[null]", "JSON array of inputs for -program")
	fG := flag.Int("G", 0, "goroutines for -program (0: 2, 8 and 32)")
	fR := flag.Int("R", 0, "repetitions for -program (0: 300)")
	fShared := flag.Bool("shared", false, "-program: all goroutines get the same input value (default: both ways)")
	fQuery := flag.Bool("query", false, "-program: run the parsed Query instead of the compiled Code (default: both)")
	flag.Parse()
	set := map[string]bool{}
	flag.Visit(func(f *flag.Flag) { set[f.Name] = true })
	deadline := t0.Add(time.Duration(*seconds * float64(time.Second)))

	if *prog != "" {
		ins, err := parseInputs(*inputs)
		if err != nil {
			fmt.Fprintln(os.Stderr, "bad -inputs:", err)
			os.Exit(2)
		}
		res.Batch = "single"
		res.Planned = 1
		var cfgs []config
		for _, g := range gs {
			if *fG > 0 && g != gs[0] {
				continue
			}
			G := g
			if *fG > 0 {
				G = *fG
			}
			for _, sh := range []bool{false, true} {
				if set["shared"] && sh != *fShared {
					continue
				}
				for _, qu := range []bool{false, true} {
					if set["query"] && qu != *fQuery {
						continue
					}
					R := *fR
					if R <= 0 {
						R = 300
					}
					cfgs = append(cfgs, config{G: G, Shared: sh, Query: qu, R: R})
				}
			}
		}
		p := program{Src: *prog, Kind: "single", Inputs: ins}
		rounds := 0
		for {
			if !raceProgram(p, 0, cfgs, raceOpts{slice: 2 * time.Second}) {
				fmt.Fprintln(os.Stderr, "program skipped:", res.Skipped)
				writeResult()
				os.Exit(3)
			}
			rounds++
			writeResult()
			if len(res.Diffs) > 0 || time.Now().After(deadline) {
				break
			}
		}
		res.Done = true
		res.NextIndex = 1
		writeResult()
		fmt.Printf("rounds=%d runs=%d diffs=%d\n", rounds, res.Runs, len(res.Diffs))
		for _, d := range res.Diffs {
			b, _ := json.Marshal(d)
			fmt.Println(string(b))
		}
		if len(res.Diffs) > 0 {
			os.Exit(1)
		}
		return
	}

	parts := strings.Split(*batch, ":")
	kind := parts[0]
	index, of := 0, 1
	if len(parts) > 1 {
		index, _ = strconv.Atoi(parts[1])
	}
	if len(parts) > 2 {
		of, _ = strconv.Atoi(parts[2])
	}
	if of < 1 {
		of = 1
	}
	thorough := *tier == "thorough"
	progs := generate(kind, index, of, *seed, thorough)
	if progs == nil {
		fmt.Fprintln(os.Stderr, "unknown batch kind:", kind)
		os.Exit(2)
	}
	res.Batch = *batch
	res.Planned = len(progs)
	if *list {
		for i, p := range progs {
			st := "ok"
			if q, err := gojq.Parse(p.Src); err != nil {
				st = "PARSE-ERROR " + err.Error()
			} else if _, err := gojq.Compile(q); err != nil {
				st = "COMPILE-ERROR " + err.Error()
			}
			fmt.Printf("%4d %-8s %-14s %s    <- %s\n", i, p.Kind, st, p.Src, clip(jsonText(p.Inputs), 100))
		}
		return
	}
	o := raceOpts{rmin: 8, rmax: 300}
	if thorough {
		o.rmax = 3000
	}
	res.NextIndex = *startAt
	writeResult()
	for i := *startAt; i < len(progs); i++ {
		left := time.Until(deadline)
		if left <= 0 {
			res.Skipped["not-reached-in-time-budget"] += len(progs) - i
			break
		}
		// share what is left evenly among the programs still to come (6 configurations each)
		o.slice = time.Duration(float64(left) * 0.7 / float64(len(progs)-i) / 6)
		o.slice = max(o.slice, 2*time.Millisecond)
		raceProgram(progs[i], i, allConfigs(i), o)
		res.NextIndex = i + 1
		writeResult()
	}
	res.Done = true
	writeResult()
}

package main

import (
	"bytes"
	"encoding/json"
	"fmt"
	"hash/fnv"
	"sort"
	"strings"

	"verifharness/common"
	"verifharness/corpus"
)

// Every generator aims a CONSTANT of the compiled code (literal kind, regexp cache) or
// the caller's SHARED INPUT (update kind) at the natives that write into containers:
// delpaths/deleteEmpty, setpath/update, sort helpers, add/merge, slices, to_entries …

func sortedKeys(m map[string]any) []string {
	ks := make([]string, 0, len(m))
	for k := range m {
		ks = append(ks, k)
	}
	sort.Strings(ks)
	return ks
}

// jqStr renders s as a JSON string literal, which is also a jq string literal
// (no HTML escaping, and `\(` cannot appear because a backslash is always doubled).
func jqStr(s string) string {
	var b bytes.Buffer
	e := json.NewEncoder(&b)
	e.SetEscapeHTML(false)
	e.Encode(s)
	return strings.TrimRight(b.String(), "\n")
}

func fork(seed uint64, kind string, index int) *common.Rand {
	h := fnv.New64a()
	h.Write([]byte(kind))
	return common.NewRand(seed).Fork(h.Sum64() + uint64(index)*7919)
}

func generate(kind string, index, of int, seed uint64, thorough bool) []program {
	r := fork(seed, kind, index)
	g := &gen{r: r}
	n := func(q, t int) int {
		if thorough {
			return t
		}
		return q
	}
	switch kind {
	case "literal":
		return g.literal(n(50, 400))
	case "update":
		return g.update(n(90, 400))
	case "regex":
		return g.regex(n(55, 180))
	case "corpus":
		return g.corpus(index, of, thorough, 64)
	}
	return nil
}

type gen struct{ r *common.Rand }

var pathKeys = []string{"a", "b", "c", "q"}

// ---------------------------------------------------------------------------------------------
// random nested values (keys from {a,b,c,q}, depth <= 3) and paths into them

func (g *gen) leaf() any {
	return common.Pick(g.r, []any{1, 2, 3, 0, 1, 2, 1.5, "x", "y", "b", nil, true, false, []any{}, map[string]any{}})
}

func (g *gen) value(depth, maxDepth int) any {
	if depth >= maxDepth || (depth > 0 && g.r.Chance(2, 5)) {
		return g.leaf()
	}
	n := g.r.Range(1, 3)
	if g.r.Bool() {
		m := map[string]any{}
		for i := 0; i < n; i++ {
			m[common.Pick(g.r, pathKeys)] = g.value(depth+1, maxDepth)
		}
		return m
	}
	xs := make([]any, n)
	for i := range xs {
		xs[i] = g.value(depth+1, maxDepth)
	}
	return xs
}

type seg struct {
	key   string
	idx   int
	isIdx bool
}

// path walks v choosing existing and MISSING keys/indices (a missing key makes
// delpaths/setpath walk the value without changing it: the same-value-write case).
func (g *gen) path(v any, maxLen int) []seg {
	var p []seg
	cur := v
	for len(p) < maxLen {
		switch c := cur.(type) {
		case map[string]any:
			k := common.Pick(g.r, pathKeys)
			if len(c) > 0 && g.r.Chance(3, 5) {
				k = common.Pick(g.r, sortedKeys(c))
			}
			p = append(p, seg{key: k})
			cur = c[k]
		case []any:
			i := common.Pick(g.r, []int{5, -1, len(c), 0, 1})
			if len(c) > 0 && g.r.Chance(3, 5) {
				i = g.r.Intn(len(c))
			}
			p = append(p, seg{idx: i, isIdx: true})
			switch {
			case i >= 0 && i < len(c):
				cur = c[i]
			case i < 0 && -i <= len(c):
				cur = c[len(c)+i]
			default:
				cur = nil
			}
		case nil:
			if g.r.Bool() {
				p = append(p, seg{key: common.Pick(g.r, pathKeys)})
			} else {
				p = append(p, seg{idx: g.r.Intn(2), isIdx: true})
			}
		default:
			if len(p) == 0 {
				p = append(p, seg{key: common.Pick(g.r, pathKeys)})
			}
			return p
		}
		if g.r.Chance(1, 3) {
			break
		}
	}
	return p
}

// render prints the path after prefix ("." for the root, ".[0]" / ".x" for nested use).
func (g *gen) render(prefix string, p []seg) string {
	s := prefix
	for _, e := range p {
		switch {
		case e.isIdx:
			s += fmt.Sprintf("[%d]", e.idx)
		case g.r.Chance(1, 8) || !isIdent(e.key):
			s += "[" + jqStr(e.key) + "]"
		case s == ".":
			s += e.key
		default:
			s += "." + e.key
		}
	}
	return s
}

func isIdent(k string) bool {
	if k == "" {
		return false
	}
	for i, c := range k {
		if !(c == '_' || c >= 'a' && c <= 'z' || c >= 'A' && c <= 'Z' || i > 0 && c >= '0' && c <= '9') {
			return false
		}
	}
	switch k {
	case "and", "or", "not", "if", "then", "else", "elif", "end", "as", "def", "reduce", "foreach", "try", "catch", "label", "import", "include", "__loc__":
		return false
	}
	return true
}

func pathArray(p []seg) string {
	xs := make([]any, len(p))
	for i, e := range p {
		if e.isIdx {
			xs[i] = e.idx
		} else {
			xs[i] = e.key
		}
	}
	return jsonText(xs)
}

// ops: update / delete / sort / merge operations applied to `.`; %P %Q are paths,
// %PA %QA the same paths as arrays, %P0 / %Px / %Qy the paths below .[0] / .x / .y.
var ops = []string{
	`del(%P)`, `del(%P, %Q)`, `del(%P) | del(%Q)`, `delpaths([%PA])`, `delpaths([%PA, %QA])`, `delpaths([%PA, %PA])`,
	`del(%P[0])`, `del(%P[1:])`, `del(%P[0, 1])`, `del(.[])`, `del(.[0])`, `del(.[]?[0]?)`,
	`%P |= .`, `%P |= [.]`, `%P = 1`, `%P += 1`, `%P |= empty`, `%P //= 0`, `%P = .`, `(%P, %Q) |= [.]`, `(%P, %Q) = 0`,
	`%P |= (del(.q)? // .)`, `%P |= (%Q = 1)?`, `(%P | select(. != null)) |= .`,
	`setpath(%PA; 1)`, `setpath(%PA; getpath(%QA))`, `getpath(%PA)`, `getpath(%PA) as $v | setpath(%PA; $v)`, `getpath(%PA) |= 5`,
	`[paths]`, `[paths(scalars)]`, `[paths(type == "number")]`, `[path(..)]`, `[path(%P, %Q)]`, `[tostream]`, `fromstream(tostream)`,
	`. as $d | [paths] | map(. as $p | $d | getpath($p))`, `delpaths([paths])`, `delpaths([])`, `delpaths([[]])`,
	`pick(%P)`, `to_entries`, `to_entries | from_entries`, `with_entries(.)`, `with_entries(.value |= (del(.q)? // .))`,
	`to_entries | map(.value |= (del(.q)? // .))`, `to_entries | map(del(.value.q?))`,
	`map_values(.)`, `map_values(del(.q)? // .)`, `map(.)`, `map(del(.q)?)`, `.[] |= .`, `.[]? |= (del(.q)? // .)`,
	`walk(if type == "object" then del(.q) else . end)`, `walk(if type == "array" then sort else . end)`, `walk(.)`,
	`sort`, `sort_by(.a?)`, `group_by(.a?)`, `unique`, `unique_by(.a?)`, `min_by(.a?), max_by(.a?)`, `reverse`, `flatten`, `flatten(1)`,
	`add`, `transpose?`, `[.[]?] | sort`, `[.[]?] | sort_by(tojson) | reverse`, `min, max`, `[limit(5; combinations?)]`,
	`. * .`, `. * {"a":{"c":2}}`, `{"a":{"c":2}} * .`, `. + .`, `[., .] | add`, `%P += {"c":2}`, `%P *= {"c":{"q":1}}`, `%P += [{"c":2}]`,
	`%P[1:] |= reverse`, `%P[1:] = ["x"]`, `%P[:1] |= . + [0]`, `.[1:] | .[0] = 9`, `.[:2] + [7]`, `. as $x | (.[:1] + [7]), $x`, `.[:1] + .[2:]`,
	`%P[1:] | .[0] = 9`, `%P[:1] + [7] | ., length`,
	`reduce (1,2,3) as $i (.; %P = $i)`, `reduce (1,2,3) as $i (.; del(%P))`, `[limit(3; repeat(del(%P)))]`, `foreach (1,2) as $i (.; %P |= [.]; %Q)`,
	`. as $x | $x | del(%P)`, `. as $x | [$x, $x] | %P0 |= 1`, `[., .] | del(%P0)`, `[., .] | del(%P0) | .[1]`,
	`{x: ., y: .} | %Px |= 1 | del(%Qy)`, `{x: ., y: .} | del(%Px, %Qy)`, `[limit(2; repeat(.))] | del(%P0) | .[1]`,
	`. as $x | (%P |= 1) | $x`, `. as $x | del(%P), $x, (%Q = 1), $x`,
	`del(.. | select(. == 1))`, `del(..|.q?)`, `(.. | select(type == "number")) |= . + 1`, `(.. | arrays) |= sort`, `.. |= .`, `[..] | length`,
	`tojson | fromjson | del(%P)`, `tojson, tostring, @json, @text`, `@json "v=\(.)"`,
	`%P as $v | %Q = $v`, `%P as $v | .c = $v | del(.c.q?)`, `getpath(%PA) as $v | [$v] | .[0] |= (del(.q)? // .) | ., $v`,
	`def f: del(%P); f | f`, `try error catch . | del(%P)`, `try error(.) catch del(%Q)`,
	`. as [$a, $b] | [$b, $a] | del(.[0].q?)`, `. as {a: $a} | [$a, $a] | del(.[0].q?)`, `. as {a: $a, b: [$b]} | {$a, $b}`,
	`to_entries | map(.value) | del(.[0])`, `keys, length`, `[.[]?]`, `first(.[]?), last(.[]?)`, `[.[]?] | first, last, nth(0)`,
	`contains(.)`, `inside(.)`, `. == .`, `indices(1)?`, `[.[]? | IN(1, 2)]`, `any(.[]?; . == 1), all(.[]?; . != null)`, `has("a")?, has(0)?`,
	`until(true; del(%P))`, `[recurse(if type == "array" and length > 0 then del(.[0]) else empty end)]`, `[.[]?] | [while(length > 0; del(.[0]))] | length`,
	`label $out | foreach (1,2,3) as $i (.; del(%P); if $i == 2 then ., break $out else empty end)`,
	`if %P then del(%Q) else %Q = 1 end`, `%P? // %Q?`, `getpath(%PA)? // "none"`, `[.[]?] | INDEX(.a?)`,
	`[.[]?] | map(select(. != null)) | unique | .[0]`, `[.[]?] | group_by(type) | map(length)`, `to_entries[]? | .value | del(.q)?`,
	`[.[]?, .[]?] | unique_by(tojson) | length`, `[%P, %Q] | del(.[0].q?)`, `{a: %P, b: %Q} | .a.z? = 1`, `[.[]? | objects | del(.q)]`,
	`with_entries(.key |= ascii_upcase)?`, `splits("x")?`, `join(",")?`, `@csv?, @tsv?`, `implode?`, `ascii_downcase?`, `ltrimstr("a")`,
}

func (g *gen) op(v any) string {
	p, q := g.path(v, 3), g.path(v, 3)
	t := common.Pick(g.r, ops)
	if g.r.Chance(1, 2) { // half of the time insist on an operation that takes a path
		for !strings.Contains(t, "%P") {
			t = common.Pick(g.r, ops)
		}
	}
	return g.subst(t, p, q)
}

func (g *gen) subst(t string, p, q []seg) string {
	return strings.NewReplacer(
		"%PA", pathArray(p), "%QA", pathArray(q),
		"%P0", g.render(".[0]", p), "%Px", g.render(".x", p), "%Qy", g.render(".y", q),
		"%P", g.render(".", p), "%Q", g.render(".", q)).Replace(t)
}

// ---------------------------------------------------------------------------------------------
// kind "literal": nested container literals, constant-folded into the code

var literalTemplates = []string{
	`{"a":{"b":1},"c":{"d":2}} | del(.a.q)`, // the historical D6 witness: must stay first
	`{"a":[1,2,{"b":3}]} | del(.a[0])`,
	`[[1,2],[3,4]] | del(.[0][5])`,
	`{"a":{"b":1}} | delpaths([["a","x"],["z"]])`,
	`[{"a":1},{"b":2}] | map(del(.zz))`,
	`{"a":{"b":1}} | .a.b |= .+1`,
	`{"a":[3,1,2]} | .a |= sort`,
	`[3,1,2] | sort`,
	`{"a":{"b":1}} | to_entries`,
	`{"a":{"b":{"c":1}}} | with_entries(.value |= del(.x))`,
	`[[1,[2]],[3]] | flatten`,
	`{"a":{"b":1}} * {"a":{"c":2}}`,
	`[{"a":1}] + [{"b":2}] | add`,
	`{"a":[1,2,3]} | .a[1:] |= map(.+1)`,
	`[1,2,3] | .[1:] = ["x"]`,
	`{"a":1} | .b = .`,
	`[[1,2,3]] | .[0] |= (.[1:] | reverse)`,
	`{"k":[{"a":1},{"a":1}]} | .k | unique_by(.a), group_by(.a)`,
	`{"a":{"b":1}} | paths, paths(scalars)`, // (leaf_paths is not a gojq builtin)
	`[{"a":{"b":1}}] | transpose?`,
	`{"a":{"b":[1,2]}} | tostream`,
	`{"a":{"b":1}} | pick(.a.b)`,
	`{"a":{"b":1}} | setpath(["a","c"];1), getpath(["a","b"])`,
	`{"a":{"b":1}} | map_values(del(.nope))`,
	`{"a":{"b":1}} | walk(if type=="object" then del(.zzz) else . end)`,
	`{"a":{"b":1}} | reduce (1,2,3) as $i (.; .a["k\($i)"] = $i)`,
	`{"a":{"b":1}} | [limit(3; repeat(del(.a.zz)))]`,
	// more of the same family
	`[1,2,3] | .[:2] + [7]`,
	`{"a":[1,2,3]} | .a[:1] + [9], .a`,
	`[1,2,3] | . as $x | (.[:1] + [7]), $x`,
	`[[1,2,3]] | .[0][1:] | .[0] = 9`,
	`[1,2,3] | .[1:] | .[0] = 9`,
	`[[3,1],[2]] | map(sort)`,
	`{"a":[{"b":2},{"b":1}]} | .a | sort_by(.b), min_by(.b), max_by(.b)`,
	`[{"a":1,"b":[1]},{"a":1,"b":[2]}] | group_by(.a) | map(add)`,
	`{"a":{"b":1}} | .. |= .`,
	`{"a":{"b":1}} | [., .] | del(.[0].a.q) | .[1]`,
	`{"a":{"b":1}} | . as $x | [$x, $x] | .[0].a.b |= 2`,
	`{"a":{"b":1}} | {x: ., y: .} | .x.a.b |= 1 | del(.y.q)`,
	`{"a":[1,2,3]} | del(.a[1:])`,
	`[1,2,3,4] | del(.[0,2])`,
	`[1,2,3] | del(.[5])`,
	`[1,2,3] | del(.[-1])`,
	`{"a":[1,2,3]} | del(.a[0:2])`,
	`{"a":[1,2,3]} | del(.a[:-5])`,
	`[[1],[2]] | del(.[][0])`,
	`{"a":{"b":1}} | del(.a, .a.b)`,
	`{"a":{"b":1}} | del(.[])`,
	`{"a":{"b":1}} | delpaths([paths])`,
	`{"a":{"b":1}} | delpaths([[]])`,
	`{"a":{"b":1}} | delpaths([])`,
	`{"a":{"b":1}} | to_entries | from_entries`,
	`{"a":{"b":1}} | to_entries | map(del(.value.q))`,
	`{"a":{"b":1}} | to_entries[] | .value | del(.q)`,
	`{"a":{"b":1}} | tojson | fromjson | del(.a.q)`,
	`{"a":{"b":1}} | try error catch . | del(.a.q)`,
	`[[1,2],[3,4]] | transpose`,
	`[[1,2],[3,4]] | [combinations]`,
	`[[1,2],[3,4]] | add`,
	`[[1,2],[3,4]] | .[0] + .[1]`,
	`[[1,2],[3,4]] | map(reverse)`,
	`{"a":{"b":1}} | del(..|.q?)`,
	`{"a":{"b":1},"c":[1,{"d":1}]} | del(.. | select(. == 1))`,
	`{"a":{"b":1},"c":[3,1]} | (.. | arrays) |= sort`,
	`{"a":{"b":1},"c":[3,1]} | (.. | numbers) |= . + 1`,
	`{"a":{"b":1}} | getpath(["a"]) as $v | setpath(["a"]; $v)`,
	`{"a":{"b":1}} | def f: del(.a.q); f | f`,
	`{"a":{"b":1}} | .a as $v | .c = $v | del(.c.q)`,
	`{"a":{"b":1}} | label $out | foreach (1,2,3) as $i (.; del(.a.q); if $i == 2 then ., break $out else empty end)`,
	`[1,[2,[3]]] | flatten(1)`,
	`[{"a":1},{"a":1}] | unique`,
	`[3,1,2] | sort_by(-.)`,
	`[3,1,2] | min, max`,
	`{"b":2,"a":1} | keys, to_entries`,
	`[{"a":{"b":1}}] | .[0].a.b += 1`,
	`{"a":[{"b":1},{"b":2}]} | .a[] |= del(.q)`,
	`{"a":[{"b":1},{"b":2}]} | .a |= map(select(.b > 1))`,
	`{"a":[{"b":1},{"b":2}]} | del(.a[] | select(.b == 1))`,
	`{"a":[{"b":1}]} | .a += [{"c":2}]`,
	`{"a":{"b":1}} | .a += {"c":2}`,
	`{"a":{"b":1}} | .a *= {"c":{"d":1}}`,
	`{} | .a.b.c = 1`,
	`[] | .[2] = 1`,
	`null | .a = {"b":1} | del(.a.q)`,
	`{"a":{"b":1}} | [.[]] | .[0] | del(.q)`,
	`{"a":{"b":1}} | .a | del(.q)`,
	`{"a":{"b":1}} | [.a, .a] | del(.[0].q)`,
	`{"a":{"b":1}} | with_entries(.key |= ascii_upcase)`,
	`{"a":{"b":1}} | tojson, tostring, @json, @text`,
	`{"a":"x y"} | @sh "echo \(.a)"`,
	`[[1,"a"],[2,"b"]] | .[] | @csv, @tsv`,
	`[[1,2],[1,2]] | unique | .[0] | .[0] = 5`,
	`{"a":[1,2]} | .a as [$x, $y] | {x: $x, y: $y}`,
	`{"a":{"b":1}} | .a as {b: $b} | $b`,
	`[{"a":1},{"b":2}] | first, last, nth(0)`,
	`[{"a":1},{"b":2}] | first(.[]) | del(.q)`,
	`[{"a":1},{"b":2}] | limit(1; .[]) | .c = 1`,
	`[{"a":1},{"b":2}] | until(length < 2; del(.[0]))`,
	`[{"a":1},{"b":2}] | [recurse(if length > 0 then del(.[0]) else empty end)]`,
	`[{"a":1},{"b":2}] | [while(length > 0; del(.[0]))]`,
	`[{"a":1},{"a":2}] | INDEX(.a)`,
	`[{"a":1},{"b":2}] | any(.[]; .a == 1), all(.[]; has("a"))`,
	`{"a":[1,2]} | .a | index(2), indices(1), inside([1,2,3]), contains([1])`,
	`{"a":"x,y"} | .a | split(",") | join("-")`,
	`[1,2,3] | IN(2), (.[] | IN(1,2))`,
	`{"a":{"b":1}} | getpath(["a"]) | setpath(["q"]; 1)`,
	`{"a":{"b":1}} | [paths] | map(tojson)`,
	`{"a":{"b":1}} | tostream | select(length == 2) | .[0] |= map(tostring)`,
	`[{"a":{"b":1}}] | fromstream(tostream)`,
	`{"a":{"b":1}} | . as $d | [paths] | map(. as $p | $d | getpath($p))`,
	`{"a":{"b":1}} | getpath(["a","b"]) |= 5`,
	`[{"a":{"b":1}}, {"a":{"b":1}}] | .[0] == .[1], (.[0] | del(.a.q)) == .[1]`,
	`{"a":{"b":1},"c":{"d":2}} | delpaths([["a","q"]])`,
	`{"a":{"b":1},"c":{"d":2}} | delpaths([["a","q"],["c","q"],["q"]])`,
	`{"a":{"b":1},"c":{"d":2}} | del(.a.q, .c.q) | del(.q)`,
	`[{"a":{"b":1},"c":{"d":2}}] | map(del(.a.q))`,
	`{"a":{"b":1},"c":{"d":2}} as $c | [1,2] | map($c | del(.a.q))`,
	`def c: {"a":{"b":1},"c":{"d":2}}; c | del(.a.q), (c | .a.b |= 1)`,
}

func (g *gen) literal(nRandom int) []program {
	var ps []program
	in := []any{nil}
	for _, t := range literalTemplates {
		ps = append(ps, program{Src: t, Kind: "literal", Inputs: in})
	}
	for i, t := range sharedNatives {
		ps = append(ps, program{Src: sharedContainers[i%len(sharedContainers)] + " | " + t, Kind: "literal", Inputs: in})
	}
	for _, t := range sharedPathLists {
		ps = append(ps, program{Src: t, Kind: "literal", Inputs: in})
	}
	for i := 0; i < nRandom; i++ {
		v := g.value(0, 3)
		ps = append(ps, program{Src: jsonText(v) + " | " + g.op(v), Kind: "literal", Inputs: in})
	}
	return dedup(ps)
}

func dedup(ps []program) []program {
	seen := map[string]bool{}
	out := ps[:0]
	for _, p := range ps {
		if !seen[p.Src] {
			seen[p.Src] = true
			out = append(out, p)
		}
	}
	return out
}

// ---------------------------------------------------------------------------------------------
// kind "update": the same operations on the input and on variables bound from it; run on
// private copies and on ONE shared input (any write into it by a native is a race)

func fixedInputs() []any {
	return []any{
		map[string]any{"a": map[string]any{"b": 1, "q": []any{1, 2}}, "c": []any{map[string]any{"a": 1}, map[string]any{"a": 2}}},
		[]any{[]any{1, 2}, []any{3, 4}},
		map[string]any{"a": []any{3, 1, 2}, "b": map[string]any{"c": map[string]any{"q": nil}}},
		[]any{map[string]any{"a": 1, "b": []any{1}}, map[string]any{"a": 1, "b": []any{2}}},
		map[string]any{"a": map[string]any{"b": map[string]any{"c": 1}}},
		[]any{3, 1, 2},
		map[string]any{"q": map[string]any{"a": []any{map[string]any{"b": 1}}}, "a": map[string]any{"b": 1}, "c": map[string]any{"d": 2}},
	}
}

var updateForms = []string{
	`%OP`, `%OP`, `%OP`,
	`. as $x | $x | %OP`,
	`[., (%OP), .]`,
	`. as $x | (%OP) | ., $x`,
	`{x: ., y: .} | .x | %OP`,
	`[limit(3; repeat(.))] | .[1] | %OP`,
	`., (%OP), .`,
	`[.] | .[0] | %OP`,
	`. as $x | reduce (1,2) as $i ($x; %OP)`,
	`def f: %OP; f`,
	`first(%OP)`,
	`[%OP] | length`,
}

var updateMust = []string{
	`del(.a.q)`,
	`.a |= (.b = 1)`,
	`. as $x | $x | del(.a.q)`,
	`. as $x | [$x,$x] | .[0].a |= 1`,
	`[., .] | del(.[0].a.q)`,
	`{x:., y:.} | .x.a.b |= 1 | del(.y.q)`,
	`del(.a.b.z)`, `delpaths([["a","zz"],["c",5]])`, `.c |= sort_by(.a)`, `.a.q |= reverse`, `.c[0] += {"z":1}`, `to_entries`, `.a.q[1:] = [9]`,
	`sort`, `reverse`, `map(.)`, `.[0] |= sort`, `flatten`, `group_by(.a)`, `unique_by(.a)`, `add`, `.[0] + .[1]`, `.[:1] + [7]`, `del(.[0][5])`,
	`walk(if type == "array" then sort else . end)`, `(.. | arrays) |= reverse`, `with_entries(.value |= (del(.q)? // .))`,
	`tostream`, `[paths]`, `pick(.a.b)`, `. * {"a":{"z":1}}`, `. * .`, `.b = .`,
}

// sharedNatives: every builtin that consumes a whole array / object, applied to a container of
// mixed scalars and containers. On a code constant (kind literal) and on the one shared input
// (kind update) any write by the builtin — even one that leaves every output unchanged, such as
// replacing 1 by "1" before joining — is a data race.
var sharedNatives = []string{
	`join(",")`, `join("")`, `(join(1))?`, `sort`, `sort_by(.)`, `sort_by(tojson)`, `group_by(type)`, `unique`, `unique_by(type)`, `min`, `max`, `min_by(tojson)`, `max_by(tojson)`, `(add)?`, `add(.[]?; 0)?`, `flatten`, `flatten(1)`, `reverse`,
	`tostring`, `tojson`, `@json`, `(@csv)?`, `(@tsv)?`, `(@sh)?`, `@html`, `@text`, `@base64`, `@uri`, `(implode)?`, `(transpose)?`, `[limit(3; combinations?)]`, `keys`, `keys_unsorted`, `length`, `index(1)?`, `indices(1)?`, `inside(.)`, `contains(.)`, `any`, `all`, `first?`, `last?`, `nth(1)?`,
	`to_entries`, `(from_entries)?`, `(with_entries(.))?`, `map(.)`, `map_values(.)`, `map_values(empty)`, `walk(.)`, `[paths]`, `[paths(type == "number")]`, `[tostream]`, `fromstream(tostream)`, `getpath([0])?`, `[limit(2; .[])]`, `tojson | fromjson`, `bsearch(1)?`, `[.[] | IN(1, true)]`,
	`del(.[0])?`, `del(.a)?`, `.[1:]?`, `. + .`, `(. - [1])?`, `.[] |= .`, `has(0)?`, `has("a")?`, `map(tostring)`, `map(tojson)`, `[.[] | tostring]`, `[.[] | numbers]`, `[.[] | scalars]`, `map(select(. != null))`, `map(type)`, `[.. ]`, `[..|numbers]`, `[leaf_paths?]`, `pick(.[0])?`, `pick(.a)?`, `toarray?`, `(tonumber)?`, `ascii_downcase?`,
	`[splits(",")?]`, `ltrimstr("a")`, `[.[] | tostring | ascii_downcase]`, `[.[] | tojson | fromjson]`, `@json "v=\(.)"`, `"\(.)"`, `[.[] | "\(.)"]`, `map([.])`, `map({v: .})`, `[.[] as $x | $x]`, `. as [$a, $b] ?// {$a, $b} | [$a, $b]`, `reduce .[] as $x (0; . + 1)`, `[foreach .[] as $x (0; . + 1; [$x, .])]`, `to_entries | map(.value)`, `with_entries(.value |= tostring)?`,
	`[.[] | tostring] | join("-")`, `map(tostring) | join(",")`, `[.[]?] | join("/")`, `(.[1:] | join(","))?`, `([.[]] | join(","))`, `. as $x | $x | join(",")`, `[limit(2; repeat(join(",")))]`, `(.a | join(","))?`, `(.[0] | join(","))?`, `[.[] | arrays | join(",")]`,
}

// explicit path lists that the program does not own (literals, parts of the input), unsorted,
// with ancestors after descendants; `builtins`; constant slices (compile-time memoisation)
var sharedPathLists = []string{
	`{"a":{"b":[1,2,3]},"c":1,"d":2} | delpaths([["d"],["a","b",2],["c"],["a","b",0]])`, `{"a":{"b":[1,2,3]},"c":1,"d":2} | delpaths([["c"],["a","b"],["a"]])`, `[[1,2],[3,4],[5]] | delpaths([[2],[0,1],[1,0],[0,0]])`,
	`{"a":{"b":[1,2,3]},"c":1} | [["c"],["a","b",1],["a","b",0]] as $ps | delpaths($ps), $ps`, `{"a":[1,2,3]} | reduce ([["a",2],["a",0]], [["a",1]]) as $ps (.; delpaths($ps))`, `[3,1,2] | [[2],[0]] as $ps | [delpaths($ps), $ps, (.[1:] | delpaths([[1],[0]]))]`,
	`builtins | length`, `[builtins[] | select(startswith("a"))] | length`, `builtins | map(split("/")[0]) | unique | length`,
	`[1,2,3,4,5] | .[2:4], .[:-1], (.[1:3] = [9]), (.[:2] |= reverse), del(.[3:])`, `[[1,2],[3,4]] | [limit(3; combinations)]`, `[1,2,3] | [.[1:], .[:1], .[1:2]] | map(.[0:1])`, `"abcdef" | .[2:4], .[:-1], .[3:]`,
}

var sharedContainers = []string{`[1,true,"a",null,2.5,[1],{"a":1}]`, `[1,2,3,true,false,null,"x",1.5,100000000000000000000]`, `{"a":1,"b":true,"c":"x","d":null,"e":[1,2.5],"f":{"g":2}}`, `[[1,true],[2,false,"s"]]`, `{"a":[1,true,"a",null,2.5]}`}

func (g *gen) update(nRandom int) []program {
	var ps []program
	fixed := fixedInputs()
	for _, t := range updateMust {
		ps = append(ps, program{Src: t, Kind: "update", Inputs: fixed})
	}
	var sharedIn []any
	for _, c := range sharedContainers {
		var v any
		if json.Unmarshal([]byte(c), &v) == nil {
			sharedIn = append(sharedIn, normalizeJSON(v))
		}
	}
	for _, t := range sharedNatives {
		ps = append(ps, program{Src: t, Kind: "update", Inputs: sharedIn})
	}
	todo := []any{map[string]any{"todo": []any{[]any{"v", "d"}, []any{"v", "a", 1}, []any{"v", "c"}, []any{"v", "a", 0}}, "v": map[string]any{"a": []any{1, 2, 3}, "c": 1, "d": 2}},
		map[string]any{"todo": []any{[]any{"v", 2}, []any{"v", 0}}, "v": []any{1, 2, 3}}}
	for _, t := range []string{`. as $in | .v |= . | delpaths($in.todo)`, `delpaths(.todo)`, `.todo as $t | delpaths($t), $t`, `[delpaths(.todo), .todo]`, `del(.v) | .todo | sort`, `.todo |= sort | delpaths(.todo)`} {
		ps = append(ps, program{Src: t, Kind: "update", Inputs: todo})
	}
	for i := 0; i < nRandom; i++ {
		// inputs: the value the paths are drawn from, a few more of the same shape,
		// some fixed ones and one value from the shared universe generator
		v := g.value(0, 3)
		ins := []any{v}
		for k := g.r.Intn(3); k > 0; k-- {
			ins = append(ins, g.value(0, 3))
		}
		ins = append(ins, common.Pick(g.r, fixed))
		if g.r.Chance(1, 3) {
			ins = append(ins, common.RandValue(g.r, common.GenOpts{Floats: true, MaxDepth: 3, MaxWidth: 3, SmallKeys: true}, 0))
		}
		if g.r.Chance(1, 4) {
			v = ins[len(ins)-1] // paths drawn from another input: mostly missing on the first
		}
		op := g.op(v)
		form := common.Pick(g.r, updateForms)
		ps = append(ps, program{Src: strings.Replace(form, "%OP", op, 1), Kind: "update", Inputs: ins})
	}
	return dedup(ps)
}

// ---------------------------------------------------------------------------------------------
// kind "regex": the regexp cache shared by all runs of one Code

var regexPool = []string{
	"a", "b+", "a+", "[a-z]+", `\d+`, "(?<x>[a-z])", `(?<y>\d+)`, "^a", "c$", "a|b", "(a)(b)?", `\s+`, "[^a]", ".", "",
	"fo+", `(?<first>\w+) (?<second>\w+)`, `\bfoo\b`, "[A-Z]", "x*", "(?i)abc", "a.c", "[0-9]{2,}", "(foo|bar)+", "^$",
	`\w+@\w+\.com`, ", *", "(?<n>a)|(?<m>b)", "[[:alpha:]]+", `\p{L}+`, "日本", `(\d+)-(\d+)`, `^\s+|\s+$`,
	"(", "[a", "a**", "(?<n", `\`,
}

var regexFlags = []string{"g", "i", "x", "gi", "", "n", "m", "gm", "ig", "l", "gx"}

var stringPool = []string{
	"", "abc", "aaa bbb", "foo bar foo", "test 123 abc 456", "AbC", "xyz", "a,b, c", "日本語テキスト", "aXbxC", "line1\nline2",
	"  pad  ", "2024-01-02T03:04:05Z", "foo.bar@example.com", "aaaaaaaaaaaaaaaaaaaaaaaa", "foofoobar", "12-34 56-78", "a", "b", "The Quick Brown Fox",
}

// regexOps: %R a regex literal, %F a flags literal.
var regexOps = []string{
	`test(%R)`, `test(%R; %F)`, `[match(%R; "g") | .string]`, `[match(%R; %F) | .offset]`, `capture(%R)`, `[capture(%R; "g")]`,
	`[scan(%R)]`, `[scan(%R; %F)]`, `split(%R; null)`, `split(%R; %F)`, `[splits(%R)]`, `sub(%R; "X")`, `sub(%R; "<\(.x)>")`,
	`gsub(%R; "-")`, `gsub(%R; "[\(.)]")`, `gsub(%R; "X"; %F)`, `[match([%R, %F])]`, `test([%R, "i"])`, `ascii_downcase | test(%R)`,
	`[match(%R; "g").captures[].string]`, `[match(%R; "gn")] | length`, `sub(%R; "a", "b")`, `[match(%R, %R2; "g").length]`,
	`test(%R) and test(%R2)`, `gsub(%R; "x") | gsub(%R2; "y")`, `ltrimstr("a") | [scan(%R)]`, `ascii_upcase | sub(%R; "_"; "gi")`,
	`split(", ") | map(test(%R))`, `[splits(%R; %F)] | length`, `explode | map(select(. < 128)) | implode | ascii_downcase | test(%R)`,
}

var regexMust = []string{
	`test("a+")`,
	`[test("a"), test("b+"), gsub("(?<x>[a-z])";"\(.x)!"), (capture("(?<y>\\d+)")? // null)]`,
	`gsub("\\s+"; " ") | [scan("[a-z]+")] | map(sub("^a"; "A"))`,
	`try test("(") catch "bad regex"`,
	`[match("a|b"; "g").offset], [match("A|B"; "gi").offset]`,
}

func (g *gen) regexOp() string {
	t := common.Pick(g.r, regexOps)
	return strings.NewReplacer("%R2", jqStr(common.Pick(g.r, regexPool)), "%R", jqStr(common.Pick(g.r, regexPool)), "%F", jqStr(common.Pick(g.r, regexFlags))).Replace(t)
}

func (g *gen) strings(n int) []any {
	xs := make([]any, n)
	for i := range xs {
		xs[i] = common.Pick(g.r, stringPool)
	}
	return xs
}

func (g *gen) regex(nRandom int) []program {
	var ps []program
	allStrings := make([]any, len(stringPool))
	for i, s := range stringPool {
		allStrings[i] = s
	}
	for _, t := range regexMust {
		ps = append(ps, program{Src: t, Kind: "regex", Inputs: allStrings})
	}
	// regex taken from the input: every goroutine starts at another input, hence
	// compiles and stores another regexp while the others load
	dyn := []string{
		`.re as $re | .s | test($re)`,
		`.re as $re | .s | [match($re; "g").string]`,
		`. as {s: $s, re: $re, fl: $fl} | $s | [scan($re; $fl)]`,
		`.re as $re | .s | gsub($re; "-")`,
		`.re as $re | .s | try capture($re) catch "bad"`,
		`.re as $re | .s | [splits($re)]`,
		`.re as $re | .fl as $fl | .s | sub($re; "<\(.)>"; $fl)`,
		`.re as $re | .s | test($re), test($re; "i"), test($re; "g"), test("x" + $re)`,
		`. as {s: $s, re: $re} | [$s, $s + "a"] | map(test($re))`,
		// hundreds of distinct patterns in ONE run (a cache with a size limit, an eviction or a
		// reset is only exercised beyond its limit), while the other goroutines do the same
		`. as {s: $s, re: $re} | try ([range(300) as $i | $s | test("z\($i)|" + $re)] | map(select(.)) | length) catch "bad"`,
		`. as {s: $s} | [range(1; 200) as $i | $s | [match("a{1,\($i)}"; "g")] | length] | add`,
		`. as {s: $s, re: $re, fl: $fl} | try ([range(260) as $i | $s | [scan("(?<n>q\($i))|" + $re; $fl)] | length] | add) catch "bad"`,
		`. as {s: $s} | reduce range(520) as $i (0; . + ($s | if test("^\($i % 173)x|b+") then 1 else 0 end))`,
	}
	dynInputs := func() []any {
		n := g.r.Range(16, 40)
		xs := make([]any, n)
		for i := range xs {
			re := common.Pick(g.r, regexPool)
			switch g.r.Intn(4) {
			case 0:
				re = fmt.Sprintf("a{1,%d}", g.r.Range(1, 60))
			case 1:
				re = re + fmt.Sprintf("|z%d", g.r.Range(1, 500))
			}
			fl := common.Pick(g.r, regexFlags)
			if i > 0 && g.r.Chance(1, 3) {
				// the regex of an earlier input again, with another flag string (supported after
				// unsupported and the reverse): what one run caches the other must not be served
				prev := xs[g.r.Intn(i)].(map[string]any)
				re = prev["re"].(string)
				if fl == prev["fl"] {
					fl = common.Pick(g.r, []string{"x", "gx", "n", "g", ""})
				}
			}
			xs[i] = map[string]any{"s": common.Pick(g.r, stringPool), "re": re, "fl": fl}
		}
		return xs
	}
	for _, t := range dyn {
		ps = append(ps, program{Src: t, Kind: "regex", Inputs: dynInputs()})
	}
	for i := 0; i < nRandom; i++ {
		switch g.r.Intn(5) {
		case 0, 1: // one operation on string inputs
			op := g.regexOp()
			if g.r.Chance(1, 3) {
				op = "try (" + op + ") catch \"E\""
			}
			ps = append(ps, program{Src: op, Kind: "regex", Inputs: g.strings(g.r.Range(2, 6))})
		case 2, 3: // MANY different regexes in one Code, over an array of strings
			k := g.r.Range(3, 8)
			var parts []string
			for j := 0; j < k; j++ {
				op := g.regexOp()
				switch g.r.Intn(3) {
				case 0:
					op = "(" + op + ")?"
				case 1:
					op = "try (" + op + ") catch \"E\""
				}
				parts = append(parts, op)
			}
			src := "[.[] | " + strings.Join(parts, ", ") + "]"
			ps = append(ps, program{Src: src, Kind: "regex", Inputs: []any{g.strings(g.r.Range(1, 4)), g.strings(g.r.Range(1, 4)), g.strings(2)}})
		default:
			ps = append(ps, program{Src: common.Pick(g.r, dyn), Kind: "regex", Inputs: dynInputs()})
		}
	}
	// dedup by source only would drop the dynamic programs with fresh inputs: keep them
	return ps
}

// ---------------------------------------------------------------------------------------------
// kind "corpus": queries of cli/test.yaml with their own inputs

// queries that are not deterministic functions of (query, input) or need a module loader
var banned = []string{"input", "now", "debug", "stderr", "halt", "$__loc__", "env", "ENV", "localtime", "strflocaltime", "date", "mktime",
	"$__prog", "import", "include"}

func (g *gen) corpus(index, of int, thorough bool, quickN int) []program {
	var usable []corpus.Entry
	for _, e := range corpus.Load() {
		ok := true
		for _, b := range banned {
			if strings.Contains(e.Query, b) {
				ok = false
			}
		}
		if ok {
			usable = append(usable, e)
		}
	}
	var ps []program
	if thorough {
		for i, e := range usable {
			if i%of == index%of {
				ps = append(ps, program{Src: e.Query, Kind: "corpus", Inputs: e.Inputs})
			}
		}
		return ps
	}
	// quick: a random sample
	for i := len(usable) - 1; i > 0; i-- {
		j := g.r.Intn(i + 1)
		usable[i], usable[j] = usable[j], usable[i]
	}
	for _, e := range usable[:min(quickN, len(usable))] {
		ps = append(ps, program{Src: e.Query, Kind: "corpus", Inputs: e.Inputs})
	}
	return ps
}

// normalizeJSON turns encoding/json's float64 into gojq's carriers (int where integral).
func normalizeJSON(v any) any {
	switch v := v.(type) {
	case float64:
		if v == float64(int(v)) && v < 1e15 && v > -1e15 {
			return int(v)
		}
		return v
	case []any:
		for i := range v {
			v[i] = normalizeJSON(v[i])
		}
		return v
	case map[string]any:
		for k := range v {
			v[k] = normalizeJSON(v[k])
		}
		return v
	}
	return v
}

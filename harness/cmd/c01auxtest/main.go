// Standalone runner for the C01 auxiliary checks (harness/c01aux); the C01 harness proper
// (cmd/c01) calls c01aux.Run itself.
//
//	go run -tags verif ./cmd/c01auxtest -driver /verif/lean/.lake/build/bin/drv_c01aux
package main

import (
	"verifharness/c01aux"
	"verifharness/common"
)

func main() {
	ctx := common.ParseFlags("C01")
	c01aux.Run(ctx, ctx.Driver)
	ctx.Finish()
}

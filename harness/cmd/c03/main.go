// C03 — every builtin computes its documented function on all argument types.
//
// correspondence stream `native`: every entry of gojq.VerifNatives() that has a callee, each
//
//	arity of its mask, called directly (Callback(input, args)) on tuples over the value universe
//	extended with the boundary arguments of the property, vs Model/Native.lean (callNative).
//	Values are compared in wire form, errors by the exact bytes of their message.
//
// oracles (model-free, on the real code only; oracles.go):
//
//	total         every (native, tuple) of the stream returns a value of the JSON universe or an
//	              error value; a recovered panic is a violation `native-panic:<name>`
//	carrier-swap  the same call with every number carried as int / *big.Int / json.Number
//	              (integers) or float64 / json.Number (fractions) gives equal canonical results
//	builtin-jq    every definition of builtin.jq, compiled from the published text under a fresh
//	              name, behaves as the shipped builtin of that name (builtin.go in sync)
//	laws          documented-function spot laws through the public API
package main

import (
	"encoding/json"
	"fmt"
	"hash/fnv"
	"math"
	"math/big"
	"os"
	"path/filepath"
	"regexp"
	"runtime/debug"
	"sort"
	"strconv"
	"strings"
	"time"

	"github.com/itchyny/gojq"

	"verifharness/common"
	"verifharness/jqref"
	"verifharness/samequery"
)

const rangeLimit = 40

// ---------------------------------------------------------------------------------------------
// calling a native and rendering its answer exactly as lean/Driver/C03.lean does

type answer struct {
	text  string // protocol answer
	class string // ok | err:<Go type> | errv | halt | iter | panic
	raw   any
	panic string
	stack string
}

func renderResult(v any) (text, class string) {
	switch e := v.(type) {
	case *gojq.HaltError:
		return "halt " + common.Canon(e.Value()) + " " + strconv.Itoa(e.ExitCode()), "halt"
	case gojq.ValueError:
		return "errv " + common.Canon(e.Value()), "errv"
	case error:
		return "err s" + common.Hex(e.Error()), fmt.Sprintf("err:%T", e)
	case gojq.Iter:
		var sb strings.Builder
		sb.WriteString("iter")
		for i := 0; ; i++ {
			x, ok := e.Next()
			if !ok {
				break
			}
			if i == rangeLimit {
				sb.WriteString(" more")
				break
			}
			if err, ok := x.(error); ok {
				sb.WriteString(" ERR:" + err.Error())
				break
			}
			sb.WriteString(" " + common.Canon(x))
		}
		return sb.String(), "iter"
	default:
		return "ok " + common.Canon(v), "ok"
	}
}

func callNative(cb func(any, []any) any, in any, args []any) (a answer) {
	defer func() {
		if r := recover(); r != nil {
			a = answer{text: "PANIC " + fmt.Sprint(r), class: "panic", panic: fmt.Sprint(r), stack: string(debug.Stack())}
		}
	}()
	in = common.DeepCopy(in)
	as := make([]any, len(args))
	for i, x := range args {
		as[i] = common.DeepCopy(x)
	}
	v := cb(in, as)
	a.raw = v
	a.text, a.class = renderResult(v)
	return a
}

// ---------------------------------------------------------------------------------------------
// which calls must not be made at all (they would allocate gigabytes or run for hours)

func numOf(v any) (float64, bool) {
	switch x := v.(type) {
	case int:
		return float64(x), true
	case float64:
		return x, true
	case *big.Int:
		f, _ := new(big.Float).SetInt(x).Float64()
		return f, true
	}
	return 0, false
}

func anyNumber(v any, pred func(float64) bool) bool {
	switch x := v.(type) {
	case []any:
		for _, y := range x {
			if anyNumber(y, pred) {
				return true
			}
		}
	case map[string]any:
		for _, y := range x {
			if anyNumber(y, pred) {
				return true
			}
		}
	default:
		if f, ok := numOf(v); ok {
			return pred(f)
		}
	}
	return false
}

// skipCall: calls that are well-defined but too expensive to make (reported in the stream's
// distribution as `skipped:<why>`).
func skipCall(name string, in any, args []any) string {
	switch name {
	case "_multiply":
		// repeatString materialises up to 2 GiB
		for i := 0; i < 2; i++ {
			if s, ok := args[i].(string); ok {
				if f, ok := numOf(args[1-i]); ok && f > 0 && float64(len(s))*math.Min(f, math.MaxInt32) > 100000 && float64(len(s))*math.Min(f, math.MaxInt32) < math.MaxInt32 {
					return "repeat-too-large"
				}
			}
		}
	case "setpath":
		// an index below 0x20000000 allocates that many elements
		if anyNumber(args[0], func(f float64) bool { return f >= 20000 && f < 0x20000000 }) {
			return "setpath-huge-index"
		}
	case "jn", "yn":
		// math.Jn / math.Yn run a recurrence of |n| steps (see the final report: jn(1e18; 1.5) does not return)
		if f, ok := numOf(args[0]); ok && !(math.Abs(f) <= 1000) {
			return "bessel-order-too-large"
		}
	}
	return ""
}

// ---------------------------------------------------------------------------------------------
// universes

func bigOf(s string) any {
	z, _ := new(big.Int).SetString(s, 10)
	return common.NormInt(z)
}

// core: SmallUniverse plus the numeric boundary arguments of the property
func coreUniverse() []any {
	u := common.SmallUniverse()
	u = append(u, -2, 3, 10, 2.5, -1.5, math.Copysign(0, -1), math.NaN(), math.Inf(1), math.Inf(-1),
		bigOf("9007199254740993"), bigOf("-9223372036854775808"), bigOf("-18446744073709551617"), 1e-7, 1e300, 5e-324,
		"abcabc", "bc", " a\t", "a\xffb", "1.5", "true",
		[]any{}, []any{"a"}, []any{0}, []any{-1}, []any{[]any{0}}, []any{[]any{"a"}},
		[]any{3, 1, 2}, []any{1, []any{2, []any{3}}}, []any{[]any{1, 2}, []any{3}},
		map[string]any{"start": 1, "end": nil}, map[string]any{"start": 0, "end": 1})
	return dedup(u)
}

// ext: strings and structures that matter to particular natives only
func extUniverse() []any {
	return dedup([]any{
		bigOf("1" + strings.Repeat("0", 400)), bigOf("-1" + strings.Repeat("0", 400)),
		0.5, -0.5, 1.5e-9, 4.5, -2.5, 1425599507, 1425599507.678, -86400.5, 2147483648, bigOf("3037000500"), 100000, 1e19, -1e19, 9007199254740992.0,
		"b", "A b", "Ab\u00e9Z", "\u00a0a\u3000", "\u2003", "a\u0085", "\xe3\x80", "\xe3\x80\x80\x80", "\xed\xa0\x80", "\xf0\x9f\x98\x80", "漢字", "a b c", "aXbXc", ",", "a,b, c",
		"-0", "1e2", ".5", "1.", "+1", "-.5e-3", "0x1", "1e", "1e400", "-1e400", "1e-400", "00012", "123456789012345678901234567890", "nan", "1 ", "1.2.3", "1_0",
		"false", "null", "[1,2]", "{\"a\":1,\"a\":2}", "\"\\ud800\"", "\"\\ud83d\\ude00\"", "[1,", "1 2", " [1 , {\"b\":null}] ", "\"a\xffb\"", "01", "1e5", "-0.0", "[1e400]", "{\"a\":1}x", "",
		"%41%zz", "a+b%20c", "%", "%4", "%e3%81%82", "YWJj", "YW=Jj", "YQ==", "YWJ", "Y", "!!!!", "YW\nJj", "<&>'\"", "a\x00b", "it's", "a\tb\\c\r\n", "\"q\"",
		"2015-03-05T23:51:47Z", "%Y-%m-%dT%H:%M:%SZ", "%A, %B %d, %Y", "10:20", "%H:%M",
		"text", "json", "html", "uri", "urid", "csv", "tsv", "sh", "base64", "base64d", "base32",
		[]any{"a", "b"}, []any{"a", 0}, []any{0, "a"}, []any{[]any{0}, []any{1}}, []any{[]any{"a", "b"}, []any{"a"}}, []any{[]any{"a"}, []any{"a", "b"}}, []any{nil}, []any{true}, []any{1.5}, []any{[]any{true}},
		[]any{[]any{-1}}, []any{[]any{5}}, []any{[]any{1}, []any{1}}, []any{[]any{0, 0}, []any{0, "a"}}, []any{1}, []any{"b"}, []any{[]any{"b"}}, []any{100}, []any{-5},
		map[string]any{"start": nil, "end": -1}, map[string]any{"start": "a", "end": 1}, map[string]any{"start": 1}, map[string]any{"start": 1.5, "end": 2.5}, map[string]any{"start": 2, "end": 1},
		[]any{map[string]any{"start": 0, "end": 1.5}}, []any{map[string]any{"start": 0.5, "end": 2.5}}, []any{[]any{map[string]any{"start": 0, "end": 1.5}}}, []any{map[string]any{"start": -1.5, "end": nil}},
		[]any{map[string]any{"start": 0, "end": 1}}, []any{map[string]any{"start": 1, "end": 3}, 0}, []any{[]any{map[string]any{"start": 0, "end": 1}}}, []any{[]any{map[string]any{"start": 1, "end": nil}, 0}},
		[]any{[]any{1, 2, 3}, []any{4, 5, 6}}, []any{[]any{1}, 2}, []any{[]any{}, []any{1, 2}}, []any{[]any{[]any{1}}, []any{[]any{[]any{2}}}},
		[]any{"a", 1, nil, true}, []any{"a", "b", "a"}, []any{1.5, "x"}, []any{[]any{"b"}, []any{"a"}}, []any{[]any{2}, []any{1}, []any{2}, []any{1}, []any{3}}, []any{1, 1, 2, 2, 3},
		[]any{65, 0x1F600, -1, 1114112, 55296, 233}, []any{65, "a"}, []any{1.9, 66.5},
		[]any{4294967361}, []any{9007199254740992.0}, []any{-4294967231}, []any{1099511756288, 66}, []any{4294967296, bigOf("18446744073709551681")}, []any{2147483713, -2147483583},
		[]any{"a\"b", "c,d", 1, nil, true, 1.5, "\t"}, []any{[]any{1}}, []any{map[string]any{}}, []any{math.NaN(), math.Inf(1)},
		[]any{2024, 1, 29, 12, 30, 15.5, 4, 59}, []any{2024, 1}, []any{1970, 0, 1, 0, 0, 0, 4, 0}, []any{2015, 2, 5, 23, 51, 47, 4, 63}, []any{2024, 13, 0, -1, 61, 60.25}, []any{"a", 1}, []any{2024, 1, 29, 12, 30, "x"}, []any{1, 1, 1, 1, 1, 1e19},
		[]any{map[string]any{"name": "x", "string": "s"}, map[string]any{"name": nil, "string": "t"}, map[string]any{"name": "x", "string": nil}, 1},
		map[string]any{"a": []any{1, 2}, "b": map[string]any{"c": 3}}, map[string]any{"a": nil}, map[string]any{"a": map[string]any{"b": 2, "c": 3}}, map[string]any{"a": map[string]any{"b": 9}, "d": 1}, map[string]any{"b": 1, "a": "x"},
		map[string]any{"a": "ab"}, map[string]any{"a": []any{1}}, []any{"ab", []any{1, 2}}, []any{"b", []any{2}},
	})
}

func dedup(u []any) []any {
	seen := map[string]bool{}
	var out []any
	for _, v := range u {
		k := common.Canon(v)
		if !seen[k] {
			seen[k] = true
			out = append(out, v)
		}
	}
	return out
}

// index-like values for the arity-3 natives
func indexUniverse() []any {
	return []any{nil, 0, 1, -1, 2, 3, -2, 5, 1.5, -0.5, 2.5, math.NaN(), math.Inf(1), math.Inf(-1), bigOf("18446744073709551616"), bigOf("-9223372036854775808"), 1e19, "a", true, []any{0}}
}

func sliceSubjects() []any {
	return []any{nil, "", "abc", "a\u00e9\u6f22\U0001F600z", "a\xffb\xe3\x80", []any{}, []any{1}, []any{0, 1, 2, 3, 4}, []any{nil, "a", []any{1}}, 5, true, map[string]any{"a": 1}}
}

func numberUniverse() []any {
	return []any{0, 1, -1, 2, 3, 10, -7, 0.5, 2.5, -1.5, math.Copysign(0, -1), math.NaN(), math.Inf(1), math.Inf(-1), 1e19, bigOf("18446744073709551616"), bigOf("9223372036854775807"), 5e-324, 1e300, 1e-7, "a", nil}
}

// ---------------------------------------------------------------------------------------------
// the native table

type native struct {
	name string
	info gojq.VerifNativeInfo
}

// compilerHandled reads the callee column of the regenerated Generated/NativeTable.lean
// (callee "" = argFuncN(nil): the compiler emits its own code for the name; calling the
// closure dereferences a nil func). Falls back to the list of the pinned tree.
func compilerHandled() map[string]bool {
	out := map[string]bool{}
	p := filepath.Join(common.Getenv("VERIF_DIR", "/verif"), "lean", "Gojq", "Generated", "NativeTable.lean")
	if b, err := os.ReadFile(p); err == nil {
		re := regexp.MustCompile(`⟨"([^"]+)", \d+, (?:true|false), "[^"]*", "([^"]*)", "[^"]*"⟩`)
		ms := re.FindAllStringSubmatch(string(b), -1)
		if len(ms) > 0 {
			for _, m := range ms {
				if m[2] == "" {
					out[m[1]] = true
				}
			}
			return out
		}
	}
	for _, n := range []string{"empty", "path", "env", "builtins", "input", "modulemeta", "debug", "_match"} {
		out[n] = true
	}
	return out
}

func natives() []native {
	m := gojq.VerifNatives()
	skip := compilerHandled()
	var out []native
	for k, v := range m {
		if v.Callback == nil || skip[k] {
			continue
		}
		out = append(out, native{k, v})
	}
	sort.Slice(out, func(i, j int) bool { return out[i].name < out[j].name })
	return out
}

// the math functions the model computes exactly (Model/Native/Math.lean)
var isMath1 = map[string]bool{"floor": true, "ceil": true, "round": true, "nearbyint": true, "rint": true, "trunc": true, "fabs": true, "significand": true, "logb": true}
var isMath2 = map[string]bool{"copysign": true, "drem": true, "remainder": true, "fdim": true, "fmax": true, "fmin": true, "fmod": true, "nextafter": true, "nexttoward": true,
	"ldexp": true, "scalb": true, "scalbln": true}

// natives whose two arguments are all they look at (argFunc2 over an ignored input)
var ignoresInput = map[string]bool{"_index": true, "_add": true, "_subtract": true, "_multiply": true, "_divide": true, "_modulo": true,
	"_alternative": true, "_equal": true, "_notequal": true, "_greater": true, "_less": true, "_greatereq": true, "_lesseq": true}

type tuple struct {
	in   any
	args []any
}

// tuples enumerates the calls made for one (native, arity).
func tuples(ctx *common.Ctx, name string, argc int, core, ext []any, mathLike bool) []tuple {
	r := ctx.R
	var out []tuple
	all := append(append([]any{}, core...), ext...)
	pairs := func(f func(a, b any)) {
		for _, a := range core {
			for _, b := range core {
				f(a, b)
			}
		}
		// pairs involving the extended universe: sampled in the quick tier
		for _, a := range ext {
			for _, b := range all {
				if ctx.Thorough || r.Chance(1, 5) {
					f(a, b)
				}
			}
		}
		for _, a := range core {
			for _, b := range ext {
				if ctx.Thorough || r.Chance(1, 5) {
					f(a, b)
				}
			}
		}
	}
	switch argc {
	case 0:
		for _, v := range all {
			out = append(out, tuple{v, nil})
		}
	case 1:
		pairs(func(a, b any) { out = append(out, tuple{a, []any{b}}) })
	case 2:
		if ignoresInput[name] || mathLike {
			pairs(func(a, b any) { out = append(out, tuple{nil, []any{a, b}}) })
			// the input really is ignored
			for i := 0; i < 40; i++ {
				out = append(out, tuple{common.Pick(r, all), []any{common.Pick(r, all), common.Pick(r, all)}})
			}
		} else {
			// setpath(v; p; n)
			ns := []any{nil, 7, "x", []any{9}, map[string]any{"z": 1}}
			for _, v := range all {
				for _, p := range all {
					if _, ok := p.([]any); !ok && !ctx.Thorough && !r.Chance(1, 12) {
						continue
					}
					for _, n := range ns {
						if ctx.Thorough || r.Chance(1, 2) {
							out = append(out, tuple{v, []any{p, n}})
						}
					}
				}
			}
		}
	case 3:
		switch {
		case name == "_slice":
			for _, x := range sliceSubjects() {
				for _, e := range indexUniverse() {
					for _, s := range indexUniverse() {
						out = append(out, tuple{nil, []any{x, e, s}})
					}
				}
			}
		default:
			nu := numberUniverse()
			for _, a := range nu {
				for _, b := range nu {
					for _, c := range nu {
						if ctx.Thorough || r.Chance(1, 2) {
							out = append(out, tuple{nil, []any{a, b, c}})
						}
					}
				}
			}
		}
	}
	return out
}

func label(name string, t tuple) string {
	js := func(v any) string {
		b, _ := gojq.Marshal(v)
		s := string(b)
		if len(s) > 80 {
			s = s[:80] + "…"
		}
		return s
	}
	as := make([]string, len(t.args))
	for i, a := range t.args {
		as[i] = js(a)
	}
	return fmt.Sprintf("%s | %s(%s)", js(t.in), name, strings.Join(as, "; "))
}

func protoLine(name string, t tuple) string {
	var sb strings.Builder
	sb.WriteString(name + " " + strconv.Itoa(len(t.args)) + " " + common.Canon(t.in))
	for _, a := range t.args {
		sb.WriteString(" " + common.Canon(a))
	}
	return sb.String()
}

func main() {
	ctx := common.ParseFlags("C03")
	t0 := time.Now()
	r := ctx.R
	core, ext := coreUniverse(), extUniverse()
	nats := natives()

	st := ctx.NewStream("native", "Gojq.callNative (Model/Native.lean and Model/Native/*.lean): every native of internalFuncs with a callee, every arity of its mask",
		"tuples (input, args) over SmallUniverse + boundary arguments (negative / fractional / huge indices, empty needles, depth 0, NaN/±Inf, -0, 2^53+1, big ints, invalid UTF-8) — all pairs of the core universe, sampled pairs with the extended one (all in the thorough tier), reduced cubes for arity 3, plus random nested values; distinct = distinct implementation answers")
	tot := ctx.NewOracle("total", "every call of the native stream returns a value of the JSON universe or an error value (no panic, no foreign Go type); distinct = distinct (native, answer class)")
	car := ctx.NewOracle("carrier-swap", "the same native call with every number of input and arguments carried as int / *big.Int / json.Number (integers) or float64 / json.Number (fractions) gives equal canonical results (messages and printed literals compared only when the carriers print identically); distinct = distinct (native, canonical answer) among calls that contain a number")

	var lines, impl, labels []string
	type rec struct {
		n native
		t tuple
	}
	var recs []rec
	totDistinct := map[string]bool{}
	carDistinct := map[string]bool{}
	isMath := func(n native) bool {
		// mathFunc2-style: two or three arguments, input ignored — decided by behaviour on a probe
		if n.info.Argcount&(1<<2|1<<3) == 0 || ignoresInput[n.name] || n.name == "setpath" || n.name == "_slice" || n.name == "_range" {
			return false
		}
		return true
	}
	lawsO := newLawsOracle(ctx)
	cl := compileLaws()
	answers := map[uint64]struct{}{} // hashes of the distinct implementation answers compared
	var driverTime time.Duration
	judged := 0
	// flush: the lines gathered so far go through the driver and are compared (batches keep the
	// harness's live heap small: the shared runner has a memory watchdog)
	flush := func() {
		if len(lines) == 0 {
			return
		}
		td := time.Now()
		model, err := common.RunDriver(ctx.Driver, []string{st.Name}, lines)
		driverTime += time.Since(td)
		if err != nil {
			ctx.Errorf("stream %s: %v", st.Name, err)
		} else {
			st.Labels = labels
			st.Compare(lines, impl, model)
			for i := range lines {
				if i >= len(model) || strings.HasPrefix(model[i], "?") {
					continue
				}
				h := fnv.New64a()
				h.Write([]byte(impl[i]))
				answers[h.Sum64()] = struct{}{}
				// a disagreement is handed to the laws that speak about that native: they decide, on
				// exactly that call, whether the REAL code departs from the documented function
				if model[i] != impl[i] && judged < 400 {
					judged++
					judgeDisagreements(ctx, lawsO, cl, recs[i].n.name, recs[i].t)
				}
			}
		}
		if d := os.Getenv("C03_DUMP"); d != "" {
			// development aid: the protocol lines and the implementation's answers, side by side
			f, _ := os.OpenFile(d, os.O_APPEND|os.O_CREATE|os.O_WRONLY, 0o644)
			var sb strings.Builder
			for i := range lines {
				sb.WriteString(lines[i] + "\t" + impl[i] + "\t" + labels[i] + "\n")
			}
			f.WriteString(sb.String())
			f.Close()
		}
		lines, impl, labels, recs = nil, nil, nil, nil
	}
	record := func(n native, t tuple) {
		if len(lines) >= 250000 {
			flush()
		}
		if why := skipCall(n.name, t.in, t.args); why != "" {
			st.Distribution["skipped:"+why]++
			return
		}
		a := callNative(n.info.Callback, t.in, t.args)
		lines = append(lines, protoLine(n.name, t))
		impl = append(impl, a.text)
		labels = append(labels, label(n.name, t))
		recs = append(recs, rec{n, t})
		st.Distribution[n.name]++
		// oracle: totality
		tot.Cases++
		tot.Distribution[a.class]++
		totDistinct[n.name+"|"+a.class] = true
		if a.class == "panic" {
			ctx.Violate("native-panic:"+n.name, fmt.Sprintf("%s panics: %s", label(n.name, t), a.panic),
				map[string]any{"native": n.name, "input": common.Canon(t.in), "args": canonList(t.args), "panic": a.panic, "stack": clipS(a.stack, 1500),
					"cmd": replayCmd(n.name, t)})
		} else if strings.Contains(a.text, "?") && a.class != "err" && !strings.HasPrefix(a.class, "err:") {
			ctx.Violate("native-foreign-value:"+n.name, fmt.Sprintf("%s returns a value outside the JSON universe: %s", label(n.name, t), a.text),
				map[string]any{"native": n.name, "input": common.Canon(t.in), "args": canonList(t.args), "observed": a.text})
		}
		// oracle: carrier swap (on a share of the calls that contain a number)
		if hasNumber(t) && (ctx.Thorough || r.Chance(1, 3)) {
			carrierSwap(ctx, car, carDistinct, n, t, a)
		}
	}
	for _, n := range nats {
		for argc := 0; argc <= 3; argc++ {
			if n.info.Argcount&(1<<argc) == 0 {
				continue
			}
			for _, t := range tuples(ctx, n.name, argc, core, ext, isMath(n)) {
				record(n, t)
			}
		}
	}
	// float sweep for the math functions with an exact model and the numeric natives: format
	// thresholds, subnormals, ±2^53, halves (rounding ties), random bit patterns
	fl := common.InterestingFloats()
	fl = append(fl, 0.5, 1.5, 2.5, -0.5, -1.5, -2.5, 0.49999999999999994, 4503599627370495.5, 4503599627370496.5, -4503599627370497.5,
		math.Copysign(0, -1), math.NaN(), math.Inf(1), math.Inf(-1), 1e-320, -1e-320, 2.2250738585072009e-308, 3, -3, 7, 0.75, 1e22, 123456789.125)
	for i := 0; i < ctx.N(150, 3000); i++ {
		fl = append(fl, common.RandFloat(r))
	}
	small := []any{0, 1, -1, 2, 3, -3, 10, 52, 53, -52, 1023, 1024, -1022, -1074, -1075, 2000, -2000, 0.5, 2.5, math.NaN(), math.Inf(1), math.Inf(-1), math.Copysign(0, -1), 1e-7, 1e300}
	for _, n := range nats {
		switch {
		case n.info.Argcount == 1 && (isMath1[n.name] || n.name == "frexp" || n.name == "modf" || n.name == "abs" || n.name == "length" || n.name == "tostring" || n.name == "tojson" ||
			n.name == "gmtime" || n.name == "isnormal" || n.name == "isnan" || n.name == "isinfinite" || n.name == "_negate" || n.name == "tonumber"):
			for _, f := range fl {
				record(n, tuple{f, nil})
			}
		case n.info.Argcount == 4 && isMath2[n.name]:
			for i, a := range fl {
				for _, b := range small {
					record(n, tuple{nil, []any{a, b}})
				}
				for k := 0; k < 6; k++ {
					record(n, tuple{nil, []any{a, fl[(i*7+k*13+1)%len(fl)]}})
				}
			}
		case n.name == "fma":
			for i, a := range fl {
				for k := 0; k < 8; k++ {
					record(n, tuple{nil, []any{a, fl[(i*5+k*11+3)%len(fl)], fl[(i*3+k*17+7)%len(fl)]}})
				}
			}
		}
	}
	// the order natives on long tie-rich arrays (stability; sort algorithms change behaviour above
	// small-array thresholds)
	{
		byName := map[string]native{}
		for _, n := range nats {
			byName[n.name] = n
		}
		for _, v := range tieRichArrays(r, ctx.N(60, 600)) {
			xs := v.([]any)
			for _, name := range []string{"sort", "unique", "min", "max"} {
				if n, ok := byName[name]; ok {
					record(n, tuple{v, nil})
				}
			}
			if len(xs) > 0 {
				if p, ok := xs[0].([]any); ok && len(p) == 2 {
					ks := make([]any, len(xs))
					for j, x := range xs {
						ks[j] = []any{x.([]any)[0]}
					}
					for _, name := range []string{"_sort_by", "_group_by", "_unique_by", "_min_by", "_max_by"} {
						if n, ok := byName[name]; ok {
							record(n, tuple{v, []any{ks}})
						}
					}
				}
			}
		}
	}
	// random larger values
	opts := common.DefaultGen
	opts.NonFinite = true
	nRand := ctx.N(40000, 600000)
	for i := 0; i < nRand; i++ {
		n := common.Pick(r, nats)
		var arities []int
		for argc := 0; argc <= 3; argc++ {
			if n.info.Argcount&(1<<argc) != 0 {
				arities = append(arities, argc)
			}
		}
		argc := common.Pick(r, arities)
		t := tuple{in: randomFor(r, opts, n.name, -1)}
		for k := 0; k < argc; k++ {
			t.args = append(t.args, randomFor(r, opts, n.name, k))
		}
		record(n, t)
	}
	tot.Distinct = len(totDistinct)
	tot.Samples = []string{"every line of the `native` stream", "classes: ok / err:<Go type> / errv / halt / iter / panic"}
	car.Distinct = len(carDistinct)
	flush()
	st.Distinct = len(answers)
	tCalls := time.Now()
	if os.Getenv("C03_STREAM_ONLY") != "" {
		ctx.Finish()
	}

	t1 := time.Now()
	builtinJqOracle(ctx)
	t2 := time.Now()
	lawsOracle(ctx, lawsO, cl)
	replayFilter(ctx)
	ctx.Res.Notes = append(ctx.Res.Notes,
		fmt.Sprintf("phases: native calls + carrier swap %.0fs, of which driver %.0fs; builtin-jq %.0fs, laws %.0fs", tCalls.Sub(t0).Seconds(), driverTime.Seconds(), t2.Sub(t1).Seconds(), time.Since(t2).Seconds()),
		"calls not made (see distribution skipped:*): string repeats above 100 kB, setpath indices in [20000, 2^29), Bessel orders |n| > 1000 — math.Jn runs a recurrence of n steps, so `gojq -n 'jn(1e12; 1.5)'` does not return in any reasonable time (observation, not judged by this check)")
	samequery.Run(ctx) // natives with a per-query cache: a call inside a query that made other calls = the call alone
	jqref.Run(ctx)     // jq-defined builtins against the jq 1.6 binary (package jqref)
	ctx.Finish()
}

// replayFilter: `bin/check C03 --replay FILE` re-runs the whole (deterministic, seeded) check and
// keeps only the violation whose key the replay file names, so that the file's finding is
// confirmed or reported gone.
func replayFilter(ctx *common.Ctx) {
	if ctx.Replay == "" {
		return
	}
	b, err := os.ReadFile(ctx.Replay)
	if err != nil {
		ctx.Errorf("replay: %v", err)
		return
	}
	var rf struct {
		Key string `json:"key"`
	}
	if err := json.Unmarshal(b, &rf); err != nil || rf.Key == "" {
		ctx.Errorf("replay: %s has no violation key", ctx.Replay)
		return
	}
	var kept []common.Violation
	for _, v := range ctx.Res.Violations {
		if v.Key == rf.Key {
			kept = append(kept, v)
		}
	}
	ctx.Res.Violations = kept
	ctx.Res.Notes = append(ctx.Res.Notes, fmt.Sprintf("replay of %s: violation %s %s", ctx.Replay, rf.Key, map[bool]string{true: "reproduced", false: "NOT reproduced"}[len(kept) > 0]))
}

func canonList(xs []any) []string {
	out := make([]string, len(xs))
	for i, x := range xs {
		out[i] = common.Canon(x)
	}
	return out
}

func clipS(s string, n int) string {
	if len(s) > n {
		return s[:n]
	}
	return s
}

func hasNumber(t tuple) bool {
	p := func(float64) bool { return true }
	if anyNumber(t.in, p) {
		return true
	}
	for _, a := range t.args {
		if anyNumber(a, p) {
			return true
		}
	}
	return false
}

// randomFor draws a value biased towards what the native's position looks at.
func randomFor(r *common.Rand, o common.GenOpts, name string, pos int) any {
	switch {
	case (name == "setpath" || name == "getpath") && pos == 0, name == "delpaths" && pos == 0 && r.Chance(1, 2):
		return randPath(r, o)
	case name == "delpaths" && pos == 0:
		n := r.Intn(4)
		ps := make([]any, n)
		for i := range ps {
			ps[i] = randPath(r, o)
		}
		return ps
	case r.Chance(1, 4):
		return common.Pick(r, coreUniverse())
	}
	return common.RandValue(r, o, 1)
}

func randPath(r *common.Rand, o common.GenOpts) any {
	n := r.Intn(4)
	p := make([]any, n)
	for i := range p {
		switch r.Intn(8) {
		case 0, 1, 2:
			p[i] = common.Pick(r, []string{"a", "b", "c", "x", ""})
		case 3, 4, 5:
			p[i] = r.Range(-3, 5)
		case 6:
			p[i] = map[string]any{"start": common.Pick(r, []any{nil, 0, 1, -1, 1.5}), "end": common.Pick(r, []any{nil, 0, 2, -1, 2.5})}
		default:
			p[i] = common.RandValue(r, o, 3)
		}
	}
	return p
}

// replayCmd renders a shell command that repeats the call through the command line where the
// native is reachable by its name.
func replayCmd(name string, t tuple) string {
	js := func(v any) string { b, _ := gojq.Marshal(v); return string(b) }
	vars := ""
	call := strings.TrimPrefix(name, "_")
	var as []string
	for i, a := range t.args {
		vars += fmt.Sprintf(" --argjson a%d '%s'", i, js(a))
		as = append(as, fmt.Sprintf("$a%d", i))
	}
	if len(as) > 0 {
		call += "(" + strings.Join(as, "; ") + ")"
	}
	return fmt.Sprintf("gojq -n%s --argjson in '%s' '$in | %s'", vars, js(t.in), call)
}

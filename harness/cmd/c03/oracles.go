package main

// Model-free oracles of C03 on the real code: carrier swap, builtin.jq vs the shipped
// builtins, documented-function spot laws.

import (
	"encoding/json"
	"fmt"
	"math"
	"math/big"
	"os"
	"path/filepath"
	"regexp"
	"runtime"
	"strings"
	"unicode/utf8"

	"github.com/itchyny/gojq"

	"verifharness/common"
)

// ---------------------------------------------------------------------------------------------
// (a) carrier swap

// natives whose VALUE is text printed from the number's literal (a json.Number keeps its digits
// — property C10 — so "3.0" and 3 print differently by design): compared by class only when the
// carriers do not print identically.
var printsNumbers = map[string]bool{"tostring": true, "tojson": true, "join": true, "format": true, "_tohtml": true, "_touri": true,
	"_tourid": true, "_tocsv": true, "_totsv": true, "_tosh": true, "_tobase64": true, "_tobase64d": true}

// natives that read the clock
var ambient = map[string]bool{"now": true}

func marshalS(v any) string { b, _ := gojq.Marshal(v); return string(b) }

func carrierSwap(ctx *common.Ctx, car *common.Oracle, distinct map[string]bool, n native, t tuple, base answer) {
	if ambient[n.name] {
		return
	}
	wrapper := append([]any{t.in}, t.args...)
	alts := common.Carriers(wrapper)
	// beyond the double range every carrier saturates alike: ±Inf is also what the literals
	// 1e1000 / -1e1000 denote (common.Carriers leaves non-finite floats alone)
	if w, changed := infAsLiteral(alts[len(alts)-1]); changed {
		alts = append(alts, w)
	}
	baseJSON := marshalS(wrapper)
	distinct[n.name+"|"+base.text] = true
	for _, alt := range alts[1:] {
		w := alt.([]any)
		a := callNative(n.info.Callback, w[0], w[1:])
		car.Cases++
		car.Distribution[n.name]++
		if a.text == base.text {
			continue
		}
		identical := marshalS(alt) == baseJSON
		same := false
		if !identical {
			switch {
			case printsNumbers[n.name]:
				same = true // the text printed from the literal differs by design (and with it whatever is decoded from that text)
			case a.class == base.class && strings.HasPrefix(a.class, "err:"):
				same = true // the message quotes the literal
			}
		}
		if same {
			continue
		}
		key := "carrier-swap:" + n.name
		cmd := ""
		// root cause probe: toIntCeil applies math.Ceil to float64 only, so a fractional json.Number
		// used as the END of a slice is truncated instead. If carrying exactly those values as
		// float64 removes the difference, the violation is keyed by that cause (one defect, many natives).
		if fixed, changed := floatSliceEnds(n.name, w); changed {
			if b := callNative(n.info.Callback, fixed[0], fixed[1:]); b.text == base.text {
				key = "carrier-swap:slice-end-json.Number"
				cmd = "echo 1.5 | gojq -c '. as $e | [1,2,3] | .[:$e]'   # [1]: the end arrives as json.Number and is truncated;   gojq -nc '[1,2,3] | .[:1.5]'   # [1,2]: a float64 end is rounded up (toIntCeil, func.go)"
			}
		}
		ctx.Violate(key, fmt.Sprintf("%s depends on the Go carrier of a number: %s with carriers %s, but %s with carriers %s",
			label(n.name, t), clipS(base.text, 200), carrierNames(wrapper), clipS(a.text, 200), carrierNames(w)),
			map[string]any{"native": n.name, "input": common.Canon(t.in), "args": canonList(t.args), "carriers_a": carrierNames(wrapper), "observed_a": base.text,
				"carriers_b": carrierNames(w), "observed_b": a.text, "values_b": fmt.Sprintf("%#v", w), "cmd": cmd,
				"note": "through the command line, numbers of the input document arrive as json.Number and numbers written in the query as int/float64"})
	}
}

// infAsLiteral re-carries every float64 ±Inf as the json.Number ±1e1000.
func infAsLiteral(v any) (any, bool) {
	switch x := v.(type) {
	case float64:
		if math.IsInf(x, 1) {
			return json.Number("1e1000"), true
		}
		if math.IsInf(x, -1) {
			return json.Number("-1e1000"), true
		}
	case []any:
		ch := false
		ys := make([]any, len(x))
		for i, y := range x {
			var c bool
			ys[i], c = infAsLiteral(y)
			ch = ch || c
		}
		return ys, ch
	case map[string]any:
		ch := false
		m := make(map[string]any, len(x))
		for k, y := range x {
			var c bool
			m[k], c = infAsLiteral(y)
			ch = ch || c
		}
		return m, ch
	}
	return v, false
}

// floatSliceEnds re-carries as float64 every json.Number that is the "end" member of an object
// (a slice path component) or the end argument of _slice.
func floatSliceEnds(name string, w []any) ([]any, bool) {
	changed := false
	conv := func(v any) any {
		if n, ok := v.(json.Number); ok {
			if f, err := n.Float64(); err == nil && f != math.Trunc(f) {
				changed = true
				return f
			}
		}
		return v
	}
	var walk func(v any) any
	walk = func(v any) any {
		switch x := v.(type) {
		case []any:
			ys := make([]any, len(x))
			for i, y := range x {
				ys[i] = walk(y)
			}
			return ys
		case map[string]any:
			m := make(map[string]any, len(x))
			for k, y := range x {
				if k == "end" {
					m[k] = conv(y)
				} else {
					m[k] = walk(y)
				}
			}
			return m
		}
		return v
	}
	out := make([]any, len(w))
	for i, x := range w {
		out[i] = walk(x)
	}
	if name == "_slice" && len(out) == 4 {
		out[2] = conv(out[2]) // args = (value, end, start)
	}
	return out, changed
}

func carrierNames(xs []any) string {
	var out []string
	var walk func(v any)
	walk = func(v any) {
		switch x := v.(type) {
		case []any:
			for _, y := range x {
				walk(y)
			}
		case map[string]any:
			for _, y := range x {
				walk(y)
			}
		case int, float64, *big.Int:
			out = append(out, fmt.Sprintf("%T", x))
		default:
			if s := fmt.Sprintf("%T", v); s == "json.Number" {
				out = append(out, s+"("+fmt.Sprint(v)+")")
			}
		}
	}
	for _, x := range xs {
		walk(x)
	}
	if len(out) > 6 {
		out = append(out[:6], "…")
	}
	return strings.Join(out, ",")
}

// ---------------------------------------------------------------------------------------------
// (b) builtin.jq vs the shipped builtins

var argPool = []string{".", ".[]?", "1", "0", "2", "-1", "null", `"a"`, `"g"`, ".a?", "[.]", "empty", "true", `"."`, "(.[0]?, 1)", "length?"}

func parseQ(src string) *gojq.Query {
	q, err := gojq.Parse(src)
	if err != nil {
		panic(fmt.Sprintf("%s: %v", src, err))
	}
	return q
}

func builtinInputs() []any {
	u := common.SmallUniverse()
	u = append(u, "abcabc", "a,b, c", "test", []any{[]any{1, 2}, []any{3, 4}}, map[string]any{"a": []any{map[string]any{"b": 1}, map[string]any{"b": 2}}},
		[]any{map[string]any{"key": "a", "value": 1}, map[string]any{"name": "b", "Value": 2}}, []any{[]any{[]any{"a"}, 1}, []any{[]any{"a"}}},
		"2015-03-05T23:51:47Z", 1425599507, []any{3, 1, 2}, []any{[]any{0, 1}, []any{"a", "b"}}, []any{true, false, nil}, []any{1, []any{2, []any{3}}},
		map[string]any{"a": 1, "b": nil, "c": []any{1, map[string]any{"d": 2}}}, 3, -3, 0.5, []any{"a", "b", "c"}, []any{[]any{1, 2}, []any{1, 3}})
	return u
}

func builtinJqOracle(ctx *common.Ctx) {
	o := ctx.NewOracle("builtin-jq", "each definition of builtin.jq (the published source of the working tree, parsed by the real parser) compiled under a fresh name and called with argument filters from a pool, against the shipped builtin of the same name/arity (builtin.go), on the same inputs under a step budget: outputs, errors and budget hits must coincide; distinct = distinct (definition, outcome)")
	src, err := os.ReadFile(filepath.Join(common.RepoDir(), "builtin.jq"))
	if err != nil {
		ctx.Errorf("builtin-jq: %v", err)
		return
	}
	q, err := gojq.Parse(string(src))
	if err != nil {
		ctx.Errorf("builtin-jq: builtin.jq does not parse: %v", err)
		return
	}
	r := ctx.R
	inputs := builtinInputs()
	distinct := map[string]bool{}
	pool := make([]*gojq.Query, len(argPool))
	for i, s := range argPool {
		pool[i] = parseQ(s)
	}
	for _, fd := range q.FuncDefs {
		name, arity := fd.Name, len(fd.Args)
		key := fmt.Sprintf("%s/%d", name, arity)
		fresh := &gojq.FuncDef{Name: "vf__" + name, Args: fd.Args, Body: fd.Body}
		// argument combinations
		var combos [][]int
		switch arity {
		case 0:
			combos = [][]int{{}}
		case 1:
			for i := range pool {
				combos = append(combos, []int{i})
			}
		default:
			nc := ctx.N(28, 120)
			for k := 0; k < nc; k++ {
				c := make([]int, arity)
				for j := range c {
					c[j] = r.Intn(len(pool))
				}
				combos = append(combos, c)
			}
		}
		for _, combo := range combos {
			args := make([]*gojq.Query, arity)
			var argTxt []string
			for j, pi := range combo {
				args[j] = pool[pi]
				argTxt = append(argTxt, argPool[pi])
			}
			mk := func(fname string, defs []*gojq.FuncDef) (*gojq.Code, error) {
				return gojq.Compile(&gojq.Query{FuncDefs: defs, Term: &gojq.Term{Type: gojq.TermTypeFunc, Func: &gojq.Func{Name: fname, Args: args}}})
			}
			cPub, errPub := mk(fresh.Name, []*gojq.FuncDef{fresh})
			cShip, errShip := mk(name, nil)
			callTxt := name
			if arity > 0 {
				callTxt += "(" + strings.Join(argTxt, "; ") + ")"
			}
			if (errPub == nil) != (errShip == nil) {
				ctx.Violate("builtin-jq:"+key, fmt.Sprintf("%s: the published definition and the shipped builtin do not both compile (%v / %v)", callTxt, errPub, errShip),
					map[string]any{"definition": fd.String(), "call": callTxt, "published_compile_error": fmt.Sprint(errPub), "shipped_compile_error": fmt.Sprint(errShip)})
				continue
			}
			if errPub != nil {
				continue
			}
			for _, in := range inputs {
				if !ctx.Thorough && arity >= 2 && !r.Chance(1, 2) {
					continue
				}
				oa := common.RunCode(cPub, common.DeepCopy(in), 30000, 40)
				ob := common.RunCode(cShip, common.DeepCopy(in), 30000, 40)
				a, b := common.CanonOutcome(oa), common.CanonOutcome(ob)
				o.Cases++
				o.Distribution[key]++
				distinct[key+"|"+a] = true
				if oa.Budget != ob.Budget {
					// a budget hit is also what the shared runner's memory watchdog reports: re-run both, alone
					runtime.GC()
					oa = common.RunCode(cPub, common.DeepCopy(in), 30000, 40)
					ob = common.RunCode(cShip, common.DeepCopy(in), 30000, 40)
					a, b = common.CanonOutcome(oa), common.CanonOutcome(ob)
					if oa.Budget != ob.Budget && oa.Polls < 30000 && ob.Polls < 30000 {
						o.Distribution["not-comparable:watchdog"]++
						continue
					}
				}
				if a != b {
					ctx.Violate("builtin-jq:"+key, fmt.Sprintf("%s | %s: shipped builtin gives %s, the definition published in builtin.jq gives %s", marshalS(in), callTxt, clipS(b, 300), clipS(a, 300)),
						map[string]any{"definition": fd.String(), "call": callTxt, "input": marshalS(in), "shipped": b, "published": a,
							"cmd": fmt.Sprintf("gojq -c '%s' <<< '%s'   # versus:  gojq -c 'def vf__%s; vf__%s' <<< '%s'", callTxt, marshalS(in), strings.TrimPrefix(fd.String(), "def "), callTxt, marshalS(in))})
				}
			}
		}
	}
	o.Distinct = len(distinct)
	o.Samples = []string{"map(.[]?) vs def vf__map(f): [.[] | f]; vf__map(.[]?)", "limit(2; .[]?) vs the published definition", "86 definitions of builtin.jq"}
}

// ---------------------------------------------------------------------------------------------
// (c) documented-function spot laws through the public API

// exactLdexp: x·2^e rounded to the nearest float64 (ties to even), by math/big.
func exactLdexp(x, e float64) float64 {
	if x == 0 || math.IsInf(x, 0) || math.IsNaN(x) {
		return x
	}
	if e > 3000 {
		return math.Inf(int(math.Copysign(1, x)))
	}
	if e < -3000 {
		return math.Copysign(0, x)
	}
	z := new(big.Float).SetPrec(200).SetFloat64(x)
	z.SetMantExp(z, int(e))
	f, _ := z.Float64()
	return f
}

type law struct {
	name string
	// a: program; when b == "" and want == nil the law holds iff a's only output is `true`;
	// with b, a and b must have the same canonical outcome; with want, a's only output must be
	// the value want computes in Go
	a, b string
	in   func(any) bool
	x    func(in, x any) bool // nil: no second value
	want func(in, x any) any
	// natives whose calls this law can judge when model and implementation disagree on them:
	// the law is evaluated on exactly that call's (input, argument)
	judges []string
}

type claw struct {
	law
	ca, cb *gojq.Code
}

func isStr(v any) bool { _, ok := v.(string); return ok }
func isArr(v any) bool { _, ok := v.([]any); return ok }
func isObj(v any) bool { _, ok := v.(map[string]any); return ok }
func isNum(v any) bool {
	switch v.(type) {
	case int, float64, *big.Int:
		return true
	}
	return false
}
func isFiniteNum(v any) bool {
	if f, ok := v.(float64); ok {
		return !math.IsNaN(f) && !math.IsInf(f, 0)
	}
	return isNum(v)
}
func anyV(any) bool { return true }

// noNaN: no NaN inside (NaN != NaN makes `==` laws meaningless)
func noNaN(v any) bool {
	return !anyNumber(v, func(f float64) bool { return math.IsNaN(f) })
}

// plainJSON: finite numbers and valid UTF-8 only (what JSON text can carry unchanged)
func plainJSON(v any) bool {
	switch x := v.(type) {
	case string:
		return utf8.ValidString(x)
	case float64:
		return !math.IsNaN(x) && !math.IsInf(x, 0)
	case []any:
		for _, y := range x {
			if !plainJSON(y) {
				return false
			}
		}
	case map[string]any:
		for k, y := range x {
			if !utf8.ValidString(k) || !plainJSON(y) {
				return false
			}
		}
	}
	return true
}

func rectangular(v any) bool {
	xs, ok := v.([]any)
	if !ok || len(xs) == 0 {
		return false
	}
	n := -1
	for _, x := range xs {
		row, ok := x.([]any)
		if !ok || len(row) == 0 {
			return false
		}
		if n >= 0 && len(row) != n {
			return false
		}
		n = len(row)
	}
	return true
}

// sliceObj: {"start": number|null, "end": number|null} without NaN
func sliceObj(_, x any) bool {
	m, ok := x.(map[string]any)
	if !ok || len(m) != 2 {
		return false
	}
	for _, k := range []string{"start", "end"} {
		v, ok := m[k]
		if !ok || v != nil && !isNum(v) || !noNaN(v) {
			return false
		}
	}
	return true
}

func sliceObjects() []any {
	bounds := []any{nil, 0, 1, 2, 3, -1, -2, 1.5, 2.5, 0.5, -1.5, -0.5, 10, -10, math.Inf(1), math.Inf(-1), bigOf("18446744073709551616")}
	var out []any
	for _, a := range bounds {
		for _, b := range bounds {
			out = append(out, map[string]any{"start": a, "end": b})
		}
	}
	return out
}

var numberLiteral = regexp.MustCompile(`^[+-]?([0-9]+(\.[0-9]*)?|\.[0-9]+)([eE][+-]?[0-9]+)?$`)

func toF(v any) float64 {
	switch x := v.(type) {
	case int:
		return float64(x)
	case float64:
		return x
	case *big.Int:
		f, _ := new(big.Float).SetInt(x).Float64()
		return f
	}
	return math.NaN()
}

func laws() []law {
	strIn := func(v any) bool { return isStr(v) }
	validStr := func(v any) bool { s, ok := v.(string); return ok && utf8.ValidString(s) }
	validNeedle := func(_, x any) bool { s, ok := x.(string); return ok && s != "" && utf8.ValidString(s) }
	validX := func(_, x any) bool { s, ok := x.(string); return ok && utf8.ValidString(s) }
	arrIn := func(v any) bool { return isArr(v) && noNaN(v) }
	contIn := func(v any) bool { return (isArr(v) || isObj(v)) && noNaN(v) }
	pairArr := func(v any) bool {
		xs, ok := v.([]any)
		if !ok || !noNaN(v) {
			return false
		}
		for _, x := range xs {
			if p, ok := x.([]any); !ok || len(p) == 0 {
				return false
			}
		}
		return true
	}
	strX := func(_, x any) bool { return isStr(x) }
	numArr := func(v any) bool {
		xs, ok := v.([]any)
		if !ok {
			return false
		}
		for _, x := range xs {
			if !isNum(x) {
				return false
			}
		}
		return noNaN(v)
	}
	scalarArr := func(v any) bool {
		xs, ok := v.([]any)
		if !ok {
			return false
		}
		for _, x := range xs {
			if isArr(x) || isObj(x) {
				return false
			}
			if f, ok := x.(float64); ok && (math.IsNaN(f) || math.IsInf(f, 0)) {
				return false
			}
		}
		return true
	}
	return []law{
		{name: "length-codepoints", a: `length == (explode | length)`, in: strIn, judges: []string{"length", "explode"}},
		{name: "length-is-rune-count", a: `length`, in: strIn, want: func(in, _ any) any { return utf8.RuneCountInString(in.(string)) }, judges: []string{"length"}},
		{name: "utf8bytelength-is-len", a: `utf8bytelength`, in: strIn, want: func(in, _ any) any { return len(in.(string)) }, judges: []string{"utf8bytelength"}},
		{name: "length-containers", a: `length == ([.[]] | length) and length == (keys | length)`, in: contIn, judges: []string{"length", "keys"}},
		{name: "keys-to_entries", a: `keys == (to_entries | map(.key))`, in: contIn, judges: []string{"keys"}},
		{name: "keys-sorted-unique", a: `keys == (keys | unique)`, in: contIn, judges: []string{"keys"}},
		{name: "keys-array", a: `keys == [range(0; length)]`, in: isArr, judges: []string{"keys"}},
		{name: "add-reduce", a: `add`, b: `reduce .[] as $x (null; . + $x)`, in: func(v any) bool { return isArr(v) || isObj(v) }, judges: []string{"add"}},
		{name: "flatten-idempotent", a: `(flatten | flatten) == flatten`, in: contIn, judges: []string{"flatten"}},
		{name: "flatten-0", a: `flatten(0) == [.[]]`, in: contIn, judges: []string{"flatten"}},
		{name: "flatten-1", a: `flatten(1) == [.[] | if type == "array" then .[] else . end]`, in: contIn, judges: []string{"flatten"}},
		{name: "flatten-no-arrays", a: `flatten | all(.[]; type != "array")`, in: contIn, judges: []string{"flatten"}},
		{name: "flatten-depth-step", a: `flatten($x + 1) == (flatten($x) | flatten(1))`, in: contIn, x: func(_, x any) bool { i, ok := x.(int); return ok && i >= 0 && i <= 4 }, judges: []string{"flatten"}},
		{name: "flatten-negative-is-error", a: `try (flatten($x) | false) catch true`, in: contIn, x: func(_, x any) bool { return isNum(x) && toF(x) < 0 }, judges: []string{"flatten"}},
		{name: "indices-count-elem", a: `(indices($x) | length) == ([.[] | select(. == $x)] | length)`, in: arrIn, x: func(_, x any) bool { return !isArr(x) && noNaN(x) }, judges: []string{"indices"}},
		{name: "indices-count-substr", a: `. as $v | (indices($x) | length) == ([range(0; $v | length) as $i | select($v[$i:$i + ($x | length)] == $x)] | length)`, in: validStr,
			x: validNeedle, judges: []string{"indices"}},
		{name: "indices-sublist", a: `. as $v | indices($x) == [range(0; ($v | length) - ($x | length) + 1) as $i | select($v[$i:$i + ($x | length)] == $x) | $i]`, in: arrIn,
			x: func(_, x any) bool { xs, ok := x.([]any); return ok && len(xs) > 0 && noNaN(x) }, judges: []string{"indices", "_index"}},
		{name: "index-first-rindex-last", a: `index($x) == indices($x)[0] and rindex($x) == indices($x)[-1]`, in: func(v any) bool { return isArr(v) && noNaN(v) }, x: func(_, x any) bool { return noNaN(x) },
			judges: []string{"index", "rindex", "indices"}},
		{name: "index-first-rindex-last-str", a: `index($x) == indices($x)[0] and rindex($x) == indices($x)[-1]`, in: strIn, x: strX, judges: []string{"index", "rindex", "indices"}},
		{name: "split-join", a: `(split($x) | join($x)) == .`, in: strIn, x: strX, judges: []string{"split", "join"}},
		{name: "divide-join", a: `((. / $x) | join($x)) == .`, in: strIn, x: strX, judges: []string{"_divide"}},
		{name: "join-scalars", a: `join($x) == (map(if type == "string" then . elif . == null then "" else tojson end) | if length == 0 then "" else reduce .[1:][] as $s (.[0]; . + $x + $s) end)`,
			in: scalarArr, x: strX, judges: []string{"join"}},
		{name: "min-sort-first", a: `min == (sort | first) and max == (sort | last)`, in: arrIn, judges: []string{"min", "max", "sort"}},
		{name: "transpose-involution", a: `(transpose | transpose) == .`, in: func(v any) bool { return rectangular(v) && noNaN(v) }, judges: []string{"transpose"}},
		{name: "transpose-cells", a: `. as $v | transpose as $t | ($t | length) == ([$v[] | length] | max // 0) and all(range(0; $v | length) as $i | range(0; $t | length) as $j | $t[$j][$i] == $v[$i][$j]; .)`,
			in: func(v any) bool {
				xs, ok := v.([]any)
				if !ok {
					return false
				}
				for _, x := range xs {
					if !isArr(x) {
						return false
					}
				}
				return noNaN(v)
			}, judges: []string{"transpose"}},
		{name: "tostring-tonumber", a: `(tostring | tonumber) == .`, in: isFiniteNum, judges: []string{"tostring", "tonumber", "tojson"}},
		{name: "tostring-string-identity", a: `tostring == .`, in: strIn, judges: []string{"tostring"}},
		{name: "tonumber-accepts-number-literals-only", a: `try (tonumber | true) catch false`, in: strIn, want: func(in, _ any) any { return numberLiteral.MatchString(in.(string)) }, judges: []string{"tonumber"}},
		{name: "json-is-tojson", a: `@json == tojson and @text == tostring`, in: anyV, judges: []string{"tojson", "tostring"}},
		{name: "tojson-fromjson", a: `(tojson | fromjson) == .`, in: plainJSON, judges: []string{"tojson"}},
		{name: "fromjson-tojson-fromjson", a: `try (fromjson | tojson | fromjson) catch "e"`, b: `try fromjson catch "e"`, in: func(v any) bool {
			s, ok := v.(string)
			return ok && !strings.Contains(s, "e4") && !strings.Contains(s, "e-4")
		},
			judges: []string{"fromjson"}},
		{name: "base64-uri-roundtrip", a: `(@base64 | @base64d) == . and (@uri | @urid) == .`, in: strIn, judges: []string{"_tobase64", "_tobase64d", "_touri", "_tourid"}},
		{name: "has-keys-object", a: `has($x) == (keys | index($x) != null)`, in: isObj, x: strX, judges: []string{"has"}},
		{name: "has-array", a: `has($x) == ($x >= 0 and $x < length)`, in: isArr, x: func(_, x any) bool { _, ok := x.(int); return ok }, judges: []string{"has"}},
		{name: "ltrimstr", a: `if startswith($x) then ($x + ltrimstr($x)) == . else ltrimstr($x) == . end`, in: strIn, x: strX, judges: []string{"ltrimstr", "startswith"}},
		{name: "rtrimstr", a: `if endswith($x) then (rtrimstr($x) + $x) == . else rtrimstr($x) == . end`, in: strIn, x: strX, judges: []string{"rtrimstr", "endswith"}},
		{name: "trimstr", a: `trimstr($x) == (ltrimstr($x) | rtrimstr($x))`, in: strIn, x: strX, judges: []string{"trimstr"}},
		{name: "startswith-endswith-slices", a: `startswith($x) == (.[:($x | length)] == $x) and endswith($x) == ($x == "" or .[-($x | length):] == $x)`, in: validStr, x: validX, judges: []string{"startswith", "endswith"}},
		{name: "trimstr-nonstring-is-error", a: `[try (ltrimstr($x) | "value") catch "error", try (rtrimstr($x) | "value") catch "error", try (startswith($x) | "value") catch "error", try (endswith($x) | "value") catch "error", try (trimstr($x) | "value") catch "error"] == ["error", "error", "error", "error", "error"]`,
			in: anyV, x: func(in, x any) bool { return !isStr(in) || !isStr(x) }, judges: []string{"ltrimstr", "rtrimstr", "startswith", "endswith", "trimstr"}},
		{name: "trim", a: `trim == (ltrim | rtrim) and (trim | trim) == trim and ((" \t\n" + . + " \r\n") | trim) == trim and (trim | (startswith(" ") or endswith(" ") or startswith("\n") or endswith("\t")) | not)`, in: strIn,
			judges: []string{"trim", "ltrim", "rtrim"}},
		{name: "ascii-case", a: `(ascii_downcase | explode) == [explode[] | if 65 <= . and . <= 90 then . + 32 else . end] and (ascii_upcase | explode) == [explode[] | if 97 <= . and . <= 122 then . - 32 else . end]`, in: strIn,
			judges: []string{"ascii_downcase", "ascii_upcase"}},
		{name: "explode-implode", a: `(explode | implode) == .`, in: validStr, judges: []string{"explode", "implode"}},
		{name: "implode-explode-clamped", a: `(implode | explode) == [.[] | trunc | if . >= 0 and . <= 1114111 and (. < 55296 or . > 57343) then . else 65533 end]`, in: numArr, judges: []string{"implode"}},
		{name: "contains-substring", a: `contains($x) == (index($x) != null)`, in: validStr, x: validNeedle, judges: []string{"contains"}},
		{name: "contains-reflexive", a: `contains(.)`, in: func(v any) bool { return noNaN(v) }, judges: []string{"contains"}},
		{name: "contains-array", a: `. as $v | contains($x) == ($x | all(.[]; . as $e | $v | any(.[]; try contains($e) catch false)))`, in: arrIn, x: func(_, x any) bool { return isArr(x) && noNaN(x) }, judges: []string{"contains"}},
		{name: "contains-object", a: `. as $v | contains($x) == ($x | to_entries | all(.[]; . as $e | ($v | has($e.key)) and ($v[$e.key] | try contains($e.value) catch false)))`, in: func(v any) bool { return isObj(v) && noNaN(v) },
			x: func(_, x any) bool { return isObj(x) && noNaN(x) }, judges: []string{"contains"}},
		{name: "inside-converse", a: `. as $v | (try inside($x) catch "e") == (try ($x | contains($v)) catch "e")`, in: anyV, x: func(in, x any) bool { return true }, judges: []string{"inside"}},
		{name: "add-null-identity", a: `(. + null) == . and (null + .) == .`, in: noNaN, judges: []string{"_add"}},
		{name: "array-minus", a: `. as $v | ($v - $x) == [$v[] | select(. as $e | $x | all(.[]; . != $e))]`, in: arrIn, x: func(_, x any) bool { return isArr(x) && noNaN(x) }, judges: []string{"_subtract"}},
		{name: "object-merge-empty", a: `(. * {}) == . and ({} * .) == . and (. + {}) == . and ({} + .) == .`, in: func(v any) bool { return isObj(v) && noNaN(v) }, judges: []string{"_multiply", "_add"}},
		{name: "object-add-right-wins", a: `. as $v | ($v + $x) as $m | all(($v + $x | keys)[]; . as $k | $m[$k] == (if ($x | has($k)) then $x[$k] else $v[$k] end)) and ($m | keys) == (($v | keys) + ($x | keys) | unique)`,
			in: func(v any) bool { return isObj(v) && noNaN(v) }, x: func(_, x any) bool { return isObj(x) && noNaN(x) }, judges: []string{"_add"}},
		{name: "object-deep-merge", a: `. as $v | ($v * $x) as $m | ($m | keys) == (($v | keys) + ($x | keys) | unique) and all(($m | keys)[]; . as $k | $m[$k] == (if ($x | has($k)) | not then $v[$k] elif ($v[$k] | type) == "object" and ($x[$k] | type) == "object" then $v[$k] * $x[$k] else $x[$k] end))`,
			in: func(v any) bool { return isObj(v) && noNaN(v) }, x: func(_, x any) bool { return isObj(x) && noNaN(x) }, judges: []string{"_multiply"}},
		{name: "string-repeat", a: `(. * 1) == . and (. * -1) == null and (. * 2) == (. + .) and (2 * .) == (. + .) and (. * 3 | utf8bytelength) == 3 * utf8bytelength`, in: strIn, judges: []string{"_multiply"}},
		{name: "setpath-getpath", a: `all(paths as $p | setpath($p; getpath($p)) == .; .)`, in: func(v any) bool { return noNaN(v) }, judges: []string{}},
		{name: "delpaths-getpath-null", a: `all(paths as $p | delpaths([$p]) | getpath($p) == null or ($p[-1] | type) == "number"; .)`, in: func(v any) bool { return noNaN(v) }},
		{name: "delpaths-all", a: `delpaths([paths]) == (if type == "array" then [] elif type == "object" then {} else . end)`, in: func(v any) bool { return noNaN(v) }},
		{name: "getpath-is-path-expression", a: `all(paths as $p | getpath($p) == (reduce $p[] as $k (.; .[$k])); .)`, in: func(v any) bool { return noNaN(v) }},
		{name: "getpath-is-index-fold", a: `try [getpath($x)] catch "E"`, b: `try [reduce $x[] as $k (.; if type == "string" then error else .[$k] end)] catch "E"`, in: func(v any) bool { return noNaN(v) }, x: func(_, x any) bool { return isArr(x) && noNaN(x) },
			judges: []string{"getpath"}},
		{name: "slice-get-is-slice-syntax", a: `getpath([$x]) == .[$x.start:$x.end]`, in: func(v any) bool { return (isArr(v) || v == nil) && noNaN(v) }, x: sliceObj, judges: []string{"getpath", "_index", "_slice"}},
		{name: "slice-set-get-identity", a: `setpath([$x]; getpath([$x])) == .`, in: arrIn, x: sliceObj, judges: []string{"setpath", "getpath"}},
		{name: "slice-del-length", a: `(delpaths([[$x]]) | length) == length - (getpath([$x]) | length)`, in: arrIn, x: sliceObj, judges: []string{"delpaths", "getpath"}},
		{name: "slice-set-empty-is-del", a: `setpath([$x]; []) == delpaths([[$x]])`, in: arrIn, x: sliceObj, judges: []string{"setpath", "delpaths"}},
		{name: "slice-set-replaces", a: `. as $v | (($v | length) - ($v | .[$x.start:] | length)) as $s | setpath([$x]; ["N", "M", "K"]) == ((delpaths([[$x]]) | .[:$s]) + ["N", "M", "K"] + (delpaths([[$x]]) | .[$s:]))`,
			in: arrIn, x: sliceObj, judges: []string{"setpath"}},
		{name: "slice-saturates", a: `[.[:$x], .[$x:]]`, b: `if $x > 0 then [., (if type == "string" then "" else [] end)] else [(if type == "string" then "" else [] end), .] end`, in: func(v any) bool { return (isArr(v) && noNaN(v)) || isStr(v) && utf8.ValidString(v.(string)) },
			x: func(_, x any) bool { return isNum(x) && !math.IsNaN(toF(x)) && math.Abs(toF(x)) >= 4611686018427387904 }, judges: []string{"_slice", "_index"}},
		{name: "modulo-of-huge-floats", a: `[($x % 7), (7 % $x)]`, b: `if $x > 0 then [(9223372036854775807 % 7), 7] else [(-9223372036854775808 % 7), 7] end`, in: func(any) bool { return true },
			x: func(_, x any) bool {
				f, ok := x.(float64)
				return ok && !math.IsNaN(f) && math.Abs(f) >= 9223372036854775808
			}, judges: []string{"_modulo"}},
		{name: "string-index-codepoints", a: `.[$x]`, b: `explode | .[$x] | if . == null then null else [.] | implode end`, in: validStr, x: func(_, x any) bool { i, ok := x.(int); return ok && i > -1000 && i < 1000 }, judges: []string{"_index"}},
		{name: "alternative-is-falsy-test", a: `_alternative(.; $x)`, b: `if . == null or . == false then $x else . end`, in: func(any) bool { return true }, x: func(_, _ any) bool { return true }, judges: []string{"_alternative"}},
		{name: "alternative-update", a: `[., .] | .[0] //= $x | .[0]`, b: `if . == null or . == false then $x else . end`, in: func(v any) bool { return noNaN(v) }, x: func(_, x any) bool { return noNaN(x) }, judges: []string{"_alternative"}},
		{name: "string-slice-codepoints", a: `.[$x.start:$x.end] == (explode | .[$x.start:$x.end] | implode)`, in: validStr, x: sliceObj, judges: []string{"_index", "_slice"}},
		{name: "slice-concat", a: `(.[:$x] + .[$x:]) == .`, in: func(v any) bool { return (isArr(v) && noNaN(v)) || isStr(v) }, x: func(_, x any) bool { _, ok := x.(int); return ok }, judges: []string{}},
		{name: "index-is-slice-of-one", a: `. as $v | if $x >= 0 and $x < length or $x < 0 and -$x <= length then [.[$x]] == .[$x:($x + 1 | if . == 0 then null else . end)] else .[$x] == null end`,
			in: arrIn, x: func(_, x any) bool { i, ok := x.(int); return ok && i > -1000 && i < 1000 }, judges: []string{"_index"}},
		{name: "reverse-reverse", a: `(reverse | reverse) == . and (reverse | length) == length and all(range(0; length) as $i | reverse[$i] == .[length - 1 - $i]; .)`, in: arrIn, judges: []string{"reverse"}},
		// stability: elements that compare equal keep their input order (arrays longer than the
		// thresholds below which library sorts fall back to insertion sort are in the universe)
		{name: "sort_by-stable", a: `sort_by(.[0])`, b: `to_entries | map([.value[0], .key, .value]) | sort | map(.[2])`, in: pairArr, judges: []string{"_sort_by"}},
		{name: "group_by-stable", a: `group_by(.[0])`, b: `reduce sort_by(.[0])[] as $e ([]; if length > 0 and .[-1][0][0] == $e[0] then .[-1] += [$e] else . + [[$e]] end)`, in: pairArr, judges: []string{"_group_by"}},
		{name: "unique_by-keeps-first", a: `unique_by(.[0])`, b: `group_by(.[0]) | map(.[0])`, in: pairArr, judges: []string{"_unique_by"}},
		{name: "min_by-first-max_by-last", a: `[min_by(.[0]), max_by(.[0])]`, b: `sort_by(.[0]) | [first, last]`, in: func(v any) bool { return pairArr(v) && len(v.([]any)) > 0 }, judges: []string{"_min_by", "_max_by"}},
		{name: "sort-stable", a: `sort`, b: `to_entries | map([.value, .key, .value]) | sort | map(.[2])`, in: arrIn, judges: []string{"sort"}},
		{name: "unique-keeps-first", a: `unique`, b: `to_entries | map([.value, .key, .value]) | sort | reduce .[] as $e ([]; if length > 0 and .[-1][0] == $e[0] then . else . + [$e] end) | map(.[2])`, in: arrIn, judges: []string{"unique"}},
		{name: "sort-is-sorted-permutation", a: `sort as $s | ($s | length) == length and all(range(1; $s | length) as $i | $s[$i - 1] <= $s[$i]; .) and ($s | unique) == unique`, in: arrIn, judges: []string{"sort", "unique"}},
		{name: "floor-ceil-bracket", a: `floor <= . and . <= ceil and (ceil - floor) <= 1 and (trunc == floor or trunc == ceil)`, in: func(v any) bool {
			f, ok := v.(float64)
			return ok && !math.IsNaN(f) && !math.IsInf(f, 0) && math.Abs(f) < 1e15
		}},
		{name: "math-rounding-is-go-math", a: `[floor, ceil, round, trunc, fabs, nearbyint, rint, significand, logb]`, in: isNum, want: func(in, _ any) any {
			f := toF(in)
			fr, _ := math.Frexp(f)
			return []any{math.Floor(f), math.Ceil(f), math.Round(f), math.Trunc(f), math.Abs(f), math.RoundToEven(f), math.RoundToEven(f), fr * 2, math.Logb(f)}
		}, judges: []string{"floor", "ceil", "round", "trunc", "fabs", "nearbyint", "rint", "significand", "logb"}},
		{name: "classifiers", a: `(isnan == (. != .)) and (isinfinite == (. == infinite or . == -infinite)) and (isfinite == (isinfinite | not)) and (isnormal == (isnan or isinfinite or . == 0 or (fabs < 2.2250738585072014e-308) | not))`,
			in: isNum, judges: []string{"isnan", "isinfinite", "isfinite", "isnormal"}},
		{name: "abs", a: `abs == (if . < 0 then -. else . end) and abs >= 0`, in: isFiniteNum, judges: []string{"abs"}},
		{name: "gmtime-mktime-roundtrip", a: `((gmtime | mktime) - .) | fabs < 0.000001`, in: func(v any) bool { return isFiniteNum(v) && math.Abs(toF(v)) < 1e11 }, judges: []string{"gmtime", "mktime"}},
		{name: "gmtime-fields", a: `gmtime as $t | (floor | gmtime) as $w | $t[0:5] == $w[0:5] and $t[6:8] == $w[6:8] and (($t[5] - $w[5] - (. - floor)) | fabs < 0.000001)`,
			in: func(v any) bool {
				return isFiniteNum(v) && math.Abs(toF(v)) < 1e11 && (toF(v) >= 0 || toF(v) == math.Floor(toF(v)))
			}, judges: []string{"gmtime"}},
		{name: "type-errors-are-catchable", a: `[try (keys | "v") catch "e", try (explode | "v") catch "e", try (sin | "v") catch "e", try (implode | "v") catch "e"] | all(.[]; . == "v" or . == "e")`, in: anyV},
	}
}

func compileLaws() []*claw {
	var out []*claw
	for _, l := range laws() {
		vars := []string{}
		if l.x != nil {
			vars = []string{"$x"}
		}
		compile := func(src string) *gojq.Code {
			c, err := gojq.Compile(parseQ(src), gojq.WithVariables(vars))
			if err != nil {
				panic(fmt.Sprintf("law %s: %v", l.name, err))
			}
			return c
		}
		cl := &claw{law: l, ca: compile(l.a)}
		if l.b != "" {
			cl.cb = compile(l.b)
		}
		out = append(out, cl)
	}
	return out
}

// check evaluates the law on (in, x) and reports a violation of the real code.
func (l *claw) check(ctx *common.Ctx, o *common.Oracle, in, x any, origin string) bool {
	var vs []any
	if l.x != nil {
		vs = []any{x}
	}
	oa := common.RunCode(l.ca, common.DeepCopy(in), 2000000, 1000, vs...)
	o.Cases++
	o.Distribution[l.name]++
	ok, observed := false, common.CanonOutcome(oa)
	switch {
	case l.cb != nil:
		ob := common.CanonOutcome(common.RunCode(l.cb, common.DeepCopy(in), 2000000, 1000, vs...))
		ok = observed == ob
		observed += "   versus   " + ob
	case l.want != nil:
		w := "" + common.Canon(l.want(in, x)) + " ; END"
		ok = observed == w
		observed += "   expected   " + w
	default:
		ok = oa.Panic == "" && oa.Err == nil && !oa.Budget && len(oa.Outs) == 1 && oa.Outs[0] == true
	}
	if oa.Budget || ok {
		return false
	}
	rep := map[string]any{"law": l.a, "input": marshalS(in), "observed": observed}
	what := fmt.Sprintf("law %s fails on %s", l.name, clipS(marshalS(in), 200))
	cmd := fmt.Sprintf("gojq -c '%s' <<< '%s'", l.a, marshalS(in))
	if l.x != nil {
		rep["x"] = marshalS(x)
		what += " with $x = " + clipS(marshalS(x), 100)
		cmd = fmt.Sprintf("gojq -c --argjson x '%s' '%s' <<< '%s'", marshalS(x), l.a, marshalS(in))
	}
	if l.b != "" {
		rep["other"] = l.b
	}
	if origin != "" {
		rep["found_by"] = origin
	}
	rep["cmd"] = cmd
	ctx.Violate("law:"+l.name, what+": "+clipS(observed, 200), rep)
	return true
}

// judgeCalls: candidate (input, $x) pairs a native call stands for in the laws.
func judgeCalls(name string, t tuple) [][2]any {
	var out [][2]any
	arg := func(i int) any {
		if i < len(t.args) {
			return t.args[i]
		}
		return nil
	}
	single := func(v any) (any, bool) {
		xs, ok := v.([]any)
		if ok && len(xs) == 1 {
			return xs[0], true
		}
		return nil, false
	}
	switch {
	case name == "_slice":
		out = append(out, [2]any{arg(0), map[string]any{"start": arg(2), "end": arg(1)}})
	case ignoresInput[name]:
		out = append(out, [2]any{arg(0), arg(1)})
	case name == "setpath" || name == "getpath":
		out = append(out, [2]any{t.in, arg(0)})
		if p, ok := single(arg(0)); ok {
			out = append(out, [2]any{t.in, p})
		}
	case name == "delpaths":
		out = append(out, [2]any{t.in, arg(0)})
		if ps, ok := single(arg(0)); ok {
			if p, ok := single(ps); ok {
				out = append(out, [2]any{t.in, p})
			}
		}
	default:
		out = append(out, [2]any{t.in, arg(0)})
	}
	return out
}

// judgeDisagreements hands every call on which model and implementation disagree to the laws
// that speak about that native: if a law fails on exactly this call, the REAL code violates the
// documented function (a failing input, not just a broken correspondence).
func judgeDisagreements(ctx *common.Ctx, o *common.Oracle, cl []*claw, name string, t tuple) {
	for _, l := range cl {
		hit := false
		for _, j := range l.judges {
			if j == name {
				hit = true
			}
		}
		if !hit {
			continue
		}
		for _, c := range judgeCalls(name, t) {
			in, x := c[0], c[1]
			if !l.in(in) || l.x != nil && !l.x(in, x) {
				continue
			}
			l.check(ctx, o, in, x, "correspondence disagreement on "+label(name, t))
		}
	}
}

func newLawsOracle(ctx *common.Ctx) *common.Oracle {
	return ctx.NewOracle("laws", "documented-function laws evaluated by the real code through the public API (length/explode, keys/to_entries, add/reduce, flatten with depth, indices counts and sub-lists, split/join, min/sort, transpose, range vs arithmetic, tostring/tonumber and the number-literal grammar, tojson/fromjson, @base64/@uri round trips, has, ltrimstr …, trim, case mapping, implode clamping, contains, object merge and deep merge, array difference, slices as paths (get/set/del), setpath/getpath/delpaths, rounding functions vs Go's math, classifiers, gmtime/mktime) on the value universe, pairs for the two-value laws, random values, and on every call on which model and implementation disagree; distinct = distinct (law, input[, argument])")
}

func lawsOracle(ctx *common.Ctx, o *common.Oracle, cl []*claw) {
	r := ctx.R
	u := common.Universe(true)
	u = append(u, extUniverse()...)
	opts := common.DefaultGen
	for i := 0; i < ctx.N(300, 4000); i++ {
		u = append(u, common.RandValue(r, opts, 0))
	}
	// rectangular arrays
	for i := 0; i < ctx.N(60, 600); i++ {
		rows, cols := r.Range(1, 4), r.Range(1, 4)
		m := make([]any, rows)
		for a := range m {
			row := make([]any, cols)
			for b := range row {
				row[b] = common.RandValue(r, common.GenOpts{Floats: true, MaxDepth: 2, MaxWidth: 2, SmallKeys: true}, 1)
			}
			m[a] = row
		}
		u = append(u, m)
	}
	for _, f := range common.InterestingFloats() {
		u = append(u, f, -f)
	}
	u = append(u, -1.5, -0.5, -86400.25, 86399.75, 1e10+0.5)
	u = append(u, tieRichArrays(r, ctx.N(40, 400))...)
	xs := append([]any{}, coreUniverse()...)
	for _, s := range common.UniverseStrings() {
		xs = append(xs, s)
	}
	xs = append(xs, sliceObjects()...)
	xs = append(xs, 9223372036854775808.0, -9223372036854775808.0, 9223372036854777856.0, 4611686018427387904.0, 1e19, -1e19, math.Inf(1), math.Inf(-1))
	// paths with ill-typed elements at the start, in the middle and at the end (also below null / missing values)
	xs = append(xs, []any{true}, []any{"a", true}, []any{0, "a"}, []any{nil}, []any{"a"}, []any{0}, []any{"a", 0, "b"}, []any{"a", []any{1}}, []any{"zz", 1.5, false}, []any{0, map[string]any{"a": 1}}, []any{map[string]any{"start": 0, "end": 1}, true})
	xs = append(xs, 4, -3, -0.5, map[string]any{"a": map[string]any{"b": 2, "c": 3}}, map[string]any{"a": map[string]any{"b": 9}, "d": 1}, map[string]any{"b": 1, "a": "x"}, []any{1, 2}, []any{2, 1}, []any{"a"}, []any{nil})
	distinct := 0
	for _, l := range cl {
		check := func(in, x any) {
			distinct++
			l.check(ctx, o, in, x, "")
		}
		for _, in := range u {
			if !l.in(in) {
				continue
			}
			if l.x == nil {
				check(in, nil)
				continue
			}
			for _, x := range xs {
				if l.x(in, x) && (ctx.Thorough || r.Chance(1, 3)) {
					check(in, x)
				}
			}
			// elements of the input itself are the interesting needles
			if arr, ok := in.([]any); ok {
				for _, x := range arr {
					if l.x(in, x) {
						check(in, x)
					}
				}
				if len(arr) >= 2 && l.x(in, arr[:2]) {
					check(in, arr[:2])
					check(in, arr[len(arr)-2:])
				}
			}
			if s, ok := in.(string); ok && utf8.ValidString(s) {
				rs := []rune(s)
				for i := 0; i < len(rs) && i < 4; i++ {
					for j := i + 1; j <= len(rs) && j <= i+3; j++ {
						if x := string(rs[i:j]); l.x(in, x) {
							check(in, x)
						}
					}
				}
			}
		}
	}
	// range against the arithmetic progression
	rc, err := gojq.Compile(parseQ(`[range($a; $b; $c)]`), gojq.WithVariables([]string{"$a", "$b", "$c"}))
	if err != nil {
		panic(err)
	}
	vals := []any{-3, -1, 0, 1, 2, 5, 7, 0.5, 2.5, -1.5}
	for _, a := range vals {
		for _, b := range vals {
			for _, c := range vals {
				fa, _ := numOf(a)
				fb, _ := numOf(b)
				fc, _ := numOf(c)
				if fc == 0 {
					continue
				}
				var want []string
				for k := 0; k < 100; k++ {
					v := fa + float64(k)*fc
					if fc > 0 && !(v < fb) || fc < 0 && !(v > fb) {
						break
					}
					want = append(want, fmt.Sprint(v))
				}
				out := common.RunCode(rc, nil, 100000, 10, a, b, c)
				o.Cases++
				o.Distribution["range-arithmetic"]++
				distinct++
				var got []string
				if len(out.Outs) == 1 {
					if arr, ok := out.Outs[0].([]any); ok {
						for _, v := range arr {
							f, _ := numOf(v)
							got = append(got, fmt.Sprint(f))
						}
					}
				}
				if out.Err != nil || out.Panic != "" || strings.Join(got, ",") != strings.Join(want, ",") {
					ctx.Violate("law:range-arithmetic", fmt.Sprintf("[range(%v; %v; %v)] = %v, the arithmetic progression is %v", a, b, c, got, want),
						map[string]any{"a": a, "b": b, "c": c, "observed": got, "expected": want, "cmd": fmt.Sprintf("gojq -nc '[range(%v; %v; %v)]'", a, b, c)})
				}
			}
		}
	}
	// ldexp / scalb / scalbln against exact scaling (math/big): x·2^e correctly rounded
	lc, err := gojq.Compile(parseQ(`ldexp($a; $b), scalb($a; $b), scalbln($a; $b)`), gojq.WithVariables([]string{"$a", "$b"}))
	if err != nil {
		panic(err)
	}
	exps := []any{0, 1, -1, 52, -52, 1023, 1024, -1022, -1074, -1075, -1076, 2000, -2000, 2147483647, -2147483648, bigOf("9223372036854775807"), bigOf("-9223372036854775807"), bigOf("-9223372036854775808"), 1e18, -1e18, 4096, -4096, 4097, -4097, 4096.5, -4096.5, 1e300, -1e300, math.Inf(1), math.Inf(-1)}
	for _, x := range []float64{0.5, -0.5, 1, 1.5, 3, 1e-7, 5e-324, 1e300, 0, math.Copysign(0, -1), 0.75, 2.2250738585072014e-308, 1.7976931348623157e308} {
		for _, e := range exps {
			ef, _ := numOf(e)
			want := exactLdexp(x, ef)
			out := common.RunCode(lc, nil, 100000, 10, x, e)
			o.Cases++
			o.Distribution["ldexp-exact"]++
			distinct++
			ok := out.Err == nil && out.Panic == "" && len(out.Outs) == 3
			if ok {
				for _, v := range out.Outs {
					f, isf := v.(float64)
					if !isf || math.Float64bits(f) != math.Float64bits(want) {
						ok = false
					}
				}
			}
			if !ok {
				ctx.Violate("law:ldexp-exact", fmt.Sprintf("ldexp(%v; %v) = %s, but %v·2^%v correctly rounded is %v", x, e, common.CanonOutcome(out), x, e, want),
					map[string]any{"x": x, "e": fmt.Sprint(e), "observed": common.CanonOutcome(out), "expected": fmt.Sprint(want), "cmd": fmt.Sprintf("gojq -nc 'ldexp(%v; %v)'", x, e),
						"note": "math.Ldexp adds the exponent of x to the count in int arithmetic, which wraps around next to MinInt64; funcLdexp clamps the count to ±4096 first (f16ffcd)"})
			}
		}
	}
	// array difference with LONG right operands (beyond any small-size fast path), numbers in every
	// carrier and spelling, NaN and null: $a - $b keeps exactly the elements of $a equal to no element of $b
	dc, err := gojq.Compile(parseQ(`[$a - $b, [$a[] | select(. as $x | all($b[]; . != $x))]]`), gojq.WithVariables([]string{"$a", "$b"}))
	if err != nil {
		panic(err)
	}
	leftPool := []any{1, 1.0, json.Number("1.0"), json.Number("1e0"), json.Number("100"), json.Number("1e2"), json.Number("-0"), 0, 0.0, math.Copysign(0, -1), nil, math.NaN(), "1", []any{1}, []any{json.Number("1.0")},
		map[string]any{"a": 1.0}, bigOf("100000000000000000000"), json.Number("100000000000000000000"), 1e20, 2, 50, 150, 33.5, false, true, "", json.Number("2.50"), 2.5}
	for _, n := range []int{0, 1, 5, 31, 32, 33, 34, 64, 65, 100, 257} {
		for rep := 0; rep < ctx.N(6, 40); rep++ {
			b := make([]any, n)
			for i := range b {
				switch r.Intn(6) {
				case 0:
					b[i] = common.Pick(r, leftPool)
				case 1:
					b[i] = float64(i)
				case 2:
					b[i] = json.Number(fmt.Sprint(i))
				default:
					b[i] = i + 1
				}
			}
			a := make([]any, r.Range(1, 8))
			for i := range a {
				a[i] = common.Pick(r, leftPool)
			}
			out := common.RunCode(dc, nil, 2000000, 10, a, b)
			o.Cases++
			o.Distribution["array-difference-long"]++
			distinct++
			ok := out.Err == nil && out.Panic == "" && len(out.Outs) == 1
			if ok {
				pair, isArr := out.Outs[0].([]any)
				ok = isArr && len(pair) == 2 && common.Canon(pair[0]) == common.Canon(pair[1])
			}
			if !ok {
				ctx.Violate(fmt.Sprintf("law:array-difference-long:%d", n), fmt.Sprintf("$a - $b with %d elements on the right: [$a - $b, the elements of $a equal to no element of $b] = %s", n, clipS(common.CanonOutcome(out), 300)),
					map[string]any{"a": common.Canon(a), "b": common.Canon(b), "a_json": marshalS(a), "b_json": marshalS(b), "observed": common.CanonOutcome(out), "cmd": "gojq -nc --argjson a '<a_json>' --argjson b '<b_json>' '$a - $b'"})
			}
		}
	}
	o.Distinct = distinct
	o.Samples = []string{`"é漢" | length == (explode | length)`, `[[1,2],[3]] | flatten | all(.[]; type != "array")`, `"a,b, c" | (split(", ") | join(", ")) == .`}
}

// tieRichArrays: arrays of 13..70 elements over very few distinct keys, with members that compare
// equal but can be told apart: [key, payload] pairs, and plain numbers in different carriers /
// spellings (1, 1.0, json.Number "1.0", "1.00") and equal containers holding them.
func tieRichArrays(r *common.Rand, n int) []any {
	var out []any
	keys := []any{0, 1, 2, "a", nil, []any{1}, 1.5}
	plain := []any{1, 1.0, json.Number("1.0"), json.Number("1.00"), json.Number("1e0"), 2, json.Number("2.0"), "a", nil, []any{1}, []any{json.Number("1.0")}, map[string]any{"k": 1}, map[string]any{"k": json.Number("1.0")}, 0, json.Number("-0"), json.Number("0.0")}
	for i := 0; i < n; i++ {
		m := common.Pick(r, []int{13, 14, 16, 20, 31, 32, 33, 50, 64, 70, r.Range(13, 70)})
		k := r.Range(1, 4)
		if i%2 == 0 {
			xs := make([]any, m)
			for j := range xs {
				xs[j] = []any{keys[r.Intn(k)], j}
			}
			out = append(out, xs)
		} else {
			off := r.Intn(len(plain))
			xs := make([]any, m)
			for j := range xs {
				xs[j] = plain[(off+r.Intn(k+3))%len(plain)]
			}
			out = append(out, xs)
		}
	}
	return out
}

package main

// Document generator for C16: an ordered tree (object members keep the order in
// which they are written), its JSON text with arbitrary whitespace and string
// escapes, the span of every token in that text, and a reference `tostream`
// computed on the tree (members in text order) — independent of cli/stream.go.

import (
	"encoding/json"
	"fmt"
	"math/big"
	"regexp"
	"sort"
	"strings"
	"unicode/utf8"

	"verifharness/common"
)

type node struct {
	kind  byte // 's' scalar, 'a' array, 'o' object
	val   any  // scalar: nil, bool, string, or number as gojq normalises its literal
	lit   string
	elems []*node
	keys  []string
}

// fromValue turns a random Go value into an ordered tree; object members are
// put in a random order (sorted=true: bytewise key order, as the library iterates).
func fromValue(r *common.Rand, v any, sorted bool) *node {
	switch v := v.(type) {
	case []any:
		n := &node{kind: 'a'}
		for _, x := range v {
			n.elems = append(n.elems, fromValue(r, x, sorted))
		}
		return n
	case map[string]any:
		n := &node{kind: 'o'}
		keys := make([]string, 0, len(v))
		for k := range v {
			keys = append(keys, k)
		}
		sort.Strings(keys)
		if !sorted {
			for i := len(keys) - 1; i > 0; i-- {
				j := r.Intn(i + 1)
				keys[i], keys[j] = keys[j], keys[i]
			}
		}
		for _, k := range keys {
			n.keys = append(n.keys, k)
			n.elems = append(n.elems, fromValue(r, v[k], sorted))
		}
		return n
	case int, *big.Int, float64:
		lit := numLiteral(r, v)
		return &node{kind: 's', val: common.NormalizeNumber(json.Number(lit)), lit: lit}
	}
	return &node{kind: 's', val: v}
}

func numLiteral(r *common.Rand, v any) string {
	switch v := v.(type) {
	case int:
		s := fmt.Sprint(v)
		switch r.Intn(8) {
		case 0:
			return s + ".0"
		case 1:
			return s + "e0"
		case 2:
			if v == 0 {
				return "-0"
			}
		case 3:
			return s + "E+1"
		}
		return s
	case *big.Int:
		return v.String()
	case float64:
		b, _ := json.Marshal(v)
		return string(b)
	}
	panic("numLiteral")
}

// value is the Go value the library holds for the document.
func (n *node) value() any {
	switch n.kind {
	case 'a':
		xs := make([]any, len(n.elems))
		for i, e := range n.elems {
			xs[i] = e.value()
		}
		return xs
	case 'o':
		m := make(map[string]any, len(n.keys))
		for i, k := range n.keys {
			m[k] = n.elems[i].value()
		}
		return m
	}
	return n.val
}

// events is `[tostream]` with members in the order of the tree.
func (n *node) events(path []any, out *[]any) {
	cp := func(p []any) []any { return append([]any{}, p...) }
	switch n.kind {
	case 's':
		*out = append(*out, []any{cp(path), n.val})
	case 'a':
		if len(n.elems) == 0 {
			*out = append(*out, []any{cp(path), []any{}})
			return
		}
		for i, e := range n.elems {
			e.events(append(cp(path), i), out)
		}
		*out = append(*out, []any{append(cp(path), len(n.elems)-1)})
	case 'o':
		if len(n.elems) == 0 {
			*out = append(*out, []any{cp(path), map[string]any{}})
			return
		}
		for i, e := range n.elems {
			e.events(append(cp(path), n.keys[i]), out)
		}
		*out = append(*out, []any{append(cp(path), n.keys[len(n.keys)-1])})
	}
}

type span struct {
	start, end int
	ev         bool // completing this token determines one event
	num        bool
	depth      int // nesting depth after the token
}

type writer struct {
	r     *common.Rand
	sb    strings.Builder
	spans []span
	depth int
	tight bool // no optional whitespace at all
}

var wsPool = []string{"", "", "", " ", " ", "\n", "\t", "\r\n", "  \n "}

func (w *writer) ws() {
	if !w.tight {
		w.sb.WriteString(common.Pick(w.r, wsPool))
	}
}

func (w *writer) tok(s string, ev, num bool) {
	st := w.sb.Len()
	w.sb.WriteString(s)
	w.spans = append(w.spans, span{st, w.sb.Len(), ev, num, w.depth})
}

func (w *writer) str(s string) string {
	var sb strings.Builder
	sb.WriteByte('"')
	for _, c := range s {
		switch {
		case c == '"':
			sb.WriteString(`\"`)
		case c == '\\':
			sb.WriteString(`\\`)
		case c < 0x20:
			switch {
			case c == '\n' && w.r.Bool():
				sb.WriteString(`\n`)
			case c == '\t' && w.r.Bool():
				sb.WriteString(`\t`)
			default:
				fmt.Fprintf(&sb, `\u%04x`, c)
			}
		case c == '/' && w.r.Bool():
			sb.WriteString(`\/`)
		case w.r.Chance(1, 6) && c < 0x10000:
			fmt.Fprintf(&sb, `\u%04X`, c)
		case w.r.Chance(1, 3) && c >= 0x10000:
			c -= 0x10000
			fmt.Fprintf(&sb, `\u%04x\u%04x`, 0xd800+(c>>10), 0xdc00+(c&0x3ff))
		default:
			sb.WriteRune(c)
		}
	}
	sb.WriteByte('"')
	return sb.String()
}

func (w *writer) write(n *node) {
	switch n.kind {
	case 's':
		switch v := n.val.(type) {
		case nil:
			w.tok("null", true, false)
		case bool:
			w.tok(fmt.Sprint(v), true, false)
		case string:
			w.tok(w.str(v), true, false)
		default:
			w.tok(n.lit, true, true)
		}
	case 'a':
		w.depth++
		w.tok("[", false, false)
		for i, e := range n.elems {
			if i > 0 {
				w.ws()
				w.sb.WriteByte(',')
			}
			w.ws()
			w.write(e)
		}
		w.ws()
		w.depth--
		w.tok("]", true, false)
	case 'o':
		w.depth++
		w.tok("{", false, false)
		for i, e := range n.elems {
			if i > 0 {
				w.ws()
				w.sb.WriteByte(',')
			}
			w.ws()
			w.tok(w.str(n.keys[i]), false, false)
			w.ws()
			w.sb.WriteByte(':')
			w.ws()
			w.write(e)
		}
		w.ws()
		w.depth--
		w.tok("}", true, false)
	}
}

// sep writes a separator between two top-level documents: empty only where both
// neighbours delimit themselves (brackets, quotes).
func (w *writer) sep(prev, next *node) {
	self := func(n *node) bool {
		if n.kind != 's' {
			return true
		}
		_, ok := n.val.(string)
		return ok
	}
	s := common.Pick(w.r, []string{" ", "\n", "\n", "\t", "\r\n", " \n\n ", ""})
	if s == "" && !(self(prev) && self(next)) {
		s = "\n"
	}
	w.sb.WriteString(s)
}

// render writes the documents as one text.
func render(r *common.Rand, docs []*node, tight bool) (string, []span) {
	w := &writer{r: r, tight: tight}
	if !tight {
		w.ws()
	}
	for i, d := range docs {
		if i > 0 {
			w.sep(docs[i-1], d)
		}
		w.write(d)
	}
	if !tight {
		w.sb.WriteString(common.Pick(r, []string{"", "\n", " ", "\n\n"}))
	}
	return w.sb.String(), w.spans
}

var numRe = regexp.MustCompile(`^-?(0|[1-9][0-9]*)(\.[0-9]+)?([eE][+-]?[0-9]+)?$`)

func isSpace(s string) bool { return strings.Trim(s, " \t\r\n") == "" }

// expectCut is the model-free expectation for the text cut at byte k: how many
// of the full events must have been emitted, an optional extra event value (a
// number literal cut at a point where its prefix is itself a number: the decoder
// cannot know it was longer), and whether the run ends cleanly.
func expectCut(text string, spans []span, k int) (n int, partial *string, clean bool) {
	depth, last := 0, 0
	for i, sp := range spans {
		if sp.end <= k {
			if sp.ev {
				n++
			}
			depth, last = sp.depth, sp.end
			continue
		}
		if sp.start < k {
			if sp.num && numRe.MatchString(text[sp.start:k]) {
				p := text[sp.start:k]
				return n, &p, depth == 0
			}
			return n, nil, false
		}
		_ = i
		break
	}
	return n, nil, depth == 0 && isSpace(text[last:k])
}

// randDocs draws a short sequence of documents biased to the shapes the property names.
func randDocs(r *common.Rand, max int, sorted bool) []*node {
	opts := common.DefaultGen
	opts.BadUTF8 = false
	opts.SmallKeys = false
	n := r.Range(1, max)
	docs := make([]*node, n)
	for i := range docs {
		var v any
		switch r.Intn(10) {
		case 0:
			v = common.Pick(r, shapes)()
		case 1:
			o := opts
			o.MaxDepth = 0
			v = common.RandValue(r, o, 0)
		default:
			v = common.RandValue(r, opts, 0)
		}
		v = sanitize(v)
		docs[i] = fromValue(r, v, sorted)
	}
	return docs
}

// sanitize keeps strings valid UTF-8 (the decoder would replace other bytes).
func sanitize(v any) any {
	switch v := v.(type) {
	case string:
		if !utf8.ValidString(v) {
			return strings.ToValidUTF8(v, "?")
		}
	case []any:
		for i := range v {
			v[i] = sanitize(v[i])
		}
	case map[string]any:
		m := make(map[string]any, len(v))
		for k, x := range v {
			m[sanitize(k).(string)] = sanitize(x)
		}
		return m
	}
	return v
}

// hand-written shapes: top-level scalars, empty containers at depth, siblings after nested closes
var shapes = []func() any{
	func() any { return nil },
	func() any { return "" },
	func() any { return []any{} },
	func() any { return map[string]any{} },
	func() any { return []any{[]any{}} },
	func() any { return []any{[]any{}, []any{}} },
	func() any { return []any{map[string]any{}, []any{}, map[string]any{}} },
	func() any { return map[string]any{"a": []any{}, "b": map[string]any{}} },
	func() any { return []any{[]any{[]any{}}, 1} },
	func() any { return []any{[]any{1}, 2} },
	func() any { return []any{[]any{[]any{1}}, []any{2}, 3} },
	func() any { return map[string]any{"a": map[string]any{"b": map[string]any{"c": 1}}, "d": 2} },
	func() any {
		return map[string]any{"a": []any{map[string]any{"b": []any{}}}, "c": []any{1, []any{2}, 3}}
	},
	func() any { return []any{map[string]any{"a": 1}, map[string]any{"a": 2}} },
	func() any { return []any{1, []any{2, []any{3, []any{4, []any{}}}}, 5} },
	func() any { return map[string]any{"": map[string]any{"": []any{nil}}} },
}
